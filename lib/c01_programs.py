"""C01 — feature vectors (enumerated by TLC, spec/IDL/C01Universe.tla) -> IDL program JSON (lib/idl.py model).

A vector is a record
  kinds   all | typedef | const | enum | struct | union | exception | service | svc-empty | svc-derived-empty
          definition kinds present (svc-empty: a lone `service S {}`; svc-derived-empty: a lone `service D extends inc.Base {}`)
  shapes  index of the type-shape batch (lib/universe.py + spec/IDL/Shapes.tla)
  reqdef  mixed | required | optional | default | optional+value | default+value      requiredness x default value
  inc     single | chain3 | diamond | samens | samebase | pkg-<name>                  include graph (pkg-<name>: no go
          namespaces, the included file is <name>.thrift, so its Go package is called <name>)
  tdchain 0..3                                                                        typedef chain length (crossing files when inc != single)
  ids     pos | neg | implicit | mixed                                                field ids
  svc     mixed | void | value | oneway                                               function shapes
  args    0..3, throws 0..2 | "2same" (two throws fields of one exception type)
  ext     none | local | include                                                      service extends
  names   plain | keywords | cases | stems                                            name shapes
  ns      plain | none | other | upper | keyword                                      shape of the go namespace
  ann     none | gotag | repeated                                                     annotations
  consts  none | scalars | containers | structs | enums | xinc                        constants
Everything is deterministic in the vector (no randomness here).
"""
import copy

import idl
from idl import F, T

BASE_SCALARS = ["bool", "i8", "i16", "i32", "i64", "double", "string", "binary"]

ENUM_E = {"k": "enum", "name": "E", "values": [{"name": "A", "value": 1}, {"name": "B", "value": None},
                                                {"name": "C", "value": 5}]}
STRUCT_IN = {"k": "struct", "name": "In", "fields": [F(1, "default", T("i32"), "x"), F(2, "optional", T("string"), "y")]}
EXC_X = {"k": "exception", "name": "X", "fields": [F(1, "default", T("string"), "msg"), F(2, "required", T("i32"), "code")]}
EXC_Y = {"k": "exception", "name": "Y", "fields": [F(1, "default", T("string"), "why")]}
SHARED_TYPES = ("E", "In", "X", "Y")


def map_type(t, fn):
    t = fn(t)
    if t["n"] in ("list", "set"):
        return dict(t, v=map_type(t["v"], fn))
    if t["n"] == "map":
        return dict(t, k=map_type(t["k"], fn), v=map_type(t["v"], fn))
    return t


def leaves(t):
    if t["n"] in ("list", "set"):
        return leaves(t["v"])
    if t["n"] == "map":
        return leaves(t["k"]) + leaves(t["v"])
    return [t["n"]]


def value_for(t, enum_ref="E", k=0):
    """a default/constant value of abstract type t (t over base scalars, E, In)"""
    n = t["n"]
    if n == "bool":
        return {"id": "true" if k % 2 == 0 else "false"}
    if n in ("i8", "i16", "i32", "i64", "byte"):
        return {"i": [7, 0, -3, 100][k % 4]}
    if n == "double":
        return {"d": ["1.5", "0.0", "-2.25", "1e3"][k % 4]}
    if n in ("string", "binary"):
        return {"s": ["hi", "", "a b", "x\\ty"][k % 4]}
    if n == "E":
        return {"id": enum_ref + "." + ["B", "A", "C"][k % 3]} if enum_ref else None
    if n == "In":
        return {"m": [[{"s": "x"}, {"i": 1 + k}], [{"s": "y"}, {"s": "z"}]]}
    if n in ("list", "set"):
        e = value_for(t["v"], enum_ref, k)
        if e is None:
            return None
        if n == "list":
            e2 = value_for(t["v"], enum_ref, k + 1)
            return {"l": [e, e2]}
        return {"l": [e]}
    if n == "map":
        kk = value_for(t["k"], enum_ref, k)
        vv = value_for(t["v"], enum_ref, k)
        if kk is None or vv is None:
            return None
        return {"m": [[kk, vv]]}
    return None


class World:
    """file layout of one program: where shared definitions live and how the main file refers to them"""

    def __init__(self, inc, tdchain, nsmode="plain"):
        self.inc = inc
        self.tdchain = tdchain
        self.nsmode = nsmode
        self.files = {}
        self.order = []
        self.td_count = 0
        self.td_cache = {}
        ns = "pm"
        if inc == "single":
            self._file("a.thrift", ns + ".app")
            self.home = "a.thrift"
            self.mid = None
        elif inc == "chain3":
            self._file("a.thrift", ns + ".app", ["b.thrift"])
            self._file("b.thrift", ns + ".mid", ["c.thrift"])
            self._file("c.thrift", ns + ".leaf")
            self.home, self.mid = "c.thrift", "b.thrift"
        elif inc == "diamond":
            self._file("a.thrift", ns + ".app", ["b.thrift", "c.thrift"])
            self._file("b.thrift", ns + ".left", ["d.thrift"])
            self._file("c.thrift", ns + ".right", ["d.thrift"])
            self._file("d.thrift", ns + ".bottom")
            self.home, self.mid = "d.thrift", "b.thrift"
        elif inc == "samens":
            self._file("a.thrift", ns + ".app", ["b.thrift"])
            self._file("b.thrift", ns + ".app")
            self.home, self.mid = "b.thrift", None
        elif inc == "samebase":
            self._file("a.thrift", ns + ".app", ["x/common.thrift", "other.thrift"])
            self._file("x/common.thrift", ns + ".x.common")
            self._file("other.thrift", ns + ".y.common", ["y/common.thrift"])
            self._file("y/common.thrift", ns + ".w.common")
            self.home, self.mid = "x/common.thrift", None
        elif inc.startswith("pkg-"):
            # no go namespace at all: the packages are named after the files; the included file is called <name>.thrift
            inc_name = inc[4:] + ".thrift"
            self.nsmode = "none"
            self._file("a.thrift", ns + ".app", [inc_name])
            self._file(inc_name, ns + ".inc")
            self.home, self.mid = inc_name, None
        else:
            raise ValueError(inc)
        self.main = self.files["a.thrift"]

    def _file(self, path, ns, includes=()):
        # namespace shapes: none = no go namespace (package named after the file), upper = capitalised last segment,
        # keyword = the last segment of the main file's namespace is a Go keyword, other = only another language's namespace
        nss = [{"lang": "go", "name": ns}]
        if self.nsmode == "none":
            nss = []
        elif self.nsmode == "other":
            nss = [{"lang": "java", "name": "com.example." + self.ref_name(path)}]
        elif self.nsmode == "upper":
            parts = ns.split(".")
            nss = [{"lang": "go", "name": ".".join(parts[:-1] + [parts[-1].capitalize()])}]
        elif self.nsmode == "keyword" and path == "a.thrift":
            nss = [{"lang": "go", "name": ns.rsplit(".", 1)[0] + ".type"}]
        f = {"path": path, "includes": list(includes), "namespaces": nss, "defs": []}
        self.files[path] = f
        self.order.append(path)
        return f

    @staticmethod
    def ref_name(path):
        b = path.rsplit("/", 1)[-1]
        return b[:-7] if b.endswith(".thrift") else b

    def direct(self):
        """does the main file include the home file directly (or is it the home file)?"""
        return self.home == "a.thrift" or self.home in self.main["includes"]

    def shared_ref(self, name):
        """how the main file names the shared type `name` (forwarding typedefs are created in the middle file)"""
        if self.home == "a.thrift":
            return name
        if self.direct():
            return self.ref_name(self.home) + "." + name
        mid = self.files[self.mid]
        fw = "F" + name
        if not any(d["name"] == fw for d in mid["defs"]):
            mid["defs"].append({"k": "typedef", "name": fw, "type": T(self.ref_name(self.home) + "." + name)})
        return self.ref_name(self.mid) + "." + fw

    def enum_value_prefix(self):
        """prefix to write E's values in the main file, or None if E is only reachable through a typedef"""
        if self.home == "a.thrift":
            return "E"
        if self.direct():
            return self.ref_name(self.home) + ".E"
        return None

    def through_typedefs(self, t):
        """write type t (already in main-file spelling) through a typedef chain of length tdchain; with includes the
        chain alternates between the main file and the first included file"""
        if self.tdchain == 0:
            return t
        key = idl.type_to_str(t)
        if key in self.td_cache:
            return {"n": self.td_cache[key]}
        inc_file = self.files[self.main["includes"][0]] if self.main["includes"] else None
        cur = t
        name = None
        for j in range(self.tdchain):
            name = "Td%d_%d" % (self.td_count, j)
            # inner-most typedefs live in the included file as long as the type is visible there
            in_inc = inc_file is not None and j < self.tdchain - 1 and self._visible_in(inc_file, cur)
            if in_inc:
                inc_file["defs"].append({"k": "typedef", "name": name, "type": self._respell(cur, inc_file)})
                cur = {"n": self.ref_name(inc_file["path"]) + "." + name}
            else:
                self.main["defs"].append({"k": "typedef", "name": name, "type": cur})
                cur = {"n": name}
        self.td_count += 1
        self.td_cache[key] = cur["n"]
        return cur

    def _visible_in(self, f, t):
        """can type t (main-file spelling) be written in file f?  only base types and names of f itself / f's includes"""
        own = self.ref_name(f["path"])
        incs = [self.ref_name(p) for p in f["includes"]]
        for n in leaves(t):
            if n in idl.BASE:
                continue
            if "." in n:
                p = n.split(".")[0]
                if p == own or p in incs:
                    continue
                return False
            # an unqualified name of the main file
            if f is self.main:
                continue
            return False
        return True

    def _respell(self, t, f):
        own = self.ref_name(f["path"])

        def fix(x):
            if "." in x["n"] and x["n"].split(".")[0] == own:
                return dict(x, n=x["n"].split(".", 1)[1])
            return x
        return map_type(t, fix)

    def program(self):
        return {"files": [self.files[p] for p in self.order]}


NAME_SETS = {
    # field names, argument names, definition name suffixes, enum value names, const names
    "plain": dict(fields=["f"], args=["a", "b", "c"], st="W", enumvals=None, const="K"),
    "keywords": dict(fields=["type", "func", "range", "map", "default", "go", "select", "interface"],
                     args=["type", "chan", "var"], st="W", enumvals=["string", "error", "nil"], const="type_"),
    "cases": dict(fields=["ID", "url", "Name", "name_", "user_id", "HTTPServer", "a_b_c", "x2y"],
                  args=["P", "Err", "ctx"], st="w_", enumvals=["a", "A_", "b_c"], const="k_url"),
    "stems": dict(fields=["foo", "Foo", "get_foo", "set_foo", "is_set_foo", "foo_", "read", "write"],
                  args=["p", "err", "r"], st="Foo", enumvals=["Foo", "foo"], const="NewFoo"),
}

REQDEF = {
    "required": [("required", False)], "optional": [("optional", False)], "default": [("default", False)],
    "optional+value": [("optional", True)], "default+value": [("default", True)],
    "mixed": [("required", False), ("optional", False), ("default", False), ("optional", True), ("default", True)],
}


def field_ids(mode, n):
    if mode == "pos":
        return list(range(1, n + 1))
    if mode == "neg":
        return [-(i + 1) for i in range(n)]
    if mode == "implicit":
        return [None] * n
    out = []
    for i in range(n):   # mixed: positive, sparse, negative, implicit
        out.append([i + 1, 100 + i, None, -(50 + i)][i % 4])
    return out


def annotate(mode, k):
    if mode == "gotag":
        return [["go.tag", ['json:\\"j%d\\"' % k, 'db:\\"c%d\\" json:\\"j%d,omitempty\\"' % (k, k), 'xml:\\"x\\"'][k % 3]]]
    if mode == "repeated":
        return [["a.b", "1"], ["a.b", "2"], ["c", ""]]
    return None


def build(vec, shapes):
    """vec: feature vector; shapes: the type shapes of the batch (abstract types over base scalars, E, In)."""
    v = dict(vec)
    kinds = v["kinds"]
    has = lambda k: kinds == "all" or kinds == k  # noqa: E731
    inc = v["inc"]
    if kinds == "svc-derived-empty" and inc == "single":
        inc = "chain3"      # the base service lives in the directly included file
    w = World(inc, int(v["tdchain"]), v.get("ns", "plain"))
    ns = NAME_SETS[v["names"]]
    home = w.files[w.home]
    main = w.main

    need_E = has("enum")
    need_In = has("struct")
    need_X = has("exception")
    if kinds == "service":
        need_X = v["throws"] not in (0, "0")
    if need_E:
        e = copy.deepcopy(ENUM_E)
        if ns["enumvals"]:
            e["values"] = [{"name": n, "value": None} for n in ns["enumvals"]]
        home["defs"].append(e)
    if need_In:
        home["defs"].append(copy.deepcopy(STRUCT_IN))
    if need_X:
        home["defs"].append(copy.deepcopy(EXC_X))
        home["defs"].append(copy.deepcopy(EXC_Y))

    evp = w.enum_value_prefix() if need_E else None
    if ns["enumvals"]:
        evp = None   # value names differ; no enum defaults

    def usable(t):
        for n in leaves(t):
            if n == "E" and not need_E:
                return False
            if n == "In" and not need_In:
                return False
        return True

    def spell(t):
        """abstract type -> main-file spelling (shared names qualified, then through typedefs)"""
        def fix(x):
            if x["n"] in SHARED_TYPES:
                return dict(x, n=w.shared_ref(x["n"]))
            return x
        return w.through_typedefs(map_type(copy.deepcopy(t), fix))

    def val(t, k=0):
        # thriftgo (pinned tree) crashes (nil ValueType, non-zero exit) on a default value for a field whose type is a
        # typedef of a container; "mixed" programs leave that combination out so that the rest of them is still compiled,
        # the "+value" variants keep it (a rejection is logged, it is not a C01 event)
        if w.tdchain > 0 and t["n"] in ("list", "set", "map") and v["reqdef"] == "mixed":
            return None
        x = value_for(t, evp, k)
        return x

    shapes = [t for t in shapes if usable(t)]
    variants = REQDEF[v["reqdef"]]

    # ---- struct-likes over the shapes
    if has("struct"):
        fields = []
        ids = field_ids(v["ids"], len(shapes))
        for k, t in enumerate(shapes):
            req, wantdef = variants[k % len(variants)]
            dv = val(t, k) if wantdef else None
            if req == "required" and dv is not None:
                dv = None
            fn = ns["fields"][k % len(ns["fields"])]
            if len(ns["fields"]) <= k or fn == "f":
                fn = "%s%d" % (fn, k)
            fields.append(F(ids[k], req, spell(t), fn, dv, annotate(v["ann"], k)))
        main["defs"].append({"k": "struct", "name": ns["st"] + "All", "fields": fields,
                             "ann": annotate(v["ann"], 1) if v["ann"] == "repeated" else None})
        # single-field structs (presence interplay is per struct) for the first few shapes
        for k, t in enumerate(shapes[:6]):
            req, wantdef = variants[(k + 1) % len(variants)]
            dv = val(t, k + 1) if wantdef and req != "required" else None
            main["defs"].append({"k": "struct", "name": "%sS%d" % (ns["st"], k),
                                 "fields": [F(field_ids(v["ids"], 4)[k % 4], req, spell(t), ns["fields"][k % len(ns["fields"])], dv)]})
        # recursion and nesting
        main["defs"].append({"k": "struct", "name": ns["st"] + "Rec", "fields": [
            F(1, "default", T("i32"), "v"), F(2, "optional", T(ns["st"] + "Rec"), "next"),
            F(3, "default", T("list", T(ns["st"] + "Rec")), "kids"),
            F(4, "default", T("map", T("string"), T(ns["st"] + "Rec")), "named")]})
    if has("union"):
        ufs = []
        for k, t in enumerate(shapes[:8] or [T("i32"), T("string")]):
            ufs.append(F(k + 1, "default", spell(t), "u%d" % k))
        if not ufs:
            ufs = [F(1, "default", T("i32"), "u0")]
        main["defs"].append({"k": "union", "name": ns["st"] + "U", "fields": ufs})
        main["defs"].append({"k": "union", "name": ns["st"] + "UEmpty", "fields": []})
    if has("exception"):
        efs = []
        for k, t in enumerate(shapes[:5]):
            efs.append(F(k + 1, ["default", "optional", "required"][k % 3], spell(t), "e%d" % k))
        main["defs"].append({"k": "exception", "name": ns["st"] + "Exc", "fields": efs})
    if has("enum"):
        main["defs"].append({"k": "enum", "name": ns["st"] + "En", "values": [
            {"name": "ZERO", "value": 0}, {"name": "NEG", "value": -1}, {"name": "SEVEN", "value": 7},
            {"name": "NEXT_", "value": None, "ann": annotate(v["ann"], 0)}, {"name": "BIG", "value": 2147483647}]})
        main["defs"].append({"k": "enum", "name": ns["st"] + "EnEmpty", "values": []})
    if has("typedef"):
        for k, t in enumerate(shapes[:10]):
            main["defs"].append({"k": "typedef", "name": "%sT%d" % (ns["st"], k), "type": spell(t)})
        main["defs"].append({"k": "typedef", "name": ns["st"] + "TT", "type": T(ns["st"] + "T0")} if shapes else
                            {"k": "typedef", "name": ns["st"] + "TT", "type": T("i64")})

    # ---- constants
    cmode = v["consts"]
    if has("const") and cmode != "none":
        cn = ns["const"]
        if cmode in ("scalars", "xinc"):
            for k, b in enumerate(BASE_SCALARS):
                for j in range(2):
                    main["defs"].append({"k": "const", "name": "%s_%s_%d" % (cn, b, j), "type": T(b), "value": val(T(b), k + j)})
            main["defs"].append({"k": "const", "name": cn + "_hex", "type": T("i32"), "value": {"i": "0x7f"}})
            main["defs"].append({"k": "const", "name": cn + "_esc", "type": T("string"), "value": {"s": 'q\\"q', "q": '"'}})
            main["defs"].append({"k": "const", "name": cn + "_sq", "type": T("string"), "value": {"s": "it", "q": "'"}})
            main["defs"].append({"k": "const", "name": cn + "_i64max", "type": T("i64"), "value": {"i": "9223372036854775807"}})
            main["defs"].append({"k": "const", "name": cn + "_dint", "type": T("double"), "value": {"i": 3}})
        if cmode == "containers":
            k = 0
            for t in shapes:
                if t["n"] in ("list", "set", "map") and all(n in BASE_SCALARS for n in leaves(t)):
                    x = val(t, k)
                    if x is not None:
                        main["defs"].append({"k": "const", "name": "%s_c%d" % (cn, k), "type": spell(t), "value": x})
                        k += 1
            main["defs"].append({"k": "const", "name": cn + "_nest", "type": T("map", T("string"), T("list", T("set", T("i32")))),
                                 "value": {"m": [[{"s": "a"}, {"l": [{"l": [{"i": 1}, {"i": 2}]}, {"l": []}]}]]}})
            main["defs"].append({"k": "const", "name": cn + "_empty", "type": T("list", T("string")), "value": {"l": []}})
        if cmode == "structs" and need_In:
            main["defs"].append({"k": "const", "name": cn + "_in", "type": spell(T("In")), "value": val(T("In"))})
            main["defs"].append({"k": "const", "name": cn + "_lin", "type": spell(T("list", T("In"))), "value": val(T("list", T("In")))})
            main["defs"].append({"k": "const", "name": cn + "_min", "type": spell(T("map", T("string"), T("In"))),
                                 "value": val(T("map", T("string"), T("In")))})
        if cmode == "enums" and need_E and evp:
            main["defs"].append({"k": "const", "name": cn + "_e", "type": spell(T("E")), "value": val(T("E"))})
            main["defs"].append({"k": "const", "name": cn + "_le", "type": spell(T("list", T("E"))), "value": val(T("list", T("E")))})
            main["defs"].append({"k": "const", "name": cn + "_me", "type": spell(T("map", T("E"), T("string"))),
                                 "value": val(T("map", T("E"), T("string")))})
        if cmode == "xinc" and w.home != "a.thrift":
            # constants in the home file, referenced from the main file (only when directly included)
            home["defs"].append({"k": "const", "name": "HK", "type": T("i32"), "value": {"i": 41}})
            home["defs"].append({"k": "const", "name": "HS", "type": T("string"), "value": {"s": "home"}})
            if w.direct():
                p = w.ref_name(w.home) + "."
                main["defs"].append({"k": "const", "name": cn + "_ref", "type": T("i32"), "value": {"id": p + "HK"}})
                main["defs"].append({"k": "const", "name": cn + "_lref", "type": T("list", T("string")),
                                     "value": {"l": [{"id": p + "HS"}, {"s": "x"}]}})
                if has("struct"):
                    main["defs"].append({"k": "struct", "name": ns["st"] + "DefRef", "fields": [
                        F(1, "default", T("i32"), "a", {"id": p + "HK"}), F(2, "optional", T("string"), "b", {"id": p + "HS"})]})
        if cmode in ("scalars", "xinc") and has("struct"):
            # default values that refer to constants of the same file
            main["defs"].append({"k": "struct", "name": ns["st"] + "DefConst", "fields": [
                F(1, "default", T("i32"), "a", {"id": "%s_i32_0" % cn}), F(2, "optional", T("string"), "b", {"id": "%s_string_0" % cn})]})

    # ---- services
    if has("service"):
        base_types = [t for t in shapes if usable(t)] or [T("i32")]
        nargs = int(v["args"])
        thr = v["throws"]
        nthrows = 2 if thr in ("2same", 2, "2") else int(thr)
        if not need_X:
            nthrows = 0

        def mk_throws():
            if nthrows == 0:
                return None
            if thr == "2same":
                return [F(1, "default", spell(T("X")), "e1"), F(2, "default", spell(T("X")), "e2")]
            return [F(i + 1, "default", spell(T(["X", "Y"][i])), "e%d" % (i + 1)) for i in range(nthrows)]

        def mk_args(k):
            ids = field_ids(v["ids"], nargs)
            return [F(ids[i], "default", spell(base_types[(k + i) % len(base_types)]), ns["args"][i % len(ns["args"])] + ("" if i < len(ns["args"]) else str(i)),
                      None, annotate(v["ann"], i) if v["ann"] == "gotag" else None) for i in range(nargs)]

        fns = []
        modes = {"void": ["void"], "value": ["value"], "oneway": ["oneway"], "mixed": ["void", "value", "oneway", "value"]}[v["svc"]]
        for k, m in enumerate(modes * (2 if v["svc"] != "mixed" else 1)):
            rt = None if m in ("void", "oneway") else spell(base_types[k % len(base_types)])
            fns.append({"name": "fn%d" % k, "oneway": m == "oneway", "ret": rt, "args": mk_args(k),
                        "throws": None if m == "oneway" else mk_throws(),
                        "ann": annotate(v["ann"], k) if v["ann"] == "repeated" else None})
        # every shape once as a return type and as an argument
        for k, t in enumerate(base_types[:6]):
            fns.append({"name": "shape%d" % k, "oneway": False, "ret": spell(t), "args": [F(1, "default", spell(t), "v")], "throws": None})
        ext = v["ext"]
        extends = None
        if ext == "local":
            main["defs"].append({"k": "service", "name": "Base", "extends": None, "functions": [
                {"name": "ping", "oneway": False, "ret": None, "args": [], "throws": None},
                {"name": "echo", "oneway": False, "ret": T("string"), "args": [F(1, "default", T("string"), "s")], "throws": None}]})
            extends = "Base"
        elif ext == "include" and main["includes"]:
            incf = w.files[main["includes"][0]]
            incf["defs"].append({"k": "service", "name": "Base", "extends": None, "functions": [
                {"name": "ping", "oneway": False, "ret": None, "args": [], "throws": None},
                {"name": "echo", "oneway": False, "ret": T("string"), "args": [F(1, "default", T("string"), "s")], "throws": None}]})
            extends = w.ref_name(incf["path"]) + ".Base"
        main["defs"].append({"k": "service", "name": ns["st"] + "Svc", "extends": extends, "functions": fns})
        if ext != "none" and extends:
            main["defs"].append({"k": "service", "name": ns["st"] + "Svc2", "extends": ns["st"] + "Svc", "functions": [
                {"name": "more", "oneway": False, "ret": T("bool"), "args": [], "throws": None}]})

    # ---- files that need few imports: a lone empty service / a lone empty service derived from an included base
    if kinds == "svc-empty":
        main["defs"].append({"k": "service", "name": ns["st"] + "Svc", "extends": None, "functions": []})
    if kinds == "svc-derived-empty":
        incf = w.files[main["includes"][0]]
        incf["defs"].append({"k": "service", "name": "Base", "extends": None, "functions": [
            {"name": "ping", "oneway": False, "ret": None, "args": [], "throws": None},
            {"name": "echo", "oneway": False, "ret": T("string"), "args": [F(1, "default", T("string"), "s")], "throws": None}]})
        main["defs"].append({"k": "service", "name": ns["st"] + "Derived", "extends": w.ref_name(incf["path"]) + ".Base",
                             "functions": []})

    # ---- struct-like map keys (pointer keys in Go), direct and through a typedef
    if kinds == "all":
        home["defs"].append({"k": "union", "name": "KU", "fields": [F(1, "default", T("i32"), "a"), F(2, "default", T("string"), "b")]})
        ku = w.shared_ref("KU")
        kx = w.shared_ref("X")
        kin = w.shared_ref("In")
        main["defs"].append({"k": "typedef", "name": ns["st"] + "KeyU", "type": T(ku)})
        main["defs"].append({"k": "typedef", "name": ns["st"] + "KeyX", "type": T(kx)})
        main["defs"].append({"k": "struct", "name": ns["st"] + "KeyMaps", "fields": [
            F(1, "default", T("map", T(ku), T("string")), "byUnion"),
            F(2, "optional", T("map", T(kx), T("i32")), "byException"),
            F(3, "default", T("map", T(kin), T("list", T("i32"))), "byStruct"),
            F(4, "default", T("map", T(ns["st"] + "KeyU"), T(kin)), "byUnionTypedef"),
            F(5, "optional", T("map", T(ns["st"] + "KeyX"), T("string")), "byExceptionTypedef"),
            F(6, "default", T("list", T("map", T(ku), T("set", T("i64")))), "nested")]})

    # constants whose value cannot be written in this presentation (see val) are left out
    for p in w.order:
        w.files[p]["defs"] = [d for d in w.files[p]["defs"] if not (d["k"] == "const" and d.get("value") is None)]

    # every included file must have something in it and be used by its includer (thriftgo skips unused includes)
    for p in w.order:
        f = w.files[p]
        if not f["defs"]:
            f["defs"].append({"k": "struct", "name": "Pad" + w.ref_name(p).capitalize(), "fields": [F(1, "default", T("i32"), "x")]})
    for p in w.order:
        f = w.files[p]
        for incp in f["includes"]:
            rn = w.ref_name(incp)
            txt = idl.render_file(f)
            if (rn + ".") not in txt.split("\n", len(f["includes"]) + 1)[-1]:
                tgt = w.files[incp]
                cand = [d for d in tgt["defs"] if d["k"] in ("struct", "union", "exception", "enum", "typedef")]
                if cand:
                    f["defs"].append({"k": "struct", "name": "Use" + rn.capitalize() + str(len(f["defs"])),
                                      "fields": [F(1, "optional", T(rn + "." + cand[0]["name"]), "u")]})
    return w.program()
