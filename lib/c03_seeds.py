"""Program universe of C03 / C17: small hand-written seeds plus systematic combinations.

Every entry is (name, file-model, tags).  One file per document; a document is kept small so that the
gap x element matrix stays cheap, and every optional grammar element occurs both present and absent somewhere.
"""
import itertools

from c03_lex import A, D, Dfix, F, I, ID, L, LST, MAP, T

BS = "\\"


def doc(name, defs=None, **kw):
    f = {"path": name + ".thrift", "defs": defs or []}
    f.update(kw)
    return (name, f)


def struct(name, fields, k="struct", ann=None):
    return {"k": k, "name": name, "fields": fields, "ann": ann}


def enum(name, values, ann=None):
    return {"k": "enum", "name": name, "values": [{"name": v[0], "value": v[1], "ann": (v[2] if len(v) > 2 else None)}
                                                   for v in values], "ann": ann}


def const(name, t, v, ann=None):
    return {"k": "const", "name": name, "type": t, "value": v, "ann": ann}


def typedef(name, t, ann=None):
    return {"k": "typedef", "name": name, "type": t, "ann": ann}


def fn(name, args=(), throws=None, ret=None, oneway=False, ann=None):
    return {"name": name, "oneway": oneway, "ret": ret, "args": list(args), "throws": (list(throws) if throws is not None else None),
            "ann": ann}


def service(name, fns, extends=None, ann=None):
    return {"k": "service", "name": name, "extends": extends, "functions": list(fns), "ann": ann}


# ------------------------------------------------------------------ C03 seeds
def core_docs():
    """every definition kind and every optional element present/absent"""
    out = []
    out.append(doc("empty"))
    out.append(doc("headers", includes=["b.thrift", "dir/c.thrift"], cpp_includes=["<vector>"],
                   namespaces=[{"lang": "go", "name": "a.b_c"}, {"lang": "*", "name": "x"},
                               {"lang": "py", "name": "p.q", "ann": [A("py.mod", "m"), A("k", "v")]}]))
    out.append(doc("typedefs", [
        typedef("A", T("i32")),
        typedef("B", T("list", T("string"))),
        typedef("C", T("map", T("i64"), T("set", T("A"))), ann=[A("td", "x")]),
        typedef("Dd", T("other.Type", ann=[A("ta", "inner")])),
        typedef("E", T("list", T("i8", ann=[A("e", "1")]), ann=[A("l", "2"), A("l", "3")]), ann=[A("d", "4")]),
        typedef("G", T("map", T("string", ann=[A("k", "kk")]), T("binary", ann=[A("v", "vv")]))),
    ]))
    out.append(doc("consts", [
        const("I0", T("i32"), I(0)),
        const("I1", T("i64"), I(-17)),
        const("I2", T("i16"), I(255), ann=[A("c", "ann")]),
        const("D0", T("double"), D(1, "5")),
        const("D1", T("double"), D(0, "25", neg=True)),
        const("S0", T("string"), L()),
        const("S1", T("string"), L("a", " ", "b")),
        const("B0", T("bool"), ID("true")),
        const("R0", T("E"), ID("E.A")),
        const("L0", T("list", T("i32")), LST()),
        const("L1", T("list", T("i32")), LST(I(1), I(-2), I(3))),
        const("M0", T("map", T("string"), T("i32")), MAP()),
        const("M1", T("map", T("string"), T("list", T("double"))), MAP((L("k"), LST(D(2, "0"))), (L(), LST()))),
        const("N0", T("list", T("list", T("string"))), LST(LST(L("x"), L("y")), LST(), LST(L()))),
        const("N1", T("map", T("i32"), T("map", T("i32"), T("string"))), MAP((I(1), MAP((I(2), L("z")))), (I(3), MAP()))),
    ]))
    out.append(doc("enums", [
        enum("E0", []),
        enum("E1", [("A", None)]),
        enum("E2", [("A", None), ("B", None), ("C", None)]),
        enum("E3", [("A", 5), ("B", None), ("C", 1), ("Dd", None)]),
        enum("E4", [("A", -3), ("B", None), ("C", None, [A("ev", "x")]), ("Dd", 10, [A("ev", "y"), A("ev", "z")])],
             ann=[A("en", "e")]),
        enum("E5", [("A", None), ("B", 0x10), ("C", None)]),
    ]))
    out.append(doc("structs", [
        struct("S0", []),
        struct("S1", [F(1, "default", T("i32"), "a")]),
        struct("S2", [F(None, "default", T("i32"), "a"), F(None, "required", T("string"), "b"),
                      F(None, "optional", T("S1"), "c")]),
        struct("S3", [F(5, "required", T("i32"), "a", I(7)), F(None, "optional", T("string"), "b", L("hi")),
                      F(2, "default", T("double"), "c", D(0, "5")), F(None, "default", T("bool"), "e", ID("false"))]),
        struct("S4", [F(-1, "default", T("i32"), "a"), F(None, "default", T("i32"), "b"),
                      F(None, "default", T("i32"), "c"), F(None, "default", T("i32"), "e")]),
        struct("S5", [F(1, "optional", T("list", T("i32")), "a", LST(I(1), I(2)), ann=[A("f", "1")]),
                      F(2, "optional", T("map", T("string"), T("string")), "b", MAP((L("k"), L("v"))),
                        ann=[A("f", "1"), A("g", "2"), A("f", "3")])], ann=[A("s", "t")]),
        struct("U0", [], k="union"),
        struct("U1", [F(1, "default", T("i32"), "a"), F(None, "default", T("string"), "b", L("d"))], k="union",
               ann=[A("u", "v")]),
        struct("X0", [], k="exception"),
        struct("X1", [F(1, "default", T("string"), "msg"), F(None, "required", T("i32"), "code", I(-1))],
               k="exception", ann=[A("x", "y")]),
    ]))
    out.append(doc("services", [
        service("V0", []),
        service("V1", [fn("ping")]),
        service("V2", [fn("a", [F(1, "default", T("i32"), "x")], ret=T("i32")),
                       fn("b", [F(None, "default", T("i32"), "x"), F(None, "default", T("string"), "y")],
                          throws=[F(None, "default", T("X1"), "e")]),
                       fn("c", [], throws=[], oneway=False, ret=T("list", T("string"))),
                       fn("e", [F(1, "default", T("i32"), "x")], oneway=True),
                       fn("o", [], oneway=True, ann=[A("ow", "1")]),
                       fn("p", [F(None, "optional", T("i32"), "x")], throws=[F(2, "default", T("X1"), "e")], oneway=True,
                          ann=[A("ow", "2"), A("ow", "3")]),
                       ], extends="V1"),
        service("V3", [fn("a", [F(3, "default", T("i32"), "x", I(4), ann=[A("arg", "1")]),
                                F(None, "required", T("S1", ann=[A("ty", "2")]), "y"),
                                F(-2, "optional", T("string"), "z", L("d"))],
                          throws=[F(1, "default", T("X1"), "e1"), F(None, "default", T("base.X", ann=[A("t", "u")]), "e2",
                                                                    ann=[A("th", "3")])],
                          ret=T("map", T("string"), T("i64"), ann=[A("ret", "4")]), ann=[A("fn", "5"), A("fn", "6")])],
                extends="base.V", ann=[A("svc", "7")]),
    ]))
    return out


def literal_docs():
    """both quote kinds inside literals, backslashes, other escapes that are not escapes in this grammar"""
    lits = [
        ("dq", [DQc()]), ("sq", ["'"]), ("both", ["a", DQc(), "b", "'", "c"]),
        ("bsn", [BS, "n"]), ("bst", ["x", BS, "t", "y"]), ("bsbs", [BS, BS, "a"]), ("bsbs2", ["a", BS, BS, BS, BS, "b"]),
        ("sp", [" ", " "]), ("punct", ["/", "/", "#", "/", "*", "*", "/"]), ("uni", ["h", "é", "本"]),
        ("amp", ["&amp;", "<", ">"]), ("brace", ["{", "}", "(", ")", "[", "]", ",", ";", ":", "="]),
        ("qq", [DQc(), DQc()]), ("ss", ["'", "'"]), ("dqsq", [DQc(), "'"]), ("words", ["struct", " ", "1", ":"]),
    ]
    defs = [const("C_" + n, T("string"), L(*a)) for n, a in lits]
    out = [doc("literals", defs)]
    out.append(doc("litplaces", [
        struct("P", [F(1, "default", T("string"), "a", L("it", "'", "s"), ann=[A("k", "say ", DQc(), "x", DQc())]),
                     F(2, "default", T("list", T("string")), "b", LST(L(DQc()), L("'"), L()))]),
        enum("Q", [("A", 1, [A("k", "'", DQc())])]),
        typedef("R", T("string", ann=[A("k", DQc(), BS, "n")])),
    ], includes=["it's.thrift"], namespaces=[{"lang": "go", "name": "x", "ann": [A("k", "a", DQc())]}]))
    return out


def DQc():
    return '"'


def number_docs():
    return [doc("numbers", [
        const("Z", T("i32"), I(0)), const("P", T("i32"), I(26)), const("N", T("i32"), I(-26)),
        const("H", T("i64"), I(255)), const("BIG", T("i64"), I(9223372036854775807)),
        const("MIN", T("i64"), I(-9223372036854775808)),
        const("D0", T("double"), D(0, "5")), const("D1", T("double"), D(12, "25", neg=True)),
        const("D2", T("double"), D(3, "0")), const("D3", T("double"), D(100, "001")),
        struct("S", [F(16, "default", T("i32"), "a", I(8)), F(0, "default", T("i32"), "b")]),
        enum("E", [("A", 8), ("B", None), ("C", 255)]),
    ])]


def id_pattern_docs(maxlen):
    """every pattern of explicit / implicit ids in structs, argument lists and throws; enum values likewise"""
    choices = [None, 1, 4, -2, 0]
    defs = []
    fns = []
    k = 0
    for n in range(1, maxlen + 1):
        for pat in itertools.product(choices, repeat=n):
            if all(p is not None for p in pat) and n > 1:
                continue
            k += 1
            fs = [F(p, "default", T("i32"), "f%d" % i) for i, p in enumerate(pat)]
            kind = ("struct", "union", "exception")[k % 3]
            defs.append(struct("P%d" % k, fs, k=kind))
            if k % 2 == 0:
                fns.append(fn("m%d" % k, [F(p, "default", T("i32"), "a%d" % i) for i, p in enumerate(pat)],
                              throws=[F(p, "default", T("X"), "t%d" % i) for i, p in enumerate(reversed(pat))]))
    out = []
    CH = 12
    for c in range(0, len(defs), CH):
        out.append(doc("ids%d" % (c // CH), defs[c:c + CH]))
    for c in range(0, len(fns), 6):
        out.append(doc("idfn%d" % (c // 6), [service("V", fns[c:c + 6])]))
    evs = [None, 0, 3, -5]
    enums = []
    k = 0
    for n in range(1, maxlen + 1):
        for pat in itertools.product(evs, repeat=n):
            k += 1
            enums.append(enum("E%d" % k, [("V%d" % i, p) for i, p in enumerate(pat)]))
    for c in range(0, len(enums), 20):
        out.append(doc("ev%d" % (c // 20), enums[c:c + 20]))
    return out


def field_matrix_docs():
    """field: id x requiredness x default x annotation"""
    defaults = [None, I(3), L("s"), LST(I(1)), MAP((L("a"), I(1))), ID("X.Y"), D(1, "5")]
    anns = [None, [A("a", "1")], [A("a", "1"), A("b", "2"), A("a", "3")], []]
    ids = [None, 7, -7]
    reqs = ["default", "required", "optional"]
    out = []
    k = 0
    fields = []
    for i, (idv, req, dv, an) in enumerate(itertools.product(ids, reqs, defaults, anns)):
        if (i * 7 + 3) % 5 not in (0, 1):      # a fixed 40 % subset keeps documents small; all pairs still occur
            continue
        k += 1
        fields.append(F(idv, req, T("T%d" % (k % 3)), "f%d" % k, dv, an))
    for c in range(0, len(fields), 8):
        out.append(doc("fm%d" % (c // 8), [struct("M", fields[c:c + 8])]))
    return out


def exponent_docs():
    """doubles whose canonical spelling carries an exponent (not respelled)"""
    return [doc("exponents", [
        const("A", T("double"), Dfix("1e3")), const("B", T("double"), Dfix("1.5e3")),
        const("C", T("double"), Dfix("25E-1")), const("Dd", T("double"), Dfix("-2.5e+2")),
    ])]


def sink_doc():
    """one larger document mixing everything (exercises definition order per kind)"""
    return [doc("sink", [
        struct("S1", [F(1, "default", T("i32"), "a")]),
        enum("E1", [("A", None), ("B", 4)]),
        const("C1", T("i32"), I(1)),
        typedef("T1", T("S1")),
        service("V1", [fn("f", [F(1, "default", T("T1"), "x")], throws=[F(1, "default", T("X1"), "e")], ret=T("E1"))]),
        struct("X1", [F(1, "default", T("string"), "m")], k="exception"),
        struct("U1", [F(1, "default", T("i32"), "a"), F(2, "default", T("string"), "b")], k="union"),
        typedef("T2", T("list", T("T1"))),
        const("C2", T("S1"), MAP((L("a"), I(5)))),
        enum("E2", [("Z", None)]),
        struct("S2", [F(None, "optional", T("T2"), "l", ann=[A("x", "y")])], ann=[A("p", "q")]),
        service("V2", [fn("g", oneway=True)], extends="V1"),
    ], includes=["inc.thrift"], namespaces=[{"lang": "go", "name": "sink"}])]


def tiny_docs():
    """documents small enough for exhaustive exploration of the printer machine itself"""
    return [
        doc("tiny_struct", [struct("S", [F(None, "default", T("i32"), "a", I(5))])]),
        doc("tiny_const", [const("L", T("list", T("string")), LST(L("a"), L(DQc())))]),
        doc("tiny_enum", [enum("E", [("A", None, [A("k", "'")]), ("B", 3)])]),
        doc("tiny_dbl", [const("X", T("double"), D(0, "5"))], namespaces=[{"lang": "go", "name": "t"}]),
    ]


def c03_docs(tier):
    out = tiny_docs() + core_docs() + literal_docs() + number_docs() + sink_doc()
    out += id_pattern_docs(2 if tier == "quick" else 3)
    out += field_matrix_docs() if tier == "thorough" else field_matrix_docs()[:2]
    # (contents with a backslash immediately before a quote character are outside the universe, see LexLit.tla Plain)
    special = exponent_docs()
    return out, special


# ------------------------------------------------------------------ C17 universe
ALPHABET = ["a", " ", '"', "'", "&", "<", ">", "#", BS, BS + '"', BS + "'", "&amp;", "&lt;", "&#34;", "#OUTQUOTES",
            "##34;",
            # characters that mean something to the machinery a dumper is typically built from (fmt verbs, text/template)
            "%", "%s", "{{"]


def alpha_atoms(sym):
    """atoms (content characters) of one alphabet symbol"""
    if sym in (BS + '"', BS + "'"):
        return [BS, sym[1]]
    return [sym]


def lit_of(syms):
    atoms = []
    for s in syms:
        atoms += alpha_atoms(s)
    return atoms


def writable(atoms):
    return not atoms or atoms[-1] != BS


INC = {"path": "inc.thrift", "namespaces": [{"lang": "go", "name": "inc"}], "defs": [
    enum("Color", [("RED", 1), ("GREEN", None)]),
    struct("Pt", [F(1, "default", T("i32"), "x"), F(2, "default", T("i32"), "y")]),
    struct("Err", [F(1, "default", T("string"), "msg")], k="exception"),
    struct("Err2", [F(1, "default", T("string"), "msg")], k="exception"),
    struct("Err3", [F(1, "default", T("string"), "msg")], k="exception"),
    service("Base", [fn("ping")]),
    const("K", T("i32"), I(7)),
    typedef("Str", T("string")),
]}


def prog(name, defs=None, inc=True, **kw):
    """a semantically valid program: main file + (optionally) inc.thrift"""
    f = {"path": name + ".thrift", "defs": defs or []}
    f.update(kw)
    files = [f]
    if inc:
        f.setdefault("includes", [])
        if "inc.thrift" not in f["includes"]:
            f["includes"] = ["inc.thrift"] + f["includes"]
        files.append(INC)
    return {"name": name, "files": files}


def c17_base_programs():
    out = []
    # a file without any header or definition (the dump of its AST is the empty text)
    out.append({"name": "rt_blank", "files": [{"path": "rt_blank.thrift", "defs": []}], "raw": {"rt_blank.thrift": "// nothing\n"}})
    # comments are not part of the equality, but the dumper re-emits them: they must not break the dumped text
    out.append({"name": "rt_comments", "files": [{"path": "rt_comments.thrift", "defs": [
        {"k": "struct", "name": "S", "fields": []}, {"k": "enum", "name": "E", "values": []}, {"k": "service", "name": "V", "functions": []}]}],
        "raw": {"rt_comments.thrift":
                '// say "hi" & \'bye\' ##34; #OUTQUOTES &amp; \\"\n'
                'struct S { // trailing "c"\n  1: i32 a /* block "q" & */\n  # unix "u"\n  2: string b = "x" // "after"\n}\n'
                '/* multi\n   line "m" */\nenum E {\n  A = 1, // "a"\n  /* b */ B\n}\n'
                '# svc "s"\nservice V {\n  // fn "f"\n  void f(1: i32 x) // tail\n}\n'}})
    out.append(prog("rt_headers", cpp_includes=["<vector>", "a/b.h"],
                    namespaces=[{"lang": "go", "name": "main.pkg", "ann": [A("ns", "a"), A("ns", "b")]},
                                {"lang": "*", "name": "star"}, {"lang": "py", "name": "p"}]))
    out.append(prog("rt_typedefs", [
        typedef("MyInt", T("i32"), ann=[A("td", "x")]),
        typedef("Pts", T("list", T("inc.Pt"), ann=[A("l", "1")])),
        typedef("M", T("map", T("string", ann=[A("k", "kk")]), T("inc.Color"))),
        typedef("S", T("set", T("MyInt", ann=[A("e", "1"), A("e", "2")]), ann=[A("s", "3")]), ann=[A("d", "4")]),
        typedef("N", T("map", T("i64"), T("list", T("map", T("string"), T("inc.Str"))))),
    ]))
    out.append(prog("rt_consts", [
        const("CI", T("i32"), I(-5), ann=[A("c", "ann")]),
        const("BIG", T("i64"), I(9223372036854775807)),
        const("MIN", T("i64"), I(-9223372036854775808)),
        const("D1", T("double"), D(1, "5")),
        const("D2", T("double"), D(3, "0")),
        const("D3", T("double"), D(0, "25", neg=True)),
        const("D4", T("double"), Dfix("0.0000001")),
        const("D5", T("double"), Dfix("123456789012.5")),
        const("D6", T("double"), Dfix("-0.0")),
        const("S1", T("string"), L("h", "i")),
        const("S0", T("string"), L()),
        const("B1", T("bool"), ID("true")),
        const("E1", T("inc.Color"), ID("inc.Color.RED")),
        const("K2", T("i32"), ID("inc.K")),
        const("L0", T("list", T("i32")), LST()),
        const("L1", T("list", T("double")), LST(D(1, "0"), D(2, "5"), I(3))),
        const("M0", T("map", T("string"), T("i32")), MAP()),
        const("M1", T("map", T("string"), T("list", T("string"))), MAP((L("k"), LST(L("a"), L())), (L(), LST()))),
        const("N1", T("map", T("i32"), T("map", T("i32"), T("string"))), MAP((I(1), MAP((I(2), L("z")))), (I(-3), MAP()))),
        const("P1", T("inc.Pt"), MAP((L("x"), I(1)), (L("y"), I(-2)))),
        const("ST", T("set", T("string")), LST(L("a"), L("b"))),
    ]))
    out.append(prog("rt_bigdouble", [const("HUGE", T("double"), Dfix("10000000000000000000.0"))], inc=False))
    out.append(prog("rt_enums", [
        enum("E0", []),
        enum("E1", [("A", None), ("B", None)]),
        enum("E2", [("A", -3), ("B", None), ("C", 10, [A("ev", "y"), A("ev", "z")])], ann=[A("en", "e")]),
    ], inc=False))
    out.append(prog("rt_structs", [
        struct("S0", []),
        struct("S1", [F(1, "required", T("i32"), "a", I(7)), F(2, "optional", T("string"), "b", L("hi")),
                      F(-1, "default", T("double"), "c", D(0, "5")), F(-2, "default", T("bool"), "e", ID("false")),
                      F(5, "optional", T("inc.Color"), "col", ID("inc.Color.GREEN")),
                      F(6, "default", T("list", T("i32")), "l", LST(I(1), I(2)), ann=[A("f", "1")]),
                      F(7, "optional", T("map", T("string"), T("string"), ann=[A("t", "m")]), "m", MAP((L("k"), L("v"))),
                        ann=[A("f", "1"), A("g", "2"), A("f", "3")]),
                      F(8, "optional", T("inc.Pt"), "p", MAP((L("x"), I(1)))),
                      F(9, "optional", T("S0"), "s0")], ann=[A("s", "t")]),
        struct("U0", [], k="union"),
        struct("U1", [F(1, "default", T("i32"), "a"), F(2, "optional", T("string"), "b")], k="union", ann=[A("u", "v")]),
        struct("X0", [], k="exception"),
        struct("X1", [F(1, "default", T("string"), "msg"), F(2, "required", T("i32"), "code", I(-1))], k="exception",
               ann=[A("x", "y")]),
    ]))
    out.append(prog("rt_services", [
        service("V0", []),
        service("V1", [fn("ping"), fn("one", oneway=True), fn("get", ret=T("inc.Pt", ann=[A("ret", "4")]))],
                extends="inc.Base", ann=[A("svc", "7")]),
        service("V2", [fn("a", [F(1, "default", T("i32"), "x"), F(2, "required", T("inc.Pt"), "y"),
                                 F(-2, "optional", T("string"), "z")],
                          throws=[F(1, "default", T("inc.Err"), "e1"), F(2, "default", T("inc.Err2"), "e2")],
                          ret=T("map", T("string"), T("i64")), ann=[A("fn", "5"), A("fn", "6")])], extends="V1"),
    ]))
    out.append(prog("rt_argdefaults", [
        service("V", [fn("a", [F(1, "default", T("i32"), "x", I(4))])])], inc=False))
    out.append(prog("rt_argannotations", [
        service("V", [fn("a", [F(1, "default", T("i32"), "x", ann=[A("arg", "1")])])])], inc=False))
    out.append(prog("rt_throwsannotations", [
        service("V", [fn("a", [], throws=[F(1, "default", T("inc.Err"), "e", ann=[A("th", "1")])])])]))
    return out


PLACES = ["const", "default", "ann_struct", "ann_field", "ann_type", "ann_ns", "ann_enumval", "ann_fn", "ann_typedef",
          "listelem", "mapkey", "include", "cpp_include"]


def literal_program(place, atoms, k, q='"'):
    """a minimal valid program with one literal of the given content at the given place, written in quotes q"""
    name = "lit_%s_%d" % (place, k)
    lit = L(*atoms, q=q)
    an = [A("k", *atoms, q=q)]
    if place == "const":
        return prog(name, [const("C", T("string"), lit)], inc=False)
    if place == "default":
        return prog(name, [struct("S", [F(1, "default", T("string"), "a", lit)])], inc=False)
    if place == "listelem":
        return prog(name, [const("C", T("list", T("string")), LST(L("x"), lit))], inc=False)
    if place == "mapkey":
        return prog(name, [const("C", T("map", T("string"), T("string")), MAP((lit, lit)))], inc=False)
    if place == "ann_struct":
        return prog(name, [struct("S", [F(1, "default", T("i32"), "a")], ann=an)], inc=False)
    if place == "ann_field":
        return prog(name, [struct("S", [F(1, "default", T("i32"), "a", ann=an)])], inc=False)
    if place == "ann_type":
        return prog(name, [struct("S", [F(1, "default", T("list", T("i32", ann=an)), "a")])], inc=False)
    if place == "ann_typedef":
        return prog(name, [typedef("Tt", T("i32", ann=an), ann=[A("o", *atoms, q=q)])], inc=False)
    if place == "ann_ns":
        return prog(name, [], inc=False, namespaces=[{"lang": "go", "name": "x", "ann": an}])
    if place == "ann_enumval":
        return prog(name, [enum("E", [("A", 1, an)])], inc=False)
    if place == "ann_fn":
        return prog(name, [service("V", [fn("f", ann=an)], ann=[A("s", *atoms, q=q)])], inc=False)
    if place == "include":
        from c03_lex import esc
        path = "".join(atoms) + ".thrift"
        p = prog(name, [], inc=False, includes=[esc(list(atoms) + [".thrift"], '"')])
        p["files"].append({"path": path, "defs": [], "namespaces": [{"lang": "go", "name": "incl"}]})
        return p
    if place == "cpp_include":
        from c03_lex import esc
        return prog(name, [], inc=False, cpp_includes=[esc(list(atoms), '"')])
    raise ValueError(place)


def service_program(shape, k):
    """function with na arguments and nt throws entries (nt = -1: no throws clause)"""
    na, nt, ow, ids = shape["na"], shape["nt"], shape["ow"], shape["ids"]

    def fid(i):
        return {"explicit": i + 1, "implicit": None, "negative": -(i + 1)}[ids]
    args = [F(fid(i), ("default", "required", "optional")[i % 3], T(("i32", "inc.Pt", "string")[i % 3]), "a%d" % i)
            for i in range(na)]
    throws = None if nt < 0 else [F(fid(i), "default", T(("inc.Err", "inc.Err2", "inc.Err3")[i]), "e%d" % i) for i in range(nt)]
    return prog("svc_%d" % k, [service("V", [fn("f", args, throws=throws, oneway=ow, ret=None if (ow or na % 2) else T("i32")),
                                             fn("g")])])


def walk_literal(raw, q):
    """what the parser's walker makes of raw text between quotes q (only used to NAME the included file of an include-path case)"""
    out, i = [], 0
    while i < len(raw):
        if raw[i] == BS and i + 1 < len(raw) and raw[i + 1] == BS:
            out.append(BS + BS)
            i += 2
        elif raw[i] == BS and i + 1 < len(raw) and raw[i + 1] == q:
            out.append(q)
            i += 2
        else:
            out.append(raw[i])
            i += 1
    return "".join(out)


def raw_literal_program(place, raw, q, k):
    """a minimal program whose source contains the literal q raw q verbatim (no content model; written as raw text)"""
    name = "raw_%s_%d" % (place, k)
    path = name + ".thrift"
    lit = q + raw + q
    p = {"name": name, "files": [{"path": path, "defs": []}]}
    if place == "const":
        p["raw"] = {path: "const string C = %s\n" % lit}
    elif place == "default":
        p["raw"] = {path: "struct S {\n  1: string a = %s\n}\n" % lit}
    elif place == "ann_field":
        p["raw"] = {path: "struct S {\n  1: i32 a (go.tag = %s, k = %s)\n}\n" % (lit, lit)}
    elif place == "ann_type":
        p["raw"] = {path: "typedef list<i32 (k = %s)> L (o = %s)\n" % (lit, lit)}
    elif place == "include":
        inc = walk_literal(raw + ".thrift", q)
        p["raw"] = {path: "include %s%s.thrift%s\n" % (q, raw, q), inc: "namespace go incl\n"}
    else:
        raise ValueError(place)
    return p


# numeric boundary family of C17: magnitude class -> spelling of the (positive) double constant
NUM_CLASSES = {
    "1e15": "1000000000000000.0", "2p53": "9007199254740992.0", "1e18": "1000000000000000000.0",
    "2p63-1024": "9223372036854774784.0", "2p63": "9223372036854775808.0", "9.5e18": "9500000000000000000.0",
    "1e19-2048": "9999999999999997952.0", "1e19": "10000000000000000000.0", "1e20": "100000000000000000000.0",
    "2p31": "2147483648.0", "exp-9.5e18": "9.5e18", "exp-1e19": "1e19", "exp-2p63": "9.223372036854775808e18",
    "frac-0.5": "0.5", "frac-1e15": "1000000000000000.5", "frac-2p51": "2251799813685248.5", "frac-small": "123456789.25",
    "frac-tiny": "0.000000000000000000015",
}
NUM_PLACES = ["const", "default", "listelem", "mapvalue"]


def numeric_program(sign, cls, place, k):
    v = Dfix(("-" if sign == "-" else "") + NUM_CLASSES[cls])
    name = "num_%s_%d" % (place, k)
    if place == "const":
        return prog(name, [const("X", T("double"), v)], inc=False)
    if place == "default":
        return prog(name, [struct("S", [F(1, "optional", T("double"), "a", v)])], inc=False)
    if place == "listelem":
        return prog(name, [const("X", T("list", T("double")), LST(D(1, "5"), v, I(2)))], inc=False)
    if place == "mapvalue":
        return prog(name, [const("X", T("map", T("string"), T("double")), MAP((L("k"), v), (L("j"), D(0, "5"))))], inc=False)
    raise ValueError(place)
