"""Document model shared by C03 (parser) and C17 (dump round trip): program seeds, the enriched token list handed
to spec/Lexical/Lexical.tla, the renderer that applies TLC's choice vectors, and the expected-AST projection.

Division of labour
  * lib/idl.py `tokens(file)` is the canonical token list.  `etokens(file)` walks the program in the same order and
    attaches what the TLA+ printer needs (literal atoms, integer values, double parts, separator list kind); the two
    are cross-checked token by token.
  * Lexical.tla computes, per document: the spelling variants of every token (separator , ; none / quote style /
    integer and double spellings), the expected field ids (ImplicitIds), enum values (ImplicitEnumValues), grouped
    annotations and literal contents; and enumerates the layouts / mutants as compact choice records.
  * render() below only looks pieces up in TLC's tables and concatenates them (cross-checked against the piece lists
    TLC prints for a sample of the cases).
"""
import copy
import itertools

import idl

DQ, SQ = '"', "'"


# ------------------------------------------------------------------ constructors (content level)
def esc(atoms, q):
    """raw text between quotes q for a literal whose content is the concatenation of atoms"""
    out = []
    for x, y in zip(atoms, atoms[1:]):
        assert not (x == "\\" and y in (DQ, SQ)), "content with a backslash before a quote is outside the universe (LexLit.tla Plain)"
    for a in atoms:
        if a in (DQ, SQ, "\\"):
            out.append("\\" + a if a == q else a)
        else:
            assert DQ not in a and SQ not in a and "\\" not in a, a
            out.append(a)
    return "".join(out)


def L(*atoms, q=DQ):
    return {"s": esc(atoms, q), "q": q, "atoms": list(atoms)}


def A(key, *atoms, q=DQ):
    return [key, esc(atoms, q), q, list(atoms)]


def I(n):
    return {"i": n}


def D(ip, fp, neg=False):
    """double ip.fp (fp = fraction digits as text)"""
    return {"d": ("-" if neg else "") + "%d.%s" % (ip, fp), "dp": {"neg": neg, "ip": ip, "fp": fp}}


def Dfix(text):
    return {"d": text}


def ID(name):
    return {"id": name}


def LST(*vs):
    return {"l": list(vs)}


def MAP(*kvs):
    return {"m": [list(kv) for kv in kvs]}


def T(n, *a, ann=None):
    t = idl.T(n, *a)
    if ann is not None:
        t["ann"] = ann
    return t


def F(i, req, t, name, default=None, ann=None):
    return idl.F(i, req, t, name, default, ann)


def split_atoms(raw, q=DQ):
    """atoms of a raw literal text written between quotes q (grammar: '\\' followed by a quote is an escape)"""
    out = []
    i = 0
    while i < len(raw):
        c = raw[i]
        if c == "\\" and i + 1 < len(raw) and raw[i + 1] in (DQ, SQ):
            if raw[i + 1] == q:
                out.append(q)
            else:
                out.append("\\")
                out.append(raw[i + 1])
            i += 2
            continue
        assert c != q, "unescaped enclosing quote in raw literal %r" % raw
        out.append(c)
        i += 1
    return out


# ------------------------------------------------------------------ enriched tokens
def _tok(t, k, **kw):
    d = {"t": t, "k": k, "nl": False, "lk": "", "a": [], "role": "", "v": 0, "sp": False,
         "neg": False, "ip": 0, "fp": "", "fl": 0}
    d.update(kw)
    return d


class _Walk:
    def __init__(self):
        self.out = []
        self.flists = []
        self.enums = []
        self.anns = []
        self.eol = False

    def add(self, tok):
        if self.eol:
            tok["nl"] = True
            self.eol = False
        self.out.append(tok)

    def nl(self):
        self.eol = True

    def lit(self, raw, q, atoms, role):
        if atoms is None:
            atoms = split_atoms(raw, q)
        assert esc(atoms, q) == raw, (atoms, raw)
        assert q == DQ, "seeds are written with the canonical quote"
        self.add(_tok(q + raw + q, "lit", a=list(atoms), role=role))

    def int_(self, n, role):
        assert isinstance(n, int), n
        sp = -2 ** 31 < n < 2 ** 31
        self.add(_tok(str(n), "int", role=role, v=n if sp else 0, sp=sp))

    def ann(self, ann):
        if ann is None:
            return
        self.add(_tok("(", "punct"))
        lst = []
        for i, kv in enumerate(ann):
            self.add(_tok(kv[0], "id"))
            self.add(_tok("=", "punct"))
            self.lit(kv[1], kv[2] if len(kv) > 2 else DQ, kv[3] if len(kv) > 3 else None, "ann")
            lst.append({"k": kv[0], "a": list(self.out[-1]["a"])})
            if i + 1 < len(ann):
                self.add(_tok(",", "sep", lk="ann"))
        self.add(_tok(")", "punct"))
        self.anns.append(lst)

    def type_(self, t):
        n = t["n"]
        if n in ("list", "set"):
            self.add(_tok(n, "kw"))
            self.add(_tok("<", "punct"))
            self.type_(t["v"])
            self.add(_tok(">", "punct"))
        elif n == "map":
            self.add(_tok("map", "kw"))
            self.add(_tok("<", "punct"))
            self.type_(t["k"])
            self.add(_tok(",", "punct"))
            self.type_(t["v"])
            self.add(_tok(">", "punct"))
        else:
            self.add(_tok(n, "kw" if n in idl.BASE else "id"))
        self.ann(t.get("ann"))

    def val(self, v):
        if "i" in v:
            self.int_(v["i"], "const")
        elif "d" in v:
            dp = v.get("dp")
            if dp:
                assert v["d"] == ("-" if dp["neg"] else "") + "%d.%s" % (dp["ip"], dp["fp"])
                self.add(_tok(v["d"], "dbl", sp=True, neg=bool(dp["neg"]), ip=dp["ip"], fp=dp["fp"], fl=len(dp["fp"])))
            else:
                self.add(_tok(str(v["d"]), "dbl"))
        elif "s" in v:
            self.lit(v["s"], v.get("q", DQ), v.get("atoms"), "val")
        elif "id" in v:
            self.add(_tok(v["id"], "id"))
        elif "l" in v:
            self.add(_tok("[", "punct"))
            for i, e in enumerate(v["l"]):
                self.val(e)
                if i + 1 < len(v["l"]):
                    self.add(_tok(",", "sep", lk="clist"))
            self.add(_tok("]", "punct"))
        elif "m" in v:
            self.add(_tok("{", "punct"))
            for i, (k, e) in enumerate(v["m"]):
                self.val(k)
                self.add(_tok(":", "punct"))
                self.val(e)
                if i + 1 < len(v["m"]):
                    self.add(_tok(",", "sep", lk="cmap"))
            self.add(_tok("}", "punct"))
        else:
            raise ValueError(v)

    def field(self, f, sep, lk):
        if f.get("id") is not None:
            self.int_(f["id"], "fid")
            self.add(_tok(":", "punct"))
        if f.get("req", "default") in ("required", "optional"):
            self.add(_tok(f["req"], "kw"))
        self.type_(f["type"])
        self.add(_tok(f["name"], "id"))
        if f.get("default") is not None:
            self.add(_tok("=", "punct"))
            self.val(f["default"])
        self.ann(f.get("ann"))
        if sep:
            self.add(_tok(",", "sep", lk=lk))

    def flist(self, fields):
        self.flists.append([{"has": f.get("id") is not None, "id": f.get("id") or 0} for f in fields])

    def file(self, f):
        for inc in f.get("includes", []):
            self.add(_tok("include", "kw"))
            self.lit(inc, DQ, None, "include")
            self.nl()
        for inc in f.get("cpp_includes", []):
            self.add(_tok("cpp_include", "kw"))
            self.lit(inc, DQ, None, "cpp_include")
            self.nl()
        for ns in f.get("namespaces", []):
            self.add(_tok("namespace", "kw"))
            self.add(_tok(ns["lang"], "id"))
            self.add(_tok(ns["name"], "id"))
            self.ann(ns.get("ann"))
            self.nl()
        for d in f.get("defs", []):
            k = d["k"]
            if k == "typedef":
                self.add(_tok("typedef", "kw"))
                self.type_(d["type"])
                self.add(_tok(d["name"], "id"))
            elif k == "const":
                self.add(_tok("const", "kw"))
                self.type_(d["type"])
                self.add(_tok(d["name"], "id"))
                self.add(_tok("=", "punct"))
                self.val(d["value"])
            elif k == "enum":
                self.add(_tok("enum", "kw"))
                self.add(_tok(d["name"], "id"))
                self.add(_tok("{", "punct"))
                self.nl()
                for v in d["values"]:
                    self.add(_tok(v["name"], "id"))
                    if v.get("value") is not None:
                        self.add(_tok("=", "punct"))
                        self.int_(v["value"], "enum")
                    self.ann(v.get("ann"))
                    self.add(_tok(",", "sep", lk="enum"))
                    self.nl()
                self.enums.append([{"has": v.get("value") is not None, "v": v.get("value") or 0} for v in d["values"]])
                self.add(_tok("}", "punct"))
            elif k in ("struct", "union", "exception"):
                self.add(_tok(k, "kw"))
                self.add(_tok(d["name"], "id"))
                self.add(_tok("{", "punct"))
                self.nl()
                for fl in d["fields"]:
                    self.field(fl, True, "field")
                    self.nl()
                self.flist(d["fields"])
                self.add(_tok("}", "punct"))
            elif k == "service":
                self.add(_tok("service", "kw"))
                self.add(_tok(d["name"], "id"))
                if d.get("extends"):
                    self.add(_tok("extends", "kw"))
                    self.add(_tok(d["extends"], "id"))
                self.add(_tok("{", "punct"))
                self.nl()
                for fn in d["functions"]:
                    if fn.get("oneway"):
                        self.add(_tok("oneway", "kw"))
                    if fn.get("ret") is None:
                        self.add(_tok("void", "kw"))
                    else:
                        self.type_(fn["ret"])
                    self.add(_tok(fn["name"], "id"))
                    self.add(_tok("(", "punct"))
                    args = fn.get("args", [])
                    for i, a in enumerate(args):
                        self.field(a, i + 1 < len(args), "arg")
                    self.flist(args)
                    self.add(_tok(")", "punct"))
                    if fn.get("throws") is not None:
                        self.add(_tok("throws", "kw"))
                        self.add(_tok("(", "punct"))
                        for i, a in enumerate(fn["throws"]):
                            self.field(a, i + 1 < len(fn["throws"]), "throw")
                        self.flist(fn["throws"])
                        self.add(_tok(")", "punct"))
                    self.ann(fn.get("ann"))
                    self.add(_tok(",", "sep", lk="func"))
                    self.nl()
                self.add(_tok("}", "punct"))
            else:
                raise ValueError(k)
            self.ann(d.get("ann"))
            self.nl()


def etokens(f):
    """enriched canonical token list + the id / enum / annotation lists in document order; checked against idl.tokens"""
    w = _Walk()
    w.file(f)
    ref = [t for t in idl.tokens(f)]
    mine = []
    for t in w.out:
        if t["nl"]:
            mine.append(("", "eol"))
        mine.append((t["t"], t["k"]))
    if w.eol:
        mine.append(("", "eol"))
    if mine != ref:
        for k, (a, b) in enumerate(itertools.zip_longest(mine, ref)):
            if a != b:
                raise AssertionError("etokens and idl.tokens disagree at %d: %r vs %r" % (k, a, b))
    return w


def tla_doc(name, f):
    w = etokens(f)
    toks = []
    for t in w.out:
        t = dict(t)
        if t["k"] == "int" and not t["sp"]:
            t["v"] = 0
        toks.append(t)
    return {"name": name, "toks": toks, "flists": w.flists, "enums": w.enums, "anns": w.anns,
            "endnl": bool(w.eol)}


# ------------------------------------------------------------------ rendering from TLC tables
class DocTable:
    """what TLC printed for one document: variants per token, canonical gaps, expectations"""

    def __init__(self, gaps, rec):
        self.gaps = gaps                    # list of gap texts, index 1-based in TLC
        self.name = rec["name"]
        self.d = rec["d"]
        self.var = rec["var"]               # per token: list of spellings (index 1-based in TLC)
        self.kind = rec["kind"]             # per token: kind
        self.cg = rec["cg"]                 # canonical gap index per gap 1..N+1
        self.cv = rec["cv"]                 # canonical variant per token
        self.ids = rec["ids"]
        self.evals = rec["evals"]
        self.anns = rec["anns"]
        self.lits = rec["lits"]             # content of literal tokens, in token order
        self.n = len(self.var)

    def canon(self):
        return list(self.cg), list(self.cv)

    def text(self, lay, var):
        parts = []
        for i in range(self.n):
            s = self.var[i][var[i] - 1]
            if self.kind[i] == "sep" and s == "":
                continue
            parts.append(self.gaps[lay[i] - 1])
            parts.append(s)
        parts.append(self.gaps[lay[self.n] - 1])
        return "".join(parts)

    def pieces(self, lay, var):
        parts = []
        for i in range(self.n):
            s = self.var[i][var[i] - 1]
            if self.kind[i] == "sep" and s == "":
                continue
            parts.append(self.gaps[lay[i] - 1])
            parts.append(s)
        parts.append(self.gaps[lay[self.n] - 1])
        return parts


def apply_case(tab, c):
    """choice vectors (lay, var) of a compact layout case c printed by TLC (families of Lexical.tla)"""
    lay, var = tab.canon()
    fam = c["fam"]
    if fam == "canon":
        pass
    elif fam == "gap1":
        lay[c["i"] - 1] = c["e"]
    elif fam == "gap2":
        lay[c["i"] - 1] = c["e"]
        lay[c["j"] - 1] = c["e2"]
    elif fam in ("all", "full"):
        lay = list(c["lay"])
        var = list(c["var"])
    elif fam in ("sep", "quote", "num"):
        var = list(c["var"])
    else:
        raise ValueError(fam)
    return lay, var


def mutant_pieces(tab, c):
    """pieces of a token-level mutant of the canonical layout (Mutate(k) of Lexical.tla)"""
    lay, var = tab.canon()
    n = tab.n
    toks = [tab.var[i][var[i] - 1] for i in range(n)]
    gaps = [tab.gaps[lay[i] - 1] for i in range(n + 1)]
    seq = [(gaps[i], toks[i]) for i in range(n)]
    tail = gaps[n]
    m, i = c["m"], c["i"] - 1
    if m == "del":
        seq = seq[:i] + seq[i + 1:]
    elif m == "dup":
        seq = seq[:i + 1] + [(" ", toks[i])] + seq[i + 1:]
    elif m == "swap":
        seq = seq[:i] + [(seq[i][0], toks[i + 1]), (seq[i + 1][0], toks[i])] + seq[i + 2:]
    elif m == "trunc":
        seq = seq[:i + 1]
        tail = ""
    elif m == "ins":
        seq = seq[:i] + [(seq[i][0], c["b"]), (" ", toks[i])] + seq[i + 1:]
    elif m == "openlit":
        seq = seq[:i] + [(seq[i][0], toks[i][:-1])] + seq[i + 1:]
    elif m == "headlit":
        seq = seq[:i] + [(seq[i][0], toks[i][1:])] + seq[i + 1:]
    elif m == "opencomment":
        seq = seq[:i] + [(seq[i][0] + "/*c ", toks[i])] + seq[i + 1:]
    else:
        raise ValueError(m)
    parts = []
    for g, t in seq:
        parts.append(g)
        parts.append(t)
    parts.append(tail)
    return parts


# ------------------------------------------------------------------ expected projection
def _p_ann(groups):
    return [{"k": g["k"], "v": list(g["v"])} for g in groups]


class _Exp:
    """walks the program in token order, consuming TLC's per-document expectation lists"""

    def __init__(self, tab):
        self.tab = tab
        self.ai = 0
        self.li = 0
        self.fi = 0
        self.ei = 0

    def ann(self, ann):
        if ann is None:
            return []
        g = self.tab.anns[self.ai]
        self.ai += 1
        self.li += len(ann)
        return _p_ann(g)

    def lit(self):
        s = self.tab.lits[self.li]
        self.li += 1
        return s

    def type_(self, t):
        if t is None:
            return None
        n = t["n"]
        out = {"n": n, "cpp": ""}
        if n in ("list", "set"):
            out["v"] = self.type_(t["v"])
        elif n == "map":
            out["k"] = self.type_(t["k"])
            out["v"] = self.type_(t["v"])
        out["ann"] = self.ann(t.get("ann"))
        return out

    def val(self, v):
        out = {"t": "", "v": "", "int": "", "l": [], "m": []}
        if "i" in v:
            out["t"], out["v"] = "i", str(int(v["i"]))
        elif "d" in v:
            out["t"], out["v"] = "d", float(v["d"])
        elif "s" in v:
            out["t"], out["v"] = "s", self.lit()
        elif "id" in v:
            out["t"], out["v"] = "id", v["id"]
        elif "l" in v:
            out["t"] = "l"
            out["l"] = [self.val(e) for e in v["l"]]
        elif "m" in v:
            out["t"] = "m"
            for k, e in v["m"]:
                kk = self.val(k)
                out["m"].append([kk, self.val(e)])
        return out

    def fields(self, fs, throws=False):
        ids = self.tab.ids[self.fi]
        self.fi += 1
        out = []
        for f, i in zip(fs, ids):
            t = self.type_(f["type"])
            d = self.val(f["default"]) if f.get("default") is not None else {"t": "none", "v": "", "int": "", "l": [], "m": []}
            out.append({"id": i, "name": f["name"], "req": "optional" if throws else f.get("req", "default"),
                        "type": t, "def": d, "ann": self.ann(f.get("ann"))})
        assert len(ids) == len(fs)
        return out


def expected_projection(f, tab):
    """the AST the property prescribes for file model f; ids, enum values, annotation groups and literal contents
    are the ones TLC computed (tab), everything else is the model itself"""
    x = _Exp(tab)
    p = {"includes": [], "cpp_includes": [], "namespaces": [], "typedefs": [], "consts": [], "enums": [],
         "structs": [], "unions": [], "exceptions": [], "services": []}
    for _ in f.get("includes", []):
        p["includes"].append(x.lit())
    for _ in f.get("cpp_includes", []):
        p["cpp_includes"].append(x.lit())
    for ns in f.get("namespaces", []):
        p["namespaces"].append({"lang": ns["lang"], "name": ns["name"], "ann": x.ann(ns.get("ann"))})
    for d in f.get("defs", []):
        k = d["k"]
        if k == "typedef":
            t = x.type_(d["type"])
            p["typedefs"].append({"name": d["name"], "type": t, "ann": x.ann(d.get("ann"))})
        elif k == "const":
            t = x.type_(d["type"])
            v = x.val(d["value"])
            p["consts"].append({"name": d["name"], "type": t, "value": v, "ann": x.ann(d.get("ann"))})
        elif k == "enum":
            vals = x.tab.evals[x.ei]
            x.ei += 1
            vs = []
            for v, n in zip(d["values"], vals):
                vs.append({"name": v["name"], "value": str(n), "ann": x.ann(v.get("ann"))})
            assert len(vals) == len(d["values"])
            p["enums"].append({"name": d["name"], "values": vs, "ann": x.ann(d.get("ann"))})
        elif k in ("struct", "union", "exception"):
            fs = x.fields(d["fields"])
            p[{"struct": "structs", "union": "unions", "exception": "exceptions"}[k]].append(
                {"cat": k, "name": d["name"], "fields": fs, "ann": x.ann(d.get("ann"))})
        elif k == "service":
            fns = []
            for fn in d["functions"]:
                ret = x.type_(fn["ret"]) if fn.get("ret") is not None else {"n": "void", "cpp": "", "ann": []}
                args = x.fields(fn.get("args", []))
                throws = x.fields(fn["throws"], throws=True) if fn.get("throws") is not None else []
                fns.append({"name": fn["name"], "oneway": bool(fn.get("oneway")), "void": fn.get("ret") is None,
                            "ret": ret, "args": args, "throws": throws, "ann": x.ann(fn.get("ann"))})
            p["services"].append({"name": d["name"], "extends": d.get("extends") or "", "functions": fns,
                                  "ann": x.ann(d.get("ann"))})
    assert x.ai == len(tab.anns) and x.li == len(tab.lits) and x.fi == len(tab.ids) and x.ei == len(tab.evals), \
        "expectation lists not consumed exactly"
    return p


def norm_projection(p):
    """observed projection (harness JSON) in the comparison form of expected_projection: doubles as floats,
    auxiliary 'int' of doubles dropped"""
    def val(v):
        out = {"t": v["t"], "v": v["v"], "int": "", "l": [val(e) for e in v["l"]],
               "m": [[val(k), val(e)] for k, e in v["m"]]}
        if v["t"] == "d":
            out["v"] = float(v["v"])
        return out

    def fields(fs):
        return [dict(f, **{"def": val(f["def"])}) for f in fs]
    p = copy.deepcopy(p)
    for c in p["consts"]:
        c["value"] = val(c["value"])
    for k in ("structs", "unions", "exceptions"):
        for s in p[k]:
            s["fields"] = fields(s["fields"])
    for s in p["services"]:
        for fn in s["functions"]:
            fn["args"] = fields(fn["args"])
            fn["throws"] = fields(fn["throws"])
    return p


def diff(a, b, path=""):
    """first difference between two JSON-like values, as text"""
    if type(a) != type(b) and not (isinstance(a, (int, float)) and isinstance(b, (int, float))):
        return "%s: %r vs %r" % (path, a, b)
    if isinstance(a, dict):
        for k in sorted(set(a) | set(b)):
            if k not in a or k not in b:
                return "%s.%s: present on one side only" % (path, k)
            d = diff(a[k], b[k], path + "." + k)
            if d:
                return d
        return None
    if isinstance(a, list):
        if len(a) != len(b):
            return "%s: length %d vs %d (%r vs %r)" % (path, len(a), len(b), a, b)
        for i, (x, y) in enumerate(zip(a, b)):
            d = diff(x, y, "%s[%d]" % (path, i))
            if d:
                return d
        return None
    if a != b:
        return "%s: %r vs %r" % (path, a, b)
    return None
