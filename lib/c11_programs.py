"""C11: IDL programs (program JSON of lib/idl.py) over an include DAG enumerated by TLC.

A DAG case is {"n": N, "inc": [[children of file 1], ...]} (file 1 = main file).  Every file gets a *flavour*:
  "empty"  no definitions at all (its includes are unused)
  "plain"  every definition kind, nothing optional set: no annotations, no defaults, no references to includes
  "refs"   like plain, plus references into every include (typedef / field type / const value / enum value /
           extends / throws across files -> Reference, IsTypedef, Extra, Used are set)
  "full"   refs plus annotations everywhere, defaults of every constant kind, cpp_include, several namespaces,
           explicit and implicit enum values, negative / missing field ids, oneway / void functions
Between them every AST node kind occurs and every optional AST field occurs both set and unset.
"""
import idl
from idl import F, T

FLAVOURS = ("empty", "plain", "refs", "full")


def fname(i, subdirs=False):
    if subdirs and i % 3 == 0:
        return "sub/f%d.thrift" % i
    return "f%d.thrift" % i


def _rel(frm, to):
    """include path literal of file `to` as written in file `frm` (relative to frm's directory)."""
    import os
    return os.path.relpath(to, os.path.dirname(frm) or ".")


def build_file(i, children, flavour, subdirs=False, defined=None):
    """defined: {file number: flavour} -- a reference into an include is only made if that file defines things."""
    path = fname(i, subdirs)
    f = {"path": path, "includes": [_rel(path, fname(c, subdirs)) for c in children],
         "namespaces": [{"lang": "go", "name": "pk.f%d" % i}], "defs": []}
    if flavour == "empty":
        return f
    full = flavour == "full"
    refs = flavour in ("refs", "full")
    ann = (lambda k: [[k, "v%d" % i]]) if full else (lambda k: None)
    rc = [c for c in children if (defined or {}).get(c, "plain") != "empty"] if refs else []
    d = f["defs"]
    if full:
        f["cpp_includes"] = ["x%d.h" % i]
        f["namespaces"] = [{"lang": "go", "name": "pk.f%d" % i, "ann": [["nk", "nv"]]},
                           {"lang": "java", "name": "j.f%d" % i}, {"lang": "*", "name": "star%d" % i}]
    E, S, U, X, K = "E%d" % i, "S%d" % i, "U%d" % i, "X%d" % i, "K%d" % i
    # enum
    d.append({"k": "enum", "name": E, "ann": ann("ek"), "values": [
        {"name": "A", "value": 1, "ann": ann("evk")}, {"name": "B", "value": None},
        {"name": "C", "value": 5 if full else None}]})
    # typedefs: base, container, local struct, typedef of typedef, across files
    tint = {"n": "i32"}
    if full:
        tint = {"n": "i32", "ann": [["tk", "tv"]]}
    d.append({"k": "typedef", "name": "Int%d" % i, "type": tint, "ann": ann("tdk")})
    d.append({"k": "typedef", "name": "Lst%d" % i, "type": T("list", T("Int%d" % i))})
    d.append({"k": "typedef", "name": "TS%d" % i, "type": T(S)})
    d.append({"k": "typedef", "name": "TTS%d" % i, "type": T("TS%d" % i)})
    for c in rc:
        d.append({"k": "typedef", "name": "RS%d_%d" % (i, c), "type": T("f%d.S%d" % (c, c))})
        d.append({"k": "typedef", "name": "RT%d_%d" % (i, c), "type": T("f%d.Int%d" % (c, c))})
    # constants of every value kind
    d.append({"k": "const", "name": K, "type": T("i32"), "value": {"i": 5 + i}, "ann": ann("ck")})
    d.append({"k": "const", "name": "KD%d" % i, "type": T("double"), "value": {"d": "1.5"}})
    d.append({"k": "const", "name": "KS%d" % i, "type": T("string"), "value": {"s": "str%d" % i}})
    d.append({"k": "const", "name": "KB%d" % i, "type": T("bool"), "value": {"id": "true"}})
    d.append({"k": "const", "name": "KE%d" % i, "type": T(E), "value": {"id": E + ".B"}})
    d.append({"k": "const", "name": "KK%d" % i, "type": T("i32"), "value": {"id": K}})
    d.append({"k": "const", "name": "KL%d" % i, "type": T("list", T("i32")), "value": {"l": [{"i": 1}, {"id": K}]}})
    d.append({"k": "const", "name": "KL0_%d" % i, "type": T("list", T("i32")), "value": {"l": []}})
    d.append({"k": "const", "name": "KM%d" % i, "type": T("map", T("string"), T("list", T("i32"))),
              "value": {"m": [[{"s": "a"}, {"l": [{"i": 1}]}], [{"s": "b"}, {"l": []}]]}})
    d.append({"k": "const", "name": "KM0_%d" % i, "type": T("map", T("string"), T("i32")), "value": {"m": []}})
    d.append({"k": "const", "name": "KSET%d" % i, "type": T("set", T("string")), "value": {"l": [{"s": "u"}, {"s": "w"}]}})
    if full:
        d.append({"k": "const", "name": "KST%d" % i, "type": T(S),
                  "value": {"m": [[{"s": "a"}, {"i": 3}], [{"s": "b"}, {"s": "zz"}]]}})
        d.append({"k": "const", "name": "KNEG%d" % i, "type": T("i64"), "value": {"i": -7}})
        d.append({"k": "const", "name": "KHEX%d" % i, "type": T("i32"), "value": {"i": "0x1F"}})
        d.append({"k": "const", "name": "KEXP%d" % i, "type": T("double"), "value": {"d": "2e3"}})
        d.append({"k": "const", "name": "KSQ%d" % i, "type": T("string"), "value": {"s": "it is", "q": "'"}})
    for c in rc:
        d.append({"k": "const", "name": "KR%d_%d" % (i, c), "type": T("i32"), "value": {"id": "f%d.K%d" % (c, c)}})
        d.append({"k": "const", "name": "KRE%d_%d" % (i, c), "type": T("f%d.E%d" % (c, c)),
                  "value": {"id": "f%d.E%d.C" % (c, c)}})
        d.append({"k": "const", "name": "KRL%d_%d" % (i, c), "type": T("list", T("f%d.E%d" % (c, c))),
                  "value": {"l": [{"id": "f%d.E%d.A" % (c, c)}]}})
    # struct
    fields = [F(1, "required", T("i32"), "a", ann=ann("fk")),
              F(2, "optional", T("string"), "b", {"s": "q"} if full else None),
              F(3, "default", T("list", T(S)), "c"),
              F(4, "optional", T("map", T("string"), T("set", T("Int%d" % i))), "d"),
              F(5, "default", T(E), "e", {"id": E + ".A"} if full else None),
              F(6, "optional", T("TTS%d" % i), "f"),
              F(7, "default", T("binary"), "g"),
              F(8, "default", T("Lst%d" % i), "h"),
              F(9, "default", T("list", T("i32")), "hl", {"l": [{"i": 1}]} if full else None)]
    if full:
        fields += [F(None, "default", T("i64"), "noid"),
                   F(-5, "optional", T("double"), "neg", {"d": "0.5"}),
                   F(20, "default", T("bool"), "flag", {"id": "false"}),
                   F(21, "default", {"n": "map", "k": T("string"), "v": T("i32"), "ann": [["mk", "mv"]]}, "am",
                     {"m": [[{"s": "k"}, {"id": K}]]})]
    nid = 30
    for c in rc:
        fields += [F(nid, "optional", T("f%d.S%d" % (c, c)), "rs%d" % c),
                   F(nid + 1, "default", T("f%d.E%d" % (c, c)), "re%d" % c, {"id": "f%d.E%d.B" % (c, c)}),
                   F(nid + 2, "default", T("list", T("RS%d_%d" % (i, c))), "rl%d" % c),
                   F(nid + 3, "default", T("f%d.Int%d" % (c, c)), "rt%d" % c, {"id": "f%d.K%d" % (c, c)}),
                   F(nid + 4, "optional", T("map", T("f%d.E%d" % (c, c)), T("f%d.TS%d" % (c, c))), "rm%d" % c)]
        nid += 5
    d.append({"k": "struct", "name": S, "fields": fields, "ann": ann("sk")})
    d.append({"k": "struct", "name": "Z%d" % i, "fields": []})
    d.append({"k": "union", "name": U, "ann": ann("uk"), "fields": [
        F(1, "default", T("i32"), "a"), F(2, "default", T(S), "s"), F(3, "default", T("list", T("string")), "l")]})
    d.append({"k": "exception", "name": X, "ann": ann("xk"), "fields": [
        F(1, "default", T("string"), "msg"), F(2, "optional", T("i32"), "code", {"i": 3} if full else None)]})
    # services
    fns = [{"name": "ping", "oneway": False, "ret": None, "args": [], "throws": None},
           {"name": "get", "oneway": False, "ret": T(S), "args": [F(1, "default", T("i32"), "id"),
                                                                 F(2, "default", T(U), "u")],
            "throws": [F(1, "default", T(X), "x")], "ann": ann("fnk")},
           {"name": "fire", "oneway": True, "ret": None, "args": [F(1, "default", T("list", T(E)), "es")],
            "throws": None},
           {"name": "cnt", "oneway": False, "ret": T("map", T("string"), T("Int%d" % i)),
            "args": [F(None if full else 1, "default", T("i32"), "n", {"i": 1} if full else None)], "throws": []}]
    for c in rc:
        fns.append({"name": "via%d" % c, "oneway": False, "ret": T("f%d.S%d" % (c, c)),
                    "args": [F(1, "default", T("f%d.E%d" % (c, c)), "e"), F(2, "optional", T("RS%d_%d" % (i, c)), "r")],
                    "throws": [F(1, "default", T("f%d.X%d" % (c, c)), "x")]})
    d.append({"k": "service", "name": "Base%d" % i, "extends": None, "functions": fns[:1], "ann": None})
    ext = "Base%d" % i
    if rc:
        ext = "f%d.Svc%d" % (rc[0], rc[0])
    d.append({"k": "service", "name": "Svc%d" % i, "extends": ext, "functions": fns, "ann": ann("svk")})
    return f


def dag_program(case, flavours, subdirs=False):
    """case: {"n", "inc"}; flavours: list of N flavour names (index 0 = file 1)."""
    n = case["n"]
    defined = {i + 1: flavours[i] for i in range(n)}
    files = [build_file(i + 1, case["inc"][i], flavours[i], subdirs, defined) for i in range(n)]
    return {"files": files}


def features(prog):
    """which AST node kinds / optional fields a program exercises (for the vacuity check)."""
    feat = set()
    for f in prog["files"]:
        if f.get("includes"):
            feat.add("include")
        if f.get("cpp_includes"):
            feat.add("cpp_include")
        for ns in f.get("namespaces", []):
            feat.add("namespace")
            if ns.get("ann"):
                feat.add("namespace.ann")
        for d in f.get("defs", []):
            feat.add(d["k"])
            if d.get("ann"):
                feat.add(d["k"] + ".ann")
            if d["k"] == "service" and d.get("extends"):
                feat.add("extends.cross" if "." in d["extends"] else "extends.local")

            def ty(t):
                feat.add("type." + (t["n"] if t["n"] in ("list", "set", "map") or t["n"] in idl.BASE else
                                    ("ref.cross" if "." in t["n"] else "ref.local")))
                if t.get("ann"):
                    feat.add("type.ann")
                for k in ("k", "v"):
                    if k in t:
                        ty(t[k])

            def val(v):
                if v is None:
                    return
                for k in ("i", "d", "s", "id", "l", "m"):
                    if k in v:
                        feat.add("val." + k)
                if "id" in v:
                    feat.add("val.id.cross" if v["id"].count(".") == 2 or
                             (v["id"].count(".") == 1 and v["id"].startswith("f")) else "val.id.local")
                for e in v.get("l", []):
                    val(e)
                for k, e in v.get("m", []):
                    val(k)
                    val(e)

            def fld(fl):
                ty(fl["type"])
                feat.add("field." + fl.get("req", "default"))
                feat.add("field.default.set" if fl.get("default") is not None else "field.default.unset")
                if fl.get("id") is None:
                    feat.add("field.noid")
                elif fl["id"] < 0:
                    feat.add("field.negid")
                val(fl.get("default"))
            if d["k"] in ("typedef", "const"):
                ty(d["type"])
            if d["k"] == "const":
                val(d["value"])
            for fl in d.get("fields", []):
                fld(fl)
            for fn in d.get("functions", []):
                feat.add("fn.oneway" if fn.get("oneway") else "fn")
                feat.add("fn.void" if fn.get("ret") is None else "fn.ret")
                if fn.get("ret"):
                    ty(fn["ret"])
                feat.add("fn.throws" if fn.get("throws") else "fn.nothrows")
                for a in fn.get("args", []) + (fn.get("throws") or []):
                    fld(a)
    return feat


REQUIRED_FEATURES = {
    "include", "cpp_include", "namespace", "namespace.ann", "typedef", "const", "enum", "struct", "union",
    "exception", "service", "typedef.ann", "const.ann", "enum.ann", "struct.ann", "union.ann", "exception.ann",
    "service.ann", "extends.cross", "extends.local", "type.list", "type.set", "type.map", "type.ref.cross",
    "type.ref.local", "type.ann", "val.i", "val.d", "val.s", "val.id", "val.l", "val.m", "val.id.cross",
    "val.id.local", "field.required", "field.optional", "field.default", "field.default.set",
    "field.default.unset", "field.noid", "field.negid", "fn.oneway", "fn.void", "fn.ret", "fn.throws",
    "fn.nothrows",
}
