"""Shared machinery for the thriftgo TLA+ verification checks.

Every check is `bin/check <Cxx> [--tier quick|thorough] [--replay path]` and uses a Ctx:
  * scratch directory outside /verif and /repo, removed on exit
  * builds of /repo binaries and of the Go harness (always from /repo's working tree, -tags verif)
  * TLC runs (check / generate / trace validation) with parsed statistics
  * verdicts: violations (with replay files and known-finding matching), evidence file
Exit codes: 0 property held on everything explored, 1 VIOLATION, 2 machinery error.
"""
import atexit
import hashlib
import json
import os
import re
import shutil
import subprocess
import sys
import time

VERIF = os.path.dirname(os.path.dirname(os.path.abspath(__file__)))
REPO = os.environ.get("VERIF_REPO", "/repo")
# the repository this run was invoked against; fixed at import (a check may point REPO at a snapshot it builds from)
REPO_INVOKED = REPO
TLA_JAR = "/opt/veriftools/tla/tla2tools.jar"
CM_JAR = "/opt/veriftools/tla/CommunityModules-deps.jar"
NCPU = os.cpu_count() or 4

GOENV = {
    "GOFLAGS": "-mod=mod",
    "GOPROXY": "off",
    "GOSUMDB": "off",
    "GOTOOLCHAIN": "local",
    "GONOSUMDB": "*",
    "GONOSUMCHECK": "1",
}


class MachineryError(Exception):
    pass


def log(*a):
    print("[verif]", *a, file=sys.stderr, flush=True)


class Ctx:
    def __init__(self, prop, tier="quick", seed=None, level="model_checking"):
        self.prop = prop
        self.tier = tier
        self.seed = int(seed if seed is not None else os.environ.get("VERIF_SEED", "1") or 1)
        self.level = level
        self.t0 = time.time()
        base = os.environ.get("VERIF_SCRATCH", "/var/tmp")
        self.scratch = os.path.join(base, "verif-%s-%d" % (prop, os.getpid()))
        shutil.rmtree(self.scratch, ignore_errors=True)
        os.makedirs(self.scratch)
        if not os.environ.get("VERIF_KEEP"):
            atexit.register(lambda: shutil.rmtree(self.scratch, ignore_errors=True))
        self.env = dict(os.environ)
        self.env.update(GOENV)
        self.env.setdefault("GOCACHE", os.path.join(os.path.expanduser("~"), ".cache", "go-build"))
        # coverage accumulators
        self.states = 0
        self.transitions = 0
        self.tlc_runs = []
        self.traces_validated = 0
        self.evaluations = 0
        self.distinct = set()
        self.samples = []
        self.violations = []       # unlisted
        self.known_hits = {}       # finding key -> count
        self.notes = []
        self.assumptions = []
        self.extra_cov = {}
        self.exhaustive = None
        self.known = load_known(prop)
        # replay files of earlier runs of this property are stale
        rd = os.path.join(VERIF, "replay")
        if os.path.isdir(rd) and not os.environ.get("VERIF_KEEP_REPLAY"):
            for f in os.listdir(rd):
                if f.startswith(prop + "-"):
                    try:
                        os.remove(os.path.join(rd, f))
                    except OSError:
                        pass

    # ---------------------------------------------------------------- paths
    def path(self, *p):
        d = os.path.join(self.scratch, *p)
        os.makedirs(os.path.dirname(d), exist_ok=True)
        return d

    def mkdir(self, *p):
        d = os.path.join(self.scratch, *p)
        os.makedirs(d, exist_ok=True)
        return d

    # ---------------------------------------------------------------- processes
    def run(self, cmd, cwd=None, timeout=600, check=True, env=None, input=None, quiet=False):
        e = dict(self.env)
        if env:
            e.update(env)
        try:
            p = subprocess.run(cmd, cwd=cwd, env=e, timeout=timeout, input=input,
                               stdout=subprocess.PIPE, stderr=subprocess.PIPE, text=True,
                               errors="replace")
        except subprocess.TimeoutExpired as ex:
            raise MachineryError("timeout after %ss: %s" % (timeout, " ".join(map(str, cmd))[:300]))
        if check and p.returncode != 0:
            raise MachineryError("command failed (%d): %s\n%s\n%s" % (
                p.returncode, " ".join(map(str, cmd))[:300], p.stdout[-3000:], p.stderr[-3000:]))
        return p

    # ---------------------------------------------------------------- builds
    def build_repo(self, pkg, name, tags="verif"):
        """go build a main package of /repo (current working tree) into scratch/bin."""
        out = self.path("bin", name)
        cmd = ["go", "build", "-o", out]
        if tags:
            cmd += ["-tags", tags]
        cmd.append(pkg)
        self.run(cmd, cwd=REPO, timeout=900)
        return out

    def build_harness(self, cmd_name, tags="verif"):
        """go build /verif/harness/cmd/<cmd_name> (links /repo via replace) into scratch/bin."""
        out = self.path("bin", cmd_name)
        hdir = os.path.join(VERIF, "harness")
        cmd = ["go", "build", "-o", out]
        if tags:
            cmd += ["-tags", tags]
        if REPO != "/repo":
            # mutant / scratch-copy runs: same harness sources, thriftgo replaced by the copy
            mf = self.path("harness-mod", "go.mod")
            with open(os.path.join(hdir, "go.mod")) as fh:
                gm = fh.read().replace("=> /repo", "=> " + REPO)
            with open(mf, "w") as fh:
                fh.write(gm)
            shutil.copy(os.path.join(hdir, "go.sum"), self.path("harness-mod", "go.sum"))
            cmd += ["-modfile", mf]
        cmd.append("./cmd/" + cmd_name)
        p = self.run(cmd, cwd=hdir, timeout=900, check=False)
        if p.returncode != 0:
            raise MachineryError("harness build failed for %s:\n%s" % (cmd_name, p.stderr[-4000:]))
        return out

    # ---------------------------------------------------------------- TLC
    def tlc(self, specdir, module, cfg=None, mode="check", workers=None, timeout=900,
            simulate=None, depth=None, extra=None, files=None, deque=False, coverage=False,
            expect_ok=True, label=None):
        """Run TLC on <specdir>/<module>.tla with <cfg> in a scratch copy of specdir.

        files: {relname: content or source path} placed next to the spec before the run
        simulate: dict(num=..) -> -simulate num=N ; depth
        Returns dict(ok, generated, distinct, depth, out, lines(list of PrintT strings), violated)
        """
        label = label or ("%s/%s" % (module, cfg or module))
        src = os.path.join(VERIF, "spec", specdir) if not os.path.isabs(specdir) else specdir
        wd = self.mkdir("tlc", "%s-%d" % (module, len(self.tlc_runs)))
        for f in os.listdir(src):
            if f.endswith((".tla", ".cfg", ".json", ".ndjson")):
                shutil.copy(os.path.join(src, f), wd)
        # shared modules
        shared = os.path.join(VERIF, "spec", "common")
        if os.path.isdir(shared):
            for f in os.listdir(shared):
                if f.endswith(".tla") and not os.path.exists(os.path.join(wd, f)):
                    shutil.copy(os.path.join(shared, f), wd)
        for rel, content in (files or {}).items():
            dst = os.path.join(wd, rel)
            if isinstance(content, str) and os.path.isabs(content) and os.path.exists(content):
                shutil.copy(content, dst)
            else:
                with open(dst, "w") as fh:
                    fh.write(content)
        cfgf = (cfg or module)
        if not cfgf.endswith(".cfg"):
            cfgf += ".cfg"
        w = workers if workers is not None else NCPU
        jopts = ["-XX:+UseParallelGC", "-Xss512m"]
        heap = os.environ.get("VERIF_TLC_HEAP")
        if heap:
            jopts.append("-Xmx" + heap)
        if deque:
            jopts.append("-Dtlc2.tool.queue.IStateQueue=StateDeque")
        cmd = ["timeout", str(timeout), "java"] + jopts + [
            "-cp", TLA_JAR + ":" + CM_JAR, "tlc2.TLC",
            "-workers", str(w), "-metadir", os.path.join(wd, "md"), "-config", cfgf,
            "-noGenerateSpecTE"]
        if mode == "simulate":
            sim = "num=%d" % (simulate or 1000)
            cmd += ["-simulate", sim, "-depth", str(depth or 50), "-seed", str(self.seed)]
        if coverage:
            cmd += ["-coverage", "1"]
        if extra:
            cmd += extra
        cmd.append(module + ".tla")
        t0 = time.time()
        e = dict(self.env)
        e.pop("JAVA_TOOL_OPTIONS", None)
        p = subprocess.run(cmd, cwd=wd, env=e, stdout=subprocess.PIPE, stderr=subprocess.STDOUT,
                           text=True, errors="replace")
        out = p.stdout
        dt = time.time() - t0
        res = {"rc": p.returncode, "out": out, "wall_s": round(dt, 2), "label": label, "wd": wd}
        m = re.search(r"(\d+) states generated, (\d+) distinct states found, (\d+) states left", out)
        if m:
            res["generated"] = int(m.group(1))
            res["distinct"] = int(m.group(2))
        else:
            m2 = re.findall(r"Progress: (\d+) states checked", out)
            m3 = re.search(r"The number of states generated: (\d+)", out)
            if m3:
                res["generated"] = int(m3.group(1))
                res["distinct"] = int(m3.group(1))
            elif m2:
                res["generated"] = int(m2[-1])
                res["distinct"] = int(m2[-1])
        m = re.search(r"depth of the complete state graph search is (\d+)", out)
        if m:
            res["depth"] = int(m.group(1))
        lines = []
        for ln in out.splitlines():
            if ln.startswith('"') and ln.endswith('"'):
                try:
                    lines.append(json.loads(ln))
                except Exception:
                    pass
        res["lines"] = lines
        violated = None
        m = re.search(r"Error: Invariant (\S+) is violated", out)
        if m:
            violated = m.group(1)
        m = re.search(r"Error: Action property (\S+) is violated", out)
        if m:
            violated = m.group(1)
        if "Temporal properties were violated" in out:
            violated = violated or "temporal"
        if "Deadlock reached" in out:
            violated = violated or "deadlock"
        m = re.search(r"Error: The postcondition (\S+)? ?.*(false|violated)", out)
        if "postcondition" in out.lower() and "Error" in out and violated is None:
            violated = "postcondition"
        res["violated"] = violated
        ok = (p.returncode == 0 and violated is None and
              ("Model checking completed. No error has been found." in out or
               (mode == "simulate" and "Error" not in out)))
        res["ok"] = ok
        if p.returncode == 124:
            raise MachineryError("TLC timeout (%ss) on %s" % (timeout, label))
        if not ok and violated is None:
            raise MachineryError("TLC failed on %s (rc=%d):\n%s" % (label, p.returncode, out[-4000:]))
        if expect_ok and not ok:
            raise MachineryError("TLC reports %s violated on %s — the specification itself is "
                                 "inconsistent (design-level), not a verdict about the code:\n%s"
                                 % (violated, label, out[-6000:]))
        self.states += res.get("distinct", 0)
        self.transitions += res.get("generated", 0)
        self.tlc_runs.append({k: res.get(k) for k in ("label", "generated", "distinct", "depth", "wall_s", "ok", "violated")})
        log("TLC %s: %s generated / %s distinct in %.1fs%s" % (
            label, res.get("generated"), res.get("distinct"), dt,
            "" if ok else " VIOLATED " + str(violated)))
        return res

    def tlc_cases(self, res, prefix="CASE "):
        out = []
        for s in res["lines"]:
            if s.startswith(prefix):
                out.append(json.loads(s[len(prefix):]))
        return out

    # ---------------------------------------------------------------- verdicts
    def count(self, n=1, cls=None):
        self.evaluations += n
        if cls is not None:
            self.distinct.add(cls if isinstance(cls, str) else json.dumps(cls, sort_keys=True))

    def sample(self, s, limit=4):
        if len(self.samples) < limit:
            self.samples.append(s)

    def violation(self, cls, case, observed, expected, what, rerun=None):
        """Record a violation of the property by the real code. cls: dict used for known-finding
        matching (must carry 'check')."""
        for k in self.known:
            if k.get("status") != "known":
                continue
            if all(cls.get(a) == b for a, b in k["match"].items()):
                key = k["id"]
                self.known_hits[key] = self.known_hits.get(key, 0) + 1
                return False
        self.violations.append({"class": cls, "case": case, "observed": observed,
                                "expected": expected, "what": what, "rerun": rerun})
        return True

    def finish(self, rule, assumptions=None, trusted=None):
        wall = round(time.time() - self.t0, 2)
        for k in self.known:
            if k.get("status") == "known" and k["id"] in self.known_hits:
                print("KNOWN-FINDING: property=%s %s [%s; %d case(s) this run]" % (
                    self.prop, k["what"], k["id"], self.known_hits[k["id"]]), flush=True)
        cov = {
            "states": self.states,
            "transitions": self.transitions,
            "traces_validated_against_impl": self.traces_validated,
            "evaluations": self.evaluations,
            "distinct_nontrivial": len(self.distinct),
            "rule": rule,
            "samples": self.samples[:6] or ["(none)"],
            "tlc_runs": self.tlc_runs,
            "known_findings_hit": self.known_hits,
        }
        if self.exhaustive is not None:
            cov["exhaustive"] = bool(self.exhaustive)
        if trusted:
            cov["trusted_base"] = trusted
        cov.update(self.extra_cov)
        ev = {
            "property_id": self.prop,
            "tier": self.tier,
            "seed": self.seed,
            "level": self.level,
            "coverage": cov,
            "assumptions": (assumptions or []) + self.assumptions,
            "wall_s": wall,
            "violations": len(self.violations),
        }
        if self.notes:
            ev["coverage"]["notes"] = self.notes
        # evidence describes runs against /repo only: a run against a scratch copy (VERIF_REPO, mutant trials) keeps its
        # record in its scratch directory
        evdir = os.path.join(VERIF, "evidence") if REPO_INVOKED == "/repo" else self.mkdir("evidence")
        os.makedirs(evdir, exist_ok=True)
        with open(os.path.join(evdir, self.prop + ".json"), "w") as fh:
            json.dump(ev, fh, indent=1, sort_keys=True, default=str)
            fh.write("\n")
        if self.violations:
            os.makedirs(os.path.join(VERIF, "replay"), exist_ok=True)
            seen = set()
            for v in self.violations:
                key = json.dumps(v["class"], sort_keys=True)
                if key in seen:
                    continue
                seen.add(key)
                if len(seen) > 20:
                    break
                h = hashlib.sha1(json.dumps(v, sort_keys=True, default=str).encode()).hexdigest()[:10]
                rp = os.path.join(VERIF, "replay", "%s-%s.json" % (self.prop, h))
                v2 = dict(v)
                v2["property"] = self.prop
                v2["replay_cmd"] = "bin/check %s --replay %s" % (self.prop, rp)
                with open(rp, "w") as fh:
                    json.dump(v2, fh, indent=1, sort_keys=True, default=str)
                print("VIOLATION property=%s replay=%s  (%s)" % (self.prop, rp, v["what"]), flush=True)
            log("%d violating case(s) in %d class(es)" % (len(self.violations), len(seen)))
            return 1
        log("%s %s OK: %d evaluations, %d distinct classes, %d TLC states, %d traces validated, %.1fs" % (
            self.prop, self.tier, self.evaluations, len(self.distinct), self.states,
            self.traces_validated, wall))
        return 0


def load_known(prop):
    p = os.path.join(VERIF, "known_findings.json")
    if not os.path.exists(p):
        return []
    with open(p) as fh:
        data = json.load(fh)
    return [k for k in data.get("findings", []) if k.get("property") == prop]


def read_ndjson(path):
    out = []
    with open(path) as fh:
        for ln in fh:
            ln = ln.strip()
            if ln:
                out.append(json.loads(ln))
    return out


def write_ndjson(path, rows):
    with open(path, "w") as fh:
        for r in rows:
            fh.write(json.dumps(r, sort_keys=True, separators=(",", ":")))
            fh.write("\n")


def main_wrapper(fn):
    """Run a check function(ctx-args) mapping exceptions to exit code 2."""
    try:
        rc = fn()
    except MachineryError as ex:
        print("MACHINERY-ERROR: %s" % ex, file=sys.stderr, flush=True)
        sys.exit(2)
    except Exception:
        import traceback
        traceback.print_exc()
        print("MACHINERY-ERROR: unexpected exception", file=sys.stderr, flush=True)
        sys.exit(2)
    sys.exit(rc)
