"""Shared IDL data model ("program JSON") and renderer.

A *program* is {"files": [FILE...]}; the first file is the main file unless "main" names another.
FILE  = {"path": "a.thrift", "includes": ["b.thrift", ...], "cpp_includes": [...],
         "namespaces": [{"lang": "go", "name": "x.y", "ann": ANN}], "defs": [DEF...]}
DEF   = {"k": "typedef", "name", "type": TYPE, "ann": ANN}
      | {"k": "const", "name", "type": TYPE, "value": VAL, "ann": ANN}
      | {"k": "enum", "name", "values": [{"name", "value": int|None, "ann": ANN}], "ann": ANN}
      | {"k": "struct"|"union"|"exception", "name", "fields": [FIELD...], "ann": ANN}
      | {"k": "service", "name", "extends": str|None, "functions": [FUNC...], "ann": ANN}
FIELD = {"id": int|None, "req": "required"|"optional"|"default", "type": TYPE, "name", "default": VAL|None, "ann": ANN}
FUNC  = {"name", "oneway": bool, "ret": TYPE|None (void), "args": [FIELD], "throws": [FIELD]|None, "ann": ANN}
TYPE  = {"n": base-or-reference-name} | {"n": "list"|"set", "v": TYPE} | {"n": "map", "k": TYPE, "v": TYPE}   (+ "ann": ANN)
VAL   = {"i": int|str(spelling)} | {"d": str(spelling)} | {"s": str(raw text between quotes), "q": '"'|"'"}
      | {"id": "Name"} | {"l": [VAL...]} | {"m": [[VAL, VAL]...]}
ANN   = [[key, value-raw-text], ...]   (missing/None = no annotation list at all)

Rendering is token based: tokens(file) gives the canonical token list; between two tokens there is a *gap*;
layout(i, left, right) chooses the gap text (default: a space, newline after definition/field ends).
Tokens: (text, kind) with kind in kw, id, int, dbl, lit, punct, sep (optional list separator).
"""

BASE = {"bool", "byte", "i8", "i16", "i32", "i64", "double", "string", "binary"}


def _lit(raw, q='"'):
    return (q + raw + q, "lit")


def _ann(ann, out):
    if ann is None:
        return
    out.append(("(", "punct"))
    for i, kv in enumerate(ann):
        out.append((kv[0], "id"))
        out.append(("=", "punct"))
        out.append(_lit(kv[1], kv[2] if len(kv) > 2 else '"'))
        if i + 1 < len(ann):
            out.append((",", "sep"))
    out.append((")", "punct"))


def _type(t, out):
    n = t["n"]
    if n in ("list", "set"):
        out.append((n, "kw"))
        out.append(("<", "punct"))
        _type(t["v"], out)
        out.append((">", "punct"))
    elif n == "map":
        out.append(("map", "kw"))
        out.append(("<", "punct"))
        _type(t["k"], out)
        out.append((",", "punct"))
        _type(t["v"], out)
        out.append((">", "punct"))
    else:
        out.append((n, "kw" if n in BASE else "id"))
    _ann(t.get("ann"), out)


def _val(v, out):
    if "i" in v:
        out.append((str(v["i"]), "int"))
    elif "d" in v:
        out.append((str(v["d"]), "dbl"))
    elif "s" in v:
        out.append(_lit(v["s"], v.get("q", '"')))
    elif "id" in v:
        out.append((v["id"], "id"))
    elif "l" in v:
        out.append(("[", "punct"))
        for i, e in enumerate(v["l"]):
            _val(e, out)
            if i + 1 < len(v["l"]):
                out.append((",", "sep"))
        out.append(("]", "punct"))
    elif "m" in v:
        out.append(("{", "punct"))
        for i, (k, e) in enumerate(v["m"]):
            _val(k, out)
            out.append((":", "punct"))
            _val(e, out)
            if i + 1 < len(v["m"]):
                out.append((",", "sep"))
        out.append(("}", "punct"))
    else:
        raise ValueError("bad value %r" % (v,))


def _field(f, out, sep=True):
    if f.get("id") is not None:
        out.append((str(f["id"]), "int"))
        out.append((":", "punct"))
    if f.get("req", "default") in ("required", "optional"):
        out.append((f["req"], "kw"))
    _type(f["type"], out)
    out.append((f["name"], "id"))
    if f.get("default") is not None:
        out.append(("=", "punct"))
        _val(f["default"], out)
    _ann(f.get("ann"), out)
    if sep:
        out.append((",", "sep"))
    out.append(("", "eol"))


def tokens(f):
    out = []
    for inc in f.get("includes", []):
        out += [("include", "kw"), _lit(inc), ("", "eol")]
    for inc in f.get("cpp_includes", []):
        out += [("cpp_include", "kw"), _lit(inc), ("", "eol")]
    for ns in f.get("namespaces", []):
        out += [("namespace", "kw"), (ns["lang"], "id"), (ns["name"], "id")]
        _ann(ns.get("ann"), out)
        out.append(("", "eol"))
    for d in f.get("defs", []):
        k = d["k"]
        if k == "typedef":
            out.append(("typedef", "kw"))
            _type(d["type"], out)
            out.append((d["name"], "id"))
        elif k == "const":
            out.append(("const", "kw"))
            _type(d["type"], out)
            out.append((d["name"], "id"))
            out.append(("=", "punct"))
            _val(d["value"], out)
        elif k == "enum":
            out += [("enum", "kw"), (d["name"], "id"), ("{", "punct"), ("", "eol")]
            for v in d["values"]:
                out.append((v["name"], "id"))
                if v.get("value") is not None:
                    out += [("=", "punct"), (str(v["value"]), "int")]
                _ann(v.get("ann"), out)
                out.append((",", "sep"))
                out.append(("", "eol"))
            out.append(("}", "punct"))
        elif k in ("struct", "union", "exception"):
            out += [(k, "kw"), (d["name"], "id"), ("{", "punct"), ("", "eol")]
            for fl in d["fields"]:
                _field(fl, out)
            out.append(("}", "punct"))
        elif k == "service":
            out += [("service", "kw"), (d["name"], "id")]
            if d.get("extends"):
                out += [("extends", "kw"), (d["extends"], "id")]
            out += [("{", "punct"), ("", "eol")]
            for fn in d["functions"]:
                if fn.get("oneway"):
                    out.append(("oneway", "kw"))
                if fn.get("ret") is None:
                    out.append(("void", "kw"))
                else:
                    _type(fn["ret"], out)
                out += [(fn["name"], "id"), ("(", "punct")]
                for i, a in enumerate(fn.get("args", [])):
                    _field(a, out, sep=(i + 1 < len(fn["args"])))
                    out.pop()  # no eol inside argument lists
                out.append((")", "punct"))
                if fn.get("throws") is not None:
                    out += [("throws", "kw"), ("(", "punct")]
                    for i, a in enumerate(fn["throws"]):
                        _field(a, out, sep=(i + 1 < len(fn["throws"])))
                        out.pop()
                    out.append((")", "punct"))
                _ann(fn.get("ann"), out)
                out.append((",", "sep"))
                out.append(("", "eol"))
            out.append(("}", "punct"))
        else:
            raise ValueError("bad def kind %r" % k)
        _ann(d.get("ann"), out)
        out.append(("", "eol"))
    return out


def render_tokens(toks, layout=None, seps=None):
    """layout(i, left, right) -> gap text before token i (i >= 1); seps(i, tok) -> text of an optional separator."""
    parts = []
    prev = None
    idx = 0
    for t, kind in toks:
        if kind == "eol":
            eol = getattr(layout, "eol", None)
            parts.append(eol(prev) if (eol and prev is not None) else "\n")
            prev = None
            continue
        if kind == "sep" and seps is not None:
            t = seps(idx, t)
            if t == "":
                idx += 1
                continue
        if prev is not None:
            gap = layout(idx, prev, (t, kind)) if layout else " "
            parts.append(gap)
        parts.append(t)
        prev = (t, kind)
        idx += 1
    return "".join(parts)


def render_file(f, layout=None, seps=None):
    return render_tokens(tokens(f), layout, seps)


def write_program(prog, root, layout=None, seps=None):
    """Writes all files of a program under root; returns the path of the main file."""
    import os
    main = None
    for i, f in enumerate(prog["files"]):
        p = os.path.join(root, f["path"])
        os.makedirs(os.path.dirname(p), exist_ok=True)
        with open(p, "w", encoding="utf-8", newline="") as fh:
            fh.write(render_file(f, layout, seps))
        if i == 0 or f["path"] == prog.get("main"):
            if main is None or f["path"] == prog.get("main"):
                main = p
    return main


# ------------------------------------------------------------------ small constructors
def T(n, *a):
    if n in ("list", "set"):
        return {"n": n, "v": a[0]}
    if n == "map":
        return {"n": "map", "k": a[0], "v": a[1]}
    return {"n": n}


def F(i, req, t, name, default=None, ann=None):
    return {"id": i, "req": req, "type": t, "name": name, "default": default, "ann": ann}


def type_from_str(s):
    """'map<string,list<i32>>' -> TYPE"""
    s = s.replace(" ", "")

    def parse(i):
        for kw in ("list<", "set<"):
            if s.startswith(kw, i):
                v, j = parse(i + len(kw))
                assert s[j] == ">"
                return {"n": kw[:-1], "v": v}, j + 1
        if s.startswith("map<", i):
            k, j = parse(i + 4)
            assert s[j] == ","
            v, j2 = parse(j + 1)
            assert s[j2] == ">"
            return {"n": "map", "k": k, "v": v}, j2 + 1
        j = i
        while j < len(s) and s[j] not in ",>":
            j += 1
        return {"n": s[i:j]}, j
    t, j = parse(0)
    assert j == len(s), s
    return t


def type_to_str(t):
    n = t["n"]
    if n in ("list", "set"):
        return "%s<%s>" % (n, type_to_str(t["v"]))
    if n == "map":
        return "map<%s,%s>" % (type_to_str(t["k"]), type_to_str(t["v"]))
    return n


# ------------------------------------------------------------------ alternative layouts (the AST must not depend on them)
def layout_tabs(i, left, right):
    """a TAB after every number and literal, a space elsewhere (values followed by a tab-aligned comment or separator)"""
    if left[1] in ("int", "dbl", "lit"):
        return "\t"
    return " "


def layout_newlines(i, left, right):
    """CRLF after separators and before closing brackets, a space elsewhere"""
    if left[1] == "sep" or right[0] in ("}", "]", ")"):
        return "\r\n"
    return " "


layout_tabs.eol = lambda prev: ("\t\n" if prev[1] in ("int", "dbl", "lit") else "\n")   # tab-aligned trailing comment position
layout_newlines.eol = lambda prev: "\r\n"

LAYOUTS = [None, layout_tabs, layout_newlines]
