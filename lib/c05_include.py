"""Include binding phase of C05 (spec/Include/Include.tla, MC_Include.tla).

Universe: directory trees below a scratch root (working directory w, sub directories w/a and w/b, a sibling q, the
root itself), files x/y/m in them, -i lists, include texts (plain, through a sub directory, through "..", "./"-spelled),
include circles and diamonds.  `inproc incl` materializes every case and records what parser.ParseFile /
ParseBatchString / CircleDetect returned; ONE TLC run then (a) checks that the transcribed parseFileRecursively /
searchCircle (layer B) refines the declarative binding (layer A) on every case and (b) judges every observation of the
real parser with layer A (ObsOK).  Python only enumerates cases, renders them and maps file names to file indices.
"""
import json
import os
import posixpath
import random

import vlib

CWD = ["w"]
POOL = [(["w"], "x"), (["w"], "y"), (["w", "a"], "x"), (["w", "a"], "y"), (["w", "b"], "x"), (["w", "b"], "y"),
        (["q"], "x"), (["q"], "y"), ([], "x")]
INCDIRS = [(0, []), (0, ["a"]), (0, ["b"]), (1, ["q"]), (0, ["nx"]), (1, [])]
MAINS = [(["w"], (0, [])), (["w", "a"], (0, ["a"])), (["q"], (1, ["q"]))]
TEXTS = [(0, []), (0, ["a"]), (0, ["b"]), (1, []), (1, ["q"]), (1, ["a"]), (1, ["w"]), (0, ["w"])]


def join(d, up, segs):
    if d is None or up > len(d):
        return None
    return d[:len(d) - up] + segs


def rel_text(base, target_dir):
    """(up, segs) such that join(base, up, segs) == target_dir with up <= 1, or None"""
    for up in (0, 1):
        if up > len(base):
            continue
        b = base[:len(base) - up]
        if target_dir[:len(b)] == b:
            return up, target_dir[len(b):]
    return None


def render_text(t):
    s = "../" * t["up"] + "/".join(t["segs"] + [t["n"] + ".thrift"])
    return ("./" + s) if t.get("dot") else s


def render_dir(d):
    s = "../" * d["up"] + "/".join(d["segs"])
    return s.rstrip("/") or "."


def mk_case(cid, main_dir, main_t, files, incdirs):
    """files: list of (dir, name, [text records])"""
    return {"id": cid, "cwd": CWD,
            "files": [{"d": d, "n": n, "inc": inc} for d, n, inc in files],
            "incdirs": [{"up": u, "segs": s} for u, s in incdirs],
            "main": {"up": main_t[0], "segs": main_t[1], "n": "m"}}


def random_case(rng, cid):
    main_dir, main_t = rng.choices(MAINS, weights=[6, 3, 1])[0]
    pool = [p for p in POOL]
    rng.shuffle(pool)
    chosen = pool[:rng.randint(1, 5)]
    incdirs = [rng.choice(INCDIRS) for _ in range(rng.choice([0, 0, 1, 1, 2, 2, 3]))]
    allf = [(main_dir, "m")] + chosen
    bases_common = [CWD] + [b for b in (join(CWD, u, s) for u, s in incdirs) if b is not None]
    files = []
    for k, (d, n) in enumerate(allf):
        ninc = rng.choice([1, 2, 2, 3]) if k == 0 else rng.choice([0, 0, 1, 1, 2])
        inc = []
        for _ in range(ninc):
            t = None
            if rng.random() < 0.85:
                td, tn = rng.choice(allf if rng.random() < 0.25 else (chosen or allf))
                base = rng.choice(bases_common + [d, d])
                r = rel_text(base, td)
                if r is not None:
                    t = {"up": r[0], "segs": r[1], "n": tn}
            if t is None:
                u, s = rng.choice(TEXTS)
                t = {"up": u, "segs": s, "n": rng.choice(["x", "y", "m"])}
            if t["up"] == 0 and rng.random() < 0.15:
                t["dot"] = True
            if render_text(t) not in [render_text(u) for u in inc]:     # the parser ignores a repeated identical include line
                inc.append(t)
        files.append((d, n, inc))
    return mk_case(cid, main_dir, main_t, files, incdirs)


def family_cases(start):
    """exhaustive small family: which of four same-named files wins for every -i order, from two main locations;
    plus self-include, two-circle, three-circle below main, diamond."""
    out = []
    cid = start
    cands = [(["w"], "x"), (["w", "a"], "x"), (["w", "b"], "x"), (["q"], "x")]
    incl = [[], [(0, ["a"])], [(0, ["b"])], [(0, ["a"]), (0, ["b"])], [(0, ["b"]), (0, ["a"])], [(1, ["q"]), (0, ["a"])]]
    for mask in range(16):
        present = [c for i, c in enumerate(cands) if mask >> i & 1]
        for inc in incl:
            for main_dir, main_t in MAINS[:2]:
                files = [(main_dir, "m", [{"up": 0, "segs": [], "n": "x"}])] + [(d, n, []) for d, n in present]
                out.append(mk_case(cid, main_dir, main_t, files, inc))
                cid += 1
    T = lambda n, up=0, segs=(): {"up": up, "segs": list(segs), "n": n}
    shapes = [
        [(["w"], "m", [T("m")])],
        [(["w"], "m", [T("x")]), (["w"], "x", [T("m")])],
        [(["w"], "m", [T("x")]), (["w"], "x", [T("y")]), (["w"], "y", [T("x")])],
        [(["w"], "m", [T("x")]), (["w"], "x", [T("x")])],
        [(["w"], "m", [T("x"), T("y")]), (["w"], "x", [T("x", 0, ["a"])]), (["w"], "y", [T("x", 0, ["a"])]), (["w", "a"], "x", [])],
        [(["w"], "m", [T("x"), T("x", 0, ["a"])]), (["w"], "x", []), (["w", "a"], "x", [T("x", 1)])],
        [(["w"], "m", [T("x"), dict(T("x"), dot=True)]), (["w"], "x", [])],
        [(["w"], "m", [T("x", 0, ["a"])]), (["w", "a"], "x", [T("y")]), (["w", "a"], "y", []), (["w"], "y", [])],
        [(["w"], "m", [T("x", 0, ["a"])]), (["w", "a"], "x", [T("y")]), (["w", "a"], "y", [])],
        [(["w"], "m", [T("nope")])],
        [(["w"], "m", [T("x")]), (["w"], "x", [T("nope")])],
    ]
    for files in shapes:
        out.append(mk_case(cid, ["w"], (0, []), files, []))
        cid += 1
    return out


def harness_row(c):
    files = {}
    for f in c["files"]:
        text = "".join('include "%s"\n' % render_text(t) for t in f["inc"]) + "struct S%s {\n1: i32 a,\n}\n" % f["n"].upper()
        files["/".join(f["d"] + [f["n"] + ".thrift"])] = text
    return {"id": c["id"], "cwd": "/".join(c["cwd"]), "files": files,
            "incdirs": [render_dir(d) for d in c["incdirs"]], "main": render_text(c["main"]),
            # ParseBatchString looks candidates up in the caller's map literally: only cases whose candidate paths are all
            # canonical (no "./", no "..") have the same meaning for both entry points
            "batch": (not any(t.get("dot") or t["up"] for f in c["files"] for t in f["inc"])
                      and not any(d["up"] for d in c["incdirs"]) and not c["main"]["up"])}


def project(c, o):
    """observation of the real parser -> index-based record for TLC (the projection function)"""
    if o.get("skip"):
        return {"skip": True, "err": False, "cycle": False, "dup": False, "unknown": False, "nodes": []}
    index = {"/".join(f["d"] + [f["n"] + ".thrift"]): i + 1 for i, f in enumerate(c["files"])}
    cwd = "/".join(c["cwd"])
    fs = []
    for n in o.get("nodes") or []:
        p = posixpath.normpath(posixpath.join("/R", cwd, n["name"]))
        fs.append(index.get(p[len("/R/"):] if p.startswith("/R/") else "?", 0))
    nodes = [{"f": fs[k], "refs": [fs[r] if r >= 0 else 0 for r in n["refs"]]} for k, n in enumerate(o.get("nodes") or [])]
    nz = [f for f in fs if f]
    return {"skip": False, "err": bool(o.get("err")) or o.get("stage") in ("panic", "timeout"), "cycle": bool(o.get("cycle")),
            "dup": len(set(nz)) != len(nz), "unknown": any(f == 0 for f in fs), "nodes": nodes}


def strip(c):
    return {"id": c["id"], "cwd": c["cwd"], "incdirs": c["incdirs"],
            "main": c["main"], "files": [{"d": f["d"], "n": f["n"],
                                          "inc": [{"up": t["up"], "segs": t["segs"], "n": t["n"]} for t in f["inc"]]}
                                         for f in c["files"]]}


def run_incl(ctx, harness, cases, tag):
    """observations in case order; a crash of the harness process (fatal error, e.g. stack overflow) is pinned on one case"""
    def go(sub, depth):
        inf = ctx.path("incl", "%s-%d-%s-in.ndjson" % (tag, depth, sub[0]["id"]))
        outf = inf[:-9] + "out.ndjson"
        vlib.write_ndjson(inf, [harness_row(c) for c in sub])
        p = ctx.run([harness, "incl", inf, outf], timeout=1800, check=False)
        if p.returncode == 0:
            res = vlib.read_ndjson(outf)
            if len(res) != len(sub):
                raise vlib.MachineryError("inproc incl returned %d observations for %d cases" % (len(res), len(sub)))
            return res
        if "fatal error" not in p.stderr and "goroutine" not in p.stderr and "signal" not in p.stderr:
            raise vlib.MachineryError("inproc incl failed: %s" % p.stderr[-2000:])
        if len(sub) == 1:
            crash = {"skip": False, "err": False, "stage": "panic", "msg": "process died: " + p.stderr[:600], "cycle": False, "nodes": []}
            return [{"id": sub[0]["id"], "file": crash, "batch": {"skip": True, "nodes": []}}]
        h = len(sub) // 2
        return go(sub[:h], depth + 1) + go(sub[h:], depth + 1)
    return go(cases, 0)


def judge(ctx, cases, obs, tag):
    res = ctx.tlc("Include", "MC_Include", "MC_Include", timeout=1800, label="MC_Include[%s]" % tag, files={
        "cases.json": json.dumps([strip(c) for c in cases]),
        "obs.json": json.dumps([{"file": project(c, o["file"]), "batch": project(c, o["batch"])} for c, o in zip(cases, obs)])})
    vs = {v["id"]: v for v in ctx.tlc_cases(res)}
    if len(vs) != len(cases):
        raise vlib.MachineryError("MC_Include judged %d of %d cases" % (len(vs), len(cases)))
    return vs


def phase(ctx, harness, n_random):
    rng = random.Random(1000 + ctx.seed)
    cases = family_cases(1)
    cases += [random_case(rng, len(cases) + 1 + k) for k in range(n_random)]
    obs = run_incl(ctx, harness, cases, "all")
    vs = judge(ctx, cases, obs, "all")
    cls_seen = {}
    bad = []
    for c, o in zip(cases, obs):
        v = vs[c["id"]]
        cls = "include:%s%s%s%s:n%d" % ("err" if v["err"] else "ok", "+cycle" if v["cyc"] else "", "+diamond" if v["dia"] else "",
                                         "+shadow" if v["sh"] else "", min(v["n"], 4))
        cls_seen[cls] = cls_seen.get(cls, 0) + 1
        ctx.count(1 if o["batch"].get("skip") else 2, cls)
        ctx.traces_validated += 1
        for api in ("file", "batch"):
            oo = o[api]
            if oo.get("skip"):
                continue
            if oo.get("stage") in ("panic", "timeout") or not v[api]:
                bad.append((c, api, oo, v))
    # vacuity: every kind of situation must have been exercised
    need = ["err", "ok", "+cycle", "+diamond", "+shadow"]
    for n in need:
        if not any(n in k for k in cls_seen):
            raise vlib.MachineryError("include phase vacuous: no case of kind %s" % n)
    if bad:
        # re-execute the suspicious cases alone before they count
        sub = [b[0] for b in bad]
        uniq = {c["id"]: c for c in sub}
        sub = [dict(c, id=k + 1) for k, c in enumerate(uniq.values())]
        obs2 = run_incl(ctx, harness, sub, "again")
        vs2 = judge(ctx, sub, obs2, "again")
        for c, o in zip(sub, obs2):
            v = vs2[c["id"]]
            for api in ("file", "batch"):
                oo = o[api]
                if oo.get("skip"):
                    continue
                crashed = oo.get("stage") in ("panic", "timeout")
                if crashed or not v[api]:
                    kind = oo["stage"] if crashed else ("error-flag" if project(c, oo)["err"] != v["err"] else "binding")
                    ctx.violation({"check": "C05.include", "api": api, "kind": kind},
                                  {"include_case": c, "harness_row": harness_row(c)},
                                  {"observation": oo, "projected": project(c, oo)},
                                  {"layer_A": {"missing": v["err"], "cycle": v["cyc"], "reach_size": v["n"]},
                                   "rule": "Include.tla ObsOK: first existing of [as written from the working directory, includer's "
                                           "directory, -i directories in order]; one tree per file; error iff a reachable include is "
                                           "missing; CircleDetect iff the include graph has a circle"},
                                  "include binding by parser.%s deviates from spec/Include (%s)" % (
                                      "ParseFile" if api == "file" else "ParseBatchString", kind))
    ctx.extra_cov.setdefault("c05_include", {}).update({"cases": len(cases), "classes": cls_seen})
    ctx.sample({"include_case": harness_row(cases[-1]), "observation": obs[-1]["file"], "verdict": vs[cases[-1]["id"]]})
    return len(cases)


def replay(ctx, harness, rp):
    c = dict(rp["case"]["include_case"], id=1)
    obs = run_incl(ctx, harness, [c], "replay")
    v = judge(ctx, [c], obs, "replay")[1]
    api = rp["class"]["api"]
    oo = obs[0][api]
    ctx.count(1, "replay")
    print(json.dumps({"observation": oo, "verdict": v}, sort_keys=True))
    if oo.get("stage") in ("panic", "timeout") or not v[api]:
        ctx.violation(rp["class"], rp["case"], rp["observed"], rp["expected"], rp["what"], rp.get("rerun"))
    return ctx.finish("replay of one include case")
