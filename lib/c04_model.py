"""C04 helpers: base programs, the index-based program model for spec/Pipeline (to_model / from_model),
application of the TLC-enumerated edit operations to program JSON, rendering with syntax faults,
command lines from the command-line model, observation of one thriftgo run.

Program JSON is the data model of lib/idl.py. The *model* is the image TLC works on (spec/Pipeline/IDLModel.tla).
"""
import os
import posixpath
import re
import subprocess
import sys
import time

import idl

INT32_MAX = 2147483647
INT32_MIN = -2147483648


# ----------------------------------------------------------------------------- base programs
def T(s):
    return idl.type_from_str(s)


def ID(s):
    return {"id": s}


def I(n):
    return {"i": n}


def S(s):
    return {"s": s, "q": '"'}


def rich_file(path, includes=(), ns=None):
    """A file with every kind of definition. includes: [(path, used)] - a used include is referenced by a type,
    a constant, an enum value and a base service."""
    p = os.path.splitext(os.path.basename(path))[0]
    P = p.upper()
    n = lambda x: P + x  # noqa: E731
    defs = [
        {"k": "typedef", "name": n("Int"), "type": T("i32")},
        {"k": "typedef", "name": n("Int2"), "type": T(n("Int"))},
        {"k": "enum", "name": n("E"), "values": [{"name": "A", "value": 1}, {"name": "B", "value": 2},
                                                 {"name": "C", "value": None}]},
        {"k": "const", "name": n("C"), "type": T("i32"), "value": I(7)},
        {"k": "const", "name": n("CE"), "type": T(n("E")), "value": ID(n("E") + ".A")},
        {"k": "const", "name": n("CS"), "type": T("string"), "value": S("s")},
        {"k": "struct", "name": n("S"), "fields": [
            idl.F(1, "default", T("i32"), "a"),
            idl.F(2, "optional", T("string"), "b", S("s")),
            idl.F(3, "default", T(n("E")), "e", ID(n("E") + ".B")),
            idl.F(4, "default", T("list<%s>" % n("Int2")), "l"),
        ]},
        {"k": "struct", "name": n("T"), "fields": [
            idl.F(1, "default", T(n("S")), "s", {"m": [[S("a"), I(1)], [S("b"), S("x")]]}),
            idl.F(-1, "optional", T("map<string,%s>" % n("Int")), "m"),     # a non-positive id (accepted, warned about)
        ]},
        {"k": "union", "name": n("U"), "fields": [
            idl.F(1, "default", T("i32"), "x", I(1)),
            idl.F(0, "default", T("string"), "y"),                          # id 0 likewise
        ]},
        {"k": "exception", "name": n("X"), "fields": [idl.F(1, "default", T("string"), "msg")]},
        {"k": "service", "name": n("Base"), "extends": None, "functions": [
            {"name": "ping", "oneway": False, "ret": None, "args": [], "throws": None},
        ]},
        {"k": "service", "name": n("Svc"), "extends": n("Base"), "functions": [
            {"name": "get", "oneway": False, "ret": T(n("S")),
             "args": [idl.F(1, "default", T("i32"), "id"), idl.F(2, "default", T(n("S")), "s")],
             "throws": [idl.F(1, "default", T(n("X")), "e")]},
            {"name": "fire", "oneway": True, "ret": None, "args": [idl.F(1, "default", T("i32"), "n")], "throws": None},
        ]},
    ]
    incs = []
    for ipath, used in includes:
        incs.append(ipath)
        if not used:
            continue
        q = os.path.splitext(os.path.basename(ipath))[0]
        Q = q.upper()
        defs += [
            {"k": "typedef", "name": n("Of" + Q), "type": T("%s.%sS" % (q, Q))},
            {"k": "const", "name": n("C" + Q), "type": T("i32"), "value": ID("%s.%sC" % (q, Q))},
            {"k": "const", "name": n("E" + Q), "type": T("%s.%sE" % (q, Q)), "value": ID("%s.%sE.A" % (q, Q))},
            {"k": "struct", "name": n("R" + Q), "fields": [
                idl.F(1, "default", T("%s.%sS" % (q, Q)), "s"),
                idl.F(2, "default", T("%s.%sE" % (q, Q)), "e", ID("%s.%sE.B" % (q, Q))),
            ]},
            {"k": "service", "name": n("Svc" + Q), "extends": "%s.%sBase" % (q, Q), "functions": []},
        ]
    f = {"path": path, "includes": incs, "namespaces": [], "defs": defs}
    if ns:
        f["namespaces"].append({"lang": "go", "name": ns})
    return f


def base_programs(tier):
    def prog(name, files):
        return {"name": name, "files": files}
    U, N = True, False
    out = [
        prog("single", [rich_file("a.thrift")]),
        prog("pairUsed", [rich_file("a.thrift", [("b.thrift", U)]), rich_file("b.thrift")]),
        prog("pairUnused", [rich_file("a.thrift", [("b.thrift", N)]), rich_file("b.thrift")]),
        prog("chain3", [rich_file("a.thrift", [("b.thrift", U)]), rich_file("b.thrift", [("c.thrift", U)]),
                        rich_file("c.thrift")]),
        prog("chain4", [rich_file("a.thrift", [("b.thrift", U)]), rich_file("b.thrift", [("c.thrift", U)]),
                        rich_file("c.thrift", [("d.thrift", N)]), rich_file("d.thrift")]),
        prog("diamond", [rich_file("a.thrift", [("b.thrift", U), ("c.thrift", U)]),
                         rich_file("b.thrift", [("d.thrift", U)]), rich_file("c.thrift", [("d.thrift", U)]),
                         rich_file("d.thrift")]),
    ]
    if tier == "thorough":
        out += [
            prog("unusedLeg", [rich_file("a.thrift", [("b.thrift", U), ("c.thrift", N)]), rich_file("b.thrift"),
                               rich_file("c.thrift", [("d.thrift", U)]), rich_file("d.thrift")]),
            prog("subdir", [rich_file("a.thrift", [("sub/b.thrift", U)], ns="top.a"),
                            rich_file("sub/b.thrift", [("c.thrift", U)], ns="top.sub.b"),
                            rich_file("sub/c.thrift")]),
            prog("fan", [rich_file("a.thrift", [("b.thrift", U), ("c.thrift", N), ("d.thrift", U)]),
                         rich_file("b.thrift"), rich_file("c.thrift"), rich_file("d.thrift")]),
        ]
    return out


# ----------------------------------------------------------------------------- JSON -> model
def _prefix(path):
    return os.path.splitext(os.path.basename(path))[0]


def _split_ref(name):
    i = name.rfind(".")
    if i < 0:
        return "", name
    return name[:i], name[i + 1:]


def type_to_model(t):
    n = t["n"]
    if n in ("list", "set"):
        return {"n": n, "v": type_to_model(t["v"])}
    if n == "map":
        return {"n": "map", "k": type_to_model(t["k"]), "v": type_to_model(t["v"])}
    if n in idl.BASE:
        return {"n": n}
    q, name = _split_ref(n)
    return {"n": "ref", "q": q, "name": name}


def value_to_model(v):
    if v is None:
        return {"t": "none"}
    if "i" in v:
        return {"t": "int"}
    if "d" in v:
        return {"t": "dbl"}
    if "s" in v:
        return {"t": "str", "s": v["s"]}
    if "id" in v:
        return {"t": "id", "parts": v["id"].split(".")}
    if "l" in v:
        return {"t": "list", "l": [value_to_model(x) for x in v["l"]]}
    if "m" in v:
        return {"t": "map", "m": [[value_to_model(k), value_to_model(x)] for k, x in v["m"]]}
    raise ValueError(v)


def field_to_model(f):
    if f.get("id") is None:
        raise ValueError("implicit field ids are outside the C04 universe")
    return {"id": f["id"], "name": f["name"], "req": f.get("req", "default"), "type": type_to_model(f["type"]),
            "hasDef": f.get("default") is not None, "def": value_to_model(f.get("default"))}


def enum_value_to_model(v):
    x = v.get("value")
    if x is None:
        return {"name": v["name"], "has": False, "v": 0, "oor": ""}
    x = int(x)
    if x > INT32_MAX:
        return {"name": v["name"], "has": True, "v": 0, "oor": "hi"}
    if x < INT32_MIN:
        return {"name": v["name"], "has": True, "v": 0, "oor": "lo"}
    return {"name": v["name"], "has": True, "v": x, "oor": ""}


def resolve_include(prog, fpath, ipath):
    """index (1-based) of the file an include of `fpath` names, 0 if there is none: the path as written
    (relative to the working directory = the program root), then relative to the including file."""
    paths = [f["path"] for f in prog["files"]]
    for cand in (posixpath.normpath(ipath), posixpath.normpath(posixpath.join(posixpath.dirname(fpath), ipath))):
        if cand in paths:
            return paths.index(cand) + 1
    return 0


def to_model(prog, syntax_bad=()):
    files = []
    for fi, f in enumerate(prog["files"]):
        m = {"path": f["path"], "prefix": _prefix(f["path"]), "syntax": "bad" if (fi + 1) in syntax_bad else "ok",
             "incs": [{"path": p, "prefix": _prefix(p), "target": resolve_include(prog, f["path"], p)}
                      for p in f.get("includes", [])],
             "tds": [], "consts": [], "enums": [], "structs": [], "services": []}
        for d in f["defs"]:
            k = d["k"]
            if k == "typedef":
                m["tds"].append({"name": d["name"], "type": type_to_model(d["type"])})
            elif k == "const":
                m["consts"].append({"name": d["name"], "type": type_to_model(d["type"]), "value": value_to_model(d["value"])})
            elif k == "enum":
                m["enums"].append({"name": d["name"], "values": [enum_value_to_model(v) for v in d["values"]]})
            elif k in ("struct", "union", "exception"):
                m["structs"].append({"cat": k, "name": d["name"], "fields": [field_to_model(x) for x in d["fields"]]})
            elif k == "service":
                ext = d.get("extends")
                q, name = _split_ref(ext) if ext else ("", "")
                m["services"].append({
                    "name": d["name"], "hasExt": bool(ext), "ext": {"n": "ref", "q": q, "name": name},
                    "funcs": [{"name": fn["name"], "oneway": bool(fn.get("oneway")), "void": fn.get("ret") is None,
                               "ret": type_to_model(fn["ret"]) if fn.get("ret") is not None else {"n": "void"},
                               "args": [field_to_model(x) for x in fn.get("args", [])],
                               "throws": [field_to_model(x) for x in (fn.get("throws") or [])]}
                              for fn in d["functions"]]})
            else:
                raise ValueError(k)
        files.append(m)
    return {"files": files}


# ----------------------------------------------------------------------------- model -> JSON (payloads of edits)
def type_from_model(t):
    n = t["n"]
    if n in ("list", "set"):
        return {"n": n, "v": type_from_model(t["v"])}
    if n == "map":
        return {"n": "map", "k": type_from_model(t["k"]), "v": type_from_model(t["v"])}
    if n == "ref":
        return {"n": (t["q"] + "." if t["q"] else "") + t["name"]}
    return {"n": n}


def value_from_model(v):
    t = v["t"]
    if t == "none":
        return None
    if t == "int":
        return {"i": 1}
    if t == "dbl":
        return {"d": "1.5"}
    if t == "str":
        return {"s": v["s"], "q": '"'}
    if t == "id":
        return {"id": ".".join(v["parts"])}
    if t == "list":
        return {"l": [value_from_model(x) for x in v["l"]]}
    if t == "map":
        return {"m": [[value_from_model(k), value_from_model(x)] for k, x in v["m"]]}
    raise ValueError(v)


def field_from_model(f):
    return idl.F(f["id"], f.get("req", "default"), type_from_model(f["type"]), f["name"],
                 value_from_model(f["def"]) if f["hasDef"] else None)


def enum_value_from_model(v):
    if not v["has"]:
        return {"name": v["name"], "value": None}
    if v["oor"] == "hi":
        return {"name": v["name"], "value": INT32_MAX + 1}
    if v["oor"] == "lo":
        return {"name": v["name"], "value": INT32_MIN - 1}
    return {"name": v["name"], "value": v["v"]}


def func_from_model(fn):
    return {"name": fn["name"], "oneway": fn["oneway"], "ret": None if fn["void"] else type_from_model(fn["ret"]),
            "args": [field_from_model(x) for x in fn["args"]],
            "throws": [field_from_model(x) for x in fn["throws"]] or None}


def def_from_model(kind, d):
    if kind == "typedef":
        return {"k": "typedef", "name": d["name"], "type": type_from_model(d["type"])}
    if kind == "const":
        return {"k": "const", "name": d["name"], "type": type_from_model(d["type"]), "value": value_from_model(d["value"])}
    if kind == "enum":
        return {"k": "enum", "name": d["name"], "values": [enum_value_from_model(v) for v in d["values"]]}
    if kind == "struct":
        return {"k": d["cat"], "name": d["name"], "fields": [field_from_model(x) for x in d["fields"]]}
    if kind == "service":
        ext = d["ext"]
        return {"k": "service", "name": d["name"],
                "extends": ((ext["q"] + "." if ext["q"] else "") + ext["name"]) if d["hasExt"] else None,
                "functions": [func_from_model(fn) for fn in d["funcs"]]}
    raise ValueError(kind)


# ----------------------------------------------------------------------------- edits
def _nth(defs, kinds, i):
    """the i-th (1-based) definition whose kind is in `kinds`, in source order"""
    k = 0
    for d in defs:
        if d["k"] in kinds:
            k += 1
            if k == i:
                return d
    raise IndexError((kinds, i))


def apply_ops(prog, ops):
    """Applies the operations of an edit (spec/Pipeline/Edits.tla) to a deep copy of the program JSON.
    Returns (program, {file index: [syntax variants]})."""
    import copy
    prog = copy.deepcopy(prog)
    syntax = {}
    for o in ops:
        f = prog["files"][o["f"] - 1]
        op, x = o["op"], o["x"]
        if op == "syntax":
            syntax.setdefault(o["f"], []).append(x["variant"])
        elif op == "addInc":
            if x["target"] == 0:
                path = x["path"]
            else:
                tgt = prog["files"][x["target"] - 1]["path"]
                path = posixpath.relpath(tgt, posixpath.dirname(f["path"]) or ".")
            f.setdefault("includes", []).append(path)
        elif op == "addDef":
            f["defs"].append(def_from_model(x["kind"], x["def"]))
        elif op == "addField":
            _nth(f["defs"], ("struct", "union", "exception"), o["a"])["fields"].append(field_from_model(x))
        elif op in ("addArg", "addThrow", "addFunc"):
            svc = _nth(f["defs"], ("service",), o["a"])
            if op == "addFunc":
                svc["functions"].append(func_from_model(x))
            else:
                fn = svc["functions"][o["b"] - 1]
                if op == "addArg":
                    fn["args"].append(field_from_model(x))
                else:
                    fn["throws"] = (fn.get("throws") or []) + [field_from_model(x)]
        elif op == "addEnumVals":
            _nth(f["defs"], ("enum",), o["a"])["values"] += [enum_value_from_model(v) for v in x]
        else:
            raise ValueError(op)
    return prog, syntax


def mutate_text(text, variant):
    """makes a grammatical document ungrammatical"""
    if variant == "dropClose":
        i = text.rfind("}")
        if i < 0:
            raise ValueError("no closing brace to drop")
        return text[:i] + text[i + 1:]
    if variant == "stray":
        return "}\n" + text
    if variant == "unterminated":
        return text + '\nconst string Zq = "abc\n'
    if variant == "badKeyword":
        return text + "\nstrukt Zq {}\n"
    if variant == "missingName":
        return text + "\nstruct {}\n"
    if variant == "doubleEqual":
        return text + "\nconst i32 Zq == 1\n"
    raise ValueError(variant)


def write_program(prog, root, syntax=None):
    """renders every file under root (syntax: {file index: [variants]}); returns the main path relative to root"""
    for i, f in enumerate(prog["files"]):
        text = idl.render_file(f)
        for v in (syntax or {}).get(i + 1, []):
            text = mutate_text(text, v)
        p = os.path.join(root, f["path"])
        os.makedirs(os.path.dirname(p), exist_ok=True)
        with open(p, "w", encoding="utf-8", newline="") as fh:
            fh.write(text)
    return prog["files"][0]["path"]


# ----------------------------------------------------------------------------- command line
def option_text(o):
    return o["n"] + ("=" + o["v"] if o["hasV"] else "")


def check_cmd_model(cmd):
    for l in cmd["langs"]:
        for o in l["opts"]:
            if ("=" in o["v"]) != bool(o["vHasEq"]):
                raise ValueError("vHasEq inconsistent: %r" % (o,))
            if not o["hasV"] and o["v"] != "":
                raise ValueError("value without hasV: %r" % (o,))


def argv_of(cmd, main, out="out"):
    """the argument vector (without the binary) the command-line model stands for"""
    check_cmd_model(cmd)
    a = []
    if not cmd["flagsOk"]:
        a.append("-zzz")
    if cmd["recursive"]:
        a.append("-r")
    for l in cmd["langs"]:
        a += ["-g", l["name"] + (":" + ",".join(option_text(o) for o in l["opts"]) if l["opts"] else "")]
    for p in cmd["plugins"]:
        if p["exists"]:
            raise ValueError("existing plugins are outside the C04 universe")
        a += ["-p", p["name"]]
    a += ["-o", out]
    idl_path = main if cmd["idlExists"] else "nosuchmain.thrift"
    a += [idl_path] * cmd["idls"]
    return a


# ----------------------------------------------------------------------------- observation
CRASH_MARKS = ("panic:", "goroutine ", "fatal error:", "Recovered from panic", "runtime error:", "runtime.gopanic",
               "runtime/debug.Stack")
LOG_LINE = re.compile(r"^\[(WARN|INFO)\]")


def go_file_keys(prog):
    """{relative output path: [file index, kind]} for every file thriftgo may generate for the program"""
    keys = {}
    for i, f in enumerate(prog["files"]):
        base = _prefix(f["path"])
        ns = None
        star = None
        for n in f.get("namespaces", []):
            if n["lang"] == "go":
                ns = n["name"]
            if n["lang"] == "*":
                star = n["name"]
        ns = ns or star
        d = ns.replace(".", "/") if ns else base.lower()
        keys[posixpath.join(d, base + ".go")] = [i + 1, "go"]
        keys[posixpath.join(d, "k-" + base + ".go")] = [i + 1, "k"]
    return keys


def clip(s, n):
    """head and tail of a long output"""
    return s if len(s) <= n else s[:n // 2] + "\n...[%d bytes left out]...\n" % (len(s) - n) + s[-n // 2:]


_CONFIRMED_HANGS = 0
import threading as _threading
_LOCK = _threading.Lock()


def observe(binary, argv, cwd, keys, out="out", limit=30.0, long_limit=600.0, env=None):
    """one run of thriftgo. A run that exceeds `limit` is repeated once with `long_limit` (a loaded machine
    must not turn a slow crash into a hang); only a run that exceeds that too is a hang."""
    out_dir = os.path.join(cwd, out)
    res = None
    # once a few runs have been confirmed as hangs with the long limit (a tree that hangs on a whole class of inputs),
    # later slow runs get a shorter second limit, so that the check still ends with a verdict
    global _CONFIRMED_HANGS
    for attempt in (0, 1):
        lim = limit
        if attempt == 1:
            # second try of a run that exceeded `limit`: the first three such runs of this process get the long
            # limit (a loaded machine must not turn a slow crash into a hang), later ones a short one, so that a
            # tree that hangs on a whole class of inputs still gets its verdict in time
            with _LOCK:
                _CONFIRMED_HANGS += 1
                lim = long_limit if _CONFIRMED_HANGS <= 3 else 2 * limit
        if os.path.isdir(out_dir):
            import shutil
            shutil.rmtree(out_dir)
        t0 = time.time()
        try:
            p = subprocess.run([binary] + argv, cwd=cwd, env=env, stdin=subprocess.DEVNULL, stdout=subprocess.PIPE,
                               stderr=subprocess.PIPE, timeout=lim)
            res = (p.returncode, p.stdout.decode("utf-8", "replace"), p.stderr.decode("utf-8", "replace"),
                   time.time() - t0)
            break
        except subprocess.TimeoutExpired as ex:
            res = (None, (ex.stdout or b"").decode("utf-8", "replace"), (ex.stderr or b"").decode("utf-8", "replace"),
                   time.time() - t0)
    rc, so, se, wall = res
    text = so + "\n" + se
    if "files" in keys:            # a program JSON instead of the key table
        keys = go_file_keys(keys)
    files = []
    others = []
    if os.path.isdir(out_dir):
        for dp, _, fns in os.walk(out_dir):
            for fn in fns:
                rel = posixpath.relpath(os.path.join(dp, fn), out_dir)
                if rel in keys and os.path.getsize(os.path.join(dp, fn)) > 0:
                    files.append(keys[rel])
                else:
                    others.append(rel)
                    files.append([0, rel])
    diag = any(ln.strip() and not LOG_LINE.match(ln) for ln in text.splitlines())
    crash = [m for m in CRASH_MARKS if m in text]
    if rc is None:
        ex = "timeout"
    elif rc == 0:
        ex = "zero"
    elif rc > 0:
        ex = "nonzero"
    else:
        ex = "signal"
    return {"exit": ex, "rc": rc, "diag": diag, "crash": bool(crash), "crash_marks": crash,
            "files": sorted(files, key=lambda x: (str(x[0]), x[1])), "other_files": others, "wall_s": round(wall, 3),
            "slow": lim != limit,
            "stdout": clip(so, 1500), "stderr": clip(se, 3000)}


MECH_PATTERNS = [
    ("crash.stackOverflow", r"fatal error: stack overflow"),
    ("main.recover", r"Recovered from panic"),
    ("backend.recover", r"process '.*' failed: err = "),
    ("args.flag", r"flag provided but not defined|invalid value .* for flag|flag needs an argument"),
    ("args.idlCount", r"require exactly 1 argument"),
    ("parse.peg", r"parse .* err:|parse error near"),
    ("parse.search", r"^search .*|no such file or directory|file does not exist"),
    ("circle", r"found include circle"),
    ("check.globals", r"duplicated names in global scope"),
    ("check.enums", r"has duplicated value|duplicate value -?\d+ between|enum overflow"),
    ("check.structs", r"duplicated field ID|duplicated field name"),
    ("check.unions", r"provides another default value"),
    ("check.functions", r"duplicated function name|oneway function must be void|oneway methods can't throw|"
                        r"duplicated (argument|exception) (ID|name)"),
    ("resolve.names", r"multiple definition of"),
    ("resolve.type", r"undefined type|unexpected type category|invalid type name"),
    ("resolve.undefinedValue", r"undefined value"),
    ("resolve.ambiguous", r"ambiguous const value"),
    ("resolve.base", r"base service .* not found"),
    ("resolve.typedefs", r"typedefs can not be resolved"),
    ("targets.parse", r"ParseArguments: empty string"),
    ("targets.noLang", r"No output language\(s\) specified"),
    ("backend.lang", r"No generator for language"),
    ("backend.plugin", r"executable file not found"),
    ("backend.options", r"unknown template name|unsupported naming style|invalid argument for use_package|"
                        r"expect a bool value|mutually exclusive|requires with_reflection|requires gen_json_tag"),
    ("backend.exit", r"type error:|expect literals as keys|not found in \"|expect const value for"),
]


def mechanism_of(obs):
    """the mechanism that ended the run, inferred from the diagnostic (informational: compared with layer B)"""
    text = obs["stdout"] + "\n" + obs["stderr"]
    if obs["exit"] == "zero" and not obs["crash"]:
        return "ok"
    for name, pat in MECH_PATTERNS:
        if re.search(pat, text, re.M):
            return name
    return "?"


def same_mechanism(model, observed):
    """the diagnostic does not tell at which stage an option / a backend name was rejected"""
    n = lambda m: m.replace("targets.options", "backend.options").replace("targets.lang", "backend.lang")  # noqa: E731
    return n(model) == n(observed)


def run_manifest(manifest, out, workers):
    """Executes the runs of a manifest (ndjson: id, binary, argv, cwd, keys, out, limit) and writes one observation
    per line. Runs as a process of its own (python3 c04_model.py run ...): spawning thousands of children from the
    check's process, whose heap holds the whole universe, costs a page-table copy each."""
    import concurrent.futures
    import json
    import shutil
    rows = [json.loads(ln) for ln in open(manifest) if ln.strip()]

    def one(r):
        o = observe(r["binary"], r["argv"], r["cwd"], r["keys"], out=r["out"], limit=r.get("limit", 30.0))
        shutil.rmtree(os.path.join(r["cwd"], r["out"]), ignore_errors=True)
        o["id"] = r["id"]
        return o
    with open(out, "w") as fh, concurrent.futures.ThreadPoolExecutor(max_workers=workers) as ex:
        for k, o in enumerate(ex.map(one, rows), 1):
            fh.write(json.dumps(o) + "\n")
            if k % 5000 == 0:
                print("[verif] %d / %d runs done" % (k, len(rows)), file=sys.stderr, flush=True)


if __name__ == "__main__":
    import sys
    if len(sys.argv) == 5 and sys.argv[1] == "run":
        run_manifest(sys.argv[2], sys.argv[3], int(sys.argv[4]))
    else:
        sys.exit("usage: c04_model.py run <manifest.ndjson> <observations.ndjson> <workers>")
