"""C08 model library: service universes (program JSON), the resolved schema with the synthesised
<fn>_args / <fn>_result struct-likes, the service tables handed to TLC (spec/Rpc), a parser for the generated Go
service interfaces, and the generator of the typed half of the driver (handlers, client call stubs).
"""
import copy
import json
import os
import re

import schema as schemalib
from idl import F, T

# ----------------------------------------------------------------------------------------------
# universe
# ----------------------------------------------------------------------------------------------
# names that are Go keywords or collide with identifiers of the generated client / processor code
AWKWARD_ARGS = ["p", "err", "ctx", "r", "_result", "success", "type", "range", "a", "args", "result", "retval",
                "self", "handler", "iprot", "oprot", "seqId", "v", "x", "_args", "thrift", "context", "func", "err2",
                "name", "processor", "ok", "b"]
AWKWARD_METHODS = ["type", "range", "func", "success", "p", "err", "ctx", "r", "process", "args", "result", "select",
                   "go", "new", "client", "handler", "flush", "Process", "string", "error", "nil"]
AWKWARD_THROWS = ["e", "p", "err", "ctx", "r", "x", "err2", "v", "type", "result"]

SCALARS = ["i32", "string", "bool", "i64", "double", "binary", "i8", "i16", "E"]
STRUCTS = ["In", "Dflt"]
CONTAINERS = ["list<i32>", "map<string,In>", "set<string>", "list<In>", "map<i32,list<string>>", "list<binary>",
              "map<E,i64>", "set<i16>"]


ARG_DEFAULTS = {"bool": {"id": "true"}, "i8": {"i": 5}, "i16": {"i": 300}, "i32": {"i": 7}, "i64": {"i": 9},
                "double": {"d": "1.5"}, "string": {"s": "hi"}, "binary": {"s": "hi"}, "E": {"i": 2}}
# (an identifier default such as E.B in an argument list crashes thriftgo: see probe `argident`)


def _ty(s, prefix):
    """type string -> TYPE with references to E / In / X1 qualified by `prefix` ('' or 'c.')"""
    import idl
    t = idl.type_from_str(s)

    def fix(t):
        if t["n"] in ("list", "set"):
            return {"n": t["n"], "v": fix(t["v"])}
        if t["n"] == "map":
            return {"n": "map", "k": fix(t["k"]), "v": fix(t["v"])}
        if t["n"] in ("E", "In", "X1", "Dflt"):
            return {"n": prefix + t["n"]}
        return t
    return fix(t)


class Rot:
    """rotation state: every pool is walked round-robin over the whole universe"""

    def __init__(self):
        self.n = {}

    def next(self, key, pool):
        i = self.n.get(key, 0)
        self.n[key] = i + 1
        return pool[i % len(pool)]


def make_function(i, shape, name, prefix, local_types, rot):
    """shape = {ret: void|oneway|scalar|struct|container, na: 0..3, nt: 0..2}; i = running number; rot drives the
    rotation through type and name pools so that the whole universe uses every type and every awkward name."""
    loc = local_types or []
    tag = "L" if loc else "I"       # services of the main file may also use its local types
    allt = SCALARS + STRUCTS + CONTAINERS + loc
    kind = shape["ret"]
    ret = None
    if kind == "scalar":
        ret = _ty(rot.next("scalar", SCALARS), prefix)
    elif kind == "struct":
        ret = _ty(rot.next("struct" + tag, STRUCTS + loc), prefix)
    elif kind == "container":
        ret = _ty(rot.next("container", CONTAINERS), prefix)
    ids = [1, 2, 3] if i % 4 else [2, 5, 9]
    args = []
    used = set()
    for j in range(shape["na"]):
        nm = rot.next("argname", AWKWARD_ARGS)
        while nm in used:
            nm += "x"
        used.add(nm)
        tn = rot.next("arg" + tag, allt)
        # every few arguments: `required`, or a declared default value (scalars)
        req = rot.next("argreq", ["default", "default", "optional", "required", "default", "default", "default"])
        dv = None
        if tn in ARG_DEFAULTS and rot.next("argdef", [0, 0, 1, 0, 1]):
            dv = ARG_DEFAULTS[tn]
        args.append(F(ids[j], req, _ty(tn, prefix), nm, dv))
    throws = None
    if shape["nt"] > 0:
        excs = [prefix + "X1", "X2"] if local_types is not None else [prefix + "X1", prefix + "X1b"]
        if rot.next("excorder", [0, 1, 1, 0, 1]):
            excs.reverse()
        tids = [1, 2] if i % 3 else [3, 7]
        throws = []
        for j in range(shape["nt"]):
            nm = rot.next("thrname", AWKWARD_THROWS)
            while nm in used:
                nm += "x"
            used.add(nm)
            # requiredness keywords inside throws lists must not matter: the exception fields of <fn>_result are optional
            throws.append(F(tids[j], rot.next("thrreq", ["default", "required", "optional", "default", "required"]),
                            {"n": excs[j]}, nm))
    return {"name": name, "oneway": kind == "oneway", "ret": ret, "args": args, "throws": throws}


def main_program(shapes):
    """Three files, five services:
         inc/deep/c.thrift  enum E, struct In, exceptions X1 X1b, service Root
         inc/b.thrift       service Base extends c.Root
         a.thrift           struct Loc, exception X2, service Local, service Derived extends Local,
                            service Svc extends b.Base  (inherits through two levels of included files)
    Every shape becomes one method; awkward method names go to Svc and Derived."""
    shapes = list(shapes)
    n = len(shapes)
    # spread: Root, Base, Local, Derived get a stride of the shapes, Svc the rest
    part = {"Root": [], "Base": [], "Local": [], "Derived": [], "Svc": []}
    for i, sh in enumerate(shapes):
        if i % 8 == 1:
            part["Root"].append((i, sh))
        elif i % 8 == 3:
            part["Base"].append((i, sh))
        elif i % 8 == 5:
            part["Local"].append((i, sh))
        elif i % 8 == 7:
            part["Derived"].append((i, sh))
        else:
            part["Svc"].append((i, sh))
    awk = iter(AWKWARD_METHODS)
    rot = Rot()

    def fns(svc, prefix, local_types, awkward):
        out = []
        for j, (i, sh) in enumerate(part[svc]):
            nm = None
            if awkward and j % 2 == 0:
                nm = next(awk, None)
            if nm is None:
                nm = "%s_m%d" % (svc.lower(), i)
            out.append(make_function(i, sh, nm, prefix, local_types, rot))
        return out
    c_defs = [
        {"k": "enum", "name": "E", "values": [{"name": "A", "value": 1}, {"name": "B", "value": None},
                                              {"name": "C", "value": 5}]},
        {"k": "struct", "name": "In", "fields": [F(1, "default", T("i32"), "x"), F(2, "optional", T("string"), "y")]},
        {"k": "struct", "name": "Dflt", "fields": [F(1, "default", T("i32"), "x", {"i": 3}), F(2, "optional", T("string"), "y", {"s": "q"}),
                                                   F(3, "optional", T("In"), "inner")]},
        {"k": "exception", "name": "X1", "fields": [F(1, "default", T("string"), "msg"), F(2, "required", T("i32"), "code")]},
        {"k": "exception", "name": "X1b", "fields": [F(1, "optional", T("In"), "inner")]},
        {"k": "service", "name": "Root", "extends": None, "functions": fns("Root", "", None, False)},
    ]
    i32, st = T("i32"), T("string")
    b_defs = [{"k": "service", "name": "Base", "extends": "c.Root", "functions": fns("Base", "c.", None, False)},
              # `Shared` exists twice: here and, unrelated, in the main file; Ext extends THIS one (written b.Shared)
              {"k": "service", "name": "Shared", "extends": None, "functions": [
                  {"name": "shared_inc", "oneway": False, "ret": i32, "args": [F(1, "default", i32, "x")],
                   "throws": [F(1, "required", {"n": "c.X1"}, "e")]}]}]
    loc = ["Loc"]
    a_defs = [
        {"k": "struct", "name": "Loc", "fields": [F(1, "default", T("i64"), "n"), F(2, "optional", T("list", T("string")), "tags"),
                                                  F(3, "default", {"n": "c.In"}, "inner")]},
        {"k": "exception", "name": "X2", "fields": [F(1, "required", T("i32"), "code"), F(2, "optional", {"n": "c.In"}, "inner"),
                                                    F(3, "default", T("map", T("string"), T("i32")), "m")]},
        {"k": "service", "name": "Local", "extends": None, "functions": fns("Local", "c.", loc, False)},
        {"k": "service", "name": "Derived", "extends": "Local", "functions": fns("Derived", "c.", loc, True) + [
            # `success` everywhere it can legally go (a throws field named success on a non-void method does not compile)
            {"name": "success", "oneway": False, "ret": None, "args": [F(1, "default", T("i32"), "success")],
             "throws": [F(1, "default", T("X2"), "success")]},
            {"name": "Success", "oneway": False, "ret": T("i32"), "args": [F(1, "default", T("i32"), "Success")],
             "throws": [F(1, "default", {"n": "c.X1"}, "Success")]},
        ]},
        {"k": "service", "name": "Svc", "extends": "b.Base", "functions": fns("Svc", "c.", loc, True)},
        {"k": "service", "name": "Shared", "extends": None, "functions": [
            {"name": "shared_loc", "oneway": False, "ret": st, "args": [F(1, "default", st, "s")], "throws": None}]},
        {"k": "service", "name": "Ext", "extends": "b.Shared", "functions": [
            {"name": "ext_get", "oneway": False, "ret": st, "args": [F(1, "default", st, "key")],
             "throws": [F(1, "required", T("X2"), "nf")]},
            {"name": "ext_put", "oneway": False, "ret": None, "args": [F(1, "optional", i32, "n"), F(2, "required", st, "v")],
             "throws": [F(1, "optional", T("X2"), "e"), F(2, "required", {"n": "c.X1"}, "r")]}]},
    ]
    return {"files": [
        {"path": "a.thrift", "includes": ["inc/b.thrift", "inc/deep/c.thrift"], "namespaces": [{"lang": "go", "name": "u"}],
         "defs": a_defs},
        {"path": "inc/b.thrift", "includes": ["deep/c.thrift"], "namespaces": [{"lang": "go", "name": "u.inc"}], "defs": b_defs},
        {"path": "inc/deep/c.thrift", "namespaces": [{"lang": "go", "name": "u.inc.deep"}], "defs": c_defs},
    ]}


X1 = {"k": "exception", "name": "X1", "fields": [F(1, "default", T("string"), "msg"), F(2, "required", T("i32"), "code")]}


def probe_programs():
    """programs the reading of the templates singles out; each is its own lab case so that a compile failure of
    the generated code (C01's business) stays isolated. expect: what the reading predicts."""
    def prog(fn):
        return {"files": [{"path": "a.thrift", "namespaces": [{"lang": "go", "name": "u"}],
                           "defs": [copy.deepcopy(X1), {"k": "service", "name": "S", "extends": None, "functions": fn}]}]}
    i32 = T("i32")
    return {
        "dupthrow": dict(prog=prog([{"name": "f", "oneway": False, "ret": i32, "args": [F(1, "default", i32, "a")],
                                     "throws": [F(1, "default", T("X1"), "x"), F(2, "default", T("X1"), "y")]}]),
                         what="two throws fields of the same exception type"),
        "succthrow": dict(prog=prog([{"name": "f", "oneway": False, "ret": i32, "args": [F(1, "default", i32, "a")],
                                      "throws": [F(1, "default", T("X1"), "success")]}]),
                          what="throws field named `success` on a non-void method"),
        "clientm": dict(prog=prog([{"name": "client_", "oneway": False, "ret": i32, "args": [F(1, "default", i32, "a")],
                                    "throws": None}]),
                        what="method named `client_` (collides with the generated Client_ accessor)"),
        "undersc": dict(prog=prog([{"name": "_result", "oneway": False, "ret": i32, "args": [F(1, "default", i32, "_args")],
                                    "throws": [F(1, "default", T("X1"), "_e")]}]),
                        what="method named `_result` (Go name starts with an underscore)"),
        "argident": dict(prog={"files": [{"path": "a.thrift", "namespaces": [{"lang": "go", "name": "u"}], "defs": [
            {"k": "enum", "name": "E", "values": [{"name": "A", "value": 1}, {"name": "B", "value": None}]},
            {"k": "const", "name": "K", "type": i32, "value": {"i": 4}},
            {"k": "service", "name": "S", "extends": None, "functions": [
                {"name": "f", "oneway": False, "ret": None, "throws": None,
                 "args": [F(1, "default", T("E"), "e", {"id": "E.B"}), F(2, "default", i32, "k", {"id": "K"})]}]}]}]},
                         what="argument default written as an identifier (enum value / constant)"),
        "succvoid": dict(prog=prog([{"name": "success", "oneway": False, "ret": None, "args": [F(1, "default", i32, "success")],
                                     "throws": [F(1, "default", T("X1"), "success")]},
                                    {"name": "Success", "oneway": False, "ret": i32, "args": [F(1, "default", i32, "Success")],
                                     "throws": [F(1, "default", T("X1"), "Success")]}]),
                         what="void method / argument / throws field all named `success`, and capitalised on a value method"),
    }


# ----------------------------------------------------------------------------------------------
# schema with synthesised structs + service tables
# ----------------------------------------------------------------------------------------------
def services_of(prog):
    out = []
    for f in prog["files"]:
        for d in f.get("defs", []):
            if d["k"] == "service":
                out.append((f, d))
    return out


def rpc_schema(prog):
    """-> (schema, services). schema = lib/schema.py schema + '<Svc>.<fn>_args' / '<Svc>.<fn>_result' struct-likes.
    services = [{name, file, base (name|None), methods: [{name, oneway, void, args: struct name, result: struct name|None,
                 argl: [{name, type}], ret: stype|None, throws: [{id, name, s}]}]}]   (in program order)"""
    rs = schemalib.Resolver(prog)
    sc = rs.schema()
    svcs = []
    # a service is known by a unique key: its IDL name, or <name>_<file base> when several files declare that name
    allsv = services_of(prog)
    cnt = {}
    for f, d in allsv:
        cnt[d["name"]] = cnt.get(d["name"], 0) + 1
    key = {}
    for f, d in allsv:
        fb = os.path.basename(f["path"])[:-7]
        key[(f["path"], d["name"])] = d["name"] if cnt[d["name"]] == 1 else "%s_%s" % (d["name"], fb)
    for f, d in allsv:
        base = None
        if d.get("extends"):
            ext = d["extends"]
            if "." in ext:
                pre, bn = ext.split(".", 1)
                for inc in f.get("includes", []):
                    if os.path.basename(inc)[:-7] == pre:
                        base = key[(os.path.normpath(os.path.join(os.path.dirname(f["path"]), inc)), bn)]
            else:
                base = key[(f["path"], ext)]
            if base is None:
                raise ValueError("base service %s of %s not found" % (ext, d["name"]))
        dkey = key[(f["path"], d["name"])]
        ms = []
        for fn in d["functions"]:
            an = "%s.%s_args" % (dkey, fn["name"])
            afields = []
            for a in fn.get("args") or []:
                st = rs.stype(f["path"], a["type"])
                de = schemalib.NONE
                if a.get("default") is not None:
                    at = rs.atom(f["path"], st, a["default"])
                    if at is None:
                        raise ValueError("default of argument %s not expressible" % a["name"])
                    de = {"a": at}
                req = a.get("req", "default")
                # thriftgo: "optional keyword is ignored in argument lists"
                afields.append({"id": a["id"], "req": "default" if req == "optional" else req, "name": a["name"],
                                "type": st, "def": de, "w": 0})
            sc["structs"][an] = {"kind": "struct", "fields": afields}
            rn = None
            throws = []
            ret = rs.stype(f["path"], fn["ret"]) if fn.get("ret") is not None else None
            if not fn.get("oneway"):
                rn = "%s.%s_result" % (dkey, fn["name"])
                rfields = []
                if ret is not None:
                    rfields.append({"id": 0, "req": "optional", "name": "success", "type": ret, "def": schemalib.NONE, "w": 0})
                for t in fn.get("throws") or []:
                    st = rs.stype(f["path"], t["type"])
                    rfields.append({"id": t["id"], "req": "optional", "name": t["name"], "type": st,
                                    "def": schemalib.NONE, "w": 0})
                    throws.append({"id": t["id"], "name": t["name"], "s": st["s"]})
                sc["structs"][rn] = {"kind": "struct", "fields": rfields}
            ms.append({"name": fn["name"], "oneway": bool(fn.get("oneway")), "void": ret is None, "args": an, "result": rn,
                       "argl": [{"name": x["name"], "type": x["type"]} for x in afields], "ret": ret, "throws": throws})
        svcs.append({"name": dkey, "idl": d["name"], "file": f["path"], "base": base, "methods": ms})
    return sc, svcs


def chain(svcs, name):
    by = {s["name"]: s for s in svcs}
    out = []
    while name:
        out.append(by[name])
        name = by[name]["base"]
    return out


def table(svcs, name):
    """dispatch table of a service: [(defining service, method)] own first, then inherited"""
    return [(s, m) for s in chain(svcs, name) for m in s["methods"]]


def to_tla(sc, svcs):
    """index-based images for TLC: (schema.json content, services.json content, struct index, service index)"""
    tsc, sidx = schemalib.to_tla(sc)
    vidx = {s["name"]: i + 1 for i, s in enumerate(svcs)}
    snames = list(sc["structs"])
    enames = list(sc["enums"])
    eidx = {n: i + 1 for i, n in enumerate(enames)}

    def ty(t):
        n = t["n"]
        if n == "struct":
            return {"n": "struct", "s": sidx[t["s"]]}
        if n == "enum":
            return {"n": "enum", "e": eidx[t["e"]]}
        if n in ("list", "set"):
            return {"n": n, "v": ty(t["v"])}
        if n == "map":
            return {"n": "map", "k": ty(t["k"]), "v": ty(t["v"])}
        return {"n": n}
    out = []
    for s in svcs:
        ms = []
        for m in s["methods"]:
            ms.append({"name": m["name"], "oneway": m["oneway"], "void": m["void"], "args": sidx[m["args"]],
                       "result": sidx[m["result"]] if m["result"] else 0,
                       "ret": ty(m["ret"]) if m["ret"] else {"none": True},
                       "throws": [{"id": t["id"], "name": t["name"], "s": sidx[t["s"]]} for t in m["throws"]]})
        out.append({"name": s["name"], "base": vidx[s["base"]] if s["base"] else 0, "methods": ms})
    return tsc, out, sidx, vidx


# ----------------------------------------------------------------------------------------------
# the generated Go: service interfaces
# ----------------------------------------------------------------------------------------------
IMPORT_RE = re.compile(r'^\s*(?:(\w+)\s+)?"([^"]+)"\s*$')
SIG_RE = re.compile(r'^\t(\w+)\(ctx context\.Context(.*)\) \((?:r (.+), )?err error\)\s*$')
EMB_RE = re.compile(r'^\t(?:(\w+)\.)?(\w+)\s*$')


def parse_go_file(text):
    """-> {package, imports: {alias: path}, interfaces: {GoName: {embeds: [(alias|None, name)], methods: [(GoName,
    [(param, gotype)], ret gotype|None)], bad: [lines not understood]}}, order: [GoName...]}"""
    pkg = re.search(r'^package (\w+)', text, re.M).group(1)
    imports = {}
    m = re.search(r'^import \((.*?)^\)', text, re.M | re.S)
    if m:
        for ln in m.group(1).splitlines():
            mm = IMPORT_RE.match(ln)
            if mm:
                imports[mm.group(1) or mm.group(2).rsplit("/", 1)[-1]] = mm.group(2)
    ifaces = {}
    order = []
    for m in re.finditer(r'^type (\w+) interface \{\n(.*?)^\}', text, re.M | re.S):
        name = m.group(1)
        it = {"embeds": [], "methods": [], "bad": []}
        for ln in m.group(2).splitlines():
            if not ln.strip() or ln.strip().startswith("//"):
                continue
            s = SIG_RE.match(ln)
            if s:
                params = []
                rest = s.group(2)
                if rest:
                    for p in rest.split(", ")[1:]:
                        pn, pt = p.split(" ", 1)
                        params.append((pn, pt))
                it["methods"].append((s.group(1), params, s.group(3)))
                continue
            e = EMB_RE.match(ln)
            if e:
                it["embeds"].append((e.group(1), e.group(2)))
                continue
            it["bad"].append(ln)
        ifaces[name] = it
        order.append(name)
    return {"package": pkg, "imports": imports, "interfaces": ifaces, "order": order}


def qualify(gotype, own_alias, alias_map):
    """rewrite a Go type expression written inside a generated package so that it is valid in the driver's main
    package: exported identifiers of the package itself get `own_alias.`, other package qualifiers are translated
    through alias_map (generated file's alias -> driver alias)."""
    out = []
    pos = 0
    for m in re.finditer(r'(?:(\w+)\.)?([A-Za-z_]\w*)', gotype):
        out.append(gotype[pos:m.start()])
        pos = m.end()
        q, ident = m.group(1), m.group(2)
        if q:
            out.append("%s.%s" % (alias_map[q], ident))
        elif ident[0].isupper():
            out.append("%s.%s" % (own_alias, ident))
        else:
            out.append(ident)
    out.append(gotype[pos:])
    return "".join(out)


class GoGen:
    """collects the typed driver code of a lab"""

    def __init__(self):
        self.imports = {}     # import path -> alias
        self.code = []
        self.regs = []        # registration statements
        self.problems = []    # (case, what) things that stop a service from being driven

    def alias(self, path):
        if path not in self.imports:
            self.imports[path] = "q%d" % len(self.imports)
        return self.imports[path]

    def add_case(self, lab, c, sc, svcs, tested):
        """c: genlab Case (generated); svcs from rpc_schema; tested: names of services to instantiate."""
        root = lab.root
        files = {f["path"]: f for f in c.prog["files"]}
        parsed = {}
        for s in svcs:
            f = files[s["file"]]
            ip = lab.go_pkg_path(c, f)
            d = os.path.join(root, ip[len("labmod/"):])
            base = os.path.basename(s["file"])[:-7]
            gf = os.path.join(d, base + ".go")
            if s["file"] not in parsed:
                if not os.path.exists(gf):
                    self.problems.append((c.id, "generated file %s missing" % gf))
                    return False
                parsed[s["file"]] = (ip, parse_go_file(open(gf).read()))
        # IDL service -> Go interface by position among the service definitions of its file
        gosvc = {}
        for path in parsed:
            ip, pf = parsed[path]
            idl_svcs = [s for s in svcs if s["file"] == path]
            cands = list(pf["order"])
            if len(cands) != len(idl_svcs):
                self.problems.append((c.id, "%s: %d Go interfaces for %d services" % (path, len(cands), len(idl_svcs))))
                return False
            for s, gn in zip(idl_svcs, cands):
                it = pf["interfaces"][gn]
                if it["bad"] or len(it["methods"]) != len(s["methods"]):
                    self.problems.append((c.id, "interface %s: cannot match methods (%r)" % (gn, it["bad"][:2])))
                    return False
                unexp = [g for g, _, _ in it["methods"] if not g[0].isupper()]
                if unexp:
                    self.problems.append((c.id, "interface %s has unexported method(s) %s: no handler can be written "
                                                "outside the generated package" % (gn, ", ".join(unexp))))
                    return False
                gosvc[s["name"]] = (ip, pf, gn, it)
        for s in svcs:
            ip, pf, gn, it = gosvc[s["name"]]
            want = []
            if s["base"]:
                bip, _, bgn, _ = gosvc[s["base"]]
                want = [(bip, bgn)]
            got = [(pf["imports"].get(a, "?" + a) if a else ip, n) for a, n in it["embeds"]]
            if got != want:
                self.problems.append((c.id, "interface %s embeds %s but the IDL's base service is %s" % (
                    gn, ["%s.%s" % g for g in got], ["%s.%s" % w for w in want])))
                return False
        cid = c.id
        # handler types, one per defining service, embedding the base's handler
        for s in svcs:
            ip, pf, gn, it = gosvc[s["name"]]
            own = self.alias(ip)
            amap = {a: self.alias(p) for a, p in pf["imports"].items() if p.startswith("labmod/")}
            hn = "h_%s_%s" % (cid, s["name"])
            if s["base"]:
                self.code.append("type %s struct{ h_%s_%s }" % (hn, cid, s["base"]))
                self.code.append("func mk_%s(h *c08rpc.Handler) %s { return %s{mk_h_%s_%s(h)} }" % (hn, hn, hn, cid, s["base"]))
            else:
                self.code.append("type %s struct{ VerifH__ *c08rpc.Handler }" % hn)
                self.code.append("func mk_%s(h *c08rpc.Handler) %s { return %s{h} }" % (hn, hn, hn))
            for m, (gm, params, ret) in zip(s["methods"], it["methods"]):
                ps = "".join(", a%d %s" % (i, qualify(pt, own, amap)) for i, (_, pt) in enumerate(params))
                an = "".join(", a%d" % i for i in range(len(params)))
                if len(params) != len(m["argl"]):
                    self.problems.append((cid, "%s.%s: %d Go parameters for %d arguments" % (gn, gm, len(params), len(m["argl"]))))
                    return False
                if ret is None:
                    self.code.append("func (h %s) %s(ctx context.Context%s) (err error) {\n\to := h.VerifH__.Enter(%s, %s%s)\n"
                                     "\treturn o.Err()\n}" % (hn, gm, ps, json.dumps(s["name"]), json.dumps(m["name"]), an))
                else:
                    self.code.append("func (h %s) %s(ctx context.Context%s) (r %s, err error) {\n\to := h.VerifH__.Enter(%s, %s%s)\n"
                                     "\to.Result(&r)\n\treturn r, o.Err()\n}" % (
                                         hn, gm, ps, qualify(ret, own, amap), json.dumps(s["name"]), json.dumps(m["name"]), an))
        # per tested service: client stubs over the whole dispatch table + registration
        for tname in tested:
            ip, pf, gn, it = gosvc[tname]
            own = self.alias(ip)
            ml = []
            for ds, m in table(svcs, tname):
                dip, dpf, dgn, dit = gosvc[ds["name"]]
                down = self.alias(dip)
                damap = {a: self.alias(p) for a, p in dpf["imports"].items() if p.startswith("labmod/")}
                gm, params, ret = dit["methods"][ds["methods"].index(m)]
                fn = "c_%s_%s_%s_%d" % (cid, tname, ds["name"], ds["methods"].index(m))
                body = ["func %s(cli interface{}, x *c08rpc.CallCtx) (interface{}, error) {" % fn,
                        "\tc := cli.(*%s.%sClient)" % (own, gn)]
                for i, (_, pt) in enumerate(params):
                    body.append("\tvar a%d %s\n\tx.Arg(%d, &a%d)" % (i, qualify(pt, down, damap), i, i))
                an = "".join(", a%d" % i for i in range(len(params)))
                if ret is None:
                    body.append("\terr := c.%s(x.Ctx%s)\n\treturn nil, err\n}" % (gm, an))
                else:
                    body.append("\tr, err := c.%s(x.Ctx%s)\n\treturn r, err\n}" % (gm, an))
                self.code.append("\n".join(body))
                args = ", ".join("{Name: %s, T: c08rpc.T(%s)}" % (json.dumps(a["name"]), json.dumps(json.dumps(a["type"])))
                                 for a in m["argl"])
                thr = ", ".join("{Name: %s, Key: %s, S: %s}" % (json.dumps(t["name"]), json.dumps(cid + "/" + t["s"]), json.dumps(t["s"]))
                                for t in m["throws"])
                ml.append("\t\t{Svc: %s, Name: %s, Oneway: %s, Void: %s, Args: []c08rpc.Arg{%s}, Ret: %s, "
                          "Throws: []c08rpc.Throw{%s}, Call: %s}," % (
                              json.dumps(ds["name"]), json.dumps(m["name"]), "true" if m["oneway"] else "false",
                              "true" if m["void"] else "false", args,
                              "c08rpc.TP(%s)" % json.dumps(json.dumps(m["ret"])) if m["ret"] else "nil", thr, fn))
            self.regs.append(
                "\tc08rpc.Register(&c08rpc.Service{Case: %s, Name: %s,\n"
                "\t\tNewClient: func(in, out thrift.TProtocol) interface{} { return %s.New%sClientProtocol(nil, in, out) },\n"
                "\t\tNewProcessor: func(h *c08rpc.Handler) thrift.TProcessor { return %s.New%sProcessor(mk_h_%s_%s(h)) },\n"
                "\t\tMethods: []*c08rpc.Method{\n%s\n\t}})" % (
                    json.dumps(cid), json.dumps(tname), own, gn, own, gn, cid, tname, "\n".join(ml)))
        return True

    def render(self):
        imports = ['"context"', '"verifharness/pkg/c08rpc"'] + ['%s "%s"' % (a, p) for p, a in self.imports.items()]
        code = ["func registerExtra() {"] + self.regs + ["\t_ = context.Background", "}", ""] + self.code
        return imports, "\n".join(code) + "\n"
