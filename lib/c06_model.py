"""C06 model data: literal tables (literal spelling -> atom, the projection TLC cannot compute because it has
no floats, 64-bit integers or string indexing), the context program (enums, structs and the constants that
identifier / qualified-identifier spellings refer to), the catalogue of ways of writing a leaf value, and the
conversion between the shared program JSON (lib/idl.py) and the index-free TLA image read by spec/Consts.

TLA image of a program (see spec/Consts/Consts.tla):
  P     = {"files": [FILE...], "nodef": bool}
  FILE  = {"pre": include prefix, "incs": [file index...], "typedefs": [{name, type}], "consts": [{name, type, val}],
           "enums": [{name, members: [{name, v?}]}], "structs": [{name, kind, fields: [{name, id, req, type, def}]}]}
  TYPE  = {"n": base} | {"n": "list"|"set", "v"} | {"n": "map", "k", "v"} | {"n": "ref", "p": [components...]}
  CV    = {"i": spelling} | {"d": spelling} | {"s": literal key} | {"id": [components...]} | {"l": [CV]} | {"m": [[CV, CV]]}
  def   = {"none": true} | CV
String and binary atoms are opaque to TLC: "str#<n>" / "bin#<n>", n = index of the distinct text in Lits.svals.
"""
import copy
import os
import re

import idl
from idl import F, T

BASE = ["bool", "i8", "i16", "i32", "i64", "double", "string", "binary"]
INTS = ["i8", "i16", "i32", "i64"]
RANGES = {"i8": (-2 ** 7, 2 ** 7 - 1), "i16": (-2 ** 15, 2 ** 15 - 1), "i32": (-2 ** 31, 2 ** 31 - 1),
          "i64": (-2 ** 63, 2 ** 63 - 1)}
LEAF_KINDS = BASE + ["E", "In", "b.IE", "b.BIn"]
KEY_KINDS = ["i8", "i32", "i64", "string", "bool", "E", "b.IE"]


def fmt_double(x):
    if x == int(x) and abs(x) < 1e15:
        return str(int(x))
    return repr(float(x))


def parse_int(sp):
    """IntConstant of the IDL grammar: '0x' hex | '0o' octal | [+-]? decimal digits"""
    sp = str(sp)
    if re.fullmatch(r"0x[0-9A-Za-z]+", sp):
        return int(sp[2:], 16)
    if re.fullmatch(r"0o[0-7]+", sp):
        return int(sp[2:], 8)
    if re.fullmatch(r"[+-]?(0|[1-9][0-9]*)", sp):   # decimal without leading zeros (017 is ambiguous: kept out)
        return int(sp, 10)
    raise ValueError("int spelling outside the model's alphabet: %r" % sp)


def parse_double(sp):
    if not re.fullmatch(r"[+-]?([0-9]*\.[0-9]+([eE][+-]?[0-9]+)?|[0-9]+[eE][+-]?[0-9]+)", sp):
        raise ValueError("double spelling outside the grammar: %r" % sp)
    return float(sp)


def literal_value(raw, q):
    """The documented rule (docs/string-literals-in-the-IDL.md): the literal is copied into the Go source with only
    the delimiter it uses unescaped; the running program sees Go's interpretation of that text. raw = the text
    between the quotes in the IDL source. Only the unambiguous alphabet is accepted."""
    out = []
    i = 0
    n = len(raw)
    while i < n:
        c = raw[i]
        if c == "\\":
            if i + 1 >= n:
                raise ValueError("literal ends in a backslash: %r" % raw)
            d = raw[i + 1]
            if d == q:                 # escaped delimiter -> the delimiter character
                out.append(d)
            elif d == '"':             # \" inside a single-quoted literal: Go reads it as a double quote
                out.append('"')
            elif d == "\\":
                if i + 2 >= n or raw[i + 2] in "\"'":
                    raise ValueError("backslash pair followed by a quote or the end is ambiguous: %r" % raw)
                out.append("\\")
            elif d == "n":
                out.append("\n")
            elif d == "t":
                out.append("\t")
            else:
                raise ValueError("escape outside the model's alphabet: %r" % raw)
            i += 2
            continue
        if c == q:
            raise ValueError("bare delimiter inside literal %r" % raw)
        if c in "\n\r":
            raise ValueError("raw line break in literal")
        out.append(c)
        i += 1
    return "".join(out)


class Lits:
    """interning literal tables"""

    def __init__(self):
        self.liti = {}
        self.litd = {}
        self.lits = {}
        self.skey = {}        # (q, raw) -> key
        self.sraw = {}        # key -> (q, raw)
        self.svals = [""]     # atom index -> text
        self.sidx = {"": 0}

    def int(self, sp):
        sp = str(sp)
        if sp not in self.liti:
            n = parse_int(sp)
            e = {}
            for k in INTS:
                lo, hi = RANGES[k]
                e[k] = "%s:%d" % (k, n) if lo <= n <= hi else "-"
            e["bool"] = "b:1" if n == 1 else ("b:0" if n == 0 else "-")
            e["double"] = "dbl:" + fmt_double(float(n)) if abs(n) < 2 ** 53 else "-"
            e["enum"] = "i32:%d" % n if RANGES["i32"][0] <= n <= RANGES["i32"][1] else "-"
            self.liti[sp] = e
        return {"i": sp}

    def dbl(self, sp):
        sp = str(sp)
        if sp not in self.litd:
            self.litd[sp] = "dbl:" + fmt_double(parse_double(sp))
        return {"d": sp}

    def text_index(self, text):
        if text not in self.sidx:
            self.sidx[text] = len(self.svals)
            self.svals.append(text)
        return self.sidx[text]

    def str(self, raw, q='"'):
        if (q, raw) not in self.skey:
            key = "s%d" % len(self.skey)
            self.skey[(q, raw)] = key
            self.sraw[key] = (q, raw)
            ix = self.text_index(literal_value(raw, q))
            self.lits[key] = {"string": "str#%d" % ix, "binary": "bin#%d" % ix,
                              "name": raw if re.fullmatch(r"[A-Za-z_][A-Za-z0-9_]*", raw) else "-"}
        return {"s": self.skey[(q, raw)]}

    # ---- idl.py VAL -> CV
    def cv(self, v):
        if "i" in v:
            return self.int(v["i"])
        if "d" in v:
            return self.dbl(v["d"])
        if "s" in v:
            return self.str(v["s"], v.get("q", '"'))
        if "id" in v:
            return {"id": v["id"].split(".")}
        if "l" in v:
            return {"l": [self.cv(x) for x in v["l"]]}
        if "m" in v:
            return {"m": [[self.cv(k), self.cv(x)] for k, x in v["m"]]}
        raise ValueError(v)

    # ---- CV -> idl.py VAL
    def val(self, cv):
        if "i" in cv:
            return {"i": cv["i"]}
        if "d" in cv:
            return {"d": cv["d"]}
        if "s" in cv:
            q, raw = self.sraw[cv["s"]]
            return {"s": raw, "q": q}
        if "id" in cv:
            return {"id": ".".join(cv["id"])}
        if "l" in cv:
            return {"l": [self.val(x) for x in cv["l"]]}
        if "m" in cv:
            return {"m": [[self.val(k), self.val(x)] for k, x in cv["m"]]}
        raise ValueError(cv)

    def real_atom(self, a):
        """opaque TLC atom -> the atom the driver dumps"""
        if a.startswith("str#"):
            return "str:" + self.svals[int(a[4:])]
        if a.startswith("bin#"):
            return "bin:" + self.svals[int(a[4:])].encode("utf-8").hex()
        return a


def ttype(t):
    """idl.py TYPE -> TLA TYPE"""
    n = t["n"]
    if n in ("list", "set"):
        return {"n": n, "v": ttype(t["v"])}
    if n == "map":
        return {"n": "map", "k": ttype(t["k"]), "v": ttype(t["v"])}
    if n == "byte":
        return {"n": "i8"}
    if n in BASE:
        return {"n": n}
    return {"n": "ref", "p": n.split(".")}


def itype(t):
    """TLA TYPE -> idl.py TYPE"""
    n = t["n"]
    if n in ("list", "set"):
        return {"n": n, "v": itype(t["v"])}
    if n == "map":
        return {"n": "map", "k": itype(t["k"]), "v": itype(t["v"])}
    if n == "ref":
        return {"n": ".".join(t["p"])}
    return {"n": n}


def prog_to_tla(prog, lits):
    paths = [f["path"] for f in prog["files"]]
    files = []
    for f in prog["files"]:
        incs = []
        for inc in f.get("includes", []):
            ip = os.path.normpath(os.path.join(os.path.dirname(f["path"]), inc))
            incs.append(paths.index(ip) + 1)
        tf = {"pre": os.path.basename(f["path"])[:-len(".thrift")], "incs": incs, "typedefs": [], "consts": [],
              "enums": [], "structs": []}
        for d in f.get("defs", []):
            tf[{"typedef": "typedefs", "const": "consts", "enum": "enums"}.get(d["k"], "structs")].append(def_to_tla(d, lits))
        files.append(tf)
    return {"files": files, "nodef": False}


def def_to_tla(d, lits):
    k = d["k"]
    if k == "typedef":
        return {"name": d["name"], "type": ttype(d["type"])}
    if k == "const":
        return {"name": d["name"], "type": ttype(d["type"]), "val": lits.cv(d["value"])}
    if k == "enum":
        ms = []
        for v in d["values"]:
            m = {"name": v["name"]}
            if v.get("value") is not None:
                m["v"] = int(v["value"])
            ms.append(m)
        return {"name": d["name"], "members": ms}
    if k in ("struct", "union", "exception"):
        fs = []
        prev = 0
        for fl in d["fields"]:
            fid = fl.get("id")
            if fid is None:
                fid = prev + 1
            prev = fid
            fs.append({"name": fl["name"], "id": fid, "req": "optional" if k == "union" else fl.get("req", "default"),
                       "type": ttype(fl["type"]),
                       "def": {"none": True} if fl.get("default") is None else lits.cv(fl["default"])})
        return {"name": d["name"], "kind": k, "fields": fs}
    raise ValueError(k)


def def_to_idl(kind, d, lits):
    """a definition emitted by TLC (TLA image) -> idl.py DEF"""
    if kind == "typedef":
        return {"k": "typedef", "name": d["name"], "type": itype(d["type"])}
    if kind == "const":
        return {"k": "const", "name": d["name"], "type": itype(d["type"]), "value": lits.val(d["val"])}
    if kind == "struct":
        return {"k": d["kind"], "name": d["name"], "fields": [
            F(fl["id"], "default" if d["kind"] == "union" else fl["req"], itype(fl["type"]), fl["name"],
              None if "none" in fl["def"] else lits.val(fl["def"])) for fl in d["fields"]]}
    if kind == "enum":
        return {"k": "enum", "name": d["name"], "values": [{"name": m["name"], "value": m.get("v")} for m in d["members"]]}
    raise ValueError(kind)


# ------------------------------------------------------------------ context program and ways
def S(raw, q='"'):
    return {"s": raw, "q": q}


def I(x):
    return {"i": x}


def D(x):
    return {"d": x}


def ID(x):
    return {"id": x}


def M(*kv):
    return {"m": [[S(k) if isinstance(k, str) else k, v] for k, v in kv]}


def C(t, name, v):
    return {"k": "const", "name": name, "type": idl.type_from_str(t), "value": v}


def sname(kind):
    """constant-name stem of a leaf kind"""
    return {"b.IE": "ie", "b.BIn": "bin", "E": "e", "In": "in"}.get(kind, kind)


# three pairwise distinct literal values per kind for the constants identifier spellings refer to:
# (a: direct, r: reached through a chain in the same file, x: reached through a chain across an include)
CONST_VALUES = {
    "i8": ([I(11), I(-12), I("0x0d")], [I(21), I(22), I(23)]),
    "i16": ([I(1100), I(-1200), I("0x0d0d")], [I(2100), I(2200), I(2300)]),
    "i32": ([I(110000), I(-120000), I("0x0d0d0d")], [I(210000), I(220000), I(230000)]),
    "i64": ([I(11000000000), I(-12000000000), I("0x0d0d0d0d0d")], [I(21000000000), I(22000000000), I(23000000000)]),
    "double": ([D("11.5"), D("-12.25"), I(13)], [D("21.5"), D("22.5"), D("23.5")]),
    "string": ([S("ka"), S("kr", "'"), S("kx")], [S("qa"), S("qr"), S("qx")]),
    "binary": ([S("ba"), S("br", "'"), S("bx")], [S("ca"), S("cr"), S("cx")]),
}


def context(lits):
    """returns (program in idl.py form, ways, ways_b): ways[leaf kind] = [{"w": name, "sp": [CV...]}]"""
    a, b, c = [], [], []
    a.append({"k": "enum", "name": "E", "values": [{"name": "A", "value": 1}, {"name": "B", "value": None},
                                                   {"name": "C", "value": 5}]})
    a.append({"k": "typedef", "name": "TE", "type": T("E")})
    a.append({"k": "struct", "name": "In", "fields": [
        F(1, "default", T("i32"), "x", I(7)), F(2, "optional", T("string"), "y"),
        F(3, "optional", T("string"), "z", S("zd")), F(4, "default", T("list", T("i32")), "l", {"l": [I(1), I(2)]}),
        F(5, "optional", T("E"), "e", ID("E.B")), F(6, "optional", T("E"), "e2")]})
    b.append({"k": "enum", "name": "IE", "values": [{"name": "P", "value": 1}, {"name": "Q", "value": None},
                                                    {"name": "R", "value": 7}]})
    b.append({"k": "struct", "name": "BIn", "fields": [
        F(1, "default", T("i32"), "x", I(3)), F(2, "optional", T("string"), "y"),
        F(3, "optional", T("double"), "w", D("2.5")), F(4, "optional", T("IE"), "ie", ID("IE.Q")),
        F(5, "optional", T("i64"), "n")]})
    ways = {}

    def ids(kind, names):
        return [ID(n) for n in names]

    for k in INTS + ["double", "string", "binary"]:
        (va, vr, vx), (wa, wr, wx) = CONST_VALUES[k]
        s = sname(k)
        a += [C(k, "k_%s_a" % s, va), C(k, "k_%s_r" % s, vr), C(k, "k_%s_b" % s, ID("k_%s_r" % s)),
              C(k, "k_%s_c" % s, ID("b.q_%s_x" % s))]
        b += [C(k, "q_%s_x" % s, vx), C(k, "q_%s_a" % s, wa), C(k, "q_%s_r" % s, wr),
              C(k, "q_%s_b" % s, ID("q_%s_r" % s)), C(k, "q_%s_c" % s, ID("c.z_%s" % s))]
        c += [C(k, "z_%s" % s, wx)]
    a += [C("bool", "k_bool_a", ID("true")), C("bool", "k_bool_c", ID("b.q_bool_x"))]
    b += [C("bool", "q_bool_x", ID("false")), C("bool", "q_bool_a", I(1)), C("bool", "q_bool_r", I(0)),
          C("bool", "q_bool_b", ID("q_bool_r"))]
    a += [C("E", "k_e_a", ID("E.C")), C("E", "k_e_r", ID("E.A")), C("E", "k_e_b", ID("k_e_r"))]
    a += [C("b.IE", "k_ie_a", ID("b.IE.R")), C("b.IE", "k_ie_c", ID("b.q_ie_x"))]
    b += [C("IE", "q_ie_x", ID("IE.P")), C("IE", "q_ie_a", ID("IE.Q")), C("IE", "q_ie_r", I(7)),
          C("IE", "q_ie_b", ID("q_ie_r"))]
    a += [C("In", "k_in_a", M(("x", I(11)), ("y", S("ky")))), C("In", "k_in_r", M(("z", S("kz")))),
          C("In", "k_in_b", ID("k_in_r"))]
    a += [C("b.BIn", "k_bin_a", M(("x", I(12)))), C("b.BIn", "k_bin_c", ID("b.q_bin_x"))]
    b += [C("BIn", "q_bin_x", M(("y", S("qx")))), C("BIn", "q_bin_a", M(("x", I(13)), ("ie", ID("IE.R")))),
          C("BIn", "q_bin_r", M()), C("BIn", "q_bin_b", ID("q_bin_r"))]

    def w(name, *sp):
        return {"w": name, "sp": [lits.cv(x) for x in sp]}

    for k in INTS:
        lo, hi = RANGES[k]
        s = sname(k)
        ways[k] = [w("dec", I("5"), I("0"), I("17")), w("signed", I("-5"), I("+6")),
                   w("hex", I("0x1F"), I("0x0"), I("0x7f")), w("octal", I("0o17"), I("0o0"), I("0o77")),
                   w("extreme", I(str(hi)), I(str(lo))),
                   w("id", ID("k_%s_a" % s), ID("k_%s_b" % s), ID("k_%s_c" % s)),
                   w("qid", ID("b.q_%s_a" % s), ID("b.q_%s_b" % s), ID("b.q_%s_c" % s))]
    ways["double"] = [w("frac", D("1.5"), D("-2.5"), D(".5")), w("exp", D("1e3"), D("-2.5e-3"), D("1.5E2")),
                      w("int", I("3"), I("-4"), I("0x10")),
                      w("id", ID("k_double_a"), ID("k_double_b"), ID("k_double_c")),
                      w("qid", ID("b.q_double_a"), ID("b.q_double_b"), ID("b.q_double_c"))]
    ways["bool"] = [w("truefalse", ID("true"), ID("false")), w("01", I("1"), I("0")),
                    w("id", ID("k_bool_a"), ID("k_bool_c")), w("qid", ID("b.q_bool_a"), ID("b.q_bool_b"))]
    for k in ("string", "binary"):
        s = sname(k)
        ways[k] = [w("dq", S("ab"), S(""), S("c d"), S("新x")), w("sq", S("xy", "'"), S("q r", "'")),
                   w("dq-escaped-delim", S('a\\"b'), S('\\"')), w("sq-escaped-delim", S("a\\'b", "'"), S("\\'", "'")),
                   w("other-quote", S("it's"), S('say "x"', "'")),
                   w("sq-backslash-dq", S('\\"', "'"), S('a\\"b', "'")),
                   w("go-escape", S("a\\tb"), S("c\\nd", "'"), S("e\\\\f")),
                   w("id", ID("k_%s_a" % s), ID("k_%s_b" % s), ID("k_%s_c" % s)),
                   w("qid", ID("b.q_%s_a" % s), ID("b.q_%s_b" % s), ID("b.q_%s_c" % s))]
    ways["E"] = [w("name", ID("E.B"), ID("E.A"), ID("E.C")), w("number", I("5"), I("3")),
                 w("id", ID("k_e_a"), ID("k_e_b"))]
    ways["b.IE"] = [w("name", ID("b.IE.Q"), ID("b.IE.R")), w("number", I("7"), I("2")),
                    w("id", ID("k_ie_a"), ID("k_ie_c")), w("qid", ID("b.q_ie_a"), ID("b.q_ie_b"))]
    ways["In"] = [w("full", M(("x", I(1)), ("y", S("s")), ("z", S("t")), ("l", {"l": [I(3)]}), ("e", ID("E.C")))),
                  w("partial", M(("x", I(2))), M((S("y", "'"), S("q")))),
                  w("empty", M()),
                  w("optional-enum", M(("e2", ID("E.A"))), M(("e2", I(5)))),
                  w("inner-id", M(("x", ID("k_i32_a")), ("e", ID("k_e_a"))), M(("y", ID("b.q_string_a")))),
                  w("id", ID("k_in_a"), ID("k_in_b"))]
    ways["b.BIn"] = [w("full", M(("x", I(1)), ("y", S("s")), ("w", D("0.5")), ("ie", I(7)), ("n", I(9)))),
                     w("partial", M(("x", I(2))), M(("y", S("q")))),
                     w("empty", M()),
                     w("inner-id", M(("x", ID("k_i32_a"))), M(("ie", ID("b.IE.P")))),
                     w("id", ID("k_bin_a"), ID("k_bin_c")), w("qid", ID("b.q_bin_a"), ID("b.q_bin_b"))]
    # spellings valid inside file b (helper constants behind qualified identifiers of container type)
    ways_b = {k: [w("dec", I("5"), I("17"))] for k in INTS}
    ways_b["double"] = [w("frac", D("1.5"), D("-2.5"))]
    ways_b["bool"] = [w("truefalse", ID("true"), ID("false"))]
    ways_b["string"] = [w("dq", S("ab"), S("c d"))]
    ways_b["binary"] = [w("dq", S("ab"), S("c d"))]
    ways_b["b.IE"] = [w("name", ID("IE.Q"), ID("IE.R"))]
    ways_b["b.BIn"] = [w("partial", M(("x", I(4))), M())]
    prog = {"files": [
        {"path": "a.thrift", "includes": ["inc/b.thrift"], "namespaces": [{"lang": "go", "name": "u"}], "defs": a},
        {"path": "inc/b.thrift", "includes": ["c.thrift"], "namespaces": [{"lang": "go", "name": "u.inc"}], "defs": b},
        {"path": "inc/c.thrift", "namespaces": [{"lang": "go", "name": "u.cc"}], "defs": c}]}
    return prog, ways, ways_b


def extras(lits):
    """hand-written cases beyond shape x way (struct-likes inside struct-likes, unions, exceptions, implicit enum numbers,
    every optional scalar kind inside a struct literal); TLC evaluates them like the generated ones"""
    def sdef(kind, name, fields):
        return {"file": 1, "sec": "structs", "d": def_to_tla({"k": kind, "name": name, "fields": fields}, lits)}

    def out(name):
        return sdef("struct", name, [
            F(1, "default", T("In"), "a"), F(2, "optional", T("In"), "b", M(("x", I(5)))),
            F(3, "default", T("list", T("In")), "c", {"l": [M(("x", I(6)))]}), F(4, "optional", T("b.BIn"), "d"),
            F(5, "default", T("In"), "e", ID("k_in_a"))])
    xs = [
        ("structinstruct", [out("Out1")], "Out1", M(("a", M(("x", I(1)))), ("d", M(("y", S("dy")))))),
        ("structinstructbyid", [out("Out2")], "Out2", M(("a", ID("k_in_a")), ("b", ID("k_in_b")), ("d", ID("b.q_bin_a")))),
        ("structdefaultsofstructtype", [out("Out3")], "Out3", M()),
        ("union", [sdef("union", "Un1", [F(1, "default", T("i32"), "a"), F(2, "default", T("string"), "b"),
                                         F(3, "default", T("In"), "c")])], "Un1", M(("a", I(5)))),
        ("unionstruct", [sdef("union", "Un2", [F(1, "default", T("i32"), "a"), F(3, "default", T("In"), "c")])], "Un2",
         M(("c", M(("x", I(4)))))),
        ("exception", [sdef("exception", "Ex1", [F(1, "default", T("string"), "msg", S("m")), F(2, "default", T("i32"), "code")])],
         "Ex1", M(("code", I(3)))),
        ("enumimplicit", [{"file": 1, "sec": "enums", "d": def_to_tla(
            {"k": "enum", "name": "G1", "values": [{"name": "N", "value": -2}, {"name": "Z", "value": None},
                                                   {"name": "P", "value": None}, {"name": "Q", "value": 10},
                                                   {"name": "R", "value": None}]}, lits)}],
         "list<G1>", {"l": [ID("G1.N"), ID("G1.Z"), ID("G1.P"), ID("G1.Q"), ID("G1.R")]}),
        ("optionalscalars", [sdef("struct", "Op1", [
            F(1, "optional", T("i32"), "a"), F(2, "optional", T("bool"), "b"), F(3, "optional", T("double"), "c"),
            F(4, "optional", T("binary"), "d"), F(5, "optional", T("E"), "e"), F(6, "optional", T("i64"), "f"),
            F(7, "optional", T("string"), "g"), F(8, "optional", T("i8"), "h"), F(9, "optional", T("i16"), "i")])], "Op1",
         M(("a", I(1)), ("b", ID("true")), ("c", D("1.5")), ("d", S("bb")), ("e", ID("E.C")), ("f", I(6)), ("g", S("gg")),
           ("h", I(8)), ("i", I(9)))),
        ("optionalscalarsbyid", [sdef("struct", "Op2", [
            F(1, "optional", T("i32"), "a"), F(7, "optional", T("string"), "g"), F(5, "optional", T("E"), "e")])], "Op2",
         M(("a", ID("k_i32_a")), ("g", ID("b.q_string_a")), ("e", ID("k_e_a")))),
    ]
    # the only use of the include is an enum's members, written where integers are expected (no type, no constant of it)
    xs.append(("enummemberasnumber", [], "i32", ID("b.IE.R")))
    xs.append(("enummembersasnumbers", [], "map<i32,list<i32>>",
               {"m": [[ID("b.IE.Q"), {"l": [ID("b.IE.P"), ID("b.IE.R")]}], [I(9), {"l": []}]]}))
    xs.append(("constofincludedtypedefonly", [{"file": 2, "sec": "typedefs", "d": {"name": "TDonly", "type": {"n": "double"}}}],
               "b.TDonly", D("1.5")))
    return [{"id": "x%d" % (i + 1), "way": w, "defs": defs, "ct": ttype(idl.type_from_str(ct)), "cv": lits.cv(cv)}
            for i, (w, defs, ct, cv) in enumerate(xs)]


# cases that get a program of their own (nothing else in it uses what they use)
ISOLATED_WAYS = {"constofincludedtypedefonly", "enummemberasnumber", "enummembersasnumbers"}
NO_STRUCT_WAYS = {"constofincludedtypedefonly"}


ALT = {"bool": ["b:1", "b:0"], "i8": ["i8:1", "i8:2"], "i16": ["i16:1", "i16:2"], "i32": ["i32:1", "i32:2"],
       "i64": ["i64:1", "i64:2"], "double": ["dbl:1", "dbl:2"], "enum": ["i32:1", "i32:2"]}


def build_data(shapes):
    """everything spec/Consts reads from c06data.json; returns (data, lits, ctx program in idl form)"""
    lits = Lits()
    prog, ways, ways_b = context(lits)
    i1, i2 = lits.text_index("alt-one"), lits.text_index("alt-two")
    alt = dict(ALT, string=["str#%d" % i1, "str#%d" % i2], binary=["bin#%d" % i1, "bin#%d" % i2])
    ctx = prog_to_tla(prog, lits)
    data = {"ctx": ctx, "shapes": [ttype(s) for s in shapes], "ways": ways, "waysb": ways_b, "extra": extras(lits),
            "qidok": sorted(ways_b), "alt": alt,
            "liti": lits.liti, "litd": lits.litd or {"0.0": "dbl:0"}, "lits": lits.lits}
    return data, lits, prog


# ------------------------------------------------------------------ values
def realize(v, lits):
    """TLC VALUE with opaque atoms -> VALUE with the driver's atoms"""
    if isinstance(v, dict):
        if isinstance(v.get("a"), str):
            return {"a": lits.real_atom(v["a"])}
        return {k: realize(x, lits) for k, x in v.items()}
    if isinstance(v, list):
        return [realize(x, lits) for x in v]
    return v


def has_undef(v):
    if isinstance(v, dict):
        return "undef" in v or any(has_undef(x) for x in v.values())
    if isinstance(v, list):
        return any(has_undef(x) for x in v)
    return False
