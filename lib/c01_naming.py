"""C01 — the Naming model (spec/Naming/Naming.tla): alphabets, tables from the real styles code, TLC runs,
and the translation of model cases into IDL programs + the Go names the model predicts.
"""
import json
import os
import subprocess

import vlib
from idl import F, T

HELPER = "Zq"          # neutral helper definition (struct / service name of the one-scope families)
HELPER_EXC = "Zx"      # helper exception for throws
IDL_BASE = "a"         # base name of the IDL file of every Naming case (reflection file-level names)

# ---- the shape alphabets (built to collide under the stem `foo`; see DESIGN 6 C01)
PKG_NAMES = [
    "foo", "Foo", "foo_", "Foo__", "FOO",
    "new_foo", "NewFoo", "foo_args", "FooResult",
    "FooClient", "FooProcessor", "NewFooClient", "NewFooProcessor", "NewFooClientFactory",
    "FooPtr", "FooFromString", "Foo__A", "Foo_A",
    "foo_bar_args", "FooBarResult",
    "Foo__X__DEFAULT", "Foo_X_DEFAULT",
    "GetFileDescriptorForA", "ThriftGoUnusedProtection",
]
PKG_NAMES_MEDIUM = ["foo", "Foo", "foo_", "new_foo", "NewFoo", "foo_args", "FooClient", "NewFooClient", "NewFooProcessor",
                    "FooPtr", "FooFromString", "Foo__A", "foo_bar_args", "Foo__X__DEFAULT", "GetFileDescriptorForA"]
PKG_NAMES_SMALL = ["foo", "Foo", "foo_", "new_foo", "NewFoo", "FooClient", "FooPtr", "Foo__A", "foo_bar_args",
                   "Foo__X__DEFAULT"]
FIELD_NAMES = [
    "foo", "Foo", "foo_", "get_foo", "GetFoo", "set_foo", "is_set_foo", "IsSetFoo",
    "read", "Read", "write", "string", "String", "error", "Error", "init_default", "deep_equal", "DeepEqual",
    "read_field1", "ReadField1", "write_field1", "writeField1", "field1_deep_equal", "count_set_fields",
    "count_set_fields_zq", "carrying_unknown_fields", "descriptor", "type_descriptor", "get__field_mask",
    "b_length", "fast_read", "success", "get_success",
]
FIELD_NAMES_SMALL = ["foo", "Foo", "foo_", "get_foo", "GetFoo", "is_set_foo", "read", "String", "init_default",
                     "read_field1", "descriptor", "fast_read"]
PARAM_NAMES = [
    "p", "err", "ctx", "r", "_result", "result", "P", "Err", "p_", "ctx_",
    "type", "func", "range", "nil", "error", "args", "_args", "success", "foo", "Foo", "foo_",
]
PARAM_NAMES_SMALL = ["p", "err", "r", "_result", "P", "p_", "type", "nil", "success", "foo", "Foo"]
FN_NAMES = ["bar", "Bar", "bar_", "client_", "Client_", "process", "c", "foo"]
FIXED = ["x", "A", "success", "bar", HELPER]

KEYWORDS = ["break", "default", "func", "interface", "select", "case", "defer", "go", "map", "struct", "chan", "else",
            "goto", "package", "switch", "const", "fallthrough", "if", "range", "type", "continue", "for", "import",
            "return", "var"]

# naming profiles: option lists handed to the real HandleOptions
STYLES = {
    "thriftgo": [],
    "golint": ["naming_style=golint"],
    "apache": ["naming_style=apache"],
    "compat": ["compatible_names"],
    "golint-init": ["ignore_initialisms=false", "naming_style=golint"],
}
# feature profiles: which declarations the templates make (options given to thriftgo for the lab case)
FEATS = {
    "default": dict(opts=[], backend="go"),
    "rich": dict(opts=["gen_setter", "gen_deep_equal", "keep_unknown_fields", "with_reflection", "with_field_mask",
                       "field_mask_halfway", "get_enum_annotation"], backend="go",
                 feat=dict(setter=True, deepEqual=True, unknown=True, reflection=True, fieldMask=True, halfway=True,
                           enumAnno=True)),
    "fastgo": dict(opts=[], backend="fastgo", feat=dict(fastgo=True)),
    "noproc": dict(opts=["no_processor"], backend="go", feat=dict(noProcessor=True)),
}
FEAT0 = dict(setter=False, deepEqual=False, unknown=False, reflection=False, fieldMask=False, halfway=False,
             noProcessor=False, enumAnno=False, fastgo=False)


def camel(name):
    """templates' ToCamel: '_' -> ' ', strings.Title, remove ' '"""
    out = []
    for w in name.replace("_", " ").split(" "):
        out.append(w[:1].upper() + w[1:])
    return "".join(out)


def identify_many(ctx, harness, opts, names, tag):
    req = ctx.path("naming", "req-%s.json" % tag)
    out = ctx.path("naming", "out-%s.json" % tag)
    with open(req, "w") as fh:
        json.dump({"opts": opts, "names": sorted(set(names))}, fh)
    ctx.run([harness, "naming", req, out], timeout=120)
    res = json.load(open(out))
    if res.get("err"):
        raise vlib.MachineryError("harness naming: HandleOptions(%r) failed: %s" % (opts, res["err"]))
    for n, row in res["names"].items():
        if row.get("err"):
            raise vlib.MachineryError("harness naming: Identify(%r) failed: %s" % (n, row["err"]))
    return res


PKG_NAMES_STYLE = ["foo", "Foo", "new_foo", "foo_args", "FooResult", "FooPtr", "Foo_A", "Foo__A"]


def alphabets(small=False):
    if small == "tiny":
        return dict(pkg=["foo", "Foo", "new_foo", "FooPtr"], field=FIELD_NAMES_SMALL, param=PARAM_NAMES_SMALL, fn=FN_NAMES)
    if small == "style":
        return dict(pkg=PKG_NAMES_STYLE, field=FIELD_NAMES_SMALL, param=PARAM_NAMES_SMALL, fn=FN_NAMES)
    if small == "medium":
        return dict(pkg=PKG_NAMES_MEDIUM, field=FIELD_NAMES, param=PARAM_NAMES, fn=FN_NAMES)
    return dict(pkg=PKG_NAMES_SMALL if small else PKG_NAMES,
                field=FIELD_NAMES_SMALL if small else FIELD_NAMES,
                param=PARAM_NAMES_SMALL if small else PARAM_NAMES,
                fn=FN_NAMES)


def all_raw():
    raw = []
    for n in PKG_NAMES + FIELD_NAMES + PARAM_NAMES + FN_NAMES + FIXED:
        if n not in raw:
            raw.append(n)
    return raw


def style_tables(ctx, harness, style, extra_opts, raw):
    """tables of one naming profile from the real code"""
    idx = {n: i + 1 for i, n in enumerate(raw)}
    opts = STYLES[style] + list(extra_opts)
    tag = style + ("-" + "-".join(extra_opts) if extra_opts else "")
    svc_names = PKG_NAMES + [HELPER]
    r1 = identify_many(ctx, harness, opts, raw + ["$%s_args" % f for f in FN_NAMES] + ["$%s_result" % f for f in FN_NAMES],
                       tag + "-1")
    n1 = r1["names"]
    an = {}
    for s in svc_names:
        for f in FN_NAMES:
            an[(s, f, "args")] = s + n1["$%s_args" % f]["id"]
            an[(s, f, "res")] = s + n1["$%s_result" % f]["id"]
    r2 = identify_many(ctx, harness, opts, ["$" + v for v in an.values()], tag + "-2")
    n2 = r2["names"]
    N = len(raw)

    def mat(kind, ident):
        m = [["" for _ in range(N)] for _ in range(N)]
        for s in svc_names:
            for f in FN_NAMES:
                v = an[(s, f, kind)]
                m[idx[s] - 1][idx[f] - 1] = n2["$" + v]["id"] if ident else v
        return m
    return {
        "ident": [n1[n]["id"] for n in raw],
        "lower": [n1[n]["lower"] for n in raw],
        "pfxNew": [n1[n]["pfxNew"] for n in raw],
        "sfxArgs": [n1[n]["sfxArgs"] for n in raw],
        "sfxResult": [n1[n]["sfxResult"] for n in raw],
        "argsAn": mat("args", False), "argsId": mat("args", True),
        "resAn": mat("res", False), "resId": mat("res", True),
        "compat": bool(r1["compat"]),
    }


PROBE_IDL = """namespace go probe
struct Zp { 1: i32 init_default, 2: i32 descriptor, 3: i32 get__field_mask }
union Zu { 1: i32 count_set_fields_zu }
service Zs { void client_(1: i32 nil) }
"""


def probe_reserved(ctx, harness, thriftgo):
    """which generated method names does the real scope builder reserve?  Observed on a probe program (the generated code
    need not compile; it is only parsed)."""
    d = ctx.mkdir("naming", "probe")
    with open(os.path.join(d, "probe.thrift"), "w") as fh:
        fh.write(PROBE_IDL)
    out = os.path.join(d, "out")
    p = ctx.run([thriftgo, "-g", "go:with_reflection,with_field_mask", "-o", out, "probe.thrift"], cwd=d, check=False)
    files = [os.path.join(dp, f) for dp, _, fs in os.walk(out) for f in fs if f.endswith(".go")]
    if p.returncode != 0 or not files:
        raise vlib.MachineryError("probe program rejected by thriftgo: %s" % p.stderr[-500:])
    inf, outf = os.path.join(d, "in.ndjson"), os.path.join(d, "out.ndjson")
    vlib.write_ndjson(inf, [{"case": "probe", "files": files}])
    ctx.run([harness, "godecls", inf, outf], timeout=300)
    r = vlib.read_ndjson(outf)[0]
    pd = list(r["pkgs"].values())[0]
    zp = pd["fields"].get("Zp", [])
    zu = pd["fields"].get("Zu", [])
    if "InitDefault" not in zp and "InitDefault_" not in zp:
        raise vlib.MachineryError("probe: unexpected fields of Zp: %r" % zp)
    params = pd.get("params", {})
    cm = [m for m in pd["iface"].get("Zs", [])]
    prm = params.get("Zs." + cm[0], []) if cm else []
    return {"initDefault": "InitDefault_" in zp,
            "countT": "CountSetFieldsZu_" in zu,
            "reflection": "GetDescriptor_" in pd["methods"].get("Zp", []),
            "fieldMask": "Get_FieldMask_" in zp,
            "clientMethod": "Client__" in cm,
            "nilParam": "_nil" in prm}


def build_tables(ctx, harness, plan, reserved):
    """naming_tables.json for a list of plan entries (style, feature profile, family, K, small alphabet?)"""
    raw = all_raw()
    idx = {n: i + 1 for i, n in enumerate(raw)}
    styles = []
    style_idx = {}
    entries = []
    for ent in plan:
        (style, featname, family, k, small) = ent[:5]
        sample = ent[5] if len(ent) > 5 else 1
        fp = FEATS[featname]
        # the feature options do not influence Identify except compatible_names, which is a style of its own
        if style not in style_idx:
            styles.append(style_tables(ctx, harness, style, [], raw))
            style_idx[style] = len(styles)
        al = alphabets(small)
        feat = dict(FEAT0)
        feat.update(fp.get("feat", {}))
        entries.append({"style": style_idx[style], "feat": feat, "family": family, "k": k, "sample": sample,
                        "pkgNames": [idx[n] for n in al["pkg"]], "fieldNames": [idx[n] for n in al["field"]],
                        "paramNames": [idx[n] for n in al["param"]], "fnNames": [idx[n] for n in al["fn"]]})
    return {"raw": raw, "styles": styles, "plan": entries, "keywords": KEYWORDS, "idlName": IDL_BASE,
            "idlCamel": camel(IDL_BASE), "helper": HELPER, "reserved": reserved}


CFG = """SPECIFICATION Spec
CONSTANTS
  MaxProbe = 6
INVARIANTS GlobalsConsistent RefIntegrity DirectNamesDistinct Emit
CHECK_DEADLOCK FALSE
"""


def run_model(ctx, tbl, label, coverage=False):
    r = ctx.tlc("Naming", "Naming", "gen.cfg", files={"gen.cfg": CFG, "naming_tables.json": json.dumps(tbl)},
                timeout=6000 if ctx.tier == "quick" else 30000, label=label, coverage=coverage)
    cases = ctx.tlc_cases(r)
    return r, cases


# ------------------------------------------------------------------ model case -> IDL program + predicted names
def case_program(tbl, case):
    """IDL program (one file a.thrift, namespace go n) of a model case; definitions are written in installNames
    order (which is a legal source order)."""
    raw = tbl["raw"]
    defs = []
    need_helper_struct = False
    need_exc = 0
    type_refs = []
    td_refs = []     # typedefs of the helper struct are referenced from a second helper (no recursion through the alias)
    for d in case["defs"]:
        name = raw[d["n"] - 1]
        k = d["k"]
        if k in ("struct", "union", "exception"):
            fields = []
            for f in d["fs"]:
                req = "optional" if f["isset"] else "default"
                if k == "union":
                    req = "default"
                fields.append(F(f["id"], req, T("i32"), raw[f["n"] - 1]))
            defs.append({"k": k, "name": name, "fields": fields})
            type_refs.append(name)
        elif k == "service":
            fns = []
            for fn in d["fns"]:
                args = [F(a["id"], "default", T("i32"), raw[a["n"] - 1]) for a in fn["args"]]
                # distinct exception types: two throws fields of one type are a separate matter (programs part)
                throws = [F(a["id"], "default", T(HELPER_EXC + ("" if j == 0 else str(j))), raw[a["n"] - 1])
                          for j, a in enumerate(fn["throws"])]
                need_exc = max(need_exc, len(throws))
                fns.append({"name": raw[fn["n"] - 1], "oneway": bool(fn["oneway"]), "ret": None if fn["void"] else T("i32"),
                            "args": args, "throws": throws or None})
            defs.append({"k": "service", "name": name, "extends": None, "functions": fns})
        elif k == "enum":
            defs.append({"k": "enum", "name": name, "values": [{"name": raw[v - 1], "value": None} for v in d["vals"]]})
            type_refs.append(name)
        elif k == "tdstruct":
            need_helper_struct = True
            defs.append({"k": "typedef", "name": name, "type": T(HELPER + "h")})
            td_refs.append(name)
        elif k == "tdbase":
            defs.append({"k": "typedef", "name": name, "type": T("i32")})
            type_refs.append(name)
        elif k == "const":
            defs.append({"k": "const", "name": name, "type": T("i32"), "value": {"i": 1}})
    pre = []
    if need_helper_struct or (type_refs and case.get("family") == "package"):
        # helper struct: target of struct typedefs, and one field per user type (references must resolve)
        pre.append({"k": "struct", "name": HELPER + "h",
                    "fields": [F(i + 1, "optional", T(n), "r%d" % (i + 1)) for i, n in enumerate(type_refs)]})
    if td_refs:
        pre.append({"k": "struct", "name": HELPER + "t",
                    "fields": [F(i + 1, "optional", T(n), "t%d" % (i + 1)) for i, n in enumerate(td_refs)]})
    for j in range(need_exc):
        pre.append({"k": "exception", "name": HELPER_EXC + ("" if j == 0 else str(j)), "fields": [F(1, "default", T("string"), "m")]})
    return {"files": [{"path": IDL_BASE + ".thrift", "namespaces": [{"lang": "go", "name": "n"}], "defs": pre + defs}]}


def predicted(case):
    """(top-level identifiers, {type: fields+methods}) the model says the generated package declares."""
    top = set()
    members = {}
    for r in case["res"]:
        k = r["kind"]
        if k in ("struct", "union", "exception"):
            _pred_struct(r, top, members)
        elif k == "service":
            top.add(r["name"])
            for fn in r["fns"]:
                _pred_struct(fn["args"], top, members)
                if fn["res"].get("name"):
                    _pred_struct(fn["res"], top, members)
        else:
            top.add(r["name"])
            for v in r.get("values", []):
                top.add(v)
    return top, members


def _pred_struct(r, top, members):
    top.add(r["name"])
    top.add("New" + r["name"])
    m = members.setdefault(r["name"], set())
    for f in r["fields"]:
        m.add(f["name"])
        m.add(f["getter"])
        m.add(f["reader"])
        m.add(f["writer"])
        if f["hasIsset"]:
            m.add(f["isset"])
