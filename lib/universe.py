"""Program universes built from TLC-enumerated type shapes (spec/IDL/Shapes.tla), shared by the
checks that run generated code (C02 C09 C10 C13 C18 ...)."""
import copy

import idl
from idl import F, T

ENUM_E = {"k": "enum", "name": "E", "values": [{"name": "A", "value": 1}, {"name": "B", "value": None},
                                                {"name": "C", "value": 5}]}
STRUCT_IN = {"k": "struct", "name": "In", "fields": [F(1, "default", T("i32"), "x"),
                                                      F(2, "optional", T("string"), "y")]}

SCALAR_DEFAULTS = {
    "bool": {"id": "true"}, "i8": {"i": 5}, "i16": {"i": 300}, "i32": {"i": 7}, "i64": {"i": 9},
    "double": {"d": "1.5"}, "string": {"s": "hi"}, "binary": {"s": "hi"}, "E": {"id": "E.B"},
}


def enumerate_shapes(ctx, depth=1, base=None, keys=None):
    base = base or ["bool", "i8", "i16", "i32", "i64", "double", "string", "binary", "E", "In"]
    keys = keys or ["i8", "i32", "i64", "string", "bool", "E"]
    cfg = ("INIT Init\nNEXT Next\nCONSTANTS\n  Base = {%s}\n  KeyKinds = {%s}\n  MaxDepth = %d\n"
           "INVARIANT Emit\nCHECK_DEADLOCK FALSE\n") % (
        ", ".join('"%s"' % b for b in base), ", ".join('"%s"' % b for b in keys), depth)
    r = ctx.tlc("IDL", "Shapes", "shapes.cfg", files={"shapes.cfg": cfg}, label="Shapes[d=%d]" % depth)
    shapes = [c["t"] for c in ctx.tlc_cases(r)]
    shapes.sort(key=lambda t: (idl.type_to_str(t).count("<"), idl.type_to_str(t)))
    return shapes


def shape_structs(shapes, prefix="W"):
    """one single-field struct per (shape, requiredness/default variant)"""
    defs = []
    for k, t in enumerate(shapes):
        variants = [("r", "required", None), ("d", "default", None), ("o", "optional", None)]
        if t["n"] in SCALAR_DEFAULTS:
            variants += [("od", "optional", SCALAR_DEFAULTS[t["n"]]), ("dd", "default", SCALAR_DEFAULTS[t["n"]])]
        for tag, req, dv in variants:
            defs.append({"k": "struct", "name": "%s%d%s" % (prefix, k, tag),
                         "fields": [F(1, req, copy.deepcopy(t), "f", dv)]})
    return defs


def rich_structs():
    """hand-written struct-likes covering what single-field structs cannot: several fields (order freedom, presence
    interplay), unions, exceptions, recursion through optional fields, nesting, negative and sparse ids."""
    return [
        {"k": "struct", "name": "Multi", "fields": [
            F(1, "required", T("i32"), "a"), F(2, "optional", T("string"), "b", {"s": "hi"}),
            F(3, "default", T("list", T("In")), "c"), F(5, "optional", T("In"), "e"),
            F(7, "default", T("binary"), "g"), F(20, "optional", T("E"), "en")]},
        {"k": "union", "name": "U", "fields": [
            F(1, "default", T("i32"), "a"), F(2, "default", T("string"), "b"), F(3, "default", T("In"), "c"),
            F(4, "default", T("list", T("i32")), "d"), F(5, "default", T("binary"), "e")]},
        {"k": "union", "name": "UD", "fields": [
            F(1, "default", T("i32"), "a", {"i": 5}), F(2, "default", T("string"), "b"), F(3, "default", T("bool"), "c")]},
        {"k": "exception", "name": "X", "fields": [F(1, "default", T("string"), "msg"), F(2, "required", T("i32"), "code")]},
        {"k": "struct", "name": "Rec", "fields": [F(1, "default", T("i32"), "v"), F(2, "optional", T("Rec"), "next")]},
        {"k": "struct", "name": "Outer", "fields": [
            F(1, "required", T("In"), "a"), F(2, "default", T("U"), "u"), F(3, "default", T("map", T("string"), T("In")), "m")]},
        {"k": "struct", "name": "Sparse", "fields": [
            F(-2, "default", T("i32"), "neg"), F(300, "optional", T("i64"), "far"), F(32767, "required", T("bool"), "last")]},
        # defaults inside elements: a reader that does not start elements from their defaults loses them
        {"k": "struct", "name": "Dflt", "fields": [
            F(1, "default", T("i32"), "a", {"i": 7}), F(2, "optional", T("string"), "b", {"s": "hi"}),
            F(3, "optional", T("E"), "e", {"id": "E.B"}), F(4, "optional", T("i64"), "c")]},
        {"k": "struct", "name": "DLl", "fields": [F(1, "default", T("list", T("Dflt")), "l")]},
        {"k": "struct", "name": "DLm", "fields": [F(1, "default", T("map", T("string"), T("Dflt")), "m")]},
        {"k": "struct", "name": "DLd", "fields": [F(1, "default", T("Dflt"), "d"), F(2, "optional", T("Dflt"), "o")]},
        {"k": "struct", "name": "DLs", "fields": [F(1, "default", T("set", T("Dflt")), "s")]},
        # a struct-like without fields: the degenerate shape of every per-field loop (nil vs. set is its only content)
        {"k": "struct", "name": "Unit", "fields": []},
        {"k": "struct", "name": "UnitH", "fields": [
            F(1, "optional", T("Unit"), "o"), F(2, "default", T("list", T("Unit")), "l"), F(3, "default", T("Unit"), "d"),
            F(4, "optional", T("map", T("string"), T("Unit")), "m")]},
        {"k": "struct", "name": "Req3", "fields": [
            F(1, "required", T("i32"), "a"), F(2, "required", T("string"), "b"), F(3, "required", T("list", T("i32")), "c")]},
    ]


def base_program(shapes, ns="u", extra=None):
    defs = [copy.deepcopy(ENUM_E), copy.deepcopy(STRUCT_IN)] + shape_structs(shapes) + rich_structs() + (extra or [])
    return {"files": [{"path": "a.thrift", "namespaces": [{"lang": "go", "name": ns}], "defs": defs}]}


# ------------------------------------------------------------------ presentations
def _map_types(t, fn):
    t = fn(t)
    if t["n"] in ("list", "set"):
        t = dict(t, v=_map_types(t["v"], fn))
    elif t["n"] == "map":
        t = dict(t, k=_map_types(t["k"], fn), v=_map_types(t["v"], fn))
    return t


def _each_field(prog):
    for f in prog["files"]:
        for d in f["defs"]:
            if d["k"] in ("struct", "union", "exception"):
                for fl in d["fields"]:
                    yield f, d, fl


def present_typedef(prog, chain=2):
    """every field type is written through a typedef chain of the given length (same schema); the typedefs live in
    the file of the field that uses them"""
    p = copy.deepcopy(prog)
    n = [0]
    for fi, f in enumerate(p["files"]):
        tds = []
        seen = {}
        for d in f["defs"]:
            if d["k"] not in ("struct", "union", "exception"):
                continue
            for fl in d["fields"]:
                key = idl.type_to_str(fl["type"])
                if key not in seen:
                    names = ["Td%d_%d" % (n[0], j) for j in range(chain)]
                    n[0] += 1
                    seen[key] = names[-1]
                    prev = fl["type"]
                    for nm in names:
                        tds.append({"k": "typedef", "name": nm, "type": prev})
                        prev = {"n": nm}
                fl["type"] = {"n": seen[key]}
        # typedefs after the definitions they refer to is fine for thriftgo; put them last to stress ordering
        f["defs"] = f["defs"] + tds
    return p


def present_include(prog):
    """E, In and the rich struct-likes move to an included file with another namespace; references get the prefix."""
    p = copy.deepcopy(prog)
    f0 = p["files"][0]
    moved = {"E", "In", "Dflt"}
    inc = {"path": "inc/b.thrift", "namespaces": [{"lang": "go", "name": "u.inc"}],
           "defs": [d for d in f0["defs"] if d["name"] in moved]}
    f0["defs"] = [d for d in f0["defs"] if d["name"] not in moved]
    f0["includes"] = ["inc/b.thrift"]

    def fix(t):
        if t["n"] in moved:
            return {"n": "b." + t["n"]}
        return t
    for d in f0["defs"]:
        if d["k"] in ("struct", "union", "exception"):
            for fl in d["fields"]:
                fl["type"] = _map_types(fl["type"], fix)
                if fl.get("default") and "id" in fl["default"] and fl["default"]["id"].startswith("E."):
                    fl["default"] = {"id": "b." + fl["default"]["id"]}
    # (defaults of the moved struct-likes themselves keep their local spelling: E moved along with them)
    p["files"].append(inc)
    return p


def fast_extras():
    """struct-likes the C10 anchors name: bit-set word boundaries of required fields, struct map keys, deep nesting"""
    def reqs(n):
        kinds = ["i32", "string", "bool", "i64", "double"]
        fs = []
        for i in range(1, n + 1):
            fl = F(i, "required", T(kinds[i % len(kinds)]), "r%d" % i)
            fl["w"] = 1
            fs.append(fl)
        return fs
    return [
        {"k": "struct", "name": "Req8", "fields": reqs(8)},
        {"k": "struct", "name": "Req9", "fields": reqs(9)},
        {"k": "struct", "name": "Req16", "fields": reqs(16)},
        {"k": "struct", "name": "Req24", "fields": reqs(24)},
        {"k": "struct", "name": "Req17", "fields": reqs(17)},
        {"k": "struct", "name": "KeyS", "fields": [F(1, "default", T("map", T("In"), T("string")), "m")]},
        {"k": "struct", "name": "Deep4", "fields": [
            F(1, "default", T("list", T("map", T("string"), T("list", T("set", T("i32"))))), "d")]},
    ]
