"""Resolved schema (the CONSTANT Schema of spec/Wire/Wire.tla) of a program JSON (lib/idl.py).

Schema = {"structs": {name: {"kind", "fields": [{"id", "req", "name", "type": STYPE, "def": {"none": true} | VALUE}]}},
          "enums": {name: [numbers...]}}
STYPE  = {"n": base} | {"n": "enum", "e": name} | {"n": "struct", "s": name} | {"n": "list"|"set", "v"} | {"n": "map", "k", "v"}
Struct / enum names must be unique over the whole program (the universes built here guarantee that);
a definition in file f.thrift may also be referred to as "f.Name" from an including file.
"""
import os

BASE = {"bool", "byte", "i8", "i16", "i32", "i64", "double", "string", "binary"}
NONE = {"none": True}
NIL = {"nil": True}


class Resolver:
    def __init__(self, prog):
        self.prog = prog
        self.files = {f["path"]: f for f in prog["files"]}
        self.defs = {}
        for f in prog["files"]:
            for d in f.get("defs", []):
                self.defs[(f["path"], d["name"])] = d

    def lookup(self, fpath, name):
        """returns (defining file path, def)"""
        f = self.files[fpath]
        if "." in name:
            pre, rest = name.split(".", 1)
            for inc in f.get("includes", []):
                base = os.path.basename(inc)
                if base.endswith(".thrift"):
                    base = base[:-7]
                if base == pre:
                    ip = os.path.normpath(os.path.join(os.path.dirname(fpath), inc))
                    if (ip, rest) in self.defs:
                        return ip, self.defs[(ip, rest)]
        if (fpath, name) in self.defs:
            return fpath, self.defs[(fpath, name)]
        raise KeyError("unresolved %s in %s" % (name, fpath))

    def stype(self, fpath, t):
        n = t["n"]
        if n in BASE:
            return {"n": "i8" if n == "byte" else n}
        if n in ("list", "set"):
            return {"n": n, "v": self.stype(fpath, t["v"])}
        if n == "map":
            return {"n": "map", "k": self.stype(fpath, t["k"]), "v": self.stype(fpath, t["v"])}
        dp, d = self.lookup(fpath, n)
        if d["k"] == "typedef":
            return self.stype(dp, d["type"])
        if d["k"] == "enum":
            return {"n": "enum", "e": d["name"]}
        if d["k"] in ("struct", "union", "exception"):
            return {"n": "struct", "s": d["name"]}
        raise KeyError("%s is not a type" % n)

    def enum_numbers(self, d):
        out = []
        prev = -1
        for v in d["values"]:
            x = v.get("value")
            if x is None:
                x = prev + 1
            out.append(int(x))
            prev = int(x)
        return out

    def atom(self, fpath, st, val):
        """literal VAL of the IDL -> atom for a scalar schema type (None if not expressible)"""
        n = st["n"]
        if val is None:
            return None
        if n == "enum":
            if "i" in val:
                return "i32:%d" % int(str(val["i"]), 0)
            if "id" in val:
                last = val["id"].split(".")[-1]
                for (fp, dn), d in self.defs.items():
                    if d["k"] == "enum" and d["name"] == st["e"]:
                        nums = self.enum_numbers(d)
                        for v, num in zip(d["values"], nums):
                            if v["name"] == last:
                                return "i32:%d" % num
            return None
        if n == "bool":
            if "id" in val:
                return "b:1" if val["id"] == "true" else "b:0"
            if "i" in val:
                return "b:1" if int(str(val["i"]), 0) != 0 else "b:0"
        if n in ("i8", "i16", "i32", "i64") and "i" in val:
            return "%s:%d" % (n, int(str(val["i"]), 0))
        if n == "double":
            if "d" in val:
                return "dbl:" + fmt_double(float(val["d"]))
            if "i" in val:
                return "dbl:" + fmt_double(float(int(str(val["i"]), 0)))
        if n == "string" and "s" in val:
            return "str:" + val["s"]
        if n == "binary" and "s" in val:
            return "bin:" + val["s"].encode("utf-8").hex()
        return None

    def schema(self):
        structs = {}
        enums = {}
        for f in self.prog["files"]:
            for d in f.get("defs", []):
                if d["k"] == "enum":
                    enums[d["name"]] = self.enum_numbers(d)
                elif d["k"] in ("struct", "union", "exception"):
                    fields = []
                    prev = 0
                    for fl in d["fields"]:
                        fid = fl.get("id")
                        if fid is None:
                            fid = prev + 1
                        prev = fid
                        st = self.stype(f["path"], fl["type"])
                        req = fl.get("req", "default")
                        if d["k"] == "union":
                            req = "optional"
                        de = NONE
                        if fl.get("default") is not None:
                            a = self.atom(f["path"], st, fl["default"])
                            if a is None:
                                raise ValueError("default of %s.%s not expressible as an atom" % (d["name"], fl["name"]))
                            de = {"a": a}
                        fd = {"id": fid, "req": req, "name": fl["name"], "type": st, "def": de,
                              "w": int(fl.get("w", 0))}
                        if fl.get("vals"):
                            fd["vals"] = fl["vals"]
                        fields.append(fd)
                    if d["name"] in structs:
                        raise ValueError("duplicate struct name %s in program" % d["name"])
                    structs[d["name"]] = {"kind": d["k"], "fields": fields}
        return {"structs": structs, "enums": enums}


def fmt_double(x):
    import math
    if math.isnan(x):
        return "nan"
    if math.isinf(x):
        return "inf" if x > 0 else "-inf"
    if x == int(x) and abs(x) < 1e15:
        return str(int(x))
    return repr(x)


def schema_of(prog):
    return Resolver(prog).schema()


def to_tla(sc):
    """index-based image of a schema for TLC (big string-keyed records are slow in TLC): structs and enums become
    sequences, struct/enum references 1-based indexes. Returns (tla_schema, struct name -> index)."""
    snames = list(sc["structs"])
    enames = list(sc["enums"])
    sidx = {n: i + 1 for i, n in enumerate(snames)}
    eidx = {n: i + 1 for i, n in enumerate(enames)}

    def ty(t):
        n = t["n"]
        if n == "struct":
            return {"n": "struct", "s": sidx[t["s"]]}
        if n == "enum":
            return {"n": "enum", "e": eidx[t["e"]]}
        if n in ("list", "set"):
            return {"n": n, "v": ty(t["v"])}
        if n == "map":
            return {"n": "map", "k": ty(t["k"]), "v": ty(t["v"])}
        return {"n": n}
    structs = []
    for n in snames:
        st = sc["structs"][n]
        structs.append({"name": n, "kind": st["kind"],
                        "fields": [dict(f, type=ty(f["type"])) for f in st["fields"]]})
    return {"structs": structs, "enums": [sc["enums"][n] for n in enames] or [[0]]}, sidx
