"""C16 helpers: the program graphs of spec/Trim (TLC output) <-> program JSON (lib/idl.py) <-> harness observations.

Graph G (see spec/Trim/Trim.tla): {"inc": [[included file numbers]...], "defs": [{k, f, ty, cv, pres, ext, fns}...]};
definition numbers and file numbers are 1-based.  Names are a function of kind and number, so TLC, the renderer
and the observation mapper agree on them without a table.
"""
import idl

# no file is called c.thrift: a Go package `c` collides with the parameter `c thrift.TClient` of generated client
# constructors when a service extends a service of that file (thriftgo code generation, not trimming)
FILE_LETTERS = "abkdefgh"
PREFIX = {"struct": "X", "union": "U", "exception": "Z", "enum": "E", "typedef": "T", "const": "C", "service": "S"}


def fname(f):
    return FILE_LETTERS[f - 1] + ".thrift"


def fprefix(f):
    return FILE_LETTERS[f - 1]


def go_pkg(prog, f):
    """Go package (last path element) thriftgo generates for file number f of a program from to_program"""
    fl = prog["files"][f - 1]
    for ns in fl.get("namespaces", []):
        if ns["lang"] == "go":
            return ns["name"].replace(".", "/")
    return fprefix(f)


def dname(G, d):
    return PREFIX[G["defs"][d - 1]["k"]] + str(d)


def qname(G, d, f):
    """name of definition d as written in file f"""
    df = G["defs"][d - 1]["f"]
    return dname(G, d) if df == f else fprefix(df) + "." + dname(G, d)


def ty(G, t, f):
    n = t["n"]
    if n == "b":
        return {"n": "string"}
    if n == "r":
        return {"n": qname(G, t["d"], f)}
    if n == "l":
        return {"n": "list", "v": ty(G, t["v"], f)}
    if n == "s":
        return {"n": "set", "v": ty(G, t["v"], f)}
    if n == "m":
        return {"n": "map", "k": ty(G, t["k"], f), "v": ty(G, t["v"], f)}
    raise ValueError(t)


def deref(G, t):
    """type tree with typedef references replaced by their targets"""
    if t["n"] == "r" and G["defs"][t["d"] - 1]["k"] == "typedef":
        return deref(G, G["defs"][t["d"] - 1]["ty"][0])
    return t


def value_for(G, t, f):
    """a constant value of type t (written in file f)"""
    t = deref(G, t)
    n = t["n"]
    if n == "b":
        return {"s": "v"}
    if n == "r":
        d = G["defs"][t["d"] - 1]
        if d["k"] == "enum":
            return {"id": qname(G, t["d"], f) + ".V1"}
        return {"m": [[{"s": "n"}, {"i": 1}]]}
    if n in ("l", "s"):
        return {"l": [value_for(G, t["v"], f)]}
    if n == "m":
        return {"m": [[value_for(G, t["k"], f), value_for(G, t["v"], f)]]}
    raise ValueError(t)


def to_program(G, namespaces=False):
    """program JSON (lib/idl.py) of a graph.  Returns (prog, preserved) where preserved is the set of
    (path, def name) carrying a `// @preserve` comment (added by render_texts: the token renderer has no comments)."""
    files = []
    pres = set()
    for f in range(1, len(G["inc"]) + 1):
        fl = {"path": fname(f), "includes": [fname(g) for g in G["inc"][f - 1]], "defs": []}
        if namespaces or f == 1 or not any(d["k"] != "dead" and d["f"] == f for d in G["defs"]):
            # the root file always carries a namespace line (so that a root from which everything is trimmed is
            # still a non-empty document: thriftgo's parser rejects a zero-length file); so does a file without
            # any definition
            fl["namespaces"] = [{"lang": "go", "name": "pkg" + fprefix(f)}]
        files.append(fl)
    for i, d in enumerate(G["defs"]):
        dn = i + 1
        k = d["k"]
        if k == "dead":
            continue
        f = d["f"]
        out = files[f - 1]["defs"]
        name = dname(G, dn)
        if k in ("struct", "union", "exception"):
            fields = [idl.F(1, "optional", {"n": "i32"}, "n")]
            for j, t in enumerate(d["ty"]):
                fields.append(idl.F(j + 2, "optional", ty(G, t, f), "f%d" % (j + 1)))
            for j, c in enumerate(d["cv"]):
                fields.append(idl.F(90 + j, "optional", {"n": "string"}, "dv%d" % (j + 1), default={"id": qname(G, c, f)}))
            out.append({"k": k, "name": name, "fields": fields})
            if d["pres"] == "c":
                pres.add((fname(f), name))
        elif k == "enum":
            out.append({"k": "enum", "name": name, "values": [{"name": "V1", "value": 1}, {"name": "V2", "value": 2}]})
        elif k == "typedef":
            out.append({"k": "typedef", "name": name, "type": ty(G, d["ty"][0], f)})
        elif k == "const":
            t = d["ty"][0]
            if d["cv"]:
                out.append({"k": "const", "name": name, "type": {"n": "string"}, "value": {"id": qname(G, d["cv"][0], f)}})
            else:
                out.append({"k": "const", "name": name, "type": ty(G, t, f), "value": value_for(G, t, f)})
        elif k == "service":
            fns = []
            for fn in d["fns"]:
                args = [idl.F(1, "default", {"n": "i32"}, "x")]
                for j, t in enumerate(fn["a"]):
                    args.append(idl.F(j + 2, "default", ty(G, t, f), "a%d" % (j + 1)))
                throws = None
                if fn["t"]:
                    throws = [idl.F(j + 1, "default", ty(G, t, f), "e%d" % (j + 1)) for j, t in enumerate(fn["t"])]
                ret = ty(G, fn["r"][0], f) if fn["r"] else None
                fns.append({"name": fn["name"], "oneway": False, "ret": ret, "args": args, "throws": throws})
            ext = qname(G, d["ext"], f) if d["ext"] else None
            out.append({"k": "service", "name": name, "extends": ext, "functions": fns})
        else:
            raise ValueError(k)
    return {"files": files}, pres


def render_texts(prog, pres):
    """{path: text}; struct-likes in pres get a `// @preserve` line in front"""
    texts = {}
    for f in prog["files"]:
        txt = idl.render_file(f)
        if any(p == f["path"] for p, _ in pres):
            lines = txt.split("\n")
            out = []
            for ln in lines:
                for p, name in pres:
                    if p == f["path"]:
                        for kw in ("struct", "union", "exception"):
                            if ln.startswith("%s %s {" % (kw, name)):
                                out.append("// @preserve")
                out.append(ln)
            txt = "\n".join(out)
        texts[f["path"]] = txt
    return texts


def pat_text(G, p):
    q = p["q"]
    if q == "exact":
        return "%s.%s" % (dname(G, p["s"]), p["f"])
    if q == "unq":
        return p["f"]
    if q == "svcall":
        return "%s\\..*" % dname(G, p["s"])
    if q == "anysvc":
        return ".*\\.%s" % p["f"]
    if q == "prefix":
        return "%s\\.%s.*" % (dname(G, p["s"]), p["f"])
    raise ValueError(q)


def harness_args(G, ar):
    """(args dict, yaml text or None) for a TLA+ argument record"""
    methods = [pat_text(G, p) for p in ar["pats"]]
    preserve = {"unset": None, "on": True, "off": False}[ar["preserve"]]
    plist = [dname(G, d) for d in ar["plist"]]
    if ar.get("yaml"):
        y = []
        if methods:
            y.append("methods:")
            y += ["  - '%s'" % m for m in methods]
        if preserve is not None:
            y.append("preserve: %s" % ("true" if preserve else "false"))
        if plist:
            y.append("preserved_structs:")
            y += ["  - %s" % n for n in plist]
        if ar["nocomment"]:
            y.append("disable_preserve_comment: true")
        if not y:
            y.append("match_go_name: false")
        return {"methods": [], "preserve": None, "disable_comment": None, "pstructs": []}, "\n".join(y) + "\n"
    return {"methods": methods, "preserve": preserve, "disable_comment": True if ar["nocomment"] else None,
            "pstructs": plist}, None


# ------------------------------------------------------------------ observations -> results R
def name_index(G):
    idx = {}
    for i, d in enumerate(G["defs"]):
        if d["k"] != "dead":
            idx[(fname(d["f"]), PREFIX[d["k"]] + str(i + 1))] = i + 1
    return idx


def tree_result(G, t, pre=None):
    """summary of a trimmed tree (harness treeSum) -> (R fields kept/fns/inc/ext, problems list).
    pre: summary of the untrimmed tree for the meaning comparison (signatures)."""
    idx = name_index(G)
    fileno = {fname(f): f for f in range(1, len(G["inc"]) + 1)}
    kept, fns, inc, ext, problems, changed = [], [], [], [], [], []
    presig = {}
    if pre is not None:
        for fs in pre["files"] or []:
            for d in fs["defs"]:
                presig[(fs["path"], d["name"])] = d["k"] + "|" + d["sig"]
            for s in fs["svcs"]:
                for n, sg in zip(s["fns"], s.get("sigs") or [None] * len(s["fns"])):
                    presig[(fs["path"], s["name"], n)] = sg
    for fs in t["files"] or []:
        f = fileno.get(fs["path"])
        if f is None:
            problems.append("alien file %s" % fs["path"])
            continue
        for p in fs["includes"]:
            g = fileno.get(p)
            if g is None:
                problems.append("alien include %s" % p)
            else:
                inc.append([f, g])
        for d in fs["defs"]:
            i = idx.get((fs["path"], d["name"]))
            if i is None or G["defs"][i - 1]["k"] != d["k"]:
                problems.append("alien definition %s %s in %s" % (d["k"], d["name"], fs["path"]))
                continue
            kept.append(i)
            if pre is not None and presig.get((fs["path"], d["name"])) != d["k"] + "|" + d["sig"]:
                changed.append("%s:%s" % (fs["path"], d["name"]))
        for s in fs["svcs"]:
            i = idx.get((fs["path"], s["name"]))
            if i is None or G["defs"][i - 1]["k"] != "service":
                problems.append("alien service %s in %s" % (s["name"], fs["path"]))
                continue
            kept.append(i)
            names = {fn["name"] for fn in G["defs"][i - 1]["fns"]}
            for n, sg in zip(s["fns"], s.get("sigs") or [None] * len(s["fns"])):
                if n not in names:
                    problems.append("alien function %s.%s" % (s["name"], n))
                    continue
                fns.append([i, n])
                if pre is not None and presig.get((fs["path"], s["name"], n)) != sg:
                    changed.append("%s:%s.%s" % (fs["path"], s["name"], n))
            if s["ext"]:
                b = G["defs"][i - 1]["ext"]
                if not b or qname(G, b, f) != s["ext"]:
                    problems.append("service %s extends %s" % (s["name"], s["ext"]))
                else:
                    ext.append(i)
    return {"kept": sorted(set(kept)), "fns": fns, "inc": inc, "ext": ext}, problems, changed


def inproc_result(G, o):
    """harness observation of `inproc trim` -> (R, why list)."""
    why = []
    R = {"kept": [], "fns": [], "inc": [], "ext": [], "ok": False, "same": True, "idem": True}
    t1 = o.get("t1")
    if t1 is None:
        return R, ["no-observation"]
    if t1.get("panic"):
        return R, ["panic: " + t1["panic"][:300]]
    if t1.get("err"):
        # the AST is still summarised, so that the kept sets can be shown, but the run failed
        if t1.get("files"):
            r, _, _ = tree_result(G, t1)
            R.update(r)
        return R, ["TrimAST error: " + t1["err"][:300]]
    r, problems, _ = tree_result(G, t1)
    R.update(r)
    why += problems
    if t1.get("stale"):
        why.append("trimmed AST has references that do not resolve: " + "; ".join(t1["stale"][:3]))
    if o.get("dump_err"):
        why.append("dump: " + o["dump_err"][:200])
    elif o.get("rp_err"):
        why.append("dumped IDL rejected: " + o["rp_err"][:300])
    else:
        if o.get("rp_stale"):
            why.append("re-parsed AST inconsistent: " + "; ".join(o["rp_stale"][:3]))
        if not o.get("rp_same"):
            why.append("dump + parse of the trimmed AST differs from the trimmed AST")
    R["ok"] = not why
    if o.get("changed"):
        R["same"] = False
        why.append("definitions changed: " + ", ".join(o["changed"][:4]))
    if R["ok"]:
        if o.get("t2_err"):
            R["idem"] = False
            why.append("second trim failed: %s" % o["t2_err"][:300])
        elif not o.get("t2_same") or not o.get("same_dump"):
            R["idem"] = False
            why.append("second trim changed the program")
    return R, why
