"""C15 helpers: program universe for the reflection check, a renderer that also writes comments, the TLA+ image of
a program (spec/Reflect/Reflect.tla), the query batches of the registry traces and the field-by-field comparison of
an observed descriptor with Desc as computed by TLC.

Programs use the shared model of lib/idl.py plus one extension: every node that may carry comments (definition,
field, enum value, function) may have "cmt": {"lead": [[style, body]...], "trail": [[style, body]...]} with style in
"line" (// body), "unix" (# body), "block" (/* body */).
"""
import json
import os
import posixpath

import idl

# ------------------------------------------------------------------------------------------------ patterns
ANN_PATS = ["none", "empty", "one", "rep2", "rep_inter", "rep_same", "multi"]
CMT_PATS = ["none", "line", "block", "unix", "two", "trail", "both", "blockml"]
ID_PATS = ["explicit", "implicit", "mixed", "gap", "neg", "desc"]
ENUM_PATS = ["implicit", "explicit", "mixed", "neg", "hex"]
NODE_KINDS = ["struct", "union", "exception", "field", "enum", "enumvalue", "typedef", "const", "service", "method",
              "arg", "throw"]
HOLDERS = ["struct", "union", "exception", "args", "throws"]
TOPOS = ["single", "chain2", "chain3", "diamond", "samebase_indirect", "samebase_direct", "updir", "dotted"]


def ann_of(pat, tag):
    if pat == "none":
        return None
    if pat == "empty":
        return []
    if pat == "one":
        return [["a", tag]]
    if pat == "rep2":
        return [["a", tag + "1"], ["a", tag + "2"]]
    if pat == "rep_inter":
        return [["a", "1"], ["b", tag], ["a", "2"]]
    if pat == "rep_same":
        return [["a", "1"], ["a", "1"]]
    if pat == "multi":
        return [["a", "1"], ["b", ""], ["a", "2"], ["b.c", tag], ["c", "z"], ["a", "3"]]
    raise ValueError(pat)


def cmt_of(pat, tag, trail_ok):
    if not trail_ok and pat in ("trail", "both"):
        pat = "line" if pat == "trail" else "two"
    lead, trail = [], []
    if pat == "line":
        lead = [["line", " lead " + tag]]
    elif pat == "block":
        lead = [["block", " block " + tag + " "]]
    elif pat == "unix":
        lead = [["unix", " unix " + tag]]
    elif pat == "two":
        lead = [["line", " first " + tag], ["block", "second " + tag]]
    elif pat == "trail":
        trail = [["line", " trail " + tag]]
    elif pat == "both":
        lead = [["line", " lead " + tag]]
        trail = [["block", " trail " + tag + " "]]
    elif pat == "blockml":
        lead = [["block", "*\n * doc " + tag + "\n * more\n "]]
    if not lead and not trail:
        return None
    return {"lead": lead, "trail": trail}


def pat_at(pats, base, j):
    return pats[(pats.index(base) + j) % len(pats)]


# ------------------------------------------------------------------------------------------------ builder
def I(n):
    return {"i": n}


def S(s, q='"'):
    return {"s": s, "q": q}


def ID(s):
    return {"id": s}


def LST(*a):
    return {"l": list(a)}


def MAP(*a):
    return {"m": [list(x) for x in a]}


T = idl.type_from_str


class Builder:
    """builds one program from a feature vector fv (see spec/Reflect/ReflectGen.tla)"""

    def __init__(self, fv):
        self.fv = fv
        self.count = {}
        self.classes = []          # (node kind, pattern) pairs this program exercises, for the evidence

    def nth(self, kind):
        self.count[kind] = self.count.get(kind, 0) + 1
        return self.count[kind] - 1

    def ann(self, kind, tag):
        j = self.nth("ann:" + kind)
        pat = pat_at(ANN_PATS, self.fv["ann"][kind], j)
        self.classes.append("annotations %s %s" % (kind, pat))
        return ann_of(pat, tag)

    def cmt(self, kind, tag):
        j = self.nth("cmt:" + kind)
        pat = pat_at(CMT_PATS, self.fv["cmt"][kind], j)
        self.classes.append("comments %s %s" % (kind, pat))
        return cmt_of(pat, tag, kind in ("field", "enumvalue", "arg", "throw"))

    def deco(self, node, kind, tag):
        node["ann"] = self.ann(kind, tag)
        c = self.cmt(kind, tag)
        if c:
            node["cmt"] = c
        return node

    def ids(self, holder, n):
        pat = pat_at(ID_PATS, self.fv["ids"][holder], self.nth("ids:" + holder))
        self.classes.append("ids %s %s n=%d" % (holder, pat, min(n, 3)))
        if pat == "explicit":
            return list(range(1, n + 1))
        if pat == "implicit":
            return [None] * n
        if pat == "mixed":
            return [5] + [None] * (n - 1)
        if pat == "gap":
            return [None, 10] + [None] * (n - 2) if n >= 2 else [None] * n
        if pat == "desc":                               # ids not ascending in declaration order
            return list(range(n, 0, -1))
        if pat == "neg":
            out = [-(n + 1)] + [None] * (n - 1)      # -(n+1), -n, .. stay negative / zero-free
            return out
        raise ValueError(pat)

    def fields(self, holder, kind, owner, specs):
        """specs: list of (req, type, name, default)"""
        ids = self.ids(holder, len(specs))
        out = []
        for i, (req, ty, name, dflt) in zip(ids, specs):
            f = idl.F(i, req, ty if isinstance(ty, dict) else T(ty), name, dflt)
            self.deco(f, kind, owner + "." + name)
            out.append(f)
        return out

    def enum(self, name, pat, vals):
        self.classes.append("enum-numbers %s" % pat)
        if pat == "implicit":
            nums = [None] * len(vals)
        elif pat == "explicit":
            nums = [1, 2, 5, 9][:len(vals)]
        elif pat == "mixed":
            nums = [5, None, 1, None][:len(vals)]
        elif pat == "neg":
            nums = [-3, None, None, 7][:len(vals)]
        elif pat == "hex":
            nums = ["0x10", None, "0x7ffffff0", None][:len(vals)]
        else:
            raise ValueError(pat)
        vs = []
        for v, n in zip(vals, nums):
            vs.append(self.deco({"name": v, "value": n}, "enumvalue", name + "." + v))
        return self.deco({"k": "enum", "name": name, "values": vs}, "enum", name)

    # ---- an included ("library") file with one definition of every kind
    def lib(self, path, tag, includes=(), deep=None, common=False):
        """deep = (alias, tag) of a file this one includes and chains to"""
        defs = []
        defs.append(self.enum("En" + tag, pat_at(ENUM_PATS, self.fv["enums"][0], self.nth("libenum")), ["P" + tag, "Q" + tag]))
        if deep:
            defs.append(self.deco({"k": "typedef", "name": "Td" + tag, "type": T("%s.Td%s" % deep)}, "typedef", "Td" + tag))
        else:
            defs.append(self.deco({"k": "typedef", "name": "Td" + tag, "type": T("i32")}, "typedef", "Td" + tag))
        defs.append(self.deco({"k": "struct", "name": "St" + tag, "fields": self.fields("struct", "field", "St" + tag, [
            ("default", "i32", "a", None), ("optional", "En" + tag, "e", ID("En%s.Q%s" % (tag, tag))),
            ("default", "Td" + tag, "t", None)])}, "struct", "St" + tag))
        defs.append(self.deco({"k": "union", "name": "Un" + tag, "fields": self.fields("union", "field", "Un" + tag, [
            ("default", "i32", "a", None), ("default", "string", "b", None)])}, "union", "Un" + tag))
        defs.append(self.deco({"k": "exception", "name": "Ex" + tag, "fields": self.fields("exception", "field", "Ex" + tag, [
            ("default", "string", "msg", None)])}, "exception", "Ex" + tag))
        defs.append(self.deco({"k": "const", "name": "Cn" + tag, "type": T("i32"), "value": I(10 + len(tag))}, "const", "Cn" + tag))
        if common:   # names that also exist in a file with the same base name elsewhere
            defs.append({"k": "struct", "name": "Foo", "fields": [idl.F(1, "default", T("string"), "in" + tag)], "ann": [["from", tag]]})
            defs.append({"k": "enum", "name": "Col", "values": [{"name": "RED" + tag, "value": None}], "ann": None})
            defs.append({"k": "const", "name": "Who", "type": T("string"), "value": S(tag), "ann": None})
        fn = {"name": "get" + tag, "oneway": False, "ret": T("St" + tag),
              "args": self.fields("args", "arg", "get" + tag, [("default", "i32", "id", None)]), "throws": None}
        svc = {"k": "service", "name": "Sv" + tag, "extends": ("%s.Sv%s" % deep) if deep else None,
               "functions": [self.deco(fn, "method", "Sv%s.get%s" % (tag, tag))]}
        defs.append(self.deco(svc, "service", "Sv" + tag))
        return {"path": path, "includes": list(includes), "namespaces": [{"lang": "go", "name": "n" + tag.lower()}],
                "defs": defs, "top": "// library " + tag}

    # ---- the main file
    def main(self, path, includes, refs, common=None):
        """refs: list of (alias, tag) reachable through an include of the main file"""
        fv = self.fv
        d = []
        td = lambda name, ty: d.append(self.deco({"k": "typedef", "name": name, "type": T(ty)}, "typedef", name))
        td("TdI", "i32")
        td("TdJ", "i32")                       # same target: the Go aliases coincide
        td("TdL", "list<string>")
        td("TdM", "map<string,list<i64>>")
        td("TdS", "S2")
        td("TdT", "TdI")
        for k, (al, tg) in enumerate(refs):
            td("TdX%d" % k, "%s.Td%s" % (al, tg))
            td("TdY%d" % k, "%s.St%s" % (al, tg))
            td("TdZ%d" % k, "list<%s.En%s>" % (al, tg))
        if common:     # names defined by both files that share a base name
            td("TdFoo", common + ".Foo")
            td("TdCol", common + ".Col")
        d.append(self.enum("E1", fv["enums"][0], ["P", "Q", "R", "W"]))
        d.append(self.enum("E2", fv["enums"][1], ["ONE", "TWO", "THREE"]))
        # ---- constants of every shape
        cs = [
            ("CInt", "i32", I(7)), ("CNeg", "i32", I(-5)), ("CHex", "i32", I("0x1F")), ("CPlus", "i16", I("+12")),
            ("CBig", "i64", I(9223372036854775807)), ("CMin", "i64", I(-9223372036854775808)),
            ("CDbl", "double", {"d": "1.5"}), ("CDneg", "double", {"d": "-0.25"}), ("CDint", "double", I(3)),
            ("CDdot", "double", {"d": ".5"}),
            ("CStr", "string", S("hello world")), ("CSq", "string", S("single", "'")), ("CEmpty", "string", S("")),
            ("CBin", "binary", S("ab")),
            ("CTrue", "bool", ID("true")), ("CFalse", "bool", ID("false")),
            ("CRef", "i32", ID("CInt")), ("CEn", "E1", ID("E1.Q")), ("CEnInt", "E2", I(1)),
            ("CList", "list<i32>", LST(I(1), I(2), I(3))), ("CLEmpty", "list<string>", LST()),
            ("CNest", "list<list<string>>", LST(LST(S("a"), S("b")), LST(), LST(S("c")))),
            ("CSet", "set<string>", LST(S("x"), S("y"))),
            ("CMap", "map<string,i32>", MAP((S("a"), I(1)), (S("b"), I(2)), (S("c"), I(3)))),
            ("CMapE", "map<E1,string>", MAP((ID("E1.P"), S("p")), (ID("E1.Q"), S("q")))),
            ("CMapN", "map<i32,map<string,list<i32>>>", MAP((I(1), MAP((S("a"), LST(I(1), I(2))), (S("b"), LST()))), (I(2), MAP()))),
            ("CMapEmpty", "map<string,string>", MAP()),
            ("CStruct", "S2", MAP((S("a"), I(1)), (S("b"), S("x")))),
            ("CStructN", "S1", MAP((S("s2"), MAP((S("a"), I(4)))), (S("li"), LST(I(1))))),
            ("CIdList", "list<i32>", LST(ID("CInt"), I(2), ID("CNeg"))),
            ("CTdef", "TdI", I(9)),     # (a list literal for a typedef-of-list constant crashes the go backend)
        ]
        for k, (al, tg) in enumerate(refs):
            cs.append(("CRefX%d" % k, "i32", ID("%s.Cn%s" % (al, tg))))
            cs.append(("CEnX%d" % k, "%s.En%s" % (al, tg), ID("%s.En%s.P%s" % (al, tg, tg))))
            cs.append(("CStX%d" % k, "%s.St%s" % (al, tg), MAP((S("a"), I(2)))))
        if common and len({al for al, _ in refs}) == len(refs):   # (ambiguous for the compiler under an alias clash)
            cs.append(("CWho", "string", ID(common + ".Who")))
        if fv.get("dexp"):
            cs.append(("CDExp", "double", {"d": "1.5e3"}))
        for name, ty, v in cs:
            self.classes.append("const %s %s" % (name.rstrip("0123456789"), ty if "." not in ty else "included-type"))
            d.append(self.deco({"k": "const", "name": name, "type": T(ty), "value": v}, "const", name))
        # ---- struct-likes
        rot = fv.get("rot", 0)
        dflts = [("i32", I(42)), ("string", S("dflt")), ("double", {"d": "2.5"}), ("bool", ID("true")),
                 ("list<i32>", LST(I(1), I(2))), ("map<string,i32>", MAP((S("k1"), I(1)), (S("k2"), I(2)))),
                 ("E1", ID("E1.R")), ("i64", ID("CBig")), ("S2", MAP((S("a"), I(3)))), ("set<string>", LST(S("u"), S("v")))]
        dflts = dflts[rot % len(dflts):] + dflts[:rot % len(dflts)]
        reqs = ["default", "required", "optional"]
        s1 = [("default", "bool", "fb", None), ("required", "byte", "fy", None), ("optional", "i8", "f8", None),
              ("default", "i16", "f16", None), ("default", "i32", "f32", None), ("default", "i64", "f64", None),
              ("optional", "double", "fd", None), ("default", "string", "fs", None), ("default", "binary", "fbin", None),
              ("optional", "S2", "s2", None), ("default", "list<i32>", "li", None),
              ("default", "map<string,list<TdI>>", "mp", None), ("default", "set<E1>", "se", None),
              ("default", "TdM", "tm", None), ("optional", "U1", "u", None), ("default", "map<E1,S2>", "mes", None)]
        for k, (ty, v) in enumerate(dflts[:5]):
            s1.append((reqs[(k + rot) % 3], ty, "d%d" % k, v))
        # defaults that are the zero value of their type (an encoder that confuses "zero" with "absent" drops them)
        s1 += [("default", "double", "z0", {"d": "0.0"}), ("optional", "i32", "z1", I(0)), ("default", "string", "z2", S("")),
               ("optional", "bool", "z3", ID("false"))]
        for k, (al, tg) in enumerate(refs):
            s1.append(("default", "%s.St%s" % (al, tg), "xs%d" % k, None))
            s1.append(("optional", "list<%s.Td%s>" % (al, tg), "xt%d" % k, None))
            s1.append(("default", "map<%s.En%s,%s.Un%s>" % (al, tg, al, tg), "xm%d" % k, None))
            s1.append(("default", "TdX%d" % k, "xa%d" % k, None))
        d.append(self.deco({"k": "struct", "name": "S1", "fields": self.fields("struct", "field", "S1", s1)}, "struct", "S1"))
        d.append(self.deco({"k": "struct", "name": "S2", "fields": self.fields("struct", "field", "S2", [
            ("default", "i32", "a", dflts[5][1] if dflts[5][0] == "i32" else None), ("optional", "string", "b", None),
            ("default", "TdT", "c", None)])}, "struct", "S2"))
        d.append(self.deco({"k": "struct", "name": "S3", "fields": []}, "struct", "S3"))
        d.append(self.deco({"k": "union", "name": "U1", "fields": self.fields("union", "field", "U1", [
            ("default", "i32", "a", None), ("optional", "string", "b", None), ("default", "S2", "c", None)])}, "union", "U1"))
        d.append(self.deco({"k": "exception", "name": "X1", "fields": self.fields("exception", "field", "X1", [
            ("default", "string", "msg", None), ("default", "i32", "code", I(500))])}, "exception", "X1"))
        d.append(self.deco({"k": "exception", "name": "X2", "fields": self.fields("exception", "field", "X2", [
            ("required", "E1", "why", None)])}, "exception", "X2"))
        # ---- services
        ping = self.deco({"name": "ping", "oneway": False, "ret": None, "args": [], "throws": None}, "method", "SvL.ping")
        d.append(self.deco({"k": "service", "name": "SvL", "extends": None, "functions": [ping]}, "service", "SvL"))
        fns = []
        fns.append(self.deco({"name": "fire", "oneway": True, "ret": None,
                              "args": self.fields("args", "arg", "fire", [("default", "i32", "n", dflts[6][1] if dflts[6][0] == "i32" else I(1)),
                                                                          ("default", "S1", "s", None)]),
                              "throws": None}, "method", "Svc.fire"))
        fns.append(self.deco({"name": "calc", "oneway": False, "ret": T("map<string,S2>"),
                              "args": self.fields("args", "arg", "calc", [("default", "list<TdS>", "xs", None),
                                                                          ("optional", "E2", "mode", I(2)),      # (an identifier default on an argument crashes the go backend)
                                                                          ("required", "U1", "u", None)]),
                              "throws": self.fields("throws", "throw", "calc", [("default", "X1", "e1", None),
                                                                                ("default", "X2", "e2", None)])},
                             "method", "Svc.calc"))
        fns.append(self.deco({"name": "noop", "oneway": False, "ret": None, "args": [], "throws": []}, "method", "Svc.noop"))
        for k, (al, tg) in enumerate(refs):
            fns.append(self.deco({"name": "far%d" % k, "oneway": False, "ret": T("%s.St%s" % (al, tg)),
                                  "args": self.fields("args", "arg", "far%d" % k, [("default", "%s.Un%s" % (al, tg), "u", None)]),
                                  "throws": self.fields("throws", "throw", "far%d" % k, [("default", "%s.Ex%s" % (al, tg), "e", None)])},
                                 "method", "Svc.far%d" % k))
        ext = ("%s.Sv%s" % refs[0]) if refs else "SvL"
        d.append(self.deco({"k": "service", "name": "Svc", "extends": ext, "functions": fns}, "service", "Svc"))
        d.append(self.deco({"k": "service", "name": "Sv3", "extends": "Svc", "functions": []}, "service", "Sv3"))
        nss = [{"lang": "go", "name": "nm"}, {"lang": "java", "name": "com.example.nm"}, {"lang": "py", "name": "nm_py"}]
        return {"path": path, "includes": list(includes), "namespaces": nss, "defs": d, "top": "/* main file */"}

    def program(self):
        topo = self.fv["topo"]
        if topo == "single":
            return {"files": [self.main("main.thrift", [], [])]}
        if topo == "chain2":
            a = self.lib("a.thrift", "A")
            a["defs"].append({"k": "struct", "name": "S2", "fields": [idl.F(1, "default", T("bool"), "shadow")], "ann": None})
            m = self.main("main.thrift", ["a.thrift"], [("a", "A")])
            m["defs"].append({"k": "typedef", "name": "TdSh", "type": T("a.S2"), "ann": None})
            return {"files": [m, a]}
        if topo == "chain3":
            return {"files": [self.main("main.thrift", ["a.thrift"], [("a", "A")]),
                              self.lib("a.thrift", "A", ["sub/b.thrift"], deep=("b", "B")),
                              self.lib("sub/b.thrift", "B")]}
        if topo == "diamond":
            return {"files": [self.main("main.thrift", ["a.thrift", "b.thrift"], [("a", "A"), ("b", "B")]),
                              self.lib("a.thrift", "A", ["c.thrift"], deep=("c", "C")),
                              self.lib("b.thrift", "B", ["c.thrift"], deep=("c", "C")),
                              self.lib("c.thrift", "C")]}
        if topo == "samebase_indirect":
            return {"files": [self.main("main.thrift", ["d1/x.thrift", "y.thrift"], [("x", "A"), ("y", "Y")], common="x"),
                              self.lib("d1/x.thrift", "A", common=True),
                              self.lib("y.thrift", "Y", ["d2/x.thrift"], deep=("x", "B")),
                              self.lib("d2/x.thrift", "B", common=True)]}
        if topo == "samebase_direct":
            return {"files": [self.main("main.thrift", ["d1/x.thrift", "d2/x.thrift"], [("x", "A"), ("x", "B")], common="x"),
                              self.lib("d1/x.thrift", "A", common=True),
                              self.lib("d2/x.thrift", "B", common=True)]}
        if topo == "updir":
            return {"files": [self.main("app/api/main.thrift", ["../../lib/c.thrift", "../base/b.thrift"], [("c", "C"), ("b", "B")]),
                              self.lib("lib/c.thrift", "C"),
                              self.lib("app/base/b.thrift", "B", ["../../lib/c.thrift"], deep=("c", "C"))]}
        if topo == "dotted":
            return {"files": [self.main("main.thrift", ["v1.x.thrift"], [("v1.x", "A")]),
                              self.lib("v1.x.thrift", "A")]}
        raise ValueError(topo)


def build_program(fv):
    return Builder(fv).program()


# ------------------------------------------------------------------------------------------------ renderer
def _cm(c):
    style, body = c
    if style == "line":
        return "//" + body
    if style == "unix":
        return "#" + body
    return "/*" + body + "*/"


def _toks(fn, *a, **kw):
    out = []
    fn(*a, out, **kw)
    return " ".join(t for t, _ in out)


def _ann_s(ann):
    return (" " + _toks(idl._ann, ann)) if ann is not None else ""


def _field_lines(f, indent, sep):
    lines = []
    c = f.get("cmt") or {}
    for x in c.get("lead", []):
        lines.append(indent + _cm(x))
    out = []
    idl._field(dict(f, ann=f.get("ann")), out, sep=False)
    out = [t for t in out if t[1] != "eol"]
    s = indent + " ".join(t for t, _ in out) + sep
    for x in c.get("trail", []):
        s += " " + _cm(x)
    lines.append(s)
    return lines


def render_file(f):
    L = []
    if f.get("top"):
        L.append(f["top"])
    for inc in f.get("includes", []):
        L.append('include "%s"' % inc)
    for ns in f.get("namespaces", []):
        L.append("namespace %s %s%s" % (ns["lang"], ns["name"], _ann_s(ns.get("ann"))))
    L.append("")
    for d in f.get("defs", []):
        c = d.get("cmt") or {}
        for x in c.get("lead", []):
            L.append(_cm(x))
        k = d["k"]
        if k == "typedef":
            L.append("typedef %s %s%s" % (_toks(idl._type, d["type"]), d["name"], _ann_s(d.get("ann"))))
        elif k == "const":
            L.append("const %s %s = %s%s" % (_toks(idl._type, d["type"]), d["name"], _toks(idl._val, d["value"]), _ann_s(d.get("ann"))))
        elif k == "enum":
            L.append("enum %s {" % d["name"])
            for i, v in enumerate(d["values"]):
                vc = v.get("cmt") or {}
                for x in vc.get("lead", []):
                    L.append("  " + _cm(x))
                s = "  " + v["name"]
                if v.get("value") is not None:
                    s += " = %s" % v["value"]
                s += _ann_s(v.get("ann")) + [",", ";", ""][i % 3]
                for x in vc.get("trail", []):
                    s += " " + _cm(x)
                L.append(s)
            L.append("}" + _ann_s(d.get("ann")))
        elif k in ("struct", "union", "exception"):
            L.append("%s %s {" % (k, d["name"]))
            for i, fl in enumerate(d["fields"]):
                L += _field_lines(fl, "  ", [",", ";", ""][i % 3])
            L.append("}" + _ann_s(d.get("ann")))
        elif k == "service":
            L.append("service %s%s {" % (d["name"], (" extends " + d["extends"]) if d.get("extends") else ""))
            for i, fn in enumerate(d["functions"]):
                fc = fn.get("cmt") or {}
                for x in fc.get("lead", []):
                    L.append("  " + _cm(x))
                head = "  %s%s %s(" % ("oneway " if fn.get("oneway") else "", "void" if fn.get("ret") is None else _toks(idl._type, fn["ret"]), fn["name"])
                args = fn.get("args", [])
                if args:
                    L.append(head)
                    for j, a in enumerate(args):
                        L += _field_lines(a, "      ", "," if j + 1 < len(args) else "")
                    s = "  )"
                else:
                    s = head + ")"
                if fn.get("throws") is not None:
                    th = fn["throws"]
                    if th:
                        L.append(s + " throws (")
                        for j, a in enumerate(th):
                            L += _field_lines(a, "      ", "," if j + 1 < len(th) else "")
                        s = "  )"
                    else:
                        s += " throws ()"
                s += _ann_s(fn.get("ann")) + [",", ";", ""][i % 3]
                L.append(s)
            L.append("}" + _ann_s(d.get("ann")))
        L.append("")
    return "\n".join(L) + "\n"


def write_program(prog, root):
    main = None
    for i, f in enumerate(prog["files"]):
        p = os.path.join(root, f["path"])
        os.makedirs(os.path.dirname(p), exist_ok=True)
        with open(p, "w", encoding="utf-8", newline="") as fh:
            fh.write(render_file(f))
        if i == 0:
            main = p
    return main


def texts(prog):
    return {f["path"]: render_file(f) for f in prog["files"]}


# ------------------------------------------------------------------------------------------------ TLA image
KINDS = ["struct", "union", "exception", "enum", "typedef", "const", "service"]
PLURAL = {"struct": "structs", "union": "unions", "exception": "exceptions", "enum": "enums", "typedef": "typedefs",
          "const": "consts", "service": "services"}
TYPE_KINDS = ["struct", "union", "exception", "enum", "typedef"]


def split_ref(w):
    if w in idl.BASE or w in ("list", "set", "map", "void"):
        return "", ""
    if "." in w:
        i = w.rindex(".")
        return w[:i], w[i + 1:]
    return "", w


def t_type(t):
    if t is None:
        return {"w": "void", "pre": "", "base": "", "args": []}
    n = t["n"]
    if n == "map":
        return {"w": "map", "pre": "", "base": "", "args": [t_type(t["k"]), t_type(t["v"])]}
    if n in ("list", "set"):
        return {"w": n, "pre": "", "base": "", "args": [t_type(t["v"])]}
    pre, base = split_ref(n)
    return {"w": n, "pre": pre, "base": base, "args": []}


def dbl_atom(x):
    return repr(float(x))


def t_val(v):
    if v is None:
        return {"t": "none"}
    if "i" in v:
        return {"t": "int", "a": str(int(str(v["i"]), 0))}
    if "d" in v:
        return {"t": "double", "a": dbl_atom(v["d"])}
    if "s" in v:
        return {"t": "string", "a": v["s"]}
    if "id" in v:
        return {"t": "id", "a": v["id"]}
    if "l" in v:
        return {"t": "list", "items": [t_val(x) for x in v["l"]]}
    if "m" in v:
        return {"t": "map", "ents": [[t_val(k), t_val(x)] for k, x in v["m"]]}
    raise ValueError(v)


def t_ann(a):
    return [[k, v] for k, v in (a or [])]


def t_cmt(c):
    c = c or {}
    return {"lead": [{"style": s, "body": b} for s, b in c.get("lead", [])],
            "trail": [{"style": s, "body": b} for s, b in c.get("trail", [])]}


def t_field(f):
    return {"name": f["name"], "hasid": f.get("id") is not None, "id": f["id"] if f.get("id") is not None else 0,
            "req": f.get("req", "default"), "type": t_type(f["type"]), "hasdef": f.get("default") is not None,
            "def": t_val(f.get("default")), "ann": t_ann(f.get("ann")), "cmt": t_cmt(f.get("cmt"))}


def resolve_include(f, text):
    return posixpath.normpath(posixpath.join(posixpath.dirname(f["path"]), text))


def alias_of(text):
    b = posixpath.basename(text)
    return b[:-7] if b.endswith(".thrift") else b


def to_tla(prog):
    """image of the program for Reflect.tla; also assigns abstract Go types (gty)"""
    paths = [f["path"] for f in prog["files"]]
    out = []
    gty = [0]
    td_ty = {}

    def fresh():
        gty[0] += 1
        return gty[0]

    for f in prog["files"]:
        F = {"path": f["path"], "incs": [], "nss": [{"lang": n["lang"], "name": n["name"]} for n in f.get("namespaces", [])]}
        for k in KINDS:
            F[PLURAL[k]] = []
        for text in f.get("includes", []):
            F["incs"].append({"alias": alias_of(text), "file": paths.index(resolve_include(f, text)) + 1})
        for d in f["defs"]:
            k = d["k"]
            base = {"name": d["name"], "ann": t_ann(d.get("ann")), "cmt": t_cmt(d.get("cmt"))}
            if k in ("struct", "union", "exception"):
                base.update(fields=[t_field(x) for x in d["fields"]], gty=fresh())
            elif k == "enum":
                vs = []
                for v in d["values"]:
                    has = v.get("value") is not None
                    vs.append({"name": v["name"], "has": has, "v": int(str(v["value"]), 0) if has else 0,
                               "ann": t_ann(v.get("ann")), "cmt": t_cmt(v.get("cmt"))})
                base.update(values=vs, gty=fresh())
            elif k == "typedef":
                key = idl.type_to_str(d["type"]) if d["type"]["n"] in idl.BASE else None   # Go aliases of one base type coincide
                if key is None:
                    ty = fresh()
                else:
                    if key not in td_ty:
                        td_ty[key] = fresh()
                    ty = td_ty[key]
                base.update(type=t_type(d["type"]), gty=ty)
            elif k == "const":
                base.update(type=t_type(d["type"]), value=t_val(d["value"]))
            elif k == "service":
                ext = d.get("extends") or ""
                pre, name = split_ref(ext) if ext else ("", "")
                ms = []
                for fn in d["functions"]:
                    ms.append({"name": fn["name"], "oneway": bool(fn.get("oneway")), "ret": t_type(fn.get("ret")),
                               "args": [t_field(x) for x in fn.get("args", [])],
                               "throws": [t_field(x) for x in (fn.get("throws") or [])],
                               "ann": t_ann(fn.get("ann")), "cmt": t_cmt(fn.get("cmt"))})
                base.update(base={"w": ext, "pre": pre, "name": name}, methods=ms)
            F[PLURAL[k]].append(base)
        out.append(F)
    return out


# ------------------------------------------------------------------------------------------------ queries
def mkq(q, f=0, kind="", pre="", name="", n=0, m=0, s="", sel=()):
    return {"q": q, "f": f, "kind": kind, "pre": pre, "name": name, "n": n, "m": m, "s": s, "sel": list(sel),
            "l": [], "rf": 0, "ri": 0, "rj": 0, "ty": 0, "err": ""}


def go_types(F):
    """type-bearing definitions of an image file in the order of the generated go_types slice"""
    out = []
    for k in TYPE_KINDS:
        for i, d in enumerate(F[PLURAL[k]]):
            out.append((k, i + 1, d))
    return out


def _kind_of(img, fidx, pre, base):
    """(kind) the written reference denotes for the compiler (first include with the alias that defines it)"""
    F = img[fidx]
    cands = [fidx] if pre == "" else [inc["file"] - 1 for inc in F["incs"] if inc["alias"] == pre]
    for g in cands:
        for k in TYPE_KINDS:
            if any(d["name"] == base for d in img[g][PLURAL[k]]):
                return k
    return None


def _walk_types(t, sel=()):
    yield t, sel
    if t["w"] == "map":
        yield from _walk_types(t["args"][0], sel + ("k",))
        yield from _walk_types(t["args"][1], sel + ("v",))
    elif t["w"] in ("list", "set"):
        yield from _walk_types(t["args"][0], sel + ("v",))


def queries(img, compiled=False):
    """(queries after every registration, queries for the private registry of RegisterAST)"""
    qs, qa = [], []
    mnames = sorted({mth["name"] for F in img for sv in F["services"] for mth in sv["methods"]}) + ["nosuch"]
    for fi, F in enumerate(img):
        f = fi + 1
        qs.append(mkq("fd", f))
        aliases = []
        for inc in F["incs"]:
            if inc["alias"] not in aliases:
                aliases.append(inc["alias"])
        for a in aliases + ["", "nosuch"]:
            qs.append(mkq("inc", f, pre=a))
        # local names: the right kind, and every name under one wrong kind
        for k in KINDS:
            for d in F[PLURAL[k]]:
                qs.append(mkq("get", f, k, "", d["name"]))
                wrong = KINDS[(KINDS.index(k) + 1) % len(KINDS)]
                qs.append(mkq("get", f, wrong, "", d["name"]))
            qs.append(mkq("get", f, k, "", "NoSuch"))
        # through every alias: every name any file with that alias defines, plus a missing one
        for a in aliases:
            targets = [inc["file"] - 1 for inc in F["incs"] if inc["alias"] == a]
            seen = set()
            for g in targets:
                for k in KINDS:
                    for d in img[g][PLURAL[k]]:
                        if (k, d["name"]) in seen:
                            continue
                        seen.add((k, d["name"]))
                        qs.append(mkq("get", f, k, a, d["name"]))
                        qs.append(mkq("lookup", f, k, a, d["name"]))
            qs.append(mkq("get", f, "struct", a, "NoSuch"))
        qs.append(mkq("get", f, "struct", "nosuch", "S1"))
        qs.append(mkq("lookup", f, "struct", "", F["structs"][0]["name"] if F["structs"] else "NoSuch"))
        # services
        for si, sd in enumerate(F["structs"]):
            qs.append(mkq("closure", f, n=si + 1))
        for si, sv in enumerate(F["services"]):
            qs.append(mkq("allmethods", f, n=si + 1))
            for mn in mnames:        # any method of the program may be inherited
                qs.append(mkq("methodfromall", f, n=si + 1, s=mn))
            qs.append(mkq("parent", f, n=si + 1))
            for mth in sv["methods"]:
                qs.append(mkq("method", f, pre="", name=sv["name"], s=mth["name"]))
                qs.append(mkq("method", f, pre="", name="", s=mth["name"]))
                qs.append(mkq("svcmethod", f, n=si + 1, s=mth["name"]))
            qs.append(mkq("method", f, pre="", name=sv["name"], s="nosuch"))
            qs.append(mkq("svcmethod", f, n=si + 1, s="nosuch"))
        for a in aliases:
            for g in [inc["file"] - 1 for inc in F["incs"] if inc["alias"] == a]:
                for sv in img[g]["services"]:
                    for mth in sv["methods"]:
                        qs.append(mkq("method", f, pre=a, name=sv["name"], s=mth["name"]))
        # fields by id / name
        for k in ("struct", "union", "exception"):
            for si, sd in enumerate(F[PLURAL[k]]):
                prev = 0
                for fld in sd["fields"]:
                    fid = fld["id"] if fld["hasid"] else prev + 1
                    prev = fid
                    qs.append(mkq("fieldid", f, k, n=si + 1, m=fid))
                    qs.append(mkq("fieldname", f, k, name=fld["name"], n=si + 1))
                qs.append(mkq("fieldid", f, k, n=si + 1, m=99))
                qs.append(mkq("fieldid", f, k, n=si + 1, m=0))
                qs.append(mkq("fieldname", f, k, name="nosuch", n=si + 1))
        # type references
        holders = []
        for k in ("struct", "union", "exception"):
            for si, sd in enumerate(F[PLURAL[k]]):
                for mi, fld in enumerate(sd["fields"]):
                    holders.append((k, si + 1, mi + 1, fld["type"]))
        for ti, tdf in enumerate(F["typedefs"]):
            holders.append(("typedef", ti + 1, 0, tdf["type"]))
        for ci, c in enumerate(F["consts"]):
            holders.append(("const", ci + 1, 0, c["type"]))
        for k, n, m, ty in holders:
            for t, sel in _walk_types(ty):
                if t["base"] == "":
                    if sel == () and t["w"] in ("i32", "map"):
                        qs.append(mkq("tref", f, k, name="struct", n=n, m=m, s="", sel=()))
                    continue
                actual = _kind_of(img, fi, t["pre"], t["base"])
                for as_ in sorted({actual or "struct", "struct", "enum", "typedef"}):
                    qs.append(mkq("tref", f, k, name=as_, n=n, m=m, s="".join(sel), sel=sel))
        # Go types
        for pos, (k, i, d) in enumerate(go_types(F)):
            qs.append(mkq("bygo", f, k, name=d["name"], n=pos + 1, m=i))
            qs.append(mkq("togo", f, k, name=d["name"], n=pos + 1, m=i))
            if compiled and k != "typedef":
                qs.append(mkq("own", f, k, name=d["name"], n=pos + 1, m=i))
    qa = [q for q in qs if q["q"] not in ("bygo", "togo", "own")]
    names = set()
    for F in img:
        for k in KINDS:
            for d in F[PLURAL[k]]:
                names.add((k, d["name"]))
    for k, nm in sorted(names):
        qa.append(mkq("glob", 0, k, name=nm))
    for k in KINDS:
        qa.append(mkq("glob", 0, k, name="NoSuch"))
    return qs, qa


def type_at(img, q):
    F = img[q["f"] - 1]
    k = q["kind"]
    if k in ("struct", "union", "exception"):
        t = F[PLURAL[k]][q["n"] - 1]["fields"][q["m"] - 1]["type"]
    elif k == "typedef":
        t = F["typedefs"][q["n"] - 1]["type"]
    else:
        t = F["consts"][q["n"] - 1]["type"]
    for c in q["sel"]:
        t = t["args"][0] if (c == "k" or t["w"] != "map") else t["args"][1]
    return t


def via_clash(img, q):
    """does the query go through an include alias that two includes of the file share?"""
    if not q["f"]:
        return False
    F = img[q["f"] - 1]

    def clash(pre):
        return pre != "" and sum(1 for i in F["incs"] if i["alias"] == pre) > 1
    if q["q"] in ("get", "lookup", "inc", "method"):
        return clash(q["pre"])
    if q["q"] == "parent":
        return clash(F["services"][q["n"] - 1]["base"]["pre"])
    if q["q"] == "tref":
        return clash(type_at(img, q)["pre"])
    if q["q"] in ("allmethods", "methodfromall", "closure"):
        # transitive: may pass through any alias of the file (files with a clash are the main files of one topology)
        return any(clash(i["alias"]) for i in F["incs"])
    return False


def has_map_values(F):
    """does the file have a map-valued constant / default anywhere (also nested)?"""
    def hm(v):
        if v["t"] == "map":
            return True
        if v["t"] == "list":
            return any(hm(x) for x in v["items"])
        return False
    vals = [c["value"] for c in F["consts"]]
    for k in ("structs", "unions", "exceptions"):
        for sd in F[k]:
            vals += [f["def"] for f in sd["fields"] if f["hasdef"]]
    for sv in F["services"]:
        for mth in sv["methods"]:
            vals += [f["def"] for f in mth["args"] + mth["throws"] if f["hasdef"]]
    return any(hm(v) for v in vals)


def state_dependent(img, q):
    """can the answer change while other files of the program are (not yet) registered?"""
    if q["q"] in ("fd", "inc", "bygo", "togo", "own", "glob", "lookup", "allmethods", "methodfromall", "closure"):
        return True
    if q["q"] in ("get", "method"):
        return q["pre"] != ""
    if q["q"] == "parent":
        return img[q["f"] - 1]["services"][q["n"] - 1]["base"]["pre"] != ""
    if q["q"] == "tref":
        return type_at(img, q)["pre"] != ""
    return False


def harness_types(img):
    """per file the stand-in Go types for the in-process registry (typedefs with one gty share a type)"""
    first = {}
    out = []
    for fi, F in enumerate(img):
        row = []
        for pos, (k, i, d) in enumerate(go_types(F)):
            e = {"kind": k, "name": d["name"], "share": []}
            if k == "typedef":
                if d["gty"] in first:
                    e["share"] = list(first[d["gty"]])
                else:
                    first[d["gty"]] = (fi + 1, pos + 1)
            row.append(e)
        out.append(row)
    return out


# ------------------------------------------------------------------------------------------------ comparison
def _none(x):
    return isinstance(x, dict) and x.get("none") is True


def _cmt_strings(c):
    """the strings a comments field may hold for the expected [lead, trail]"""
    def variants(seq):
        outs = [""]
        first = True
        res = [[]]
        for x in seq:
            st, body = x["style"], x["body"]
            opts = ["//" + body] if st == "line" else (["//" + body, "#" + body] if st == "unix" else ["/*" + body + "*/"])
            res = [r + [o] for r in res for o in opts]
        return ["\n".join(r) for r in res]
    lead, trail = c["lead"], c["trail"]
    if lead and trail:
        out = set(variants(lead)) | set(variants(trail)) | {a + "\n" + b for a in variants(lead) for b in variants(trail)}
        return out
    if lead:
        return set(variants(lead))
    if trail:
        return set(variants(trail))
    return {""}


def _canon_val(v):
    """observed / expected value -> comparable normal form (map entries as a sorted bag, doubles by value)"""
    if v is None or _none(v):
        return None
    t = v["t"]
    if t == "list":
        return ["list", [_canon_val(x) for x in v["items"]]]
    if t == "map":
        ents = [[_canon_val(e[0]), _canon_val(e[1])] for e in v["ents"]]
        ents.sort(key=lambda e: json.dumps(e, sort_keys=True))
        return ["map", ents]
    if t == "double":
        return ["double", repr(float(v["a"]))]
    return [t, v["a"]]


class Diff:
    def __init__(self, prefix):
        self.prefix = prefix
        self.items = []

    def add(self, path, what, exp, obs):
        self.items.append({"at": path, "what": what, "expected": exp, "observed": obs})


def _cmp_type(D, at, exp, obs, path):
    if _none(exp):
        if obs is not None:
            D.add(at, "type", None, obs)
        return
    if obs is None:
        D.add(at, "type", exp, None)
        return
    if obs["fp"] != D.prefix + path:
        D.add(at + ".filepath", "filepath", D.prefix + path, obs["fp"])
    if obs["name"] != exp["name"]:
        D.add(at + ".name", "type", exp["name"], obs["name"])
    _cmp_type(D, at + ".key", exp["key"], obs["key"], path)
    _cmp_type(D, at + ".value", exp["value"], obs["value"], path)


def _cmp_common(D, at, exp, obs, path):
    if obs["fp"] != D.prefix + path:
        D.add(at + ".filepath", "filepath", D.prefix + path, obs["fp"])
    ea = {x["k"]: list(x["vs"]) for x in exp["ann"]}
    if ea != obs["ann"]:
        D.add(at + ".ann", "annotations", ea, obs["ann"])
    allowed = _cmt_strings(exp["comments"])
    if obs["comments"] not in allowed:
        D.add(at + ".comments", "comments", sorted(allowed), obs["comments"])


def _cmp_fields(D, at, exp, obs, path):
    if [f["name"] for f in exp] != [f["name"] for f in obs]:
        D.add(at, "names", [f["name"] for f in exp], [f["name"] for f in obs])
        return
    for e, o in zip(exp, obs):
        a = "%s.%s" % (at, e["name"])
        _cmp_common(D, a, e, o, path)
        if o["id"] != e["id"]:
            D.add(a + ".id", "id", e["id"], o["id"])
        reqs = set(e["reqs"])
        if str(o["req"]).lower() not in reqs:
            D.add(a + ".req", "requiredness", sorted(reqs), o["req"])
        _cmp_type(D, a + ".type", e["type"], o["type"], path)
        if _canon_val(e["default"]) != _canon_val(o["default"]):
            D.add(a + ".default", "default", e["default"], o["default"])


def _by_name(D, at, exp, obs):
    en, on = [x["name"] for x in exp], [x["name"] for x in obs if x is not None]
    if sorted(en) != sorted(on) or len(on) != len(obs):
        D.add(at, "names", en, on)
        return []
    om = {x["name"]: x for x in obs}
    return [(x, om[x["name"]]) for x in exp]


def compare_desc(exp, obs, prefix):
    """exp: Desc(P, f) as emitted by TLC; obs: c15refl.Canon. Returns list of differences."""
    D = Diff(prefix)
    path = exp["path"]
    if obs is None:
        D.add("file", "nil", path, None)
        return D.items
    if obs["path"] != prefix + path:
        D.add("path", "filepath", prefix + path, obs["path"])
    einc = sorted([x["alias"], prefix + x["path"]] for x in exp["includes"])
    oinc = sorted([k, v] for k, v in obs["includes"].items())
    if einc != oinc:
        D.add("includes", "includes", einc, oinc)
    ens = sorted([x["lang"], x["name"]] for x in exp["namespaces"])
    ons = sorted([k, v] for k, v in obs["namespaces"].items())
    if ens != ons:
        D.add("namespaces", "namespaces", ens, ons)
    for kind in ("structs", "unions", "exceptions"):
        for e, o in _by_name(D, kind, exp[kind], obs[kind]):
            a = "%s.%s" % (kind, e["name"])
            _cmp_common(D, a, e, o, path)
            _cmp_fields(D, a, e["fields"], o["fields"], path)
    for e, o in _by_name(D, "enums", exp["enums"], obs["enums"]):
        a = "enums." + e["name"]
        _cmp_common(D, a, e, o, path)
        if [v["name"] for v in e["values"]] != [v["name"] for v in o["values"]]:
            D.add(a, "names", [v["name"] for v in e["values"]], [v["name"] for v in o["values"]])
            continue
        for ev, ov in zip(e["values"], o["values"]):
            b = "%s.%s" % (a, ev["name"])
            _cmp_common(D, b, ev, ov, path)
            if ev["value"] != ov["value"]:
                D.add(b + ".value", "enum-number", ev["value"], ov["value"])
    for e, o in _by_name(D, "typedefs", exp["typedefs"], obs["typedefs"]):
        a = "typedefs." + e["name"]
        _cmp_common(D, a, e, o, path)
        _cmp_type(D, a + ".type", e["type"], o["type"], path)
    for e, o in _by_name(D, "consts", exp["consts"], obs["consts"]):
        a = "consts." + e["name"]
        _cmp_common(D, a, e, o, path)
        _cmp_type(D, a + ".type", e["type"], o["type"], path)
        if _canon_val(e["value"]) != _canon_val(o["value"]):
            D.add(a + ".value", "const-value", e["value"], o["value"])
    for e, o in _by_name(D, "services", exp["services"], obs["services"]):
        a = "services." + e["name"]
        _cmp_common(D, a, e, o, path)
        if e["base"] != o["base"]:
            D.add(a + ".base", "base", e["base"], o["base"])
        if [m["name"] for m in e["methods"]] != [m["name"] for m in o["methods"] if m]:
            D.add(a, "names", [m["name"] for m in e["methods"]], [m["name"] for m in o["methods"] if m])
            continue
        for em, om in zip(e["methods"], o["methods"]):
            b = "%s.%s" % (a, em["name"])
            _cmp_common(D, b, em, om, path)
            if bool(em["oneway"]) != bool(om["oneway"]):
                D.add(b + ".oneway", "oneway", em["oneway"], om["oneway"])
            if em["ret"]["name"] == "void" and om["ret"] is None:
                pass      # "no response type" is as good a statement of void as a type named void
            else:
                _cmp_type(D, b + ".ret", em["ret"], om["ret"], path)
            _cmp_fields(D, b + ".args", em["args"], om["args"], path)
            _cmp_fields(D, b + ".throws", em["throws"], om["throws"], path)
    return D.items
