INIT SInit
NEXT SNext
CONSTANTS
  Budget = 1000000
  Mutants = FALSE
  GenFamilies = {}
  SimFamilies = {"full", "gap2"}
INVARIANTS Emit
CHECK_DEADLOCK FALSE
