INIT SInit
NEXT SNext
CONSTANTS
  GapSet = "base"
  Budget = 1000000
  Mutants = FALSE
  GenFamilies = {}
  SimFamilies = {"full", "gap2"}
INVARIANTS TypeOK DoneLegal DeviationsCounted Emit
CHECK_DEADLOCK FALSE
