INIT GInit
NEXT GNext
CONSTANTS
  GapSet = "base"
  Budget = 1000000
  Mutants = TRUE
  GenFamilies = {"canon", "gap1", "all", "sep", "quote", "num", "mut"}
  SimFamilies = {"full", "gap2"}
INVARIANTS GenLiterals Emit
CHECK_DEADLOCK FALSE
