------------------------------ MODULE Lexical ------------------------------
(***************************************************************************)
(* The document model of Thrift IDL text (DESIGN 6 C03 / C17).             *)
(*                                                                         *)
(* A document is the canonical token list of a program (lib/idl.py         *)
(* tokens(file), handed over as JSON) printed under a *layout*:            *)
(*   - at every gap between two tokens one layout element out of Gaps      *)
(*     ("" only where the neighbours cannot fuse into one token),          *)
(*   - every optional list separator as "," or ";" or not at all,          *)
(*   - every literal in double or single quotes (the enclosing quote is    *)
(*     escaped inside, nothing else is),                                   *)
(*   - every number in one of its spellings.                               *)
(* The printer is the state machine below; its complete                    *)
(* behaviours are exactly the grammatical renderings of the program.       *)
(* Mutate(k) turns the canonical rendering into an ungrammatical           *)
(* neighbour.  What the parser has to answer is a function of the program  *)
(* model only (the Expected section): it does not mention the layout.      *)
(***************************************************************************)
EXTENDS Integers, Sequences, FiniteSets, TLC, Json, LexLit

RawDocs == JsonDeserialize("docs.json")     \* see lib/c03_lex.py tla_doc(): toks, flists, enums, anns, endnl
NDocs == Len(RawDocs)

-----------------------------------------------------------------------------
(* layout elements.  Index 1 (space) and 2 (newline) are the canonical ones, 8 is "no gap at all"; the second table *)
(* swaps the others for further whitespace / comment forms (CR only, vertical tab, empty and multi-line comments). *)
CONSTANT GapSet      \* "base" | "ext"
Gaps == IF GapSet = "base"
        THEN <<" ", "\n", "\t", "\r\n", "/*c*/", "//c\n", "#c\n", "">>
        ELSE <<" ", "\n", "\r", " \t ", "/**/", "//\r", "/* c\n // c */", "">>
GSpace == 1
GNewline == 2
GEmpty == 8
NGaps == Len(Gaps)

Wordy(k) == k \in {"kw", "id", "int", "dbl"}
CanFuse(l, r) == Wordy(l.k) /\ Wordy(r.k)     \* two such tokens written without a gap read as one token

-----------------------------------------------------------------------------
(* spellings *)
HexD == <<"0", "1", "2", "3", "4", "5", "6", "7", "8", "9", "a", "b", "c", "d", "e", "f">>
HexU == <<"0", "1", "2", "3", "4", "5", "6", "7", "8", "9", "A", "B", "C", "D", "E", "F">>
RECURSIVE Digits(_, _, _)
Digits(n, base, tab) == IF n < base THEN tab[n + 1] ELSE Digits(n \div base, base, tab) \o tab[(n % base) + 1]

IntSpellings(v) ==
  IF v >= 0 THEN <<ToString(v), "+" \o ToString(v), "0x" \o Digits(v, 16, HexD), "0x" \o Digits(v, 16, HexU),
                   "0o" \o Digits(v, 8, HexD)>>
  ELSE <<ToString(v)>>
IntStyle == <<"dec", "plus", "hex", "HEX", "oct">>

DblSpellings(t) ==
  LET sg == IF t.neg THEN "-" ELSE ""
      ip == ToString(t.ip)
      plain == sg \o ip \o "." \o t.fp
  IN <<plain,
       sg \o ip \o "." \o t.fp \o "e0",
       sg \o ip \o t.fp \o "e-" \o ToString(t.fl),
       sg \o ip \o "." \o t.fp \o "E+0",
       sg \o ip \o t.fp \o "0E-" \o ToString(t.fl + 1)>>
     \o (IF t.neg THEN <<>> ELSE <<"+" \o plain>>)
     \o (IF t.ip = 0 THEN <<sg \o "." \o t.fp>> ELSE <<>>)

Variants(t) ==
  CASE t.k = "sep" -> <<",", ";", "">>
    [] t.k = "lit" -> <<Raw(t.a, DQ), Raw(t.a, SQ)>>
    [] t.k = "int" /\ t.sp -> IntSpellings(t.v)
    [] t.k = "dbl" /\ t.sp -> DblSpellings(t)
    [] OTHER -> <<t.t>>
SepNone == 3

-----------------------------------------------------------------------------
(* what the AST must contain -- a function of the program model only *)
RECURSIVE IdsFrom(_, _, _)
IdsFrom(fl, i, prev) ==
  IF i > Len(fl) THEN <<>>
  ELSE LET id == IF fl[i].has THEN fl[i].id ELSE prev + 1 IN <<id>> \o IdsFrom(fl, i + 1, id)
ImplicitIds(fl) == IdsFrom(fl, 1, 0)                     \* previous + 1, starting at 1

RECURSIVE EnumFrom(_, _, _)
EnumFrom(vs, i, prev) ==
  IF i > Len(vs) THEN <<>>
  ELSE LET v == IF vs[i].has THEN vs[i].v ELSE prev + 1 IN <<v>> \o EnumFrom(vs, i + 1, v)
ImplicitEnumValues(vs) == EnumFrom(vs, 1, -1)            \* previous + 1, starting at 0

\* annotations: one entry per key in order of first occurrence, values accumulated in order
RECURSIVE GroupFrom(_, _, _)
GroupFrom(an, i, acc) ==
  IF i > Len(an) THEN acc
  ELSE LET k == an[i].k
           c == Content(an[i].a)
           hit == {j \in 1..Len(acc) : acc[j].k = k}
       IN IF hit = {} THEN GroupFrom(an, i + 1, Append(acc, [k |-> k, v |-> <<c>>]))
          ELSE LET j == CHOOSE j \in hit : TRUE
               IN GroupFrom(an, i + 1, [acc EXCEPT ![j].v = Append(@, c)])
GroupAnnotations(an) == GroupFrom(an, 1, <<>>)

Map(f(_), s) == [i \in 1..Len(s) |-> f(s[i])]
RECURSIVE LitContents(_, _)
LitContents(toks, i) ==
  IF i > Len(toks) THEN <<>>
  ELSE (IF toks[i].k = "lit" THEN <<Content(toks[i].a)>> ELSE <<>>) \o LitContents(toks, i + 1)

-----------------------------------------------------------------------------
(* choice vectors: lay[1..N+1] gap element before token i (N+1: after the last), var[1..N] spelling of token i *)
N(D) == Len(D.toks)
CanonGap(D, i) == IF i = 1 THEN GEmpty
                  ELSE IF i = N(D) + 1 THEN (IF D.endnl THEN GNewline ELSE GEmpty)
                  ELSE IF D.toks[i].nl THEN GNewline ELSE GSpace
CanonLay(D) == [i \in 1..N(D) + 1 |-> CanonGap(D, i)]
CanonVar(D) == [i \in 1..N(D) |-> 1]

\* the documents with their spelling tables and canonical vectors (constant level, evaluated once; TLCEval forces the
\* lazily evaluated function constructors, which would otherwise be re-evaluated on every use):
\*   D.vt[i] = Variants(D.toks[i]), D.cl = CanonLay(D), D.cv = CanonVar(D)
Docs == TLCEval([k \in 1..NDocs |->
           TLCEval(RawDocs[k] @@ [vt |-> TLCEval([i \in 1..Len(RawDocs[k].toks) |-> Variants(RawDocs[k].toks[i])]),
                                  cl |-> TLCEval(CanonLay(RawDocs[k])), cv |-> TLCEval(CanonVar(RawDocs[k]))])])

Omitted(D, var, i) == D.toks[i].k = "sep" /\ var[i] = SepNone
RECURSIVE PrevEmitted(_, _, _)
PrevEmitted(D, var, i) ==      \* index of the last printed token before i, 0 if none
  IF i <= 1 THEN 0 ELSE IF Omitted(D, var, i - 1) THEN PrevEmitted(D, var, i - 1) ELSE i - 1

GapLegal(D, var, i, e) ==       \* (IF, not \/: TLC explores every disjunct of an action-level disjunction)
  IF e # GEmpty THEN TRUE
  ELSE IF i = N(D) + 1 THEN TRUE
  ELSE IF PrevEmitted(D, var, i) = 0 THEN TRUE
  ELSE ~CanFuse(D.toks[PrevEmitted(D, var, i)], D.toks[i])
\* gaps of omitted separators are not printed: pin them to the canonical element so that a document has one vector
Legal(D, lay, var) ==
  /\ \A i \in 1..N(D) : var[i] \in 1..Len(D.vt[i])
  /\ \A i \in 1..N(D) + 1 :
       IF i <= N(D) /\ Omitted(D, var, i) THEN lay[i] = CanonGap(D, i) ELSE GapLegal(D, var, i, lay[i])

RECURSIVE PiecesFrom(_, _, _, _)
PiecesFrom(D, lay, var, i) ==
  IF i > N(D) THEN <<Gaps[lay[i]]>>
  ELSE (IF Omitted(D, var, i) THEN <<>> ELSE <<Gaps[lay[i]], D.vt[i][var[i]]>>)
       \o PiecesFrom(D, lay, var, i + 1)
Pieces(D, lay, var) == PiecesFrom(D, lay, var, 1)       \* the document is the concatenation of its pieces

-----------------------------------------------------------------------------
(* Mutate(k): ungrammatical neighbours of the canonical rendering *)
Brackets == <<"(", ")", "{", "}", "[", "]", "<", ">">>
MutKinds == {"del", "dup", "swap", "trunc", "ins", "openlit", "headlit", "opencomment"}

CanonPairs(D) == [i \in 1..N(D) |-> <<Gaps[CanonGap(D, i)], D.toks[i].t>>]
RECURSIVE Flat(_, _)
Flat(ps, i) == IF i > Len(ps) THEN <<>> ELSE <<ps[i][1], ps[i][2]>> \o Flat(ps, i + 1)
TailGap(D) == Gaps[CanonGap(D, N(D) + 1)]

MutApplicable(D, m, i, b) ==
  /\ i \in 1..N(D)
  /\ CASE m = "swap" -> i < N(D) /\ D.toks[i].t # D.toks[i + 1].t
       [] m = "trunc" -> i < N(D)
       [] m = "ins" -> b \in 1..Len(Brackets)
       [] m \in {"openlit", "headlit"} -> D.toks[i].k = "lit"
       [] OTHER -> TRUE
  /\ (m # "ins" => b = 0)

MutPieces(D, m, i, b) ==
  LET ps == CanonPairs(D)
      n == N(D)
      t == D.toks[i].t
  IN CASE m = "del" -> Flat(SubSeq(ps, 1, i - 1) \o SubSeq(ps, i + 1, n), 1) \o <<TailGap(D)>>
       [] m = "dup" -> Flat(SubSeq(ps, 1, i) \o <<<<" ", t>>>> \o SubSeq(ps, i + 1, n), 1) \o <<TailGap(D)>>
       [] m = "swap" -> Flat(SubSeq(ps, 1, i - 1) \o <<<<ps[i][1], ps[i + 1][2]>>, <<ps[i + 1][1], ps[i][2]>>>>
                             \o SubSeq(ps, i + 2, n), 1) \o <<TailGap(D)>>
       [] m = "trunc" -> Flat(SubSeq(ps, 1, i), 1) \o <<"">>
       [] m = "ins" -> Flat(SubSeq(ps, 1, i - 1) \o <<<<ps[i][1], Brackets[b]>>, <<" ", t>>>> \o SubSeq(ps, i + 1, n), 1)
                       \o <<TailGap(D)>>
       [] m = "openlit" -> Flat(SubSeq(ps, 1, i - 1) \o <<<<ps[i][1], DQ \o RawFrom(D.toks[i].a, DQ, 1)>>>>
                                \o SubSeq(ps, i + 1, n), 1) \o <<TailGap(D)>>
       [] m = "headlit" -> Flat(SubSeq(ps, 1, i - 1) \o <<<<ps[i][1], RawFrom(D.toks[i].a, DQ, 1) \o DQ>>>>
                                \o SubSeq(ps, i + 1, n), 1) \o <<TailGap(D)>>
       [] m = "opencomment" -> Flat(SubSeq(ps, 1, i - 1) \o <<<<ps[i][1] \o "/*c ", t>>>> \o SubSeq(ps, i + 1, n), 1)
                               \o <<TailGap(D)>>

-----------------------------------------------------------------------------
(* The printer.  ph = "pick" -> "print" -> "done" -> (optionally) "mutant".                                 *)
(* In "print", pos tokens have been printed.  EmitToken(e, v) prints layout element e and then token pos+1     *)
(* in its spelling v; OmitSeparator leaves an optional list separator (and its gap) out; Finish(e) prints the  *)
(* element after the last token.  Budget bounds the number of non-canonical choices.                            *)
CONSTANTS Budget,        \* max. number of deviations from the canonical layout per document
          Mutants        \* BOOLEAN: enable Mutate
VARIABLES d, ph, pos, lay, var, dev, mut
vars == <<d, ph, pos, lay, var, dev, mut>>

NoMut == [m |-> "", i |-> 0, b |-> 0]
Doc == Docs[d]

Init == /\ d = 0 /\ ph = "pick" /\ pos = 0 /\ lay = <<>> /\ var = <<>> /\ dev = 0 /\ mut = NoMut

PickDoc(k) == /\ ph = "pick" /\ d' = k /\ ph' = "print"
              /\ UNCHANGED <<pos, lay, var, dev, mut>>

Cost(e, canon) == IF e = canon THEN 0 ELSE 1
Affordable(c) == dev + c <= Budget

EmitToken(e, v) ==
  /\ ph = "print" /\ pos < N(Doc)
  /\ v \in 1..Len(Doc.vt[pos + 1])
  /\ ~(Doc.toks[pos + 1].k = "sep" /\ v = SepNone)
  /\ GapLegal(Doc, var, pos + 1, e)
  /\ LET c == Cost(e, CanonGap(Doc, pos + 1)) + Cost(v, 1) IN Affordable(c) /\ dev' = dev + c
  /\ lay' = Append(lay, e) /\ var' = Append(var, v) /\ pos' = pos + 1
  /\ UNCHANGED <<d, ph, mut>>

OmitSeparator ==
  /\ ph = "print" /\ pos < N(Doc)
  /\ Doc.toks[pos + 1].k = "sep" /\ Affordable(1)
  /\ lay' = Append(lay, CanonGap(Doc, pos + 1)) /\ var' = Append(var, SepNone)
  /\ pos' = pos + 1 /\ dev' = dev + 1
  /\ UNCHANGED <<d, ph, mut>>

Finish(e) ==
  /\ ph = "print" /\ pos = N(Doc)
  /\ LET c == Cost(e, CanonGap(Doc, pos + 1)) IN Affordable(c) /\ dev' = dev + c
  /\ lay' = Append(lay, e) /\ ph' = "done"
  /\ UNCHANGED <<d, pos, var, mut>>

Mutate(m, i, b) ==
  /\ Mutants /\ ph = "done" /\ dev = 0
  /\ MutApplicable(Doc, m, i, b)
  /\ mut' = [m |-> m, i |-> i, b |-> b] /\ ph' = "mutant"
  /\ UNCHANGED <<d, pos, lay, var, dev>>

Next ==
  \/ \E k \in 1..NDocs : PickDoc(k)
  \/ \E e \in 1..NGaps : Finish(e) \/ \E v \in 1..8 : EmitToken(e, v)
  \/ OmitSeparator
  \/ \E m \in MutKinds, i \in 1..(IF d = 0 THEN 0 ELSE N(Doc)), b \in 0..Len(Brackets) : Mutate(m, i, b)

Spec == Init /\ [][Next]_vars

-----------------------------------------------------------------------------
(* invariants of the printer (checked exhaustively on small documents) *)
TypeOK ==
  /\ d \in 0..NDocs /\ ph \in {"pick", "print", "done", "mutant"}
  /\ (d > 0 => pos \in 0..N(Doc) /\ Len(var) = pos /\ Len(lay) = pos + (IF ph \in {"done", "mutant"} THEN 1 ELSE 0))

\* every finished behaviour is a legal choice vector: printing never lets two tokens fuse
DoneLegal == ph \in {"done", "mutant"} => Legal(Doc, lay, var)

Deviations(D, l, v) == Cardinality({i \in 1..N(D) + 1 : l[i] # CanonGap(D, i)}) + Cardinality({i \in 1..N(D) : v[i] # 1})
DeviationsCounted == ph \in {"done", "mutant"} => dev = Deviations(Doc, lay, var) /\ dev <= Budget


LiteralsReadBack == d > 0 => \A i \in 1..N(Doc) : Doc.toks[i].k = "lit" => ReadsBack(Doc.toks[i].a)

=============================================================================
