INIT Init
NEXT Next
INVARIANT Judge
CHECK_DEADLOCK FALSE
