INIT Init
NEXT Next
CONSTANTS
  Alphabet <- cAlphabet
  MaxLen = 2
  MaxArgs = 3
  MaxThrows = 3
INVARIANT Emit
CHECK_DEADLOCK FALSE
