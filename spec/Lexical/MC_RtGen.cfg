INIT Init
NEXT Next
CONSTANTS
  Alphabet <- cAlphabet
  MaxLen = 2
  MaxArgs = 3
  MaxThrows = 3
  RawAlphabet <- cRawAlphabet
  MaxRaw = 3
  NumClasses <- cNumClasses
  NumPlaces <- cNumPlaces
INVARIANT Emit
CHECK_DEADLOCK FALSE
