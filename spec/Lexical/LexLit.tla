------------------------------- MODULE LexLit -------------------------------
(***************************************************************************)
(* String literals of the IDL at content level.  A literal of the model    *)
(* is a sequence of atoms (characters, or opaque multi-character strings    *)
(* without quote or backslash); its raw text between quotes q escapes q     *)
(* with a backslash and nothing else; the AST carries the content.          *)
(***************************************************************************)
EXTENDS Integers, Sequences

DQ == "\""
SQ == "'"
BS == "\\"

RECURSIVE Concat(_, _)
Concat(s, i) == IF i > Len(s) THEN "" ELSE s[i] \o Concat(s, i + 1)

\* the only escape of the grammar: a backslash before the enclosing quote
EscAtom(a, q) == IF a = q THEN BS \o a ELSE a
RECURSIVE RawFrom(_, _, _)
RawFrom(a, q, i) == IF i > Len(a) THEN "" ELSE EscAtom(a[i], q) \o RawFrom(a, q, i + 1)
Raw(a, q) == q \o RawFrom(a, q, 1) \o q
Content(a) == Concat(a, 1)            \* literal text of the AST: only the enclosing quote unescaped


\* The grammar reads a literal back as the content the printer was given, whatever the quote: the raw text
\* between the quotes is a sequence of characters in which a backslash followed by a quote is one escape; only the
\* escape of the enclosing quote is unescaped.  (Contents ending in a backslash cannot be written and are excluded.)
RECURSIVE RawSeq(_, _, _)
RawSeq(a, q, i) == IF i > Len(a) THEN <<>> ELSE (IF a[i] = q THEN <<BS, q>> ELSE <<a[i]>>) \o RawSeq(a, q, i + 1)
RECURSIVE ReadLit(_, _, _)
ReadLit(r, q, i) ==           \* <<closed, content atoms>>
  IF i > Len(r) THEN <<TRUE, <<>>>>
  ELSE IF r[i] = BS /\ i < Len(r) /\ r[i + 1] \in {DQ, SQ}
       THEN LET rest == ReadLit(r, q, i + 2)
            IN <<rest[1], (IF r[i + 1] = q THEN <<q>> ELSE <<BS, r[i + 1]>>) \o rest[2]>>
       ELSE IF r[i] = q THEN <<FALSE, <<>>>>
       ELSE LET rest == ReadLit(r, q, i + 1) IN <<rest[1], <<r[i]>> \o rest[2]>>
Writable(a) == Len(a) = 0 \/ a[Len(a)] # BS

\* The tree walker of the parser (docs/string-literals-in-the-IDL.md is normative) consumes a backslash-backslash
\* pair first, keeping both characters, and only then looks for an escaped delimiter:
RECURSIVE WalkLit(_, _, _)
WalkLit(r, q, i) ==
  IF i > Len(r) THEN <<>>
  ELSE IF r[i] = BS /\ i < Len(r) /\ r[i + 1] = BS THEN <<BS, BS>> \o WalkLit(r, q, i + 2)
  ELSE IF r[i] = BS /\ i < Len(r) /\ r[i + 1] = q THEN <<q>> \o WalkLit(r, q, i + 2)
  ELSE <<r[i]>> \o WalkLit(r, q, i + 1)
\* Where a backslash stands immediately before a quote character in the content, grammar and walker pair the
\* backslashes differently (`\\"` is backslash + escaped quote for the grammar, a kept pair + plain quote for the
\* walker) and the content cannot be written in both quote styles.  Such contents are OUTSIDE the universe:
Plain(a) == \A i \in 1..Len(a) - 1 : ~(a[i] = BS /\ a[i + 1] \in {DQ, SQ})
InUniverse(a) == Writable(a) /\ Plain(a)

\* for every content of the universe the printer's raw text is read back as the content, in either quote style, by the
\* grammar's reading and by the walker's documented rule alike
ReadsBack(a) == /\ InUniverse(a)
                /\ \A q \in {DQ, SQ} : /\ ReadLit(RawSeq(a, q, 1), q, 1) = <<TRUE, a>>
                                        /\ WalkLit(RawSeq(a, q, 1), q, 1) = a
=============================================================================
