------------------------------- MODULE LexGen -------------------------------
(***************************************************************************)
(* Case generation over the Lexical document model.                        *)
(*                                                                         *)
(* BFS mode (GInit/GNext): root -> document -> family -> case.  A layout   *)
(* case is a finished state of the printer of Lexical.tla reached in one   *)
(* macro step (Jump) instead of N single steps; the families are           *)
(*   canon   the canonical layout                                          *)
(*   gap1    every single-gap deviation (gap x layout element)             *)
(*   all     all gaps the same element (where legal)                       *)
(*   sep     every list kind x {";", none} (and all kinds at once)         *)
(*   quote   every literal in single quotes (and all at once)              *)
(*   num     every number in every spelling                                *)
(*   mut     Mutate(m, i, b) on the canonical layout                       *)
(* Simulation mode (SInit/SNext): random full layouts by running the       *)
(* printer step by step (family full) and random pairs of gap deviations   *)
(* (family gap2).                                                          *)
(* Per document TLC prints the spelling table and the expectation          *)
(* (DOC ...), per case a compact record (CASE ...), for a sample of the    *)
(* cases also the piece list itself so that the renderer can be checked.   *)
(***************************************************************************)
EXTENDS Lexical

VARIABLE g     \* generator bookkeeping: [ph, fam, i, e, j, e2]
gvars == <<vars, g>>

G0 == [ph |-> "root", fam |-> "", i |-> 0, e |-> 0, j |-> 0, e2 |-> 0]
Families == {"canon", "gap1", "all", "sep", "quote", "num", "mut"}
CONSTANT GenFamilies      \* subset of Families enumerated in this run

\* macro step of the printer: all of EmitToken / OmitSeparator / Finish at once.  The guard of every family below
\* implies Legal(Doc, l, v) (invariant GenSound, checked on the small universe).
Jump(l, v, dv) ==
  /\ lay' = l /\ var' = v /\ ph' = "done" /\ pos' = N(Doc) /\ dev' = dv
  /\ UNCHANGED <<d, mut>>

CL == Doc.cl
CV == Doc.cv
Idx(P(_)) == {i \in 1..N(Doc) : P(Doc.toks[i])}
IsSep(t) == t.k = "sep"
IsLit(t) == t.k = "lit"
IsNum(t) == t.k \in {"int", "dbl"} /\ t.sp
ListKinds == {Doc.toks[i].lk : i \in Idx(IsSep)}

AllLay(e) == [i \in 1..N(Doc) + 1 |-> IF GapLegal(Doc, CV, i, e) THEN e ELSE CanonGap(Doc, i)]
SepVar(lk, c) == [i \in 1..N(Doc) |-> IF IsSep(Doc.toks[i]) /\ (lk = "*" \/ Doc.toks[i].lk = lk) THEN c ELSE 1]
QuoteVar(k) == [i \in 1..N(Doc) |-> IF IsLit(Doc.toks[i]) /\ (k = 0 \/ k = i) THEN 2 ELSE 1]

GInit == Init /\ g = G0

GPickDoc(k) == g.ph = "root" /\ PickDoc(k) /\ g' = [g EXCEPT !.ph = "doc"]
GPickFam(f) == g.ph = "doc" /\ f \in GenFamilies /\ g' = [g EXCEPT !.ph = "fam", !.fam = f] /\ UNCHANGED vars

Case(i, e, j, e2) == g' = [g EXCEPT !.ph = "case", !.i = i, !.e = e, !.j = j, !.e2 = e2]

GCanon == g.ph = "fam" /\ g.fam = "canon" /\ Jump(CL, CV, 0) /\ Case(0, 0, 0, 0)
GGap1 == g.ph = "fam" /\ g.fam = "gap1" /\
         \E i \in 1..N(Doc) + 1, e \in 1..NGaps :
            e # CanonGap(Doc, i) /\ GapLegal(Doc, CV, i, e) /\ Jump([CL EXCEPT ![i] = e], CV, 1) /\ Case(i, e, 0, 0)
GAll == g.ph = "fam" /\ g.fam = "all" /\ \E e \in 1..NGaps : Jump(AllLay(e), CV, Deviations(Doc, AllLay(e), CV)) /\ Case(0, e, 0, 0)
GSep == g.ph = "fam" /\ g.fam = "sep" /\
        \E lk \in ListKinds \cup {"*"}, c \in 2..3 :
           Jump(CL, SepVar(lk, c), Deviations(Doc, CL, SepVar(lk, c))) /\ Case(0, c, 0, 0)
GQuote == g.ph = "fam" /\ g.fam = "quote" /\ Idx(IsLit) # {} /\
          \E k \in Idx(IsLit) \cup {0} : Jump(CL, QuoteVar(k), Deviations(Doc, CL, QuoteVar(k))) /\ Case(k, 2, 0, 0)
GNum == g.ph = "fam" /\ g.fam = "num" /\
        \E i \in Idx(IsNum) : \E v \in 2..Len(Doc.vt[i]) : Jump(CL, [CV EXCEPT ![i] = v], 1) /\ Case(i, v, 0, 0)
GMutCanon == g.ph = "fam" /\ g.fam = "mut" /\ Jump(CL, CV, 0) /\ g' = [g EXCEPT !.ph = "mutc"]
GMut == g.ph = "mutc" /\
        \E m \in MutKinds, i \in 1..N(Doc), b \in 0..Len(Brackets) : Mutate(m, i, b) /\ Case(i, b, 0, 0)

GNext == \/ \E k \in 1..NDocs : GPickDoc(k)
         \/ \E f \in Families : GPickFam(f)
         \/ GCanon \/ GGap1 \/ GAll \/ GSep \/ GQuote \/ GNum \/ GMutCanon \/ GMut

-----------------------------------------------------------------------------
(* simulation: random full layouts (the step-by-step printer) and random pairs of gap deviations *)
CONSTANT SimFamilies
SInit == /\ d \in 1..NDocs /\ ph = "print" /\ pos = 0 /\ lay = <<>> /\ var = <<>> /\ dev = 0 /\ mut = NoMut
         /\ g \in {[G0 EXCEPT !.ph = "sim", !.fam = f] : f \in SimFamilies}

SPrint == g.ph = "sim" /\ g.fam = "full" /\ UNCHANGED g /\
          \/ \E e \in 1..NGaps : \E v \in 1..8 : EmitToken(e, v)
          \/ OmitSeparator
SFinish == g.ph = "sim" /\ g.fam = "full" /\ \E e \in 1..NGaps : Finish(e) /\ g' = [g EXCEPT !.ph = "case"]
SPair1 == g.ph = "sim" /\ g.fam = "gap2" /\ g.i = 0 /\ N(Doc) >= 2 /\
          \E i \in 1..N(Doc) : g' = [g EXCEPT !.i = i] /\ UNCHANGED vars
SPair2 == g.ph = "sim" /\ g.fam = "gap2" /\ g.i # 0 /\ g.j = 0 /\
          \E j \in (g.i + 1)..(N(Doc) + 1) : g' = [g EXCEPT !.j = j] /\ UNCHANGED vars
SPair3 == g.ph = "sim" /\ g.fam = "gap2" /\ g.j # 0 /\
          \E e \in 1..NGaps, e2 \in 1..NGaps :
             /\ e # CanonGap(Doc, g.i) /\ e2 # CanonGap(Doc, g.j)
             /\ GapLegal(Doc, CV, g.i, e) /\ GapLegal(Doc, CV, g.j, e2)
             /\ Jump([CL EXCEPT ![g.i] = e, ![g.j] = e2], CV, 2)
             /\ g' = [g EXCEPT !.ph = "case", !.e = e, !.e2 = e2]
SNext == SPrint \/ SFinish \/ SPair1 \/ SPair2 \/ SPair3

-----------------------------------------------------------------------------
(* output *)
DocRecord(k) ==
  LET D == Docs[k] IN
  [d |-> k, name |-> D.name,
   var |-> D.vt,
   kind |-> [i \in 1..N(D) |-> D.toks[i].k],
   role |-> [i \in 1..N(D) |-> D.toks[i].role],
   lk |-> [i \in 1..N(D) |-> D.toks[i].lk],
   cg |-> D.cl, cv |-> D.cv,
   ids |-> [i \in 1..Len(D.flists) |-> ImplicitIds(D.flists[i])],
   evals |-> [i \in 1..Len(D.enums) |-> ImplicitEnumValues(D.enums[i])],
   anns |-> [i \in 1..Len(D.anns) |-> GroupAnnotations(D.anns[i])],
   lits |-> LitContents(D.toks, 1)]

WithPieces ==      \* the sample of cases printed together with their piece list
  \/ g.fam \in {"canon", "all", "sep", "quote", "full"}
  \/ g.fam \in {"gap1", "gap2", "num"} /\ g.i % 7 = 0
  \/ g.fam = "mut" /\ g.i % 5 = 0

CaseRecord ==
  LET base == [d |-> d, fam |-> g.fam, i |-> g.i, e |-> g.e, j |-> g.j, e2 |-> g.e2]
      vec == IF g.fam \in {"all", "full", "sep", "quote", "num"} THEN [lay |-> lay, var |-> var] ELSE [lay |-> <<>>, var |-> <<>>]
      mu == [m |-> mut.m, b |-> IF mut.m = "ins" THEN Brackets[mut.b] ELSE ""]
      pc == IF WithPieces
            THEN [p |-> IF g.fam = "mut" THEN MutPieces(Doc, mut.m, mut.i, mut.b) ELSE Pieces(Doc, lay, var), hp |-> TRUE]
            ELSE [p |-> <<>>, hp |-> FALSE]
  IN base @@ vec @@ mu @@ pc

Emit ==
  /\ (g.ph = "root" => PrintT("GAPS " \o ToJson(Gaps)))
  /\ (g.ph = "doc" => PrintT("DOC " \o ToJson(DocRecord(d))))
  /\ (g.ph = "case" => PrintT("CASE " \o ToJson(CaseRecord)))

\* generator sanity: whatever is emitted is a finished behaviour of the printer
GenSound == g.ph = "case" => (ph \in {"done", "mutant"} /\ DoneLegal /\ DeviationsCounted)
GenSoundSample == (g.ph = "case" /\ g.i % 4 = 0) => GenSound
GenLiterals == g.ph = "doc" => LiteralsReadBack
=============================================================================
