------------------------------- MODULE RtGen --------------------------------
(***************************************************************************)
(* C17 universe generation.                                                *)
(*  - every literal content over Alphabet up to MaxLen symbols that can be *)
(*    written in both quote styles (ReadsBack of LexLit), raw text between *)
(*    double quotes as the printer of Lexical.tla writes it;               *)
(*  - every service-function shape: 0..MaxArgs arguments x (no throws      *)
(*    clause | 0..MaxThrows throws entries) x oneway, with the id pattern  *)
(*    (explicit / implicit / negative) of both lists;                      *)
(*  - the numeric boundary family: sign x magnitude class x place for     *)
(*    double constants around the integer range of the IDL (the classes   *)
(*    are names; lib/c03_seeds.py NUM_CLASSES holds their spellings       *)
(*    because TLC integers are 32 bit);                                    *)
(*  - every raw source literal over RawAlphabet (pieces of source text    *)
(*    such as \t, \\, \", \') up to MaxRaw pieces, with the quote styles *)
(*    in which the grammar reads it as one closed literal.  These are     *)
(*    judged by AST1 = AST2 alone: no content model is involved, so the   *)
(*    backslash-before-quote sequences excluded above are included here.  *)
(***************************************************************************)
EXTENDS LexLit, TLC, Json

CONSTANTS Alphabet,      \* sequence of symbols; a symbol is a sequence of atoms
          MaxLen, MaxArgs, MaxThrows,
          RawAlphabet,   \* sequence of pieces; a piece is a sequence of characters
          MaxRaw,
          NumClasses,    \* names of double magnitudes (1e15 .. 1e20, neighbours of 2^63, non-integral neighbours)
          NumPlaces      \* where the double stands: const, default, listelem, mapvalue

VARIABLES w,     \* literal under construction: sequence of symbol indices
          s,     \* service shape or "none"
          m      \* "lit": w is a content over Alphabet, "raw": w is a source text over RawAlphabet
vars == <<w, s, m>>

RECURSIVE Atoms(_, _)
Atoms(x, i) == IF i > Len(x) THEN <<>> ELSE Alphabet[x[i]] \o Atoms(x, i + 1)

NoShape == [na |-> -1, nt |-> -2, ow |-> FALSE, ids |-> "-"]
Init == w = <<>> /\ s = NoShape /\ m = "lit"

Grow == /\ s = NoShape /\ m = "lit" /\ Len(w) < MaxLen
        /\ \E k \in 1..Len(Alphabet) : w' = Append(w, k)
        /\ UNCHANGED <<s, m>>

RECURSIVE Chars(_, _)
Chars(x, i) == IF i > Len(x) THEN <<>> ELSE RawAlphabet[x[i]] \o Chars(x, i + 1)
GrowRaw == /\ s = NoShape /\ Len(w) < MaxRaw
           /\ \/ m = "lit" /\ w = <<>> /\ m' = "raw"
              \/ m = "raw" /\ m' = "raw"
           /\ \E k \in 1..Len(RawAlphabet) : w' = Append(w, k)
           /\ UNCHANGED s
\* the grammar reads q r q as one literal: no unescaped q inside, and the closing quote is not itself escaped
ClosedIn(r, q) == ReadLit(r, q, 1)[1] /\ (Len(r) = 0 \/ r[Len(r)] # BS)

\* nt = -1: no throws clause at all
Shape == /\ s = NoShape /\ w = <<>>
         /\ \E na \in 0..MaxArgs, nt \in -1..MaxThrows, ow \in BOOLEAN, ids \in {"explicit", "implicit", "negative"} :
               /\ (ow => nt <= 0)
               /\ s' = [na |-> na, nt |-> nt, ow |-> ow, ids |-> ids]
         /\ m = "lit" /\ UNCHANGED <<w, m>>

Next == Grow \/ GrowRaw \/ Shape

Emit ==
  /\ (w = <<>> /\ s = NoShape /\ m = "lit" =>
        \A sg \in {"+", "-"}, c \in NumClasses, pl \in NumPlaces :
           PrintT("NUM " \o ToJson([sign |-> sg, cls |-> c, place |-> pl])))
  /\ (s = NoShape /\ m = "raw" =>
        LET r == Chars(w, 1) IN
        PrintT("RAW " \o ToJson([syms |-> w, text |-> Concat(r, 1), dq |-> ClosedIn(r, DQ), sq |-> ClosedIn(r, SQ)])))
  /\ (s = NoShape /\ m = "lit" =>
        LET a == Atoms(w, 1) IN
        PrintT("LIT " \o ToJson([syms |-> w, atoms |-> a, ok |-> ReadsBack(a),
                                 raw |-> IF Writable(a) THEN Raw(a, DQ) ELSE "", content |-> Content(a)])))
  /\ (s # NoShape => PrintT("SVC " \o ToJson(s)))
=============================================================================
