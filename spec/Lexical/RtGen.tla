------------------------------- MODULE RtGen --------------------------------
(***************************************************************************)
(* C17 universe generation.                                                *)
(*  - every literal content over Alphabet up to MaxLen symbols that can be *)
(*    written in both quote styles (ReadsBack of LexLit), raw text between *)
(*    double quotes as the printer of Lexical.tla writes it;               *)
(*  - every service-function shape: 0..MaxArgs arguments x (no throws      *)
(*    clause | 0..MaxThrows throws entries) x oneway, with the id pattern  *)
(*    (explicit / implicit / negative) of both lists.                      *)
(***************************************************************************)
EXTENDS LexLit, TLC, Json

CONSTANTS Alphabet,      \* sequence of symbols; a symbol is a sequence of atoms
          MaxLen, MaxArgs, MaxThrows

VARIABLES w,     \* literal under construction: sequence of symbol indices
          s      \* service shape or "none"
vars == <<w, s>>

RECURSIVE Atoms(_, _)
Atoms(x, i) == IF i > Len(x) THEN <<>> ELSE Alphabet[x[i]] \o Atoms(x, i + 1)

NoShape == [na |-> -1, nt |-> -2, ow |-> FALSE, ids |-> "-"]
Init == w = <<>> /\ s = NoShape

Grow == /\ s = NoShape /\ Len(w) < MaxLen
        /\ \E k \in 1..Len(Alphabet) : w' = Append(w, k)
        /\ UNCHANGED s

\* nt = -1: no throws clause at all
Shape == /\ s = NoShape /\ w = <<>>
         /\ \E na \in 0..MaxArgs, nt \in -1..MaxThrows, ow \in BOOLEAN, ids \in {"explicit", "implicit", "negative"} :
               /\ (ow => nt <= 0)
               /\ s' = [na |-> na, nt |-> nt, ow |-> ow, ids |-> ids]
         /\ UNCHANGED w

Next == Grow \/ Shape

Emit ==
  /\ (s = NoShape =>
        LET a == Atoms(w, 1) IN
        PrintT("LIT " \o ToJson([syms |-> w, atoms |-> a, ok |-> ReadsBack(a),
                                 raw |-> IF Writable(a) THEN Raw(a, DQ) ELSE "", content |-> Content(a)])))
  /\ (s # NoShape => PrintT("SVC " \o ToJson(s)))
=============================================================================
