------------------------------ MODULE Roundtrip ------------------------------
(***************************************************************************)
(* C17: Parse(Dump(Parse(t))) ~ Parse(t).                                  *)
(*                                                                         *)
(* Every line of pairs.ndjson is one observation of the real code:         *)
(*   acc  the dumped text was accepted by parser and checker               *)
(*   p1   projection of the original AST, p2 of the re-parsed dump         *)
(* (harness `inproc dump`; numbers are strings, a double carries in `int`  *)
(* the decimal integer of equal value if there is one).                    *)
(* Approx is the equality the property demands: everything equal, except   *)
(* that a double may come back as the integer literal of equal value.      *)
(* Each pair is an independent behaviour; accepted ones print ACC <n>.     *)
(***************************************************************************)
EXTENDS Integers, Sequences, TLC, Json

Pairs == ndJsonDeserialize("pairs.ndjson")

RECURSIVE NormVal(_)
NormVal(v) ==
  CASE v.t = "d" /\ v.int # "" -> [t |-> "i", v |-> v.int, int |-> "", l |-> <<>>, m |-> <<>>]
    [] v.t = "d" -> [v EXCEPT !.int = ""]
    [] v.t = "l" -> [v EXCEPT !.l = [i \in 1..Len(v.l) |-> NormVal(v.l[i])]]
    [] v.t = "m" -> [v EXCEPT !.m = [i \in 1..Len(v.m) |-> <<NormVal(v.m[i][1]), NormVal(v.m[i][2])>>]]
    [] OTHER -> v

NormFields(fs) == [i \in 1..Len(fs) |-> [fs[i] EXCEPT !.def = NormVal(@)]]
NormStructs(ss) == [i \in 1..Len(ss) |-> [ss[i] EXCEPT !.fields = NormFields(@)]]
NormFuncs(fns) == [i \in 1..Len(fns) |-> [fns[i] EXCEPT !.args = NormFields(@), !.throws = NormFields(@)]]
Norm(p) ==
  [p EXCEPT !.consts = [i \in 1..Len(p.consts) |-> [p.consts[i] EXCEPT !.value = NormVal(@)]],
            !.structs = NormStructs(@), !.unions = NormStructs(@), !.exceptions = NormStructs(@),
            !.services = [i \in 1..Len(p.services) |-> [p.services[i] EXCEPT !.functions = NormFuncs(@)]]]

Approx(a, b) == Norm(a) = Norm(b)

Sections == <<"includes", "cpp_includes", "namespaces", "typedefs", "consts", "enums", "structs", "unions",
              "exceptions", "services">>
RECURSIVE FirstDiff(_, _, _)
FirstDiff(a, b, i) == IF i > Len(Sections) THEN "-"
                      ELSE IF a[Sections[i]] # b[Sections[i]] THEN Sections[i] ELSE FirstDiff(a, b, i + 1)

\* root -> group -> pair, so that the pairs are judged by all TLC workers (initial states are handled by one)
VARIABLES grp, tr
Groups == 64
Init == grp = 0 /\ tr = 0
Next == \/ grp = 0 /\ grp' \in 1..Groups /\ UNCHANGED tr
        \/ grp # 0 /\ tr = 0 /\ tr' \in {n \in 1..Len(Pairs) : n % Groups = grp - 1} /\ UNCHANGED grp

Holds(n) == Pairs[n].acc /\ Approx(Pairs[n].p1, Pairs[n].p2)
Judge ==
  IF tr = 0 THEN TRUE
  ELSE IF Holds(tr) THEN PrintT("ACC " \o ToString(tr))
  ELSE PrintT("REJ " \o ToString(tr) \o " " \o
              (IF ~Pairs[tr].acc THEN "not-accepted" ELSE FirstDiff(Norm(Pairs[tr].p1), Norm(Pairs[tr].p2), 1)))
=============================================================================
