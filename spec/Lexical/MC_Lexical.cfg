INIT Init
NEXT Next
CONSTANTS
  Budget = 1000000
  Mutants = TRUE
INVARIANTS TypeOK DoneLegal DeviationsCounted LiteralsReadBack
CHECK_DEADLOCK FALSE
