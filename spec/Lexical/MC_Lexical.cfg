INIT Init
NEXT Next
CONSTANTS
  GapSet = "base"
  Budget = 1000000
  Mutants = TRUE
INVARIANTS TypeOK DoneLegal DeviationsCounted LiteralsReadBack
CHECK_DEADLOCK FALSE
