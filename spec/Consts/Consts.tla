------------------------------- MODULE Consts -------------------------------
(***************************************************************************)
(* C06 -- what an IDL constant initializer and a field default MEAN.       *)
(*                                                                         *)
(* A declarative evaluator Eval(P, vf, tf, t, cv): the model VALUE of the  *)
(* initializer cv written in file vf for a type expression t written in    *)
(* file tf of program P, by the IDL's own rules; and the small abstract    *)
(* machine of a generated struct object (New / zero / InitDefault / Set,   *)
(* observed through the fields, the getters and IsSet).                    *)
(*                                                                         *)
(* Data model (JSON image produced by lib/c06_model.py)                    *)
(*   P     [files |-> <<FILE>>, nodef |-> BOOLEAN]                         *)
(*   FILE  [pre, incs |-> <<file index>>, typedefs |-> <<[name, type]>>,   *)
(*          consts |-> <<[name, type, val]>>,                              *)
(*          enums |-> <<[name, members |-> <<[name (, v)]>>]>>,            *)
(*          structs |-> <<[name, kind, fields |-> <<[name,id,req,type,def]>>]>>] *)
(*   TYPE  [n |-> base] | [n |-> "list"|"set", v] | [n |-> "map", k, v]    *)
(*         | [n |-> "ref", p |-> <<components>>]   ("E", "b.E")            *)
(*   CV    [i |-> spelling] | [d |-> spelling] | [s |-> literal key]       *)
(*         | [id |-> <<components>>] | [l |-> <<CV>>] | [m |-> <<<<CV,CV>>>>] *)
(*   VALUE [a |-> atom] | [l |-> seq] | [m |-> seq of pairs]               *)
(*         | [s |-> [field name |-> VALUE]] | [nil |-> TRUE]               *)
(*         (spec/Wire/Wire.tla VALUE) and [undef |-> TRUE] where the IDL's *)
(*         rules give the initializer no meaning.                          *)
(* Scalars are atoms ("i64:9223372036854775807", "dbl:1.5", "str#3"): TLC  *)
(* has neither 64-bit integers, floats nor string indexing, so the table   *)
(* literal spelling -> atom is data (LitI, LitD, LitS).  What is evaluated *)
(* here is the structure: which definition a name denotes (typedef chains, *)
(* includes, enum members, constants referring to constants), implicit     *)
(* enum numbering, recursion through containers and struct literals,       *)
(* defaults of the fields a struct literal does not mention.               *)
(***************************************************************************)
EXTENDS Integers, Sequences, FiniteSets, TLC, Json

Data == JsonDeserialize("c06data.json")
LitI == Data.liti     \* int spelling  -> [bool, i8, i16, i32, i64, double, enum |-> atom or "-"]
LitD == Data.litd     \* double spelling -> atom
LitS == Data.lits     \* literal key -> [string |-> atom, binary |-> atom, name |-> text if it is an identifier]

NIL   == [nil |-> TRUE]
UNDEF == [undef |-> TRUE]
Has(r, k) == k \in DOMAIN r
IsNil(v) == Has(v, "nil")

IndexOf(seq, name) ==
  IF \E i \in 1..Len(seq) : seq[i].name = name THEN CHOOSE i \in 1..Len(seq) : seq[i].name = name ELSE 0

File(P, f) == P.files[f]

\* the included file that the prefix denotes in file f (0: none or not unique)
IncOf(P, f, pre) ==
  LET S == {i \in 1..Len(File(P, f).incs) : File(P, File(P, f).incs[i]).pre = pre} IN
  IF Cardinality(S) = 1 THEN File(P, f).incs[CHOOSE i \in S : TRUE] ELSE 0

-----------------------------------------------------------------------------
(* types: a reference denotes a typedef (followed), an enum or a struct-like *)
RECURSIVE Resolve(_, _, _)
Resolve(P, f, t) ==
  IF t.n # "ref" THEN [k |-> t.n, f |-> f, t |-> t]
  ELSE LET g  == IF Len(t.p) = 1 THEN f ELSE IF Len(t.p) = 2 THEN IncOf(P, f, t.p[1]) ELSE 0
           nm == t.p[Len(t.p)] IN
       IF g = 0 THEN [k |-> "undef"]
       ELSE LET F  == File(P, g)
                td == IndexOf(F.typedefs, nm)
                en == IndexOf(F.enums, nm)
                st == IndexOf(F.structs, nm) IN
            IF td > 0 THEN Resolve(P, g, F.typedefs[td].type)
            ELSE IF en > 0 THEN [k |-> "enum", f |-> g, e |-> en]
            ELSE IF st > 0 THEN [k |-> "struct", f |-> g, s |-> st]
            ELSE [k |-> "undef"]

EnumDef(P, r)   == File(P, r.f).enums[r.e]
StructDef(P, r) == File(P, r.f).structs[r.s]

\* a member without a number continues from its predecessor (the first one from 0)
RECURSIVE MemberNum(_, _)
MemberNum(ms, i) == IF Has(ms[i], "v") THEN ms[i].v ELSE IF i = 1 THEN 0 ELSE MemberNum(ms, i - 1) + 1

\* identifiers: X = constant X of this file; A.B = member B of enum A of this file, or constant B of include A;
\* A.B.C = member C of enum B of include A.  More than one reading: no meaning (the compiler must refuse).
IdTarget(k, f, i, m) == [k |-> k, f |-> f, i |-> i, m |-> m]
MemberTargets(P, r, mname) ==
  IF r.k = "enum" /\ IndexOf(EnumDef(P, r).members, mname) > 0
  THEN {IdTarget("member", r.f, r.e, IndexOf(EnumDef(P, r).members, mname))} ELSE {}
ConstTargets(P, g, cname) ==
  IF g > 0 /\ IndexOf(File(P, g).consts, cname) > 0 THEN {IdTarget("const", g, IndexOf(File(P, g).consts, cname), 0)} ELSE {}
ResolveId(P, f, p) ==
  LET g == IF Len(p) \in {2, 3} THEN IncOf(P, f, p[1]) ELSE 0
      C == CASE Len(p) = 1 -> ConstTargets(P, f, p[1])
             [] Len(p) = 2 -> MemberTargets(P, Resolve(P, f, [n |-> "ref", p |-> <<p[1]>>]), p[2])
                              \cup ConstTargets(P, g, p[2])
             [] Len(p) = 3 -> IF g > 0 THEN MemberTargets(P, Resolve(P, g, [n |-> "ref", p |-> <<p[2]>>]), p[3]) ELSE {}
             [] OTHER -> {} IN
  IF Cardinality(C) = 1 THEN CHOOSE x \in C : TRUE ELSE IdTarget("undef", 0, 0, 0)

-----------------------------------------------------------------------------
Ints == {"i8", "i16", "i32", "i64"}
Atom(x) == IF x = "-" THEN UNDEF ELSE [a |-> x]

\* a literal of a scalar type
EvalLit(r, cv) ==
  CASE r.k = "bool" /\ Has(cv, "i") -> Atom(LitI[cv.i].bool)
    [] r.k \in Ints /\ Has(cv, "i") -> Atom(LitI[cv.i][r.k])
    [] r.k = "double" /\ Has(cv, "d") -> Atom(LitD[cv.d])
    [] r.k = "double" /\ Has(cv, "i") -> Atom(LitI[cv.i].double)
    [] r.k = "enum" /\ Has(cv, "i") -> Atom(LitI[cv.i].enum)
    [] r.k \in {"string", "binary"} /\ Has(cv, "s") -> Atom(LitS[cv.s][r.k])
    [] OTHER -> UNDEF

ZeroAtom(k) == CASE k = "bool" -> "b:0" [] k = "i8" -> "i8:0" [] k = "i16" -> "i16:0" [] k = "i32" -> "i32:0"
                 [] k = "i64" -> "i64:0" [] k = "double" -> "dbl:0" [] k = "enum" -> "i32:0"
                 [] k = "string" -> "str#0" [] k = "binary" -> "bin#0"

\* what a field that nothing was assigned to holds: nothing (nil) where the representation has a "nothing"
\* (optional scalars without a default, binaries, containers, struct-likes), the zero of its type otherwise
ZeroOf(P, f, fl) ==
  LET r == Resolve(P, f, fl.type) IN
  IF r.k \in {"struct", "list", "set", "map", "binary", "undef"} \/ (fl.req = "optional" /\ Has(fl.def, "none")) THEN NIL
  ELSE [a |-> ZeroAtom(r.k)]

NoDef(fl) == Has(fl.def, "none")
FieldNames(sd) == {sd.fields[i].name : i \in 1..Len(sd.fields)}
FieldOf(sd, n) == sd.fields[CHOOSE i \in 1..Len(sd.fields) : sd.fields[i].name = n]

RECURSIVE Eval(_, _, _, _, _), StructVal(_, _, _, _, _)

\* vf: the file the initializer is written in (identifiers are resolved there);
\* tf: the file the type expression is written in (type names are resolved there)
Eval(P, vf, tf, t, cv) ==
  LET r == Resolve(P, tf, t) IN
  IF r.k = "undef" THEN UNDEF
  ELSE IF Has(cv, "id") THEN
       IF r.k = "bool" /\ cv.id = <<"true">> THEN [a |-> "b:1"]
       ELSE IF r.k = "bool" /\ cv.id = <<"false">> THEN [a |-> "b:0"]
       ELSE LET x == ResolveId(P, vf, cv.id) IN
            IF x.k = "const"
            THEN LET c == File(P, x.f).consts[x.i] IN Eval(P, x.f, x.f, c.type, c.val)   \* the constant's own value
            ELSE IF x.k = "member" /\ r.k = "enum"
            THEN [a |-> "i32:" \o ToString(MemberNum(File(P, x.f).enums[x.i].members, x.m))]
            ELSE IF x.k = "member" /\ r.k \in Ints       \* an enum member written where an integer is expected: its number
            THEN [a |-> r.k \o ":" \o ToString(MemberNum(File(P, x.f).enums[x.i].members, x.m))]
            ELSE UNDEF
  ELSE IF r.k \in {"list", "set"}
       THEN IF Has(cv, "l") THEN [l |-> [i \in 1..Len(cv.l) |-> Eval(P, vf, r.f, r.t.v, cv.l[i])]] ELSE UNDEF
  ELSE IF r.k = "map"
       THEN IF Has(cv, "m")
            THEN [m |-> [i \in 1..Len(cv.m) |-> <<Eval(P, vf, r.f, r.t.k, cv.m[i][1]), Eval(P, vf, r.f, r.t.v, cv.m[i][2])>>]]
            ELSE UNDEF
  ELSE IF r.k = "struct"
       THEN IF Has(cv, "m") THEN StructVal(P, vf, r.f, r.s, cv.m) ELSE UNDEF
  ELSE EvalLit(r, cv)

\* the declared default of a field, written (like the field's type) in the struct's own file
FieldInit(P, f, fl) == IF NoDef(fl) THEN ZeroOf(P, f, fl) ELSE Eval(P, f, f, fl.type, fl.def)

\* struct literal m (map syntax keyed by field name, written in vf) of struct s of file sf.  A field the literal
\* does not mention keeps its own default (P.nodef = FALSE) or is zero/nil (P.nodef = TRUE): the property statement
\* only says "struct literals keyed by field name", so both readings are behaviours of this specification and the
\* conformance check accepts either (NewX() itself always applies the declared defaults).
StructVal(P, vf, sf, s, m) ==
  LET sd == File(P, sf).structs[s]
      Known(i) == Has(m[i][1], "s") /\ LitS[m[i][1].s].name \in FieldNames(sd)
      Mentions(n) == {i \in 1..Len(m) : Has(m[i][1], "s") /\ LitS[m[i][1].s].name = n} IN
  IF \E i \in 1..Len(m) : ~Known(i) THEN UNDEF
  ELSE [s |-> [n \in FieldNames(sd) |->
         LET fl == FieldOf(sd, n) IN
         IF Mentions(n) # {} THEN Eval(P, vf, sf, fl.type, m[CHOOSE i \in Mentions(n) : \A j \in Mentions(n) : j <= i][2])
         ELSE IF P.nodef THEN ZeroOf(P, sf, fl)
         ELSE FieldInit(P, sf, fl)]]

-----------------------------------------------------------------------------
(* The generated struct object as an abstract machine.                     *)
(*   state: obj = [s |-> [field |-> VALUE]]                                *)
(*   actions: New (NewX()), Zero (new(X)), InitDefault, Set(field, value)  *)
(*   observations: the fields, Get<F>(), IsSet<F>()                        *)
\* the declared defaults of all fields of struct s (evaluated once per object machine)
Defaults(P, f, s) == LET sd == File(P, f).structs[s] IN [n \in FieldNames(sd) |-> FieldInit(P, f, FieldOf(sd, n))]
NewObj(P, f, s)  == [s |-> Defaults(P, f, s)]
ZeroObj(P, f, s) == LET sd == File(P, f).structs[s] IN [s |-> [n \in FieldNames(sd) |-> ZeroOf(P, f, FieldOf(sd, n))]]
InitDefault(P, f, s, D, obj) ==
  LET sd == File(P, f).structs[s] IN
  [s |-> [n \in FieldNames(sd) |-> IF NoDef(FieldOf(sd, n)) THEN obj.s[n] ELSE D[n]]]
SetField(obj, n, v) == [s |-> [obj.s EXCEPT ![n] = v]]

Kind(P, f, fl) == Resolve(P, f, fl.type).k
HasIsSet(P, f, fl) == fl.req = "optional" \/ Kind(P, f, fl) = "struct"
\* a binary holding nothing and an empty binary are the same content
Content(P, f, fl, v) == IF Kind(P, f, fl) = "binary" /\ IsNil(v) THEN [a |-> "bin#0"] ELSE v
\* DESIGN rule: set iff (pointer / container: holds something) or (scalar with a default: differs from the default d)
IsSet(P, f, fl, d, held) ==
  IF NoDef(fl) \/ Kind(P, f, fl) \in {"struct", "list", "set", "map"} THEN ~IsNil(held)
  ELSE Content(P, f, fl, held) # d
Getter(P, f, fl, d, held) ==
  IF ~HasIsSet(P, f, fl) THEN held
  ELSE IF IsSet(P, f, fl, d, held) THEN held
  ELSE IF NoDef(fl) THEN (IF Kind(P, f, fl) \in {"struct", "list", "set", "map", "binary"} THEN NIL
                          ELSE [a |-> ZeroAtom(Kind(P, f, fl))])
  ELSE d

\* what the property statement demands of IsSet: an optional field holding a value different from its declared
\* default reports itself as set
MustBeSet(P, f, fl, d, held) ==
  fl.req = "optional" /\ ~NoDef(fl) /\ ~IsNil(held) /\ Content(P, f, fl, held) # d

Obs(P, f, s, D, obj) ==
  LET sd == File(P, f).structs[s]
      Opt == {n \in FieldNames(sd) : HasIsSet(P, f, FieldOf(sd, n))} IN
  [v |-> obj,
   get |-> [n \in FieldNames(sd) |-> Getter(P, f, FieldOf(sd, n), D[n], obj.s[n])],
   isset |-> [n \in Opt |-> IsSet(P, f, FieldOf(sd, n), D[n], obj.s[n])],
   must |-> [n \in Opt |-> MustBeSet(P, f, FieldOf(sd, n), D[n], obj.s[n])],
   \* the statement speaks about getters of optional fields with a declared default
   getdem |-> [n \in Opt |-> FieldOf(sd, n).req = "optional" /\ ~NoDef(FieldOf(sd, n))]]

\* "mutate in place": the value held by a field of THIS object is changed below the field (an element of a list/set is
\* overwritten, the value of a map entry is replaced, a field of a nested struct is assigned).  Objects are values here:
\* the defaults of distinct objects, and the default a getter answers with, are independent of each other, so nothing
\* but this object changes.
MutVal(cur, st) ==
  CASE st.k = "idx" -> [l |-> [cur.l EXCEPT ![1] = st.v]]
    [] st.k = "key" -> [m |-> [i \in 1..Len(cur.m) |-> IF cur.m[i][1] = st.key THEN <<st.key, st.v>> ELSE cur.m[i]]]
    [] st.k = "fld" -> [s |-> [cur.s EXCEPT ![st.fld] = st.v]]

\* run a trace of steps [op |-> "new"|"zero"|"init"|"set"|"mut"|"obs", (f, v, k, key, fld)] ; the result is the sequence of observations
RECURSIVE RunD(_, _, _, _, _, _, _)
RunD(P, f, s, D, obj, tr, i) ==
  IF i > Len(tr) THEN <<>>
  ELSE LET st == tr[i] IN
       CASE st.op = "new"  -> RunD(P, f, s, D, [s |-> D], tr, i + 1)
         [] st.op = "zero" -> RunD(P, f, s, D, ZeroObj(P, f, s), tr, i + 1)
         [] st.op = "init" -> RunD(P, f, s, D, InitDefault(P, f, s, D, obj), tr, i + 1)
         [] st.op = "set"  -> RunD(P, f, s, D, SetField(obj, st.f, st.v), tr, i + 1)
         [] st.op = "mut"  -> RunD(P, f, s, D, SetField(obj, st.f, MutVal(obj.s[st.f], st)), tr, i + 1)
         [] st.op = "obs"  -> <<Obs(P, f, s, D, obj)>> \o RunD(P, f, s, D, obj, tr, i + 1)
Run(P, f, s, obj, tr, i) == RunD(P, f, s, Defaults(P, f, s), obj, tr, i)

\* a value of the field's type that differs from d (an input for Set, not an oracle)
ZeroElem(P, f, t) ==
  LET r == Resolve(P, f, t) IN
  CASE r.k \in {"list", "set"} -> [l |-> <<>>]
    [] r.k = "map" -> [m |-> <<>>]
    [] r.k = "struct" -> ZeroObj(P, r.f, r.s)
    [] OTHER -> [a |-> ZeroAtom(r.k)]
Alt(P, f, t, d) ==
  LET r == Resolve(P, f, t) IN
  CASE r.k \in {"list", "set"} -> IF Len(d.l) = 0 THEN [l |-> <<ZeroElem(P, r.f, r.t.v)>>] ELSE [l |-> <<>>]
    [] r.k = "map" -> IF Len(d.m) = 0 THEN [m |-> << <<ZeroElem(P, r.f, r.t.k), ZeroElem(P, r.f, r.t.v)>> >>] ELSE [m |-> <<>>]
    [] r.k = "struct" -> IF d = ZeroObj(P, r.f, r.s) THEN NewObj(P, r.f, r.s) ELSE ZeroObj(P, r.f, r.s)
    [] OTHER -> IF d = [a |-> Data.alt[r.k][1]] THEN [a |-> Data.alt[r.k][2]] ELSE [a |-> Data.alt[r.k][1]]
=============================================================================
