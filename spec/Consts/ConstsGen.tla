------------------------------ MODULE ConstsGen ------------------------------
(***************************************************************************)
(* The C06 universe: type shape x way of writing a value, for constants    *)
(* and for field defaults.  TLC enumerates it, builds the definitions of   *)
(* every case (constant, helper constants behind identifiers, typedefs,    *)
(* a struct whose fields carry the value as default), evaluates them with  *)
(* Consts!Eval / the struct-object machine in the program "context +       *)
(* definitions of the case" and emits case + expectation.                  *)
(*                                                                         *)
(* forms   l  literal; j = way of writing the leaves (for maps: key way and *)
(*            value way advance together), q = which literal of that way;  *)
(*            container elements of container type also appear as the empty*)
(*            literal, as an identifier and as a qualified identifier      *)
(*         e  empty container literal                                      *)
(*         i  identifier of a constant of the same (container) type        *)
(*         q  qualified identifier: that constant lives in the included file *)
(*         t  type written through a typedef (j = length of the chain)     *)
(*         u  type written through a typedef of the included file          *)
(*         v  element type of a container written through a typedef        *)
(*         x  hand-written cases (Data.extra): struct-likes inside struct-  *)
(*            likes, unions, exceptions, implicit enum numbers, ...         *)
(*         p  probes: spellings the statement does not demand (typedef'd   *)
(*            enum name, bare member name); accepted => value must be right *)
(* Leaf kinds get their identifier / qualified identifier ways from the    *)
(* ways table (constants of the context program, with chains).             *)
(***************************************************************************)
EXTENDS Consts

Ctx    == Data.ctx
ShapeL == Data.shapes
Ways   == Data.ways       \* leaf kind -> <<[w |-> way name, sp |-> <<CV>>]>>   spellings valid in the main file
WaysB  == Data.waysb      \* the same for literals written inside the included file b
QidOK  == {Data.qidok[i] : i \in 1..Len(Data.qidok)}

Max(a, b) == IF a > b THEN a ELSE b
Min(a, b) == IF a < b THEN a ELSE b
IsLeaf(t) == t.n \notin {"list", "set", "map"}
LeafKey(t) == IF t.n # "ref" THEN t.n ELSE IF Len(t.p) = 1 THEN t.p[1] ELSE t.p[1] \o "." \o t.p[2]
RECURSIVE Leaves(_), InB(_), Sig(_)
Leaves(t) == IF IsLeaf(t) THEN {LeafKey(t)} ELSE IF t.n = "map" THEN Leaves(t.k) \cup Leaves(t.v) ELSE Leaves(t.v)
QOK(t) == Leaves(t) \subseteq QidOK                    \* the type can be written inside file b
InB(t) == IF t.n = "ref" THEN [n |-> "ref", p |-> <<t.p[Len(t.p)]>>]
          ELSE IF t.n = "map" THEN [n |-> "map", k |-> InB(t.k), v |-> InB(t.v)]
          ELSE IF t.n \in {"list", "set"} THEN [n |-> t.n, v |-> InB(t.v)] ELSE t
Sig(t) == IF IsLeaf(t) THEN LeafKey(t) ELSE IF t.n = "map" THEN "map<" \o Sig(t.k) \o "," \o Sig(t.v) \o ">"
          ELSE t.n \o "<" \o Sig(t.v) \o ">"
RECURSIVE Depth(_)
Depth(t) == IF IsLeaf(t) THEN 0 ELSE 1 + Depth(t.v)

RECURSIVE NW(_, _), WayName(_, _, _)
NW(W, t) == IF IsLeaf(t) THEN Len(W[LeafKey(t)]) ELSE IF t.n = "map" THEN Max(NW(W, t.k), NW(W, t.v)) ELSE NW(W, t.v)
Cyc(seq, j) == seq[((j - 1) % Len(seq)) + 1]
WayName(W, t, j) == IF IsLeaf(t) THEN Cyc(W[LeafKey(t)], j).w
                    ELSE IF t.n = "map" THEN WayName(W, t.k, j) \o ":" \o WayName(W, t.v, j) ELSE WayName(W, t.v, j)
Empty(t) == IF t.n = "map" THEN [m |-> <<>>] ELSE [l |-> <<>>]

\* the literals of type t under way j.  hs: identifiers usable where an element of container type is expected
RECURSIVE Wr(_, _, _, _)
Wr(W, t, j, hs) ==
  IF IsLeaf(t) THEN Cyc(W[LeafKey(t)], j).sp
  ELSE LET es == Wr(W, t.v, j, <<>>) \o (IF IsLeaf(t.v) THEN <<>> ELSE <<Empty(t.v)>> \o hs) IN
       IF t.n \in {"list", "set"} THEN << [l |-> es] >>
       ELSE LET ks == Wr(W, t.k, j, <<>>)
                nk == Len(ks)
                nm == (Max(Len(es), nk) + nk - 1) \div nk IN
            [o \in 1..nm |-> [m |-> [i \in 1..nk |-> <<ks[i], Cyc(es, (o - 1) * nk + i)>>]]]

-----------------------------------------------------------------------------
Def(file, sec, d) == [file |-> file, sec |-> sec, d |-> d]
ConstDef(file, name, t, cv) == Def(file, "consts", [name |-> name, type |-> t, val |-> cv])
TypeDef(file, name, t) == Def(file, "typedefs", [name |-> name, type |-> t])
Ref1(name) == [n |-> "ref", p |-> <<name>>]
Ref2(pre, name) == [n |-> "ref", p |-> <<pre, name>>]

RECURSIVE AddDefs(_, _, _)
AddDefs(P, defs, i) ==
  IF i > Len(defs) THEN P
  ELSE AddDefs([P EXCEPT !.files[defs[i].file][defs[i].sec] = Append(@, defs[i].d)], defs, i + 1)

\* helper constants for elements of container type (only the element type of the outermost container can be one)
NeedsH(t) == ~IsLeaf(t) /\ ~IsLeaf(t.v)
HDefs(t, id, j) ==
  IF ~NeedsH(t) THEN <<>>
  ELSE <<ConstDef(1, "H" \o id \o "a", t.v, Wr(Ways, t.v, j + 1, <<>>)[1])>>
       \o (IF QOK(t.v) THEN <<ConstDef(2, "H" \o id \o "b", InB(t.v), Wr(WaysB, t.v, 1, <<>>)[1])>> ELSE <<>>)
HIds(t, id) ==
  IF ~NeedsH(t) THEN <<>>
  ELSE <<[id |-> <<"H" \o id \o "a">>]>> \o (IF QOK(t.v) THEN <<[id |-> <<"b", "H" \o id \o "b">>]>> ELSE <<>>)

NLit(t, j) == Len(Wr(Ways, t, j, HIds(t, "")))

CaseKeys(si) ==
  LET t == ShapeL[si] IN
  UNION {{[k |-> "case", si |-> si, form |-> "l", j |-> j, q |-> q] : q \in 1..NLit(t, j)} : j \in 1..NW(Ways, t)}
  \cup (IF IsLeaf(t) THEN {} ELSE {[k |-> "case", si |-> si, form |-> "e", j |-> 1, q |-> 1],
                                   [k |-> "case", si |-> si, form |-> "i", j |-> 1, q |-> 1]})
  \cup (IF ~IsLeaf(t) /\ QOK(t) THEN {[k |-> "case", si |-> si, form |-> "q", j |-> 1, q |-> 1]} ELSE {})
  \cup {[k |-> "case", si |-> si, form |-> "t", j |-> j, q |-> 1] : j \in 1..2}
  \cup (IF QOK(t) THEN {[k |-> "case", si |-> si, form |-> "u", j |-> 1, q |-> 1]} ELSE {})
  \cup (IF Depth(t) = 1 THEN {[k |-> "case", si |-> si, form |-> "v", j |-> j, q |-> 1] : j \in 1..Min(NW(Ways, t), Data.vmax)} ELSE {})
  \cup (IF t = Ref1("E") THEN {[k |-> "case", si |-> si, form |-> "p", j |-> 1, q |-> q] : q \in 1..2} ELSE {})

FieldD(id, req, name, t, def) == [name |-> name, id |-> id, req |-> req, type |-> t, def |-> def]
NONE == [none |-> TRUE]

\* the parts of a case: definitions, type as written, initializer, the initializer whose value a probe must have
Extra == Data.extra     \* hand-written cases: <<[id, way, defs, ct, cv]>>
ShapeOf(c) == IF c.form = "x" THEN Extra[c.j].ct ELSE ShapeL[c.si]
Parts(c) ==
  LET t  == ShapeOf(c)
      id == ToString(c.si) \o c.form \o ToString(c.j) \o "n" \o ToString(c.q)
      lit(j) == Wr(Ways, t, j, HIds(t, id)) IN
  CASE c.form = "x" -> [id |-> Extra[c.j].id, defs |-> Extra[c.j].defs, ct |-> t, cv |-> Extra[c.j].cv, way |-> Extra[c.j].way]
    [] c.form = "l" -> [id |-> id, defs |-> HDefs(t, id, c.j), ct |-> t, cv |-> lit(c.j)[c.q], way |-> WayName(Ways, t, c.j)]
    [] c.form = "e" -> [id |-> id, defs |-> <<>>, ct |-> t, cv |-> Empty(t), way |-> "empty"]
    [] c.form = "i" -> [id |-> id, defs |-> <<ConstDef(1, "H" \o id \o "a", t, Wr(Ways, t, 1, <<>>)[1])>>, ct |-> t,
                        cv |-> [id |-> <<"H" \o id \o "a">>], way |-> "id"]
    [] c.form = "q" -> [id |-> id, defs |-> <<ConstDef(2, "H" \o id \o "b", InB(t), Wr(WaysB, t, 1, <<>>)[1])>>, ct |-> t,
                        cv |-> [id |-> <<"b", "H" \o id \o "b">>], way |-> "qid"]
    [] c.form = "t" -> [id |-> id,
                        defs |-> HDefs(t, id, c.j)
                                 \o (IF c.j = 1 THEN <<TypeDef(1, "TD" \o id, t)>>
                                     ELSE <<TypeDef(1, "TE" \o id, t), TypeDef(1, "TD" \o id, Ref1("TE" \o id))>>),
                        ct |-> Ref1("TD" \o id), cv |-> lit(c.j)[1], way |-> WayName(Ways, t, c.j)]
    [] c.form = "u" -> [id |-> id, defs |-> HDefs(t, id, 1) \o <<TypeDef(2, "TD" \o id, InB(t))>>,
                        ct |-> Ref2("b", "TD" \o id), cv |-> lit(1)[1], way |-> WayName(Ways, t, 1)]
    [] c.form = "v" -> [id |-> id, defs |-> <<TypeDef(1, "TD" \o id, t.v)>>, ct |-> [t EXCEPT !.v = Ref1("TD" \o id)],
                        cv |-> lit(c.j)[1], way |-> WayName(Ways, t, c.j)]
    [] c.form = "p" -> [id |-> id, defs |-> <<>>, ct |-> t,
                        cv |-> IF c.q = 1 THEN [id |-> <<"TE", "A">>] ELSE [id |-> <<"A">>],
                        way |-> IF c.q = 1 THEN "typedef-name.member" ELSE "bare-member"]

Full(c) == c.form = "l" /\ c.j = 1 /\ c.q = 1
StructOf(c, pt) ==
  [name |-> "S" \o pt.id, kind |-> "struct",
   fields |-> <<FieldD(1, "default", "d", pt.ct, pt.cv), FieldD(2, "optional", "o", pt.ct, pt.cv)>>
              \o (IF Full(c) THEN <<FieldD(3, "required", "r", pt.ct, pt.cv), FieldD(4, "default", "dn", pt.ct, NONE),
                                    FieldD(5, "optional", "on", pt.ct, NONE), FieldD(6, "required", "rn", pt.ct, NONE)>>
                  ELSE <<>>)]

Step(op) == [op |-> op]
SetStep(f, v) == [op |-> "set", f |-> f, v |-> v]

CaseOf(c) ==
  LET pt   == Parts(c)
      t    == ShapeOf(c)
      sd   == StructOf(c, pt)
      main == ConstDef(1, "C" \o pt.id, pt.ct, pt.cv)
      defs == pt.defs \o <<main, Def(1, "structs", sd)>>
      P    == AddDefs(Ctx, defs, 1)
      PN   == [P EXCEPT !.nodef = TRUE]
      \* a probe's meaning is that of the spelling the statement does list
      ev(Q, d) == IF c.form = "p" THEN Eval(Q, 1, 1, t, [id |-> <<"E", "A">>]) ELSE Eval(Q, d.file, d.file, d.d.type, d.d.val)
      cs   == SelectSeq(defs, LAMBDA d : d.sec = "consts")
      sidx == Len(P.files[1].structs)
      dv   == ev(P, main)
      nilable == Resolve(P, 1, pt.ct).k \in {"list", "set", "map", "struct", "binary"}
      rt   == Resolve(P, 1, pt.ct)
      \* in-place mutation below field o (only where the default is written as a literal: a default written as an identifier
      \* IS another constant, about whose identity the statement says nothing)
      mutable == /\ c.form # "p" /\ ~Has(pt.cv, "id")
                 /\ \/ rt.k \in {"list", "set"} /\ Len(dv.l) > 0
                    \/ rt.k = "map" /\ Len(dv.m) > 0
                    \/ rt.k = "struct"
      mut  == CASE rt.k \in {"list", "set"} -> [op |-> "mut", f |-> "o", k |-> "idx", v |-> Alt(P, rt.f, rt.t.v, dv.l[1])]
                [] rt.k = "map" -> [op |-> "mut", f |-> "o", k |-> "key", key |-> dv.m[1][1], v |-> Alt(P, rt.f, rt.t.v, dv.m[1][2])]
                [] rt.k = "struct" ->
                     LET fl  == StructDef(P, rt).fields[1]
                         cur == dv.s[fl.name] IN
                     [op |-> "mut", f |-> "o", k |-> "fld", fld |-> fl.name,
                      v |-> Alt(P, rt.f, fl.type, IF IsNil(cur) THEN ZeroElem(P, rt.f, fl.type) ELSE cur)]
      tr   == <<Step("new"), Step("obs"), Step("zero"), Step("obs"), Step("init"), Step("obs"),
                Step("new"), SetStep("o", dv), Step("obs"), SetStep("o", Alt(P, 1, pt.ct, dv)), Step("obs")>>
              \o (IF nilable THEN <<SetStep("o", NIL), Step("obs")>> ELSE <<>>)
              \o (IF Full(c) THEN <<SetStep("on", Alt(P, 1, pt.ct, dv)), Step("obs")>> ELSE <<>>)
              \o (IF mutable THEN <<Step("zero"), Step("init"), mut, Step("obs"),      \* this object changes ...
                                    Step("zero"), Step("init"), Step("obs"),           \* ... a second one has the IDL defaults,
                                    Step("zero"), Step("obs"),                         \* so has the getter of an unset field,
                                    Step("new"), mut, Step("obs"), Step("new"), Step("obs")>>   \* and the same through NewX()
                  ELSE <<>>) IN
  [id |-> pt.id, si |-> c.si, form |-> c.form, j |-> c.j, q |-> c.q, way |-> pt.way, sig |-> Sig(t), depth |-> Depth(t),
   probe |-> c.form = "p", mutable |-> mutable, defs |-> defs, newlit |-> NewObj(P, 1, sidx) = StructVal(P, 1, 1, sidx, <<>>),
   consts |-> [i \in 1..Len(cs) |-> [file |-> cs[i].file, name |-> cs[i].d.name, type |-> cs[i].d.type,
                                     exp |-> ev(P, cs[i]), expnd |-> ev(PN, cs[i])]],
   struct |-> [name |-> sd.name, trace |-> tr,
               exp |-> IF c.form = "p" THEN <<>> ELSE Run(P, 1, sidx, NIL, tr, 1),
               expnd |-> IF c.form = "p" THEN <<>> ELSE Run(PN, 1, sidx, NIL, tr, 1)]]

\* the constants and structs of the context program itself (what identifier spellings refer to)
RECURSIVE CtxConsts(_)
CtxConsts(f) ==
  IF f > Len(Ctx.files) THEN <<>>
  ELSE [i \in 1..Len(Ctx.files[f].consts) |->
          LET k == Ctx.files[f].consts[i] IN
          [file |-> f, name |-> k.name, type |-> k.type, exp |-> Eval(Ctx, f, f, k.type, k.val),
           expnd |-> Eval([Ctx EXCEPT !.nodef = TRUE], f, f, k.type, k.val)]] \o CtxConsts(f + 1)
CtxCase ==
  LET tr == <<Step("new"), Step("obs"), Step("zero"), Step("obs"), Step("init"), Step("obs")>> IN
  [id |-> "ctx", si |-> 0, form |-> "c", j |-> 1, q |-> 1, way |-> "context", sig |-> "context", depth |-> 0,
   probe |-> FALSE, mutable |-> FALSE, defs |-> <<>>, newlit |-> NewObj(Ctx, 1, 1) = StructVal(Ctx, 1, 1, 1, <<>>), consts |-> CtxConsts(1),
   struct |-> [name |-> Ctx.files[1].structs[1].name, trace |-> tr, exp |-> Run(Ctx, 1, 1, NIL, tr, 1),
               expnd |-> Run(Ctx, 1, 1, NIL, tr, 1)]]

-----------------------------------------------------------------------------
\* root -> one state per shape -> its cases (so that all workers share the evaluation)
VARIABLE c
Init == c = [k |-> "root"]
Next == \/ c.k = "root" /\ c' \in {[k |-> "shape", si |-> si] : si \in 1..Len(ShapeL)} \cup {[k |-> "ctx"]}
                                  \cup {[k |-> "case", si |-> 0, form |-> "x", j |-> i, q |-> 1] : i \in 1..Len(Extra)}
        \/ c.k = "shape" /\ c' \in CaseKeys(c.si)

\* design-level invariants (the specification checked against itself on the whole universe)
Defined(v) == ~Has(v, "undef")
RECURSIVE WellDefined(_)
WellDefined(v) == /\ Defined(v)
                  /\ (Has(v, "l") => \A i \in 1..Len(v.l) : WellDefined(v.l[i]))
                  /\ (Has(v, "m") => \A i \in 1..Len(v.m) : WellDefined(v.m[i][1]) /\ WellDefined(v.m[i][2]))
                  /\ (Has(v, "s") => \A n \in DOMAIN v.s : WellDefined(v.s[n]))
\* every initializer of the universe has a meaning
EveryCaseDefined(cc) == \A i \in 1..Len(cc.consts) : WellDefined(cc.consts[i].exp)
\* NewX() is the empty struct literal; InitDefault on the zero object reaches the same object
NewIsInit(cc) == cc.newlit /\ (cc.probe \/ cc.struct.exp[1].v = cc.struct.exp[3].v)
\* in a fresh object no optional field is "different from its default", and the getter gives the default
FreshGetters(cc) == cc.probe \/ LET e == cc.struct.exp IN
                                /\ \A n \in DOMAIN e[1].must : ~e[1].must[n]
                                /\ e[1].get["o"] = e[1].v.s["d"]
\* the fourth observation holds the default in o (not "must be set"), the fifth a different value (must be set)
SetDistinguishes(cc) == cc.probe \/ LET e == cc.struct.exp IN ~e[4].must["o"] /\ e[5].must["o"] /\ e[5].get["o"] = e[5].v.s["o"]

\* in-place mutation changes the mutated object and nothing else: a second object and NewX() still have the IDL defaults
IndependentDefaults(cc) ==
  cc.mutable => LET e == cc.struct.exp
                    n == Len(e) IN
                /\ e[n - 4].v # e[3].v /\ e[n - 3].v = e[3].v /\ e[n - 3].get = e[3].get
                /\ e[n - 2].get["o"] = e[3].v.s["o"]
                /\ e[n - 1].v # e[1].v /\ e[n].v = e[1].v

Inv == /\ c.k = "case" =>
            LET cc == CaseOf(c) IN
            /\ EveryCaseDefined(cc) /\ NewIsInit(cc) /\ FreshGetters(cc) /\ SetDistinguishes(cc) /\ IndependentDefaults(cc)
            /\ PrintT("CASE " \o ToJson(cc))
       /\ c.k = "ctx" =>
            /\ EveryCaseDefined(CtxCase) /\ CtxCase.newlit /\ CtxCase.struct.exp[1].v = CtxCase.struct.exp[3].v
            /\ PrintT("CASE " \o ToJson(CtxCase))
=============================================================================
