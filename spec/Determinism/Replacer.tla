------------------------------ MODULE Replacer ------------------------------
(***************************************************************************)
(* Why the site "fm.replacer" of DetSites is of kind "commutative".        *)
(*                                                                         *)
(* generator.FileManager.BuildResponse collects the insertion points of a  *)
(* file in a Go map (marker -> patch text) and hands the pairs, in map     *)
(* iteration order, to strings.NewReplacer.  A Replacer works through the  *)
(* text from left to right; at a position it applies the FIRST pair in     *)
(* argument order whose old string matches there and continues behind the  *)
(* match; replacement text is not scanned again.                           *)
(*                                                                         *)
(* Text and keys are sequences over a small alphabet.  The result can      *)
(* depend on the argument order only if two keys match at the same         *)
(* position, i.e. one key is a prefix of the other.  Markers have the      *)
(* shape  "(" name ")"  with no ")" inside a name, so the key set of the   *)
(* file manager is always prefix-free: the walk order cannot show.         *)
(*                                                                         *)
(* TLC enumerates every text and key set within the bounds and checks      *)
(*   OrderFree:      prefix-free key set  =>  every argument order gives   *)
(*                   the same result                                       *)
(*   MarkersFree:    marker-shaped key sets are prefix-free                *)
(* and emits marker-shaped cases with the result the real FileManager must *)
(* produce, whatever order its map is walked in (checks/c07.py replays     *)
(* each case many times into generator.FileManager).                       *)
(***************************************************************************)
EXTENDS Naturals, Sequences, FiniteSets, TLC, Json

CONSTANTS Letters,     \* name characters
          MaxName,     \* names have 1..MaxName characters
          MaxMarkers,  \* markers per text
          Patches      \* patch texts (strings)

Names == UNION {[1..k -> Letters] : k \in 1..MaxName}

IsPrefix(a, b) == Len(a) <= Len(b) /\ SubSeq(b, 1, Len(a)) = a
PrefixFree(K) == \A a, b \in K : a # b => ~IsPrefix(a, b)

\* a marker as a sequence of characters
Marker(nm) == <<"(">> \o nm \o <<")">>

MatchAt(t, i, k) == i + Len(k) - 1 <= Len(t) /\ SubSeq(t, i, i + Len(k) - 1) = k

\* the Replacer: pairs is a sequence of [old, new]; the first pair in argument order that matches at i wins
RECURSIVE Rep(_, _, _)
Rep(t, i, pairs) ==
  IF i > Len(t) THEN <<>>
  ELSE LET hits == {j \in DOMAIN pairs : MatchAt(t, i, pairs[j].old)}
       IN  IF hits = {} THEN <<t[i]>> \o Rep(t, i + 1, pairs)
           ELSE LET j == CHOOSE x \in hits : \A y \in hits : x <= y
                IN  pairs[j].new \o Rep(t, i + Len(pairs[j].old), pairs)

Orders(S) == {sq \in [1..Cardinality(S) -> S] : \A i, j \in DOMAIN sq : sq[i] = sq[j] => i = j}
Results(t, pairset) == {Rep(t, 1, sq) : sq \in Orders(pairset)}

VARIABLES stage, names, text, patch
rvars == <<stage, names, text, patch>>

\* a text: markers of the chosen names, each preceded by a plain character "x", and a trailing "y"
TextOf(sq) == IF Len(sq) = 0 THEN <<"y">>
              ELSE LET RECURSIVE Cat(_)
                       Cat(i) == IF i > Len(sq) THEN <<"y">> ELSE <<"x">> \o Marker(sq[i]) \o Cat(i + 1)
                   IN Cat(1)

RInit == stage = "root" /\ names = {} /\ text = <<>> /\ patch = <<>>
\* root -> a set of names -> an arrangement of markers (with repetition) and a patch text per name
PickNames == /\ stage = "root"
             /\ \E S \in SUBSET Names : Cardinality(S) \in 1..3 /\ names' = S
             /\ stage' = "names" /\ UNCHANGED <<text, patch>>
PickText == /\ stage = "names"
            /\ \E k \in 1..MaxMarkers : \E sq \in [1..k -> names] : text' = TextOf(sq)
            /\ \E f \in [names -> Patches] : patch' = f
            /\ stage' = "case" /\ UNCHANGED names
RNext == PickNames \/ PickText
RSpec == RInit /\ [][RNext]_rvars

PairSet == {[old |-> Marker(nm), new |-> <<patch[nm]>>] : nm \in names}
\* names used as raw keys (no brackets): not prefix-free in general -- the counter-example family
RawPairSet == {[old |-> nm, new |-> <<patch[nm]>>] : nm \in names}

OrderFree == stage = "case" =>
               /\ Cardinality(Results(text, PairSet)) = 1
               /\ (PrefixFree(names) => Cardinality(Results(text, RawPairSet)) = 1)
MarkersFree == stage = "case" => PrefixFree({Marker(nm) : nm \in names})

\* (the expected result is a list of pieces; checks/c07.py joins them)
Emit == stage = "case" =>
          PrintT("RCASE " \o ToJson([text |-> text, names |-> names,
                                     patch |-> {[name |-> nm, text |-> patch[nm]] : nm \in names},
                                     want |-> CHOOSE r \in Results(text, PairSet) : TRUE]))
=============================================================================
