SPECIFICATION RSpec
CONSTANTS
  Letters = {"p", "q"}
  MaxName = 2
  MaxMarkers = 3
  Patches = {"P", ""}
INVARIANTS OrderFree MarkersFree Emit
CHECK_DEADLOCK FALSE
