SPECIFICATION GSpec
CONSTANTS
  Many = 8
  W0Configs <- GenThoroughW0
  W1Configs <- GenThoroughW1
  W2Configs <- GenThoroughW2
INVARIANTS Emit TableOK
CHECK_DEADLOCK FALSE
