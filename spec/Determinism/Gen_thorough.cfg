SPECIFICATION GSpec
CONSTANTS
  Many = 8
  W1Configs <- GenThoroughW1
  W2Configs <- GenThoroughW2
INVARIANTS Emit TableOK
CHECK_DEADLOCK FALSE
