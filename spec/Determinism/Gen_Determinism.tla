--------------------------- MODULE Gen_Determinism ---------------------------
(***************************************************************************)
(* Case generation for C07: TLC enumerates the (program feature vector,    *)
(* configuration) universe and emits one case per pair together with what  *)
(* the specification says about it: the sites at which an unordered        *)
(* collection of >= 2 keys is walked (Reached), the key counts the concrete *)
(* program must exhibit, and the predictions of layer B (Leaky) and of the *)
(* pinned commit's transcription (LeakyPinned).                            *)
(*   cases = UniverseP(0) x W0Configs \cup UniverseP(1) x W1Configs         *)
(*           \cup UniverseP(2) x W2Configs                                  *)
(* root -> configuration -> case, so that all TLC workers take part.       *)
(***************************************************************************)
EXTENDS DetSites, Json

CONSTANTS W0Configs, W1Configs, W2Configs

VARIABLES stage, c, p
gvars == <<stage, c, p>>

GInit == stage = "root" /\ c = Cfg("-", "go", {}, "none", TRUE) /\ p = Base
PickCfg == /\ stage = "root" /\ c' \in (W0Configs \cup W1Configs \cup W2Configs) /\ stage' = "cfg" /\ UNCHANGED p
PickProg == /\ stage = "cfg"
            /\ p' \in (IF c \in W2Configs THEN UniverseP(2) ELSE IF c \in W1Configs THEN UniverseP(1) ELSE UniverseP(0))
            /\ stage' = "case" /\ UNCHANGED c
GNext == PickCfg \/ PickProg
GSpec == GInit /\ [][GNext]_gvars

CaseRecord ==
  [cfg     |-> [name |-> c.name, backend |-> c.backend, opts |-> c.opts, plugin |-> c.plugin, recursive |-> c.recursive],
   p       |-> p,
   weight  |-> Weight(p),
   risky   |-> Risky(p),
   names   |-> Names(p),
   files   |-> IF c.recursive THEN IdlFiles(p) ELSE 1,
   keys    |-> [s \in {x \in Sites : Active(x, c)} |-> KeyCount(s, p, c)],
   reached |-> {[site |-> s, keys |-> KeyCount(s, p, c), kind |-> ImplKind(s, c)] : s \in Reached(p, c)},
   leaky   |-> Leaky(p, c),
   leaky_pinned |-> LeakyPinned(p, c),
   objects |-> Produced(c)]

Emit == stage = "case" => PrintT("CASE " \o ToJson(CaseRecord))

\* sanity of the site table, checked on every case
TableOK == stage = "case" =>
             /\ \A s \in Sites : ImplKind(s, c) \in Kinds /\ PinnedKind(s, c) \in Kinds /\ ObjectOf(s) \in Objects
             /\ {SiteSeq[i] : i \in DOMAIN SiteSeq} = Sites /\ Len(SiteSeq) = Cardinality(Sites)
             /\ ValidCfg(c)
             \* Risky covers everything layer B predicts, except sites that even the least program reaches
             /\ (LeakyPinned(p, c) \cup Leaky(p, c) # {} => Risky(p) \/ LeakyPinned(Base, c) \cup Leaky(Base, c) # {})
             /\ \A s \in Reached(p, c) : ObjectOf(s) \in Produced(c)

\* quick: the two configurations that between them activate every site get every single deviation, the others
\* the strongest level of every deviation (a leak visible with 2 keys is visible with 8, with far higher probability)
GenQuickW1 == {x \in ConfigsQuick : x.name \in {"go+reflection/patch", "fastgo+no_fmt"}}
GenQuickW0 == ConfigsQuick \ GenQuickW1
GenQuickW2 == {}
GenThoroughW0 == ConfigsMore
GenThoroughW1 == ConfigsQuick \cup ConfigsSingles \cup ConfigsPairs
GenThoroughW2 == {x \in ConfigsQuick : x.name \in {"go+reflection", "fastgo+no_fmt", "go+reflection/patch"}}
=============================================================================
