----------------------------- MODULE Determinism -----------------------------
(***************************************************************************)
(* C07 "code generation is deterministic" -- the state machine.            *)
(*                                                                         *)
(* Two executions of the generator on the SAME (program, configuration)    *)
(* are composed sequentially (they are separate processes, so nothing is   *)
(* lost by not interleaving them) over one shared file system `disk`.      *)
(* Everything the property says must not matter is a nondeterministic      *)
(* choice of the machine:                                                  *)
(*   - the order in which every unordered collection is walked at every    *)
(*     emission site (one fresh permutation per site and per execution:    *)
(*     Go randomises every `range` over a map separately),                 *)
(*   - the schedule of the persist stage: the persist phase is the         *)
(*     abstract persist machine of C19, spec/Persist/PersistSpec.tla,      *)
(*     instantiated here (success branch: no step fails),                  *)
(*   - the name of the output directory,                                   *)
(*   - what the output directory contained before (nothing, stale files,   *)
(*     or the result of the previous execution when both executions pick   *)
(*     the same directory).                                                *)
(* The property (layer A): when both executions have returned, the sets of *)
(* (relative path, content) they produced are equal once the directory's   *)
(* own name is blanked, and so is what the plugin received on stdin.       *)
(*                                                                         *)
(* Layer = "A": every site's contribution is a function of its key set     *)
(*              (what the property demands); TLC shows Deterministic.      *)
(* Layer = "B": sites behave as transcribed from thriftgo as it is now     *)
(*              (DetSites!ImplKind); TLC shows that executions can only    *)
(*              diverge at (program, configuration) pairs with Leaky # {}  *)
(*              and prints every pair for which two diverging executions   *)
(*              exist (none, since the three leaks were repaired).         *)
(* Layer = "P": the same with the transcription of the pinned commit       *)
(*              (DetSites!PinnedKind): diverges exactly at LeakyPinned.    *)
(* Layers B and P are predictions, never verdicts: verdicts come from      *)
(* hashing the real outputs of repeated executions (checks/c07.py).        *)
(***************************************************************************)
EXTENDS DetSites, Json

CONSTANTS Layer,      \* "A" | "B"
          Programs,   \* feature vectors explored
          Configs,    \* configurations explored
          DirNames,   \* output directory names
          StaleChoices, \* which sets of directories may hold stale files beforehand (a set of subsets of DirNames)
          MaxPerm,    \* at most this many keys are permuted at a site (more keys are folded onto MaxPerm)
          MaxJobs     \* at most this many persist jobs (more files are folded)

VARIABLES pc,        \* "root" | "env" | "emit" | "persist" | "done"
          p, c,      \* the (program, configuration) under test, fixed for both executions
          run,       \* 1 | 2
          dir,       \* output directory of the current execution
          at,        \* index into SiteSeq of the next site to pass
          walk,      \* walk[s]: the order in which the current execution walked site s
          stdin,     \* what the plugin of the current execution received (or NoStdin)
          disk,      \* disk[d][o]: content of object o below directory d, Absent or Stale
          first,     \* normalised result of execution 1 (empty before it returned)
          n, st, ret \* the persist machine of the current execution (PersistSpec)

vars == <<pc, p, c, run, dir, at, walk, stdin, disk, first, n, st, ret>>

\* the Go backends always configure a post-processor (gofmt, or the identity under no_fmt)
P == INSTANCE PersistSpec WITH withPP <- TRUE      \* n, st, ret, MaxJobs by name

FileObjs == {"code", "refl", "fast", "extra"}        \* objects that are files below the output directory

Perms(k) == {f \in [1..k -> 1..k] : \A i, j \in 1..k : f[i] = f[j] => i = j}
Ident(k) == [i \in 1..k |-> i]
Folded(s) == LET k == KeyCount(s, p, c) IN IF k > MaxPerm THEN MaxPerm ELSE k

\* what site s contributes to its object, given the order it was walked in
Kind(s) == CASE Layer = "A" -> IF ImplKind(s, c) = "map" THEN "sorted" ELSE ImplKind(s, c)
             [] Layer = "B" -> ImplKind(s, c)
             [] Layer = "P" -> PinnedKind(s, c)
LayerLeaky == IF Layer = "P" THEN LeakyPinned(p, c) ELSE IF Layer = "B" THEN Leaky(p, c) ELSE {}
Render(s, w) == IF w = Ident(Len(w)) THEN w                 \* (the canonical walk renders to itself under every kind)
                ELSE IF Kind(s) = "map" THEN w ELSE Ident(Len(w))

\* content of object o: the contributions of its sites, and the directory name where the object carries it
Content(o, wk, d) ==
  [obj   |-> o,
   parts |-> [s \in {x \in Sites : ObjectOf(x) = o /\ Active(x, c)} |-> Render(s, wk[s])],
   dir   |-> IF o = "stdin" THEN d ELSE "-"]     \* the request carries the output path; files do not

\* non-contents have the same shape as contents so that they can be compared with them
Absent  == [obj |-> "absent", parts |-> <<>>, dir |-> "-"]
Stale   == [obj |-> "stale", parts |-> <<>>, dir |-> "-"]
NoStdin == [obj |-> "nostdin", parts |-> <<>>, dir |-> "-"]
Blank(x) == [x EXCEPT !.dir = IF x.dir = "-" THEN "-" ELSE "@"]

InProduced(o) == o \in Produced(c)
JobSeq == SelectSeq(<<"code", "refl", "fast", "extra">>, InProduced)
\* the files the persist stage is given; folded onto MaxJobs
Jobs == IF Len(JobSeq) > MaxJobs THEN SubSeq(JobSeq, 1, MaxJobs) ELSE JobSeq

Result(d) == [files |-> [o \in {Jobs[j] : j \in DOMAIN Jobs} |-> Blank(disk[d][o])], stdin |-> Blank(stdin)]

-----------------------------------------------------------------------------
Init == /\ pc = "root" /\ p = Base /\ c = Cfg("-", "go", {}, "none", TRUE)
        /\ run = 1 /\ dir = "-" /\ at = 1 /\ walk = [s \in Sites |-> <<>>] /\ stdin = NoStdin
        /\ disk = [d \in DirNames |-> [o \in FileObjs |-> Absent]]
        /\ first = [files |-> <<>>, stdin |-> NoStdin] /\ n = 0 /\ st = <<>> /\ ret = "none"

\* pick the case and what the directories contain beforehand (per directory: nothing or stale files everywhere)
Pick == /\ pc = "root"
        /\ p' \in Programs /\ c' \in Configs
        /\ \E stale \in StaleChoices :
             disk' = [d \in DirNames |-> [o \in FileObjs |-> IF d \in stale THEN Stale ELSE Absent]]
        /\ pc' = "env"
        /\ UNCHANGED <<run, dir, at, walk, stdin, first, n, st, ret>>

\* does the current execution have a choice at site s
Choice(s) == Active(s, c) /\ Folded(s) >= 2 /\ Unordered(s, c)
\* the next site at or after index i at which there is a choice (Len(SiteSeq) + 1: none)
NextAt(i) == LET js == {j \in i..Len(SiteSeq) : Choice(SiteSeq[j])}
             IN  IF js = {} THEN Len(SiteSeq) + 1 ELSE CHOOSE j \in js : \A k \in js : j <= k

\* an execution starts: the caller names an output directory; sites without a choice are walked in the one possible order
ChooseDir == /\ pc = "env"
             /\ dir' \in DirNames
             /\ pc' = "emit" /\ at' = NextAt(1) /\ stdin' = NoStdin
             /\ walk' = [s \in Sites |-> Ident(IF Active(s, c) THEN Folded(s) ELSE 0)]
             /\ UNCHANGED <<p, c, run, disk, first, n, st, ret>>

\* the execution passes the next site with a choice: an unordered collection is walked in ANY order
Pass == /\ pc = "emit" /\ at <= Len(SiteSeq)
        /\ \E w \in Perms(Folded(SiteSeq[at])) : walk' = [walk EXCEPT ![SiteSeq[at]] = w]
        /\ at' = NextAt(at + 1)
        /\ UNCHANGED <<pc, p, c, run, dir, stdin, disk, first, n, st, ret>>

\* all sites passed: the plugin has been sent its request, the persist stage gets its jobs
StartPersist == /\ pc = "emit" /\ at > Len(SiteSeq)
                /\ stdin' = IF c.plugin # "none" THEN Content("stdin", walk, dir) ELSE NoStdin
                /\ n' = Len(Jobs) /\ st' = [j \in 1..Len(Jobs) |-> "idle"] /\ ret' = "none"
                /\ pc' = "persist"
                /\ UNCHANGED <<p, c, run, dir, at, walk, disk, first>>

\* the persist stage: the actions of PersistSpec (C19); a finished write replaces the file's content
Rest == <<pc, p, c, run, dir, at, walk, stdin, first>>
PersistStep ==
  /\ pc = "persist"
  /\ \/ \E j \in 1..n : P!APPBegin(j) /\ UNCHANGED disk
     \/ \E j \in 1..n : P!APPEnd(j, TRUE) /\ UNCHANGED disk
     \/ \E j \in 1..n : P!AWriteBegin(j) /\ UNCHANGED disk
     \/ \E j \in 1..n : /\ P!AWriteEnd(j, TRUE)
                        /\ disk' = [disk EXCEPT ![dir][Jobs[j]] = Content(Jobs[j], walk, dir)]
     \/ P!AReturn("ok") /\ UNCHANGED disk
  /\ UNCHANGED Rest

\* the execution has returned
Finish == /\ pc = "persist" /\ ret = "ok"
          /\ IF run = 1 THEN /\ first' = Result(dir) /\ run' = 2 /\ pc' = "env"
                        ELSE /\ pc' = "done" /\ UNCHANGED <<first, run>>
          /\ UNCHANGED <<p, c, dir, at, walk, stdin, disk, n, st, ret>>

Next == Pick \/ ChooseDir \/ Pass \/ StartPersist \/ PersistStep \/ Finish
Spec == Init /\ [][Next]_vars

-----------------------------------------------------------------------------
(* Properties *)

TypeOK == /\ pc \in {"root", "env", "emit", "persist", "done"}
          /\ run \in 1..2 /\ at \in 1..(Len(SiteSeq) + 1)
          /\ dir \in DirNames \cup {"-"}
          /\ P!ATypeOK

\* THE PROPERTY: the second execution produced what the first produced
Deterministic == pc = "done" => Result(dir) = first

\* layer B: executions diverge only where the transcription says a site leaks its walk order ...
DivergesOnlyWhereLeaky == (pc = "done" /\ Result(dir) # first) => LayerLeaky # {}
\* ... and TLC reports every (program, configuration) for which it found two diverging executions
ReportDivergence ==
  (pc = "done" /\ Result(dir) # first) =>
     PrintT("DIVERGE " \o ToJson([cfg |-> c.name, p |-> p, objs |-> {o \in DOMAIN first.files : first.files[o] # Result(dir).files[o]}
                                                                   \cup (IF first.stdin # Result(dir).stdin THEN {"stdin"} ELSE {})]))

\* a returned execution left exactly its own files in its directory (no stale content, nothing absent)
WrittenIsJobs == (pc = "persist" /\ ret = "ok") =>
                    \A j \in DOMAIN Jobs : disk[dir][Jobs[j]] = Content(Jobs[j], walk, dir)
\* an execution never touches another directory
OnlyOwnDir == [][\A d \in DirNames : (d # dir /\ pc # "root") => disk'[d] = disk[d]]_vars
\* the result does not mention the directory's own name
NameBlanked == pc = "done" => /\ \A o \in DOMAIN first.files : first.files[o].dir \in {"-", "@"}
                               /\ first.stdin.dir \in {"-", "@"}

\* TLC state view: the walk orders matter only through what they render to
View == <<pc, p, c, run, dir, at, [s \in Sites |-> IF walk[s] = <<>> THEN <<>> ELSE Render(s, walk[s])],
          stdin, disk, first, n, st, ret>>
=============================================================================
