--------------------------- MODULE MC_Determinism ---------------------------
(* Model-checking instances of Determinism: bounded program and configuration sets. *)
EXTENDS Determinism

\* the dynamic model walks at most MaxPerm keys per site, so "many" is folded anyway
ProgsW1 == UniverseP(1) \ {Full}
ProgsW2 == UniverseP(2) \ {Full}
\* Full has ~10 unordered sites; explored with the quick configurations only
ProgsFull == {Full}

CfgQuick == ConfigsQuick
\* the configurations that differ in which sites are active
DynNames == {"go", "go+reflection", "fastgo+no_fmt", "go/dump", "go+reflection/patch", "go/flat"}
CfgDyn   == {x \in ConfigsQuick : x.name \in DynNames}
CfgAll   == ConfigsQuick \cup ConfigsSingles \cup ConfigsPairs

\* MaxPerm folds "many" keys onto the same walks as 2 or 3 keys: the quick run leaves the Many-level deviations out
ProgsW1Low == {q \in ProgsW1 : /\ \A f \in {"ann", "ns", "mapConst", "mapDefault", "inc", "defs", "exc"} : q[f] # Many
                                /\ q.wide = 0 /\ q.evals = 0 /\ q.funcs = 0 /\ q.req # 20}

\* the two configurations that reach every site the pinned commit leaked at (quick self-test of layer P)
CfgP2    == {x \in ConfigsQuick : x.name \in {"go+reflection/patch", "fastgo+no_fmt"}}
\* pairs of deviations under the pinned commit's table: without the plugin (its name table leaks for every program)
CfgPW2   == {x \in ConfigsQuick : x.name \in {"go+reflection", "fastgo+no_fmt"}}
\* Full walks six leaky sites under reflection (64 results per execution): explored without reflection
CfgFull  == {x \in ConfigsQuick : x.name \in {"fastgo+no_fmt", "go/dump"}}

Dirs2 == {"out1", "out2"}
StaleAny  == SUBSET Dirs2
StaleBoth == {{}, Dirs2}
=============================================================================
