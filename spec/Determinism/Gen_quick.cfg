SPECIFICATION GSpec
CONSTANTS
  Many = 8
  W0Configs <- GenQuickW0
  W1Configs <- GenQuickW1
  W2Configs <- GenQuickW2
INVARIANTS Emit TableOK
CHECK_DEADLOCK FALSE
