SPECIFICATION GSpec
CONSTANTS
  Many = 8
  W1Configs <- GenQuickW1
  W2Configs <- GenQuickW2
INVARIANTS Emit TableOK
CHECK_DEADLOCK FALSE
