------------------------------ MODULE DetSites ------------------------------
(***************************************************************************)
(* C07 "code generation is deterministic" -- data part.                    *)
(*                                                                         *)
(* Code generation is a function Gen(program, configuration).  The places  *)
(* where the real generator could stop being a function are the places     *)
(* where it walks a collection that has no order of its own (a Go map, a   *)
(* set of concurrently handled jobs).  This module names those places      *)
(* ("emission sites"), says for a program *feature vector* and a           *)
(* configuration how many keys each site walks, and classifies how each    *)
(* site turns the unordered collection into output.                        *)
(*                                                                         *)
(* A feature vector is not a whole program; checks/c07.py turns one into a *)
(* concrete program (program JSON of lib/idl.py) that exhibits exactly the *)
(* stated features, and cross-checks the key counts stated here (KeyCount) *)
(* against the concrete program it built.                                  *)
(***************************************************************************)
EXTENDS Naturals, Sequences, FiniteSets, TLC

CONSTANT Many      \* the "many keys" level (8 fills one Go map bucket: every iteration start gives another order)

-----------------------------------------------------------------------------
(* Program feature vectors *)

AnnPlaces == {"none", "decl", "member", "both"}

\* the least program: one go namespace, one struct, nothing else
Base == [ann        |-> 0,        \* distinct annotation keys on every annotated node
         annAt      |-> "none",   \* which nodes carry them: declarations, members (fields, enum values, functions), both
         ns         |-> 1,        \* namespace lines of the main file (the first one is "go")
         mapConst   |-> 0,        \* entries of a map-valued constant (0: no such constant)
         mapDefault |-> 0,        \* entries of a map-valued field default (0: no such field)
         inc        |-> 0,        \* include lines of the main file
         diamond    |-> FALSE,    \* every included file includes one common file
         svc        |-> 0,        \* services (one function each)
         exc        |-> 0,        \* exceptions; every function throws all of them
         defs       |-> 1,        \* plain structs
         kinds      |-> "struct", \* "all": additionally one enum, one typedef, one union
         \* per-definition member counts: anything a generator may keep in a map keyed by id or name
         req        |-> 0,        \* required fields of one extra struct R (0: no such struct)
         wide       |-> 0,        \* optional fields of one extra struct W (0: no such struct)
         evals      |-> 0,        \* values of one extra enum BigE (0: no such enum)
         funcs      |-> 0]        \* functions of one extra service Wide (0: no such service)

Fields == DOMAIN Base

\* one set of deviations from Base per dimension; a deviation changes the fields of ONE dimension
DimAnn  == { [Base EXCEPT !.ann = 1,    !.annAt = "both"],
             [Base EXCEPT !.ann = 2,    !.annAt = "decl", !.kinds = "all"],
             [Base EXCEPT !.ann = 2,    !.annAt = "member", !.kinds = "all"],
             [Base EXCEPT !.ann = Many, !.annAt = "both", !.kinds = "all"] }
DimNs   == { [Base EXCEPT !.ns = 0], [Base EXCEPT !.ns = 2], [Base EXCEPT !.ns = Many] }
DimMapC == { [Base EXCEPT !.mapConst = 1], [Base EXCEPT !.mapConst = 2], [Base EXCEPT !.mapConst = Many] }
DimMapD == { [Base EXCEPT !.mapDefault = 2], [Base EXCEPT !.mapDefault = Many] }
DimInc  == { [Base EXCEPT !.inc = 1], [Base EXCEPT !.inc = 2],
             [Base EXCEPT !.inc = 2, !.diamond = TRUE], [Base EXCEPT !.inc = Many] }
DimRpc  == { [Base EXCEPT !.svc = 1], [Base EXCEPT !.svc = 1, !.exc = 2], [Base EXCEPT !.svc = 3, !.exc = 3],
             [Base EXCEPT !.svc = 1, !.exc = Many] }
DimDefs == { [Base EXCEPT !.defs = 3], [Base EXCEPT !.defs = Many] }
DimKind == { [Base EXCEPT !.kinds = "all"] }
\* 12 and 20 required fields: a partially filled second / third byte of fastgo's required-field bitset
DimReq  == { [Base EXCEPT !.req = 12], [Base EXCEPT !.req = 20] }
DimWide == { [Base EXCEPT !.wide = 20] }
DimEnum == { [Base EXCEPT !.evals = 12] }
DimFunc == { [Base EXCEPT !.funcs = 12] }
Dims == <<DimAnn, DimNs, DimMapC, DimMapD, DimInc, DimRpc, DimDefs, DimKind, DimReq, DimWide, DimEnum, DimFunc>>

Full == [ann |-> Many, annAt |-> "both", ns |-> Many, mapConst |-> Many, mapDefault |-> Many, inc |-> Many,
         diamond |-> TRUE, svc |-> 3, exc |-> 3, defs |-> Many, kinds |-> "all",
         req |-> 20, wide |-> 20, evals |-> 12, funcs |-> 12]

\* two deviations of different dimensions combined ("all" kinds wins: it is what the annotated nodes need)
Merge(a, b) == [f \in Fields |-> IF a[f] # Base[f] THEN a[f] ELSE b[f]]

Weight1 == UNION {Dims[i] : i \in DOMAIN Dims}
DimPairs == {ij \in (DOMAIN Dims) \X (DOMAIN Dims) : ij[1] < ij[2]}
Weight2 == UNION {{Merge(a, b) : a \in Dims[ij[1]], b \in Dims[ij[2]]} : ij \in DimPairs}

\* the single deviations at their strongest level
Strong == {[Base EXCEPT !.ann = Many, !.annAt = "both", !.kinds = "all"], [Base EXCEPT !.ns = Many],
           [Base EXCEPT !.mapConst = Many], [Base EXCEPT !.mapDefault = Many], [Base EXCEPT !.inc = Many],
           [Base EXCEPT !.inc = 2, !.diamond = TRUE], [Base EXCEPT !.svc = 3, !.exc = 3], [Base EXCEPT !.defs = Many],
           [Base EXCEPT !.kinds = "all"], [Base EXCEPT !.req = 12], [Base EXCEPT !.req = 20],
           [Base EXCEPT !.wide = 20], [Base EXCEPT !.evals = 12], [Base EXCEPT !.funcs = 12],
           [Base EXCEPT !.svc = 1, !.exc = Many]}

\* the program universes: W = 0: Base, the strongest single deviations, Full; W = 1: Base, every single deviation, Full;
\* W = 2: also every pair of deviations
UniverseP(W) == IF W = 0 THEN {Base, Full} \cup Strong
                ELSE {Base, Full} \cup Weight1 \cup (IF W >= 2 THEN {q \in Weight2 : q # Base} ELSE {})

Weight(q) == IF q = Full THEN 99
             ELSE IF q = Base THEN 0 ELSE IF q \in Weight1 THEN 1 ELSE 2

\* named definitions of the main file (keys of the semantic name table)
Names(q) == q.defs + (IF q.kinds = "all" THEN 3 ELSE 0) + q.exc + q.svc + (IF q.mapConst > 0 THEN 1 ELSE 0)
            + (IF q.req > 0 THEN 1 ELSE 0) + (IF q.wide > 0 THEN 1 ELSE 0)
            + (IF q.evals > 0 THEN 1 ELSE 0) + (IF q.funcs > 0 THEN 1 ELSE 0)
SetMax(S) == CHOOSE x \in S : \A y \in S : y <= x
\* the most members (fields, enum values, functions) any one definition of the main file has
Members(q) == SetMax({2 + (IF q.mapDefault > 0 THEN 1 ELSE 0) + q.inc, q.req, q.wide, q.evals, q.funcs})
\* IDL files that take part in a recursive generation
IdlFiles(q) == 1 + q.inc + (IF q.diamond /\ q.inc > 0 THEN 1 ELSE 0)

\* DESIGN 6 C07: the program features that reach an order-sensitive emission site
Risky(q) == \/ q.ann >= 2         \/ q.ns >= 2        \/ q.mapConst >= 2 \/ q.mapDefault >= 2
            \/ q.inc >= 2         \/ q.svc >= 2       \/ q.exc >= 2      \/ Names(q) >= 2
            \/ q.req >= 2         \/ q.wide >= 2      \/ q.evals >= 2    \/ q.funcs >= 2

-----------------------------------------------------------------------------
(* Configurations: [name, backend, opts, plugin, recursive] *)

Backends == {"go", "fastgo"}                 \* fastgo = the go backend's files plus k-<file>.go
Plugins  == {"none", "dump", "patch"}        \* external plugin: none / recording / recording + patches and a new file

Cfg(nm, b, o, pl, r) == [name |-> nm, backend |-> b, opts |-> o, plugin |-> pl, recursive |-> r]

Has(c, o) == o \in c.opts
ValidCfg(c) == Has(c, "with_field_mask") => Has(c, "with_reflection")

\* the options of the property's brief
CoreOpts == {"with_reflection", "gen_type_meta", "with_field_mask", "keep_unknown_fields",
             "gen_deep_equal", "template=slim", "no_fmt"}
\* further switches of the go backend that change what is emitted
MoreOpts == {"use_option", "get_enum_annotation", "reorder_fields", "trim_idl", "reserve_comments", "frugal_tag",
             "gen_setter", "no_default_serdes", "json_stringer", "enum_marshal", "template=raw_struct",
             "skip_empty", "no_processor", "value_type_in_container", "compatible_names", "nil_safe",
             "gen_db_tag", "snake_style_json_tag", "typed_enum_string", "enum_as_int_32", "code_ref"}

ConfigsQuick ==
  { Cfg("go", "go", {}, "none", TRUE),
    Cfg("go+reflection", "go", {"with_reflection"}, "none", TRUE),
    Cfg("go+type_meta", "go", {"gen_type_meta"}, "none", TRUE),
    Cfg("go+field_mask", "go", {"with_reflection", "with_field_mask"}, "none", TRUE),
    Cfg("go+unknown", "go", {"keep_unknown_fields"}, "none", TRUE),
    Cfg("go+deep_equal", "go", {"gen_deep_equal"}, "none", TRUE),
    Cfg("go+slim", "go", {"template=slim"}, "none", TRUE),
    Cfg("go+no_fmt", "go", {"no_fmt"}, "none", TRUE),
    Cfg("fastgo", "fastgo", {}, "none", TRUE),
    Cfg("fastgo+no_fmt", "fastgo", {"no_fmt"}, "none", TRUE),
    Cfg("go/dump", "go", {}, "dump", TRUE),
    Cfg("go+reflection/patch", "go", {"with_reflection"}, "patch", TRUE),
    Cfg("go/flat", "go", {}, "none", FALSE) }

\* thorough: every single option, every pair of core options, the plugin and recursion variants
OptSets1 == {{}} \cup {{o} : o \in CoreOpts \cup MoreOpts}
OptSets2 == {{a, b} : a \in CoreOpts, b \in CoreOpts} \cup {{"with_reflection", "with_field_mask", o} : o \in CoreOpts}
ConfigsMore == {Cfg("s", "go", {o}, "none", TRUE) : o \in MoreOpts}
ConfigsSingles ==
  {c \in {Cfg("s", "go", o, "none", TRUE) : o \in {{}} \cup {{o} : o \in CoreOpts}} : ValidCfg(c)}
  \cup {Cfg("s", "fastgo", o, "none", TRUE) : o \in {{}, {"no_fmt"}, {"with_reflection"}, {"keep_unknown_fields"}}}
  \cup {Cfg("s", "go", o, pl, r) : o \in {{}, {"with_reflection"}}, pl \in {"dump", "patch"}, r \in BOOLEAN}
  \cup {Cfg("s", "go", o, "none", FALSE) : o \in {{}, {"with_reflection"}}}
ConfigsPairs ==
  {c \in {Cfg("s", "go", o, "none", TRUE) : o \in OptSets2} : ValidCfg(c)}
  \cup {Cfg("s", "fastgo", o, pl, TRUE) : o \in {{"with_reflection"}, {"no_fmt"}}, pl \in {"dump", "patch"}}

-----------------------------------------------------------------------------
(* Emission sites *)

Sites == {"refl.ann.decl", "refl.ann.member", "refl.namespaces", "refl.includes", "refl.constmap",
          "refl.defaultmap", "go.imports", "go.stdlibs", "go.constmap", "go.defaultmap", "go.throws",
          "go.tags", "go.typemeta", "go.members", "fastgo.imports", "fastgo.fields", "fastgo.required",
          "fm.replacer", "plugin.names", "plugin.ast", "plugin.outpath", "persist.jobs", "dfs.includes"}

\* a fixed order in which a run passes the sites (the generator is sequential up to the persist stage)
SiteSeq == <<"dfs.includes", "go.stdlibs", "go.imports", "go.constmap", "go.defaultmap", "go.throws", "go.tags",
             "go.typemeta", "go.members", "refl.includes", "refl.namespaces", "refl.constmap", "refl.defaultmap",
             "refl.ann.decl", "refl.ann.member", "fastgo.fields", "fastgo.required", "fastgo.imports", "fm.replacer",
             "plugin.ast", "plugin.names", "plugin.outpath", "persist.jobs">>

\* the output object a site contributes to
Objects == {"code", "refl", "fast", "extra", "stdin", "tree"}
ObjectOf(s) ==
  CASE s \in {"refl.ann.decl", "refl.ann.member", "refl.namespaces", "refl.includes", "refl.constmap",
              "refl.defaultmap"} -> "refl"
    [] s \in {"go.imports", "go.stdlibs", "go.constmap", "go.defaultmap", "go.throws", "go.tags",
              "go.typemeta", "go.members", "fm.replacer"} -> "code"
    [] s \in {"fastgo.imports", "fastgo.fields", "fastgo.required"} -> "fast"
    [] s \in {"plugin.names", "plugin.ast", "plugin.outpath"} -> "stdin"
    [] OTHER -> "tree"

\* does configuration c run site s at all
Active(s, c) ==
  CASE ObjectOf(s) = "refl" -> Has(c, "with_reflection")
    [] s = "go.typemeta" -> Has(c, "gen_type_meta")
    [] ObjectOf(s) = "fast" -> c.backend = "fastgo"
    [] ObjectOf(s) = "stdin" -> c.plugin # "none"
    [] s = "dfs.includes" -> c.recursive
    [] OTHER -> TRUE

\* how many keys the collection walked at site s has for program q
KeyCount(s, q, c) ==
  CASE s = "refl.ann.decl"   -> IF q.annAt \in {"decl", "both"} THEN q.ann ELSE 0
    [] s = "refl.ann.member" -> IF q.annAt \in {"member", "both"} THEN q.ann ELSE 0
    [] s = "refl.namespaces" -> q.ns
    [] s = "refl.includes"   -> q.inc
    [] s = "refl.constmap"   -> q.mapConst
    [] s = "refl.defaultmap" -> q.mapDefault
    [] s = "go.imports"      -> 2 + q.inc          \* the standard imports of every file and one per include
    [] s = "go.stdlibs"      -> 17                 \* the table of well-known libraries registered per file
    [] s = "go.constmap"     -> q.mapConst
    [] s = "go.defaultmap"   -> q.mapDefault
    [] s = "go.throws"       -> IF q.svc > 0 THEN q.exc ELSE 0
    [] s = "go.tags"         -> IF q.annAt \in {"member", "both"} THEN q.ann ELSE 0
    [] s = "go.typemeta"     -> 2                  \* the fields of a struct's type meta
    [] s = "fastgo.imports"  -> 2 + q.inc
    [] s = "fastgo.fields"   -> Members(q)
    [] s = "fastgo.required" -> q.req            \* the required-field bitset of a struct (bitsetCodeGen.m: field -> bit)
    [] s = "go.members"      -> Members(q)       \* fields / enum values / functions of one definition
    [] s = "fm.replacer"     -> 3 + Names(q)       \* bof, imports, eof and one or more per definition
    [] s = "plugin.names"    -> Names(q)
    [] s = "plugin.ast"      -> Names(q)
    [] s = "plugin.outpath"  -> 1
    [] s = "persist.jobs"    -> IF c.recursive THEN IdlFiles(q) ELSE 1
    [] s = "dfs.includes"    -> q.inc
    [] OTHER -> 0

(***************************************************************************)
(* How a site gets from the collection to the output.                      *)
(*   "source"      the keys are kept in a list in IDL source order          *)
(*   "sorted"      walked in any order, sorted before emission              *)
(*   "commutative" walked in any order, the effect does not depend on it    *)
(*   "formatted"   emitted in walk order, a later pass (gofmt) reorders     *)
(*   "map"         emitted in walk order, as is                             *)
(* Layer A, the property: the contribution of every site is a function of  *)
(* the key set, i.e. no site is of kind "map".                             *)
(* Layer B, the transcription of thriftgo as it is now: ImplKind.          *)
(* Layer P, the transcription of thriftgo at the pinned commit (df545ca):  *)
(* PinnedKind.  It differs from B at the three places where the check      *)
(* found the real generator leaking its walk order; they were repaired     *)
(* (/repo d1ec719, 4c31690, a2cf66e).  P is kept so that TLC keeps showing  *)
(* that the model predicts exactly those divergences (a self-test of the   *)
(* model, not a statement about the code).                                 *)
(***************************************************************************)
Kinds == {"source", "sorted", "commutative", "formatted", "map"}
PinnedKind(s, c) ==
  CASE ObjectOf(s) = "refl" -> "map"            \* meta.write: reflect MapRange, written as walked, then gzip
    [] s = "go.imports"     -> "sorted"         \* text/template ranges over a map in key order
    [] s = "go.stdlibs"     -> "commutative"    \* namespace.Add of distinct names
    [] s = "go.throws"      -> "sorted"         \* ServiceThrows: map, then sort.Slice
    [] s = "fastgo.imports" -> IF Has(c, "no_fmt") THEN "map" ELSE "formatted"   \* codewriter.Imports
    [] s = "fastgo.fields"  -> "sorted"         \* getSortedFields
    [] s = "fastgo.required" -> "commutative"   \* bitsetCodeGen: the map is only inverted; checks are emitted by bit index
    [] s = "fm.replacer"    -> "commutative"    \* strings.NewReplacer over keys none of which is a prefix of another (Replacer.tla)
    [] s = "plugin.names"   -> "map"            \* parser.Thrift.FastAppend ranges over Name2Category
    [] s = "persist.jobs"   -> "commutative"    \* concurrent writes of distinct paths (spec/Persist, C19)
    [] OTHER -> "source"
ImplKind(s, c) ==
  CASE ObjectOf(s) = "refl" -> "sorted"         \* d1ec719: meta.write orders map entries by their encoded bytes
    [] s = "fastgo.imports" -> "sorted"         \* a2cf66e: codewriter.Imports sorts both groups
    [] s = "plugin.names"   -> "sorted"         \* 4c31690: FastAppend walks Name2Category in key order
    [] OTHER -> PinnedKind(s, c)

Unordered(s, c) == PinnedKind(s, c) # "source"

\* the sites of (q, c) at which an unordered collection of two or more keys is walked
Reached(q, c) == {s \in Sites : Active(s, c) /\ KeyCount(s, q, c) >= 2 /\ Unordered(s, c)}
\* layer B's prediction: sites at which thriftgo leaks the walk order into the output
Leaky(q, c) == {s \in Reached(q, c) : ImplKind(s, c) = "map"}
\* the same for the pinned commit
LeakyPinned(q, c) == {s \in Reached(q, c) : PinnedKind(s, c) = "map"}

\* which objects a run produces
Produced(c) == {"code", "tree"}
               \cup (IF Has(c, "with_reflection") THEN {"refl"} ELSE {})
               \cup (IF c.backend = "fastgo" THEN {"fast"} ELSE {})
               \cup (IF c.plugin = "patch" THEN {"extra"} ELSE {})
               \cup (IF c.plugin # "none" THEN {"stdin"} ELSE {})
=============================================================================
