----------------------------- MODULE Trace_Wire -----------------------------
(***************************************************************************)
(* Trace validation of generated Write (and of anything else that emits    *)
(* a struct encoding: fastgo output lexed from bytes, re-written unknown   *)
(* fields).  Each line of traces.ndjson is                                 *)
(*   [s |-> struct index, v |-> the value handed to Write,                  *)
(*    toks |-> the TProtocol calls recorded, err |-> Write returned error] *)
(* One TLC step per recorded call (the parse machine of Wire.tla); the     *)
(* trace is accepted iff                                                   *)
(*   - the value is writable, Write succeeded, the calls form a complete   *)
(*     well-formed encoding whose order-free tree equals Tree(schema, v);  *)
(*   - or the value is not writable (a union without exactly one member)   *)
(*     and Write returned an error.                                        *)
(* Field order, map-entry order and set-element order are not logged as    *)
(* choices: the tree is order-free.                                        *)
(***************************************************************************)
EXTENDS Wire

Traces == ndJsonDeserialize("traces.ndjson")

VARIABLES tr, l, stk
tvars == <<tr, l, stk>>
T == Traces[tr]
STy(s) == [n |-> "struct", s |-> s]

TInit == tr \in 1..Len(Traces) /\ l = 1 /\ stk = <<>>

Call(kind) == /\ l <= Len(T.toks) /\ T.toks[l].t = kind
              /\ stk' = ParseStep(stk, T.toks[l]) /\ stk' # BAD
              /\ l' = l + 1 /\ tr' = tr

WStructBegin == Call("SB")   WStructEnd == Call("SE")
WFieldBegin  == Call("FB")   WFieldEnd  == Call("FE")   WFieldStop == Call("STOP")
WListBegin   == Call("LB")   WListEnd   == Call("LE")
WSetBegin    == Call("XB")   WSetEnd    == Call("XE")
WMapBegin    == Call("MB")   WMapEnd    == Call("ME")
WScalar      == Call("V")

TNext == \/ WStructBegin \/ WStructEnd \/ WFieldBegin \/ WFieldEnd \/ WFieldStop
         \/ WListBegin \/ WListEnd \/ WSetBegin \/ WSetEnd \/ WMapBegin \/ WMapEnd \/ WScalar
TSpec == TInit /\ [][TNext]_tvars

AtEnd == l = Len(T.toks) + 1
Good == IF Writable(STy(T.s), T.v)
        THEN ~T.err /\ IsDone(stk) /\ stk[1].tree = StructTree(T.s, T.v)
        ELSE T.err
Accepted == (AtEnd /\ Good) => PrintT("ACC " \o ToString(tr))
Progress == PrintT("AT " \o ToString(tr) \o " " \o ToString(l))
=============================================================================
