SPECIFICATION TSpec
CONSTANTS
  SetDups = FALSE
  MaxVals = 1
  Depth = 1
  ReadVals = 1
  Breadth = "narrow"
INVARIANTS Accepted Progress
CHECK_DEADLOCK FALSE
