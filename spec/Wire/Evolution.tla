------------------------------ MODULE Evolution ------------------------------
(***************************************************************************)
(* C09: schema evolution.  The schema file holds, for every *family*, an   *)
(* old and a new version of a struct-like (and of the struct-likes it      *)
(* uses); new = old + one compatible edit (a field with a fresh id added   *)
(* to the struct itself, to a nested struct, or a member added to a union; *)
(* enum members added).  families = << [o, n, host, fname] >>:             *)
(*   o / n  index of the old / new version of the root struct              *)
(*   host   index of the NEW struct-like that received the added field     *)
(*   fname  name of the added field                                        *)
(*                                                                         *)
(* Chain machine (all in terms of the Wire reference codec):               *)
(*   new value v --Enc(new)--> wire1 --Dec(old)--> old object              *)
(*       --Enc(old) [+ unknown fields kept]--> wire2 --Dec(new)--> v'      *)
(* Without keep: v' = v with the added field reset to its initial value.   *)
(* With keep:    v' = v.  Rewrite() is the model of "re-write what was     *)
(* read, unknown fields preserved": known fields first, then the unknown   *)
(* chunks verbatim, recursively in nested known structs.                   *)
(***************************************************************************)
EXTENDS WireGen

Families == Schema.families

\* ---- a canonical non-trivial value per type, with one designated field overridden ----------
Second(S) == IF Cardinality(S) < 2 THEN CHOOSE x \in S : TRUE
             ELSE LET a == CHOOSE x \in S : TRUE IN CHOOSE x \in S \ {a} : TRUE
RECURSIVE Rich(_, _, _, _, _)
Rich(t, d, host, fname, x) ==
  CASE IsScalar(t) -> [a |-> Second(Atoms(t) \ {"dbl:nan"})]
    [] t.n \in {"list", "set"} -> [l |-> <<Rich(t.v, d, host, fname, x)>>]
    [] t.n = "map" -> [m |-> << <<Rich(t.k, d, host, fname, x), Rich(t.v, d, host, fname, x)>> >>]
    [] t.n = "struct" ->
         IF d = 0 THEN NIL
         ELSE LET fs == Fields(t.s)
                  isU == StructOf(t.s).kind = "union"
                  hasAdded == t.s = host
                  val(i) == IF hasAdded /\ fs[i].name = fname THEN x
                            ELSE IF isU /\ (hasAdded \/ i > 1) THEN NIL   \* one member only
                            ELSE Rich(fs[i].type, d - 1, host, fname, x) IN
              [s |-> [nm \in {fs[i].name : i \in 1..Len(fs)} |->
                        val(CHOOSE i \in 1..Len(fs) : fs[i].name = nm)]]

AddedField(fam) == LET fs == Fields(fam.host) IN fs[CHOOSE i \in 1..Len(fs) : fs[i].name = fam.fname]

\* values of the new root: the rich value with every value of the added field, plus the added field unset,
\* plus (for a union host) a value that uses an old member
EvoVals(fam) ==
  IF fam.host = 0      \* reversed family (old data read by new code): no added field on the writer's side
  THEN {Rich(STy(fam.n), 3, 0, "", NIL)} \cup Take(StructVals(fam.n), 3)
  ELSE LET af == AddedField(fam) IN
       {Rich(STy(fam.n), 3, fam.host, fam.fname, x) : x \in FieldVals(af, 1, 0)}
       \cup {Rich(STy(fam.n), 3, 0, "", NIL)}

\* ---- re-write with unknown fields kept (model of keep_unknown_fields) ---------------------------
RECURSIVE Rewrite(_, _, _), RewriteSeq(_, _, _, _), RewriteFields(_, _, _, _, _)
\* result [c |-> tokens, p |-> next position]
RewriteSeq(t, toks, p, n) ==
  IF n = 0 THEN [c |-> <<>>, p |-> p]
  ELSE LET r == Rewrite(t, toks, p)
           rest == RewriteSeq(t, toks, r.p, n - 1) IN [c |-> r.c \o rest.c, p |-> rest.p]
RewriteFields(s, toks, p, known, unknown) ==
  IF toks[p].t = "STOP" THEN [c |-> known \o unknown \o <<toks[p], toks[p + 1]>>, p |-> p + 2]
  ELSE LET cand == {i \in FieldById(s, toks[p].id) : TType(Fields(s)[i].type) = toks[p].ty} IN
       IF cand = {}
       THEN LET q == SkipVal(toks, p + 1) IN
            RewriteFields(s, toks, q + 1, known, unknown \o SubSeq(toks, p, q))
       ELSE LET f == Fields(s)[CHOOSE i \in cand : TRUE]
                r == Rewrite(f.type, toks, p + 1) IN
            RewriteFields(s, toks, r.p + 1, known \o <<toks[p]>> \o r.c \o <<toks[r.p]>>, unknown)
Rewrite(t, toks, p) ==
  LET k == toks[p] IN
  CASE IsScalar(t) -> [c |-> <<k>>, p |-> p + 1]
    [] t.n \in {"list", "set"} ->
         LET r == RewriteSeq(t.v, toks, p + 1, k.n) IN [c |-> <<k>> \o r.c \o <<toks[r.p]>>, p |-> r.p + 1]
    [] t.n = "map" ->
         LET RECURSIVE KV(_, _)
             KV(q, n) == IF n = 0 THEN [c |-> <<>>, p |-> q]
                         ELSE LET rk == Rewrite(t.k, toks, q)
                                  rv == Rewrite(t.v, toks, rk.p)
                                  rest == KV(rv.p, n - 1) IN [c |-> rk.c \o rv.c \o rest.c, p |-> rest.p]
             r == KV(p + 1, k.n) IN [c |-> <<k>> \o r.c \o <<toks[r.p]>>, p |-> r.p + 1]
    [] t.n = "struct" -> LET r == RewriteFields(t.s, toks, p + 1, <<>>, <<>>) IN [c |-> <<k>> \o r.c, p |-> r.p]

\* does the old reader meet an unknown field at the top level of the root struct?
RECURSIVE TopUnknown(_, _, _)
TopUnknown(s, toks, p) ==
  IF toks[p].t = "STOP" THEN FALSE
  ELSE LET cand == {i \in FieldById(s, toks[p].id) : TType(Fields(s)[i].type) = toks[p].ty} IN
       cand = {} \/ TopUnknown(s, toks, SkipVal(toks, p + 1) + 1)

\* no struct of a parsed tree holds the same field id twice
RECURSIVE NoDupFields(_)
NoDupFields(tr) ==
  IF "a" \in DOMAIN tr THEN TRUE
  ELSE IF "l" \in DOMAIN tr THEN \A i \in 1..Len(tr.items) : NoDupFields(tr.items[i])
  ELSE IF "x" \in DOMAIN tr THEN \A e \in tr.items : NoDupFields(e)
  ELSE IF "m" \in DOMAIN tr THEN \A e \in tr.items : NoDupFields(e[1]) /\ NoDupFields(e[2])
  ELSE /\ tr.n = Cardinality({f.id : f \in tr.s})
       /\ \A f \in tr.s : NoDupFields(f.val)

-----------------------------------------------------------------------------
EvoCases(k) == {[k |-> "evo", fam |-> k, v |-> v] : v \in EvoVals(Families[k])}

EvoInit == c = [k |-> "root"]
EvoNext == \/ c.k = "root" /\ c' \in {[k |-> "fam", fam |-> k] : k \in 1..Len(Families)}
           \/ c.k = "fam" /\ c' \in EvoCases(c.fam)

Fam == Families[c.fam]
Wire1 == EncStruct(Fam.n, c.v)
OldObj == DecStruct(Fam.o, Wire1)
Wire2NoKeep == EncStruct(Fam.o, OldObj.v)
Wire2Keep == Rewrite(STy(Fam.o), Wire1, 1).c

\* design-level invariants of the chain machine
OldReadsNew == (c.k = "evo" /\ Writable(STy(Fam.n), c.v)) => ~OldObj.err
KeepRoundTrip ==
  (c.k = "evo" /\ Writable(STy(Fam.n), c.v)) =>
     LET r == DecStruct(Fam.n, Wire2Keep) IN
     /\ ~r.err /\ Abs(STy(Fam.n), r.v) = Abs(STy(Fam.n), Norm(STy(Fam.n), c.v, FALSE))
     /\ LET st == ParseTokens(Wire2Keep) IN IsDone(st) /\ NoDupFields(st[1].tree)
NoKeepLosesOnlyAdded ==
  (c.k = "evo" /\ Writable(STy(Fam.n), c.v)) =>
     LET r == DecStruct(Fam.n, Wire2NoKeep) IN
     ~r.err /\ (Fam.host = Fam.n =>
                  \A nm \in {Fields(Fam.o)[i].name : i \in FieldIdx(Fam.o)} :   \* every field the old schema has
                      Abs(STy(Fam.n), r.v).s[nm] = Abs(STy(Fam.n), Norm(STy(Fam.n), c.v, FALSE)).s[nm])

EvoEmit ==
  IF c.k # "evo" THEN TRUE
  ELSE IF ~Writable(STy(Fam.n), c.v) THEN TRUE
  ELSE PrintT("CASE " \o ToJson([k |-> "evo", fam |-> c.fam, v |-> c.v,
                                 old_obj |-> OldObj.v, old_writable |-> Writable(STy(Fam.o), OldObj.v),
                                 final_nokeep |-> DecStruct(Fam.n, Wire2NoKeep).v,
                                 final_keep |-> Norm(STy(Fam.n), c.v, FALSE),
                                 carry |-> TopUnknown(Fam.o, Wire1, 2)]))
=============================================================================
