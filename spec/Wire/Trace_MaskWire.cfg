SPECIFICATION TSpec
CONSTANTS
  SetDups = FALSE
  MaxPaths = 0
  MaxVals = 1
  Depth = 1
  ReadVals = 1
  Breadth = "narrow"
INVARIANT Accepted
CHECK_DEADLOCK FALSE
