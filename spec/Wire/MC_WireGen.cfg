INIT Init
NEXT Next
CONSTANTS
  SetDups = FALSE
  MaxVals = 40
  Depth = 2
  ReadVals = 2
  Breadth = "narrow"
INVARIANTS WriterParses RoundTrip PerturbedWellFormed UnknownIgnored Emit
CHECK_DEADLOCK FALSE
