SPECIFICATION TSpec
CONSTANTS
  SetDups = FALSE
  MaxPaths = 0
  MaxVals = 1
  Depth = 1
  ReadVals = 1
  Breadth = "narrow"
INVARIANTS Accepted Progress
CHECK_DEADLOCK FALSE
