-------------------------------- MODULE Wire --------------------------------
(***************************************************************************)
(* The Thrift binary wire format of an IDL schema, as an abstract machine. *)
(* Shared by C02 (Read/Write), C09 (evolution), C10 (fastgo), C13 (masks), *)
(* C18 (set uniqueness), C08 (args/result structs).                        *)
(*                                                                         *)
(* Data model                                                              *)
(*   TYPE   [n |-> "i32"] .. [n |-> "enum", e |-> i] [n |-> "struct", s |-> i] *)
(*          [n |-> "list"|"set", v |-> TYPE] [n |-> "map", k, v]           *)
(*   VALUE  (Go-level value) [nil |-> TRUE] | [a |-> atom] | [l |-> seq]   *)
(*          | [m |-> seq of <<k, v>>] | [s |-> [field name |-> VALUE]]     *)
(*   TOKEN  one TProtocol call: [t |-> "SB"] [t |-> "FB", ty, id] "FE"     *)
(*          "STOP" "SE" [t |-> "LB"|"XB", e, n] "LE" "XE"                  *)
(*          [t |-> "MB", k, v, n] "ME" [t |-> "V", ty, a]                  *)
(*          and on the read side [t |-> "SKIP", ty]                        *)
(*   TREE   order-free image of a token sequence (struct fields, map       *)
(*          entries and set elements are sets): what a reference decoder   *)
(*          that knows nothing about the schema sees.                      *)
(* Scalars are opaque atoms ("i32:7", "str:ab"); their byte encoding is    *)
(* the protocol library's business, not thriftgo's.                        *)
(***************************************************************************)
EXTENDS Integers, Sequences, FiniteSets, TLC, Json

\* The schema under test is data, read once from schema.json next to the spec (a plain definition
\* so that TLC evaluates it once; a CONSTANT overridden in the cfg is re-evaluated at every use):
\*   [structs |-> << [name, kind |-> "struct"|"union"|"exception",
\*                   fields |-> << [id, req, name, type, def] >>] >>,
\*    enums |-> << <<numbers>> >>]        struct / enum references are indexes
\*   def = [none |-> TRUE] or a VALUE
Schema == JsonDeserialize("schema.json")

NIL == [nil |-> TRUE]
IsNil(v)  == "nil" \in DOMAIN v
IsAtom(v) == "a" \in DOMAIN v
NoDef(f)  == "none" \in DOMAIN f.def

TType(t) == CASE t.n = "bool" -> 2
              [] t.n \in {"byte", "i8"} -> 3
              [] t.n = "double" -> 4
              [] t.n = "i16" -> 6
              [] t.n \in {"i32", "enum"} -> 8
              [] t.n = "i64" -> 10
              [] t.n \in {"string", "binary"} -> 11
              [] t.n = "struct" -> 12
              [] t.n = "map" -> 13
              [] t.n = "set" -> 14
              [] t.n = "list" -> 15

IsScalar(t) == t.n \notin {"struct", "map", "set", "list"}
IsContainer(t) == t.n \in {"map", "set", "list"}
StructOf(s) == Schema.structs[s]
Fields(s) == StructOf(s).fields
FieldIdx(s) == 1..Len(Fields(s))

ZeroAtom(t) == CASE t.n = "bool" -> "b:0"
                 [] t.n \in {"byte", "i8"} -> "i8:0"
                 [] t.n = "double" -> "dbl:0"
                 [] t.n = "i16" -> "i16:0"
                 [] t.n \in {"i32", "enum"} -> "i32:0"
                 [] t.n = "i64" -> "i64:0"
                 [] t.n = "string" -> "str:"
                 [] t.n = "binary" -> "bin:"

(***************************************************************************)
(* Presence rule of the writer (the property: "optional fields present iff *)
(* set, required/default fields always present").  An optional field is    *)
(* set iff it is non-nil, or -- for a scalar with a declared default,      *)
(* which Go stores by value -- iff it differs from the default.            *)
(***************************************************************************)
Present(f, v) ==
  IF f.req # "optional" THEN TRUE
  ELSE IF IsNil(v) THEN FALSE
  ELSE IF IsScalar(f.type) /\ ~NoDef(f) THEN v # f.def
  ELSE TRUE

(***************************************************************************)
(* Structural equality of two values of a type (C18).  nil and empty       *)
(* containers / binaries are equal; an unset optional scalar or struct     *)
(* differs from every set one; maps are compared key-wise (keys by value); *)
(* lists and sets element-wise in order.                                   *)
(***************************************************************************)
IsEmptyLike(t, v) == IsNil(v) \/ (t.n \in {"list", "set"} /\ v.l = <<>>) \/ (t.n = "map" /\ v.m = <<>>)
                               \/ (t.n = "binary" /\ v = [a |-> "bin:"])
RECURSIVE Eq(_, _, _)
Eq(t, x, y) ==
  IF IsNil(x) \/ IsNil(y)
  THEN IF t.n \in {"list", "set", "map", "binary"} THEN IsEmptyLike(t, x) /\ IsEmptyLike(t, y)
       ELSE IsNil(x) /\ IsNil(y)
  ELSE CASE IsScalar(t) -> x.a = y.a
    [] t.n \in {"list", "set"} -> /\ Len(x.l) = Len(y.l)
                                  /\ \A i \in 1..Len(x.l) : Eq(t.v, x.l[i], y.l[i])
    [] t.n = "map" -> /\ Len(x.m) = Len(y.m)
                      /\ \A i \in 1..Len(x.m) : \E j \in 1..Len(y.m) :
                            Eq(t.k, x.m[i][1], y.m[j][1]) /\ Eq(t.v, x.m[i][2], y.m[j][2])
    [] t.n = "struct" -> \A i \in FieldIdx(t.s) :
                            Eq(Fields(t.s)[i].type, x.s[Fields(t.s)[i].name], y.s[Fields(t.s)[i].name])

\* a union member is set iff the presence rule says so (non-nil; for a member with a declared default: differs from it)
SetMembers(s, v) == {i \in FieldIdx(s) : Present(Fields(s)[i], v.s[Fields(s)[i].name])}

(* A value is writable iff every union in it has exactly one member set and no set in it *)
(* holds two equal elements.                                                              *)
RECURSIVE Writable(_, _)
Writable(t, v) ==
  IF IsNil(v) THEN (t.n # "struct" \/ StructOf(t.s).kind # "union")  \* a nil union has 0 members set
  ELSE CASE t.n = "struct" ->
              /\ (StructOf(t.s).kind = "union" => Cardinality(SetMembers(t.s, v)) = 1)
              /\ \A i \in FieldIdx(t.s) :
                    LET f == Fields(t.s)[i] IN
                    Present(f, v.s[f.name]) => Writable(f.type, v.s[f.name])
         [] t.n = "list" -> \A i \in 1..Len(v.l) : Writable(t.v, v.l[i])
         [] t.n = "set" -> /\ \A i \in 1..Len(v.l) : Writable(t.v, v.l[i])
                           /\ \A i, j \in 1..Len(v.l) : i < j => ~Eq(t.v, v.l[i], v.l[j])
         [] t.n = "map" -> \A i \in 1..Len(v.m) : Writable(t.k, v.m[i][1]) /\ Writable(t.v, v.m[i][2])
         [] OTHER -> TRUE

(***************************************************************************)
(* Tree(t, v): the order-free image of the encoding of a present value.    *)
(***************************************************************************)
RECURSIVE Tree(_, _)
Tree(t, v) ==
  CASE IsScalar(t) -> [a |-> v.a, ty |-> TType(t)]
    [] t.n = "list" -> LET xs == IF IsNil(v) THEN <<>> ELSE v.l IN
                       [l |-> TType(t.v), items |-> [i \in 1..Len(xs) |-> Tree(t.v, xs[i])]]
    [] t.n = "set"  -> LET xs == IF IsNil(v) THEN <<>> ELSE v.l IN
                       [x |-> TType(t.v), n |-> Len(xs), items |-> {Tree(t.v, xs[i]) : i \in 1..Len(xs)}]
    [] t.n = "map"  -> LET xs == IF IsNil(v) THEN <<>> ELSE v.m IN
                       [m |-> <<TType(t.k), TType(t.v)>>, n |-> Len(xs),
                        items |-> {<<Tree(t.k, xs[i][1]), Tree(t.v, xs[i][2])>> : i \in 1..Len(xs)}]
    [] t.n = "struct" ->
         IF IsNil(v) THEN [s |-> {}, n |-> 0]
         ELSE LET P == {i \in FieldIdx(t.s) : Present(Fields(t.s)[i], v.s[Fields(t.s)[i].name])} IN
              [s |-> {[id |-> Fields(t.s)[i].id, ty |-> TType(Fields(t.s)[i].type),
                       val |-> Tree(Fields(t.s)[i].type, v.s[Fields(t.s)[i].name])] : i \in P},
               n |-> Cardinality(P)]

StructTree(s, v) == Tree([n |-> "struct", s |-> s], v)

(***************************************************************************)
(* Enc(t, v): one canonical encoding (fields in declaration order, entries *)
(* in value order).  Used as the reference encoding handed to generated    *)
(* Read; it never shares code with the generator.                          *)
(***************************************************************************)
RECURSIVE Enc(_, _), EncSeq(_, _, _), EncMap(_, _, _), EncFields(_, _, _)
EncSeq(t, xs, i) == IF i > Len(xs) THEN <<>> ELSE Enc(t, xs[i]) \o EncSeq(t, xs, i + 1)
EncMap(t, xs, i) == IF i > Len(xs) THEN <<>>
                    ELSE Enc(t.k, xs[i][1]) \o Enc(t.v, xs[i][2]) \o EncMap(t, xs, i + 1)
FieldChunk(f, v) == <<[t |-> "FB", ty |-> TType(f.type), id |-> f.id]>> \o Enc(f.type, v) \o <<[t |-> "FE"]>>
EncFields(s, v, i) ==
  IF i > Len(Fields(s)) THEN <<>>
  ELSE LET f == Fields(s)[i] IN
       (IF Present(f, v.s[f.name]) THEN FieldChunk(f, v.s[f.name]) ELSE <<>>) \o EncFields(s, v, i + 1)
Enc(t, v) ==
  CASE IsScalar(t) -> <<[t |-> "V", ty |-> TType(t), a |-> v.a]>>
    [] t.n = "list" -> LET xs == IF IsNil(v) THEN <<>> ELSE v.l IN
         <<[t |-> "LB", e |-> TType(t.v), n |-> Len(xs)]>> \o EncSeq(t.v, xs, 1) \o <<[t |-> "LE"]>>
    [] t.n = "set" -> LET xs == IF IsNil(v) THEN <<>> ELSE v.l IN
         <<[t |-> "XB", e |-> TType(t.v), n |-> Len(xs)]>> \o EncSeq(t.v, xs, 1) \o <<[t |-> "XE"]>>
    [] t.n = "map" -> LET xs == IF IsNil(v) THEN <<>> ELSE v.m IN
         <<[t |-> "MB", k |-> TType(t.k), v |-> TType(t.v), n |-> Len(xs)]>> \o EncMap(t, xs, 1) \o <<[t |-> "ME"]>>
    [] t.n = "struct" ->
         <<[t |-> "SB"]>> \o (IF IsNil(v) THEN <<>> ELSE EncFields(t.s, v, 1)) \o <<[t |-> "STOP"], [t |-> "SE"]>>

EncStruct(s, v) == Enc([n |-> "struct", s |-> s], v)

(***************************************************************************)
(* Parse machine: the schema-less reference decoder, one step per token.   *)
(* Frames are partial trees.  ParseStep(stk, tok) is the next stack, or    *)
(* BAD if the token cannot follow (ill-formed encoding).                   *)
(***************************************************************************)
BAD == <<[k |-> "BAD"]>>
NONE == [none |-> TRUE]
IsNone(x) == "none" \in DOMAIN x

TreeType(tr) == IF "a" \in DOMAIN tr THEN tr.ty
                ELSE IF "l" \in DOMAIN tr THEN 15
                ELSE IF "x" \in DOMAIN tr THEN 14
                ELSE IF "m" \in DOMAIN tr THEN 13
                ELSE 12

\* hand a completed value tree to the frame below
Deliver(stk, tr) ==
  IF stk = <<>> THEN <<[k |-> "DONE", tree |-> tr]>>
  ELSE LET top == stk[Len(stk)]
           rest == SubSeq(stk, 1, Len(stk) - 1) IN
       CASE top.k = "S" ->
              IF IsNone(top.cur) \/ top.cur.got \/ top.cur.ty # TreeType(tr) THEN BAD
              ELSE Append(rest, [top EXCEPT !.fields = @ \cup {[id |-> top.cur.id, ty |-> top.cur.ty, val |-> tr]},
                                            !.n = @ + 1, !.cur.got = TRUE])
         [] top.k = "L" ->
              IF top.e # TreeType(tr) \/ Len(top.items) >= top.cnt THEN BAD
              ELSE Append(rest, [top EXCEPT !.items = Append(@, tr)])
         [] top.k = "X" ->
              IF top.e # TreeType(tr) \/ top.n >= top.cnt THEN BAD
              ELSE Append(rest, [top EXCEPT !.items = @ \cup {tr}, !.n = @ + 1])
         [] top.k = "M" ->
              IF IsNone(top.key)
              THEN IF top.kt # TreeType(tr) \/ top.n >= top.cnt THEN BAD
                   ELSE Append(rest, [top EXCEPT !.key = tr])
              ELSE IF top.vt # TreeType(tr) THEN BAD
                   ELSE Append(rest, [top EXCEPT !.items = @ \cup {<<top.key, tr>>}, !.n = @ + 1, !.key = NONE])
         [] OTHER -> BAD

\* a value may start here: bottom of the stack, or inside a container / after a field header
CanStartValue(stk) ==
  \/ stk = <<>>
  \/ LET top == stk[Len(stk)] IN
       \/ top.k = "S" /\ ~IsNone(top.cur) /\ ~top.cur.got
       \/ top.k \in {"L", "X", "M"}

ParseStep(stk, tok) ==
  IF stk = BAD \/ (stk # <<>> /\ stk[1].k = "DONE") THEN BAD
  ELSE LET top == IF stk = <<>> THEN NONE ELSE stk[Len(stk)]
           rest == IF stk = <<>> THEN <<>> ELSE SubSeq(stk, 1, Len(stk) - 1) IN
  CASE tok.t = "SB" -> IF CanStartValue(stk)
                       THEN Append(stk, [k |-> "S", fields |-> {}, n |-> 0, cur |-> NONE, stopped |-> FALSE]) ELSE BAD
    [] tok.t = "FB" -> IF stk # <<>> /\ top.k = "S" /\ IsNone(top.cur) /\ ~top.stopped
                       THEN Append(rest, [top EXCEPT !.cur = [id |-> tok.id, ty |-> tok.ty, got |-> FALSE]]) ELSE BAD
    [] tok.t = "FE" -> IF stk # <<>> /\ top.k = "S" /\ ~IsNone(top.cur) /\ top.cur.got
                       THEN Append(rest, [top EXCEPT !.cur = NONE]) ELSE BAD
    [] tok.t = "STOP" -> IF stk # <<>> /\ top.k = "S" /\ IsNone(top.cur) /\ ~top.stopped
                         THEN Append(rest, [top EXCEPT !.stopped = TRUE]) ELSE BAD
    [] tok.t = "SE" -> IF stk # <<>> /\ top.k = "S" /\ top.stopped
                       THEN Deliver(rest, [s |-> top.fields, n |-> top.n]) ELSE BAD
    [] tok.t = "LB" -> IF CanStartValue(stk) THEN Append(stk, [k |-> "L", e |-> tok.e, cnt |-> tok.n, items |-> <<>>]) ELSE BAD
    [] tok.t = "LE" -> IF stk # <<>> /\ top.k = "L" /\ Len(top.items) = top.cnt
                       THEN Deliver(rest, [l |-> top.e, items |-> top.items]) ELSE BAD
    [] tok.t = "XB" -> IF CanStartValue(stk) THEN Append(stk, [k |-> "X", e |-> tok.e, cnt |-> tok.n, n |-> 0, items |-> {}]) ELSE BAD
    [] tok.t = "XE" -> IF stk # <<>> /\ top.k = "X" /\ top.n = top.cnt
                       THEN Deliver(rest, [x |-> top.e, n |-> top.n, items |-> top.items]) ELSE BAD
    [] tok.t = "MB" -> IF CanStartValue(stk)
                       THEN Append(stk, [k |-> "M", kt |-> tok.k, vt |-> tok.v, cnt |-> tok.n, n |-> 0, items |-> {}, key |-> NONE]) ELSE BAD
    [] tok.t = "ME" -> IF stk # <<>> /\ top.k = "M" /\ top.n = top.cnt /\ IsNone(top.key)
                       THEN Deliver(rest, [m |-> <<top.kt, top.vt>>, n |-> top.n, items |-> top.items]) ELSE BAD
    [] tok.t = "V"  -> IF CanStartValue(stk) THEN Deliver(stk, [a |-> tok.a, ty |-> tok.ty]) ELSE BAD
    [] OTHER -> BAD

IsDone(stk) == stk # <<>> /\ stk[1].k = "DONE"

\* number of bytes a token occupies in the binary protocol (string/binary payload length is logged as z)
TokSize(tok) == CASE tok.t = "FB" -> 3 [] tok.t = "STOP" -> 1
                  [] tok.t \in {"LB", "XB"} -> 5 [] tok.t = "MB" -> 6
                  [] tok.t = "V" -> (CASE tok.ty \in {2, 3} -> 1 [] tok.ty = 6 -> 2 [] tok.ty = 8 -> 4
                                       [] tok.ty \in {4, 10} -> 8 [] tok.ty = 11 -> 4 + tok.z)
                  [] OTHER -> 0

RECURSIVE ParseAll(_, _, _)
ParseAll(stk, toks, i) == IF i > Len(toks) THEN stk ELSE ParseAll(ParseStep(stk, toks[i]), toks, i + 1)
ParseTokens(toks) == ParseAll(<<>>, toks, 1)

(***************************************************************************)
(* Reference reader: schema-driven recursive descent over a well-formed    *)
(* token sequence.  Returns the object generated Read must produce when    *)
(* started on `init`, whether it must fail (required field absent), and    *)
(* the sequence of protocol calls it may make (known fields are read,      *)
(* everything else is passed over by exactly one Skip of its wire type).   *)
(***************************************************************************)
\* position just after the value that starts at p
RECURSIVE SkipVal(_, _), SkipN(_, _, _), SkipFields(_, _)
SkipN(toks, p, n) == IF n = 0 THEN p ELSE SkipN(toks, SkipVal(toks, p), n - 1)
SkipFields(toks, p) == IF toks[p].t = "STOP" THEN p + 2   \* STOP SE
                       ELSE SkipFields(toks, SkipVal(toks, p + 1) + 1)   \* FB value FE
SkipVal(toks, p) ==
  LET k == toks[p] IN
  CASE k.t = "V" -> p + 1
    [] k.t \in {"LB", "XB"} -> SkipN(toks, p + 1, k.n) + 1
    [] k.t = "MB" -> SkipN(toks, p + 1, 2 * k.n) + 1
    [] k.t = "SB" -> SkipFields(toks, p + 1)

FieldById(s, id) == {i \in FieldIdx(s) : Fields(s)[i].id = id}

\* value of a field that does not occur on the wire, for an object made by NewX()
Initial(f) == IF ~NoDef(f) THEN f.def
              ELSE IF f.req = "optional" \/ ~IsScalar(f.type) THEN NIL
              ELSE [a |-> ZeroAtom(f.type)]
InitialStruct(s) == [s |-> [nm \in {Fields(s)[i].name : i \in FieldIdx(s)} |->
                              Initial(Fields(s)[CHOOSE i \in FieldIdx(s) : Fields(s)[i].name = nm])]]

RECURSIVE Dec(_, _, _), DecSeq(_, _, _, _, _, _), DecMap(_, _, _, _, _, _), DecFields(_, _, _, _, _, _)
\* result: [v |-> value, p |-> next position, err |-> must fail, c |-> protocol calls made]
DecSeq(t, toks, p, n, acc, c) ==
  IF n = 0 THEN [v |-> acc, p |-> p, err |-> FALSE, c |-> c]
  ELSE LET r == Dec(t, toks, p) IN
       IF r.err THEN [v |-> acc, p |-> r.p, err |-> TRUE, c |-> c \o r.c]
       ELSE DecSeq(t, toks, r.p, n - 1, Append(acc, r.v), c \o r.c)
DecMap(t, toks, p, n, acc, c) ==
  IF n = 0 THEN [v |-> acc, p |-> p, err |-> FALSE, c |-> c]
  ELSE LET rk == Dec(t.k, toks, p) IN
       IF rk.err THEN [v |-> acc, p |-> rk.p, err |-> TRUE, c |-> c \o rk.c]
       ELSE LET rv == Dec(t.v, toks, rk.p) IN
            IF rv.err THEN [v |-> acc, p |-> rv.p, err |-> TRUE, c |-> c \o rk.c \o rv.c]
            ELSE DecMap(t, toks, rv.p, n - 1, Append(acc, <<rk.v, rv.v>>), c \o rk.c \o rv.c)
DecFields(s, toks, p, obj, seen, c) ==
  IF toks[p].t = "STOP"
  THEN [v |-> obj, p |-> p + 2, c |-> c \o <<toks[p], toks[p + 1]>>,
        err |-> \E i \in FieldIdx(s) : Fields(s)[i].req = "required" /\ i \notin seen]
  ELSE LET id == toks[p].id
           ty == toks[p].ty
           cand == {i \in FieldById(s, id) : TType(Fields(s)[i].type) = ty} IN
       IF cand = {}
       THEN LET q == SkipVal(toks, p + 1) IN
            DecFields(s, toks, q + 1, obj, seen, c \o <<toks[p], [t |-> "SKIP", ty |-> ty], toks[q]>>)
       ELSE LET i == CHOOSE i \in cand : TRUE
                f == Fields(s)[i]
                r == Dec(f.type, toks, p + 1) IN
            IF r.err THEN [v |-> obj, p |-> r.p, err |-> TRUE, c |-> c \o <<toks[p]>> \o r.c]
            ELSE DecFields(s, toks, r.p + 1, [obj EXCEPT !.s[f.name] = r.v], seen \cup {i},
                           c \o <<toks[p]>> \o r.c \o <<toks[r.p]>>)
Dec(t, toks, p) ==
  LET k == toks[p] IN
  CASE IsScalar(t) -> [v |-> [a |-> k.a], p |-> p + 1, err |-> FALSE, c |-> <<k>>]
    [] t.n \in {"list", "set"} ->
         LET r == DecSeq(t.v, toks, p + 1, k.n, <<>>, <<k>>) IN
         [v |-> [l |-> r.v], p |-> r.p + 1, err |-> r.err, c |-> IF r.err THEN r.c ELSE Append(r.c, toks[r.p])]
    [] t.n = "map" ->
         LET r == DecMap(t, toks, p + 1, k.n, <<>>, <<k>>) IN
         [v |-> [m |-> r.v], p |-> r.p + 1, err |-> r.err, c |-> IF r.err THEN r.c ELSE Append(r.c, toks[r.p])]
    [] t.n = "struct" -> DecFields(t.s, toks, p + 1, InitialStruct(t.s), {}, <<k>>)

DecStruct(s, toks) == Dec([n |-> "struct", s |-> s], toks, 1)

\* ---- normal form of a value as the reference reader reconstructs it from its own encoding
RECURSIVE Norm(_, _, _)
Norm(t, v, opt) ==
  CASE IsScalar(t) -> v
    [] t.n \in {"list", "set"} -> IF IsNil(v) THEN (IF opt THEN NIL ELSE [l |-> <<>>])
                                  ELSE [l |-> [i \in 1..Len(v.l) |-> Norm(t.v, v.l[i], FALSE)]]
    [] t.n = "map" -> IF IsNil(v) THEN (IF opt THEN NIL ELSE [m |-> <<>>])
                      ELSE [m |-> [i \in 1..Len(v.m) |-> <<Norm(t.k, v.m[i][1], FALSE), Norm(t.v, v.m[i][2], FALSE)>>]]
    [] t.n = "struct" ->
         IF IsNil(v) THEN (IF opt THEN NIL ELSE InitialStruct(t.s))
         ELSE [s |-> [nm \in DOMAIN v.s |->
                 LET f == Fields(t.s)[CHOOSE i \in FieldIdx(t.s) : Fields(t.s)[i].name = nm] IN
                 IF Present(f, v.s[nm]) THEN Norm(f.type, v.s[nm], f.req = "optional") ELSE Initial(f)]]


\* order-free abstraction of a (normal-form) value: map entries and set elements as sets
RECURSIVE Abs(_, _)
Abs(t, v) ==
  IF IsNil(v) THEN v
  ELSE CASE IsScalar(t) -> v
    [] t.n = "list" -> [l |-> [i \in 1..Len(v.l) |-> Abs(t.v, v.l[i])]]
    [] t.n = "set" -> [x |-> {Abs(t.v, v.l[i]) : i \in 1..Len(v.l)}, n |-> Len(v.l)]
    [] t.n = "map" -> [m |-> {<<Abs(t.k, v.m[i][1]), Abs(t.v, v.m[i][2])>> : i \in 1..Len(v.m)}, n |-> Len(v.m)]
    [] t.n = "struct" -> [s |-> [nm \in DOMAIN v.s |->
                           Abs(Fields(t.s)[CHOOSE i \in FieldIdx(t.s) : Fields(t.s)[i].name = nm].type, v.s[nm])]]
=============================================================================
