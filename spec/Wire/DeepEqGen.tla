------------------------------ MODULE DeepEqGen ------------------------------
(***************************************************************************)
(* C18: structural equality.  Pairs of values per struct-like type (all    *)
(* pairs among the first PairVals values of the bounded universe, which    *)
(* differ in single leaves, nil-vs-empty containers, optional presence,    *)
(* map keys with equal values, map sizes) with the verdict of Eq, the laws *)
(* of Eq checked on the model, and the write cases of set values with and  *)
(* without equal elements.                                                 *)
(***************************************************************************)
EXTENDS WireGen

CONSTANT PairVals

RECURSIVE HasSetT(_, _)
HasSetT(t, d) == CASE t.n = "set" -> TRUE
                   [] t.n = "list" -> HasSetT(t.v, d)
                   [] t.n = "map" -> HasSetT(t.k, d) \/ HasSetT(t.v, d)
                   [] t.n = "struct" -> d > 0 /\ \E i \in FieldIdx(t.s) : HasSetT(Fields(t.s)[i].type, d - 1)
                   [] OTHER -> FALSE

EqCasesOf(s) ==
  LET PV == Take(StructVals(s), PairVals) IN
  {[k |-> "eq", s |-> s, x |-> x, y |-> y] : x \in PV, y \in PV}
  \cup (IF HasSetT(STy(s), 2) THEN {[k |-> "w", s |-> s, v |-> v] : v \in StructVals(s)} ELSE {})

EqInit == c = [k |-> "root"]
EqNext == \/ c.k = "root" /\ c' \in {[k |-> "struct", s |-> s] : s \in StructNames}
          \/ c.k = "struct" /\ c' \in EqCasesOf(c.s)

Reflexive == (c.k = "eq") => Eq(STy(c.s), c.x, c.x)
Symmetric == (c.k = "eq") => (Eq(STy(c.s), c.x, c.y) = Eq(STy(c.s), c.y, c.x))
IdenticalAreEqual == (c.k = "eq" /\ c.x = c.y) => Eq(STy(c.s), c.x, c.y)
EqEmit ==
  IF c.k = "eq"
  THEN PrintT("CASE " \o ToJson([k |-> "eq", s |-> Schema.structs[c.s].name, x |-> c.x, y |-> c.y,
                                 eq |-> Eq(STy(c.s), c.x, c.y)]))
  ELSE IF c.k = "w"
  THEN PrintT("CASE " \o ToJson([k |-> "w", s |-> Schema.structs[c.s].name, v |-> c.v,
                                 writable |-> Writable(STy(c.s), c.v)]))
  ELSE TRUE
=============================================================================
