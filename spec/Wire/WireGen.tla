------------------------------ MODULE WireGen ------------------------------
(***************************************************************************)
(* Value universe, case generation and design-level round-trip invariants  *)
(* for the Wire specification.  One TLC state per case (the case is the    *)
(* initial state); the invariants check the specification against itself   *)
(* (writer vs. schema-less parser vs. reference reader) and emit the case  *)
(* for replay into the generated code.                                     *)
(***************************************************************************)
EXTENDS Wire

CONSTANTS SetDups,     \* TRUE: set values with two equal elements are in the universe (C18)
          MaxVals,     \* cap on the number of values per struct type
          Depth,       \* nesting depth of struct values
          ReadVals,    \* number of values per struct used for read cases
          Breadth      \* "narrow" | "wide": how many perturbations per read case


RECURSIVE Take(_, _)
Take(S, n) == IF n = 0 \/ S = {} THEN {} ELSE LET x == CHOOSE x \in S : TRUE IN {x} \cup Take(S \ {x}, n - 1)

Atoms(t) == CASE t.n = "bool" -> {"b:0", "b:1"}
              [] t.n \in {"byte", "i8"} -> {"i8:0", "i8:-128", "i8:127"}
              [] t.n = "i16" -> {"i16:0", "i16:-32768", "i16:258"}
              [] t.n = "i32" -> {"i32:0", "i32:7", "i32:-2147483648"}
              [] t.n = "i64" -> {"i64:0", "i64:9223372036854775807", "i64:-9223372036854775808"}
              [] t.n = "double" -> {"dbl:0", "dbl:1.5", "dbl:nan", "dbl:-inf"}
              [] t.n = "string" -> {"str:", "str:a", "str:h\\u00e9 \\\"q\\\""}
              [] t.n = "binary" -> {"bin:", "bin:00ff80"}
              [] t.n = "enum" -> {"i32:" \o ToString(Schema.enums[t.e][i]) : i \in 1..Len(Schema.enums[t.e])} \cup {"i32:77"}

KeyOK(v) == ~(IsAtom(v) /\ v.a = "dbl:nan")   \* NaN is not a usable Go map key / set element

RECURSIVE Vals(_, _), Prod(_, _, _, _), ElemVals(_, _)
\* f.w > 0 caps the number of values of a field (structs with many fields would otherwise explode)
\* f.vals, when present, is the explicit value domain of the field (e.g. strings of many lengths)
FieldVals(f, d, n0) ==
  IF "vals" \in DOMAIN f THEN {f.vals[i] : i \in 1..Len(f.vals)} ELSE
  LET n == IF f.w > 0 /\ (n0 = 0 \/ f.w < n0) THEN f.w ELSE n0
      base == IF n = 0 THEN Vals(f.type, d) ELSE Take(Vals(f.type, d), n) IN
  base \cup (IF (f.req = "optional" /\ (NoDef(f) \/ ~IsScalar(f.type))) \/ ~IsScalar(f.type) THEN {NIL} ELSE {})
       \cup (IF ~NoDef(f) THEN {f.def} ELSE {})
Prod(s, i, d, n) ==
  IF i > Len(Fields(s)) THEN {<<>>}
  ELSE {(Fields(s)[i].name :> x) @@ r : x \in FieldVals(Fields(s)[i], d, n), r \in Prod(s, i + 1, d, n)}
\* element / map-value domain: two values; for struct elements one of them is always the freshly constructed value
ElemVals(t, d) ==
  IF t.n = "struct" /\ d > 0 /\ StructOf(t.s).kind # "union"
  THEN {InitialStruct(t.s)} \cup Take(Vals(t, d) \ {InitialStruct(t.s)}, 1)
  ELSE Take(Vals(t, d), 2)
Vals(t, d) ==
  CASE IsScalar(t) -> {[a |-> x] : x \in Atoms(t)}
    [] t.n = "list" -> LET E == ElemVals(t.v, d) IN
         {[l |-> <<>>]} \cup {[l |-> <<e>>] : e \in E} \cup {[l |-> <<e1, e2>>] : e1 \in E, e2 \in E}
    \* with SetDups (C18) the elements of a set of containers also include nil and empty: equal by value
    [] t.n = "set" -> LET E == {e \in ElemVals(t.v, d) : KeyOK(e)}
                                \cup (IF SetDups /\ t.v.n \in {"list", "set"} THEN {NIL, [l |-> <<>>]}
                                      ELSE IF SetDups /\ t.v.n = "map" THEN {NIL, [m |-> <<>>]} ELSE {}) IN
         {[l |-> <<>>]} \cup {[l |-> <<e>>] : e \in E} \cup {[l |-> <<q[1], q[2]>>] : q \in {p \in E \X E : SetDups \/ p[1] # p[2]}}
    [] t.n = "map" -> LET K == Take({e \in Vals(t.k, d) : KeyOK(e)}, 2)
                          V == ElemVals(t.v, d) IN
         {[m |-> <<>>]} \cup {[m |-> <<<<k, v>>>>] : k \in K, v \in V}
           \cup {[m |-> <<<<q[1], v1>>, <<q[2], v2>>>>] : q \in {p \in K \X K : p[1] # p[2]}, v1 \in V, v2 \in Take(V, 1)}
    \* nested struct values: the freshly constructed value (every field at its initial value: defaults where
    \* declared, nothing else set -- optional fields equal to their default are then NOT on the wire and the
    \* reader has to restore them) plus two arbitrary ones
    [] t.n = "struct" -> IF d = 0 THEN {}
                         ELSE (IF StructOf(t.s).kind = "union" THEN {} ELSE {InitialStruct(t.s)})
                              \cup Take({[s |-> g] : g \in Prod(t.s, 1, d - 1, 2)}, 2)

StructNames == 1..Len(Schema.structs)
StructVals(s) == Take({[s |-> g] : g \in Prod(s, 1, Depth, 0)}, MaxVals)
STy(s) == [n |-> "struct", s |-> s]

-----------------------------------------------------------------------------
(* perturbations of a reference encoding, at the granularity of top-level fields *)
AllTT == {2, 3, 4, 6, 8, 10, 11, 12, 13, 14, 15}
V(ty, a) == [t |-> "V", ty |-> ty, a |-> a]
Sample(ty) == CASE ty = 2 -> <<V(2, "b:1")>> [] ty = 3 -> <<V(3, "i8:5")>> [] ty = 4 -> <<V(4, "dbl:2.5")>>
                [] ty = 6 -> <<V(6, "i16:5")>> [] ty = 8 -> <<V(8, "i32:5")>> [] ty = 10 -> <<V(10, "i64:5")>>
                [] ty = 11 -> <<V(11, "str:zz")>>
                [] ty = 12 -> <<[t |-> "SB"], [t |-> "FB", ty |-> 8, id |-> 1], V(8, "i32:5"), [t |-> "FE"], [t |-> "STOP"], [t |-> "SE"]>>
                [] ty = 13 -> <<[t |-> "MB", k |-> 8, v |-> 11, n |-> 1], V(8, "i32:5"), V(11, "str:zz"), [t |-> "ME"]>>
                [] ty = 14 -> <<[t |-> "XB", e |-> 8, n |-> 1], V(8, "i32:5"), [t |-> "XE"]>>
                [] ty = 15 -> <<[t |-> "LB", e |-> 12, n |-> 1], [t |-> "SB"], [t |-> "STOP"], [t |-> "SE"], [t |-> "LE"]>>
Chunk(ty, id) == <<[t |-> "FB", ty |-> ty, id |-> id]>> \o Sample(ty) \o <<[t |-> "FE"]>>

\* chunks of the present fields of v, as <<field index, tokens>>
RECURSIVE Chunks(_, _, _)
Chunks(s, v, i) == IF i > Len(Fields(s)) THEN <<>>
                   ELSE LET f == Fields(s)[i] IN
                        (IF Present(f, v.s[f.name]) THEN <<[i |-> i, toks |-> FieldChunk(f, v.s[f.name])]>> ELSE <<>>)
                        \o Chunks(s, v, i + 1)
RECURSIVE Flat(_, _)
Flat(cs, i) == IF i > Len(cs) THEN <<>> ELSE cs[i].toks \o Flat(cs, i + 1)
Wrap(cs) == <<[t |-> "SB"]>> \o Flat(cs, 1) \o <<[t |-> "STOP"], [t |-> "SE"]>>
InsertAt(cs, j, c) == SubSeq(cs, 1, j) \o <<c>> \o SubSeq(cs, j + 1, Len(cs))
ReplaceAt(cs, j, c) == [cs EXCEPT ![j] = c]
RemoveAt(cs, j) == SubSeq(cs, 1, j - 1) \o SubSeq(cs, j + 1, Len(cs))

UnknownIds == {99, -7}
Positions(cs) == IF Breadth = "wide" THEN 0..Len(cs) ELSE {0, Len(cs)}
RetagTypes(ty) == IF Breadth = "wide" THEN AllTT \ {ty} ELSE Take(AllTT \ {ty, 12}, 2) \cup ({12} \ {ty})

Perturbed(s, v) ==
  LET cs == Chunks(s, v, 1) IN
  {[kind |-> "base", toks |-> Wrap(cs)]}
  \cup {[kind |-> "unknown", ty |-> ty, id |-> id, at |-> j,
         toks |-> Wrap(InsertAt(cs, j, [i |-> 0, toks |-> Chunk(ty, id)]))] :
          ty \in AllTT, id \in (IF Breadth = "wide" THEN UnknownIds ELSE {99}), j \in Positions(cs)}
  \cup UNION { {[kind |-> "retag", ty |-> ty, id |-> Fields(s)[cs[j].i].id, at |-> j,
                  toks |-> Wrap(ReplaceAt(cs, j, [i |-> 0, toks |-> Chunk(ty, Fields(s)[cs[j].i].id)]))] :
                  ty \in RetagTypes(TType(Fields(s)[cs[j].i].type))} : j \in 1..Len(cs) }
  \cup {[kind |-> "drop", id |-> Fields(s)[cs[j].i].id, at |-> j, toks |-> Wrap(RemoveAt(cs, j))] : j \in 1..Len(cs)}
  \* only the first j fields are on the wire (every tail of the field list missing at once)
  \cup {[kind |-> "prefix", at |-> j, toks |-> Wrap(SubSeq(cs, 1, j))] : j \in 0..(Len(cs) - 2)}

\* a retag to the field's own type is a legitimate re-encoding with another payload; keep it (the reader must take it)

-----------------------------------------------------------------------------
CasesOf(s) ==
    {[k |-> "w", s |-> s, v |-> v] : v \in StructVals(s)}
    \cup UNION { {[k |-> "r", s |-> s, v |-> v, p |-> p] : p \in Perturbed(s, v)} :
                 v \in Take({w \in StructVals(s) : Writable(STy(s), w)}, ReadVals) }

\* three levels so that TLC's workers share the work: root -> one state per struct-like -> its cases
VARIABLE c
Init == c = [k |-> "root"]
Next == \/ c.k = "root" /\ c' \in {[k |-> "struct", s |-> s] : s \in StructNames}
        \/ c.k = "struct" /\ c' \in CasesOf(c.s)

\* ---- design-level invariants (the specification checked against itself)
WriterParses ==      \* the canonical encoding parses, schema-less, to the order-free tree of the value
  (c.k = "w" /\ Writable(STy(c.s), c.v)) =>
     LET st == ParseTokens(EncStruct(c.s, c.v)) IN IsDone(st) /\ st[1].tree = StructTree(c.s, c.v)

RoundTrip ==         \* the reference reader recovers the value from the canonical encoding
  (c.k = "w" /\ Writable(STy(c.s), c.v)) =>
     LET r == DecStruct(c.s, EncStruct(c.s, c.v)) IN
     r.p = Len(EncStruct(c.s, c.v)) + 1 /\ (~r.err => r.v = Norm(STy(c.s), c.v, FALSE))

PerturbedWellFormed == (c.k = "r") => IsDone(ParseTokens(c.p.toks))

UnknownIgnored ==    \* an unknown field changes nothing
  (c.k = "r" /\ c.p.kind = "unknown") =>
     LET r0 == DecStruct(c.s, EncStruct(c.s, c.v))
         r1 == DecStruct(c.s, c.p.toks) IN r1.v = r0.v /\ r1.err = r0.err

Emit ==
  IF c.k \in {"root", "struct"} THEN TRUE
  ELSE IF c.k = "w"
  THEN LET wr == Writable(STy(c.s), c.v)
           enc == IF wr THEN EncStruct(c.s, c.v) ELSE <<>>
           r == IF wr THEN DecStruct(c.s, enc) ELSE [v |-> NIL, err |-> TRUE, c |-> <<>>] IN
       PrintT("CASE " \o ToJson([k |-> "w", s |-> Schema.structs[c.s].name, v |-> c.v, writable |-> wr,
                                 enc |-> enc, exp |-> [v |-> r.v, err |-> r.err, calls |-> r.c]]))
  ELSE LET r == DecStruct(c.s, c.p.toks) IN
       PrintT("CASE " \o ToJson([k |-> "r", s |-> Schema.structs[c.s].name, pert |-> [x \in DOMAIN c.p \ {"toks"} |-> c.p[x]],
                                 toks |-> c.p.toks, exp |-> [v |-> r.v, err |-> r.err, calls |-> r.c]]))
=============================================================================
