------------------------------ MODULE Trace_Evo ------------------------------
(***************************************************************************)
(* Trace validation for C09.  One trace per executed chain                 *)
(*   new.Write(v) -> old.Read -> old.Write -> (recorded here) -> new.Read  *)
(*   [fam, v, keep |-> old code generated with keep_unknown_fields,        *)
(*    toks |-> the TProtocol calls of old.Write, carry |-> what            *)
(*    CarryingUnknownFields() said on the old object ("na" if no keep)]    *)
(* Accepted iff the re-written bytes are a well-formed encoding without a  *)
(* duplicated field that the new schema decodes to v (keep) or to v with   *)
(* only the added field reset (no keep), and carry is exactly "the old     *)
(* reader met an unknown field at the top level".                          *)
(***************************************************************************)
EXTENDS Evolution

Traces == ndJsonDeserialize("traces.ndjson")

VARIABLES tr, l, stk
tvars == <<tr, l, stk, c>>
T == Traces[tr]
TF == Families[T.fam]

TInit == tr \in 1..Len(Traces) /\ l = 1 /\ stk = <<>> /\ c = [k |-> "trace"]   \* c: unused variable of WireGen
Step == /\ l <= Len(T.toks)
        /\ stk' = ParseStep(stk, T.toks[l]) /\ stk' # BAD
        /\ l' = l + 1 /\ tr' = tr /\ UNCHANGED c
TSpec == TInit /\ [][Step]_tvars

AtEnd == l = Len(T.toks) + 1
W1 == EncStruct(TF.n, T.v)
Expected == IF T.keep THEN Norm(STy(TF.n), T.v, FALSE)
            ELSE DecStruct(TF.n, EncStruct(TF.o, DecStruct(TF.o, W1).v)).v
Good == /\ IsDone(stk) /\ NoDupFields(stk[1].tree)
        /\ LET r == DecStruct(TF.n, T.toks) IN
             ~r.err /\ r.p = Len(T.toks) + 1 /\ Abs(STy(TF.n), r.v) = Abs(STy(TF.n), Expected)
        /\ (T.keep => T.carry = (IF TopUnknown(TF.o, W1, 2) THEN "yes" ELSE "no"))
Accepted == (AtEnd /\ Good) => PrintT("ACC " \o ToString(tr))
Progress == PrintT("AT " \o ToString(tr) \o " " \o ToString(l))
=============================================================================
