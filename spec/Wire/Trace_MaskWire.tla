---------------------------- MODULE Trace_MaskWire ----------------------------
(***************************************************************************)
(* Trace validation for C13: the TProtocol calls of generated Write under  *)
(* a field mask built by the real fieldmask.NewFieldMask from the paths of *)
(* the case.  [ms |-> alphabet indexes of the mask, mode, v, zero |-> code generated with *)
(* field_mask_zero_required, toks, err]                                    *)
(* Accepted iff Write succeeded, the calls form a complete well-formed     *)
(* encoding (every header count equals the elements that follow: the parse *)
(* machine rejects anything else) and its order-free tree is MTree.        *)
(***************************************************************************)
EXTENDS MaskWire

Traces == ndJsonDeserialize("traces.ndjson")
VARIABLES tr, l, stk
tvars == <<tr, l, stk, c>>
T == Traces[tr]

TInit == tr \in 1..Len(Traces) /\ l = 1 /\ stk = <<>> /\ c = [k |-> "trace"]
Step == /\ l <= Len(T.toks)
        /\ stk' = ParseStep(stk, T.toks[l]) /\ stk' # BAD
        /\ l' = l + 1 /\ tr' = tr /\ UNCHANGED c
TSpec == TInit /\ [][Step]_tvars

TM == IF T.mode = "none" THEN NoMask ELSE Mask({T.ms[i] : i \in 1..Len(T.ms)}, T.mode)
AtEnd == l = Len(T.toks) + 1
Good == /\ ~T.err /\ IsDone(stk)
        /\ \E rq \in {"full", "min"} : stk[1].tree = MTree(STy(RootS), T.v, TM, <<>>, T.zero, rq)
Accepted == (AtEnd /\ Good) => PrintT("ACC " \o ToString(tr))
Progress == PrintT("AT " \o ToString(tr) \o " " \o ToString(l))
=============================================================================
