--------------------------- MODULE Trace_WireFast ---------------------------
(***************************************************************************)
(* Trace validation for the fastgo codec (C10).  A trace is the token      *)
(* sequence lexed, without any schema, from the bytes FastAppend produced: *)
(*   [s, v, toks, blen |-> BLength(), nbytes |-> len(FastAppend(nil))]     *)
(* Accepted iff the tokens form a complete well-formed encoding that the   *)
(* reference reader decodes, without error and without leftovers, to the   *)
(* value (C10 speaks of the decoded value, so whether an optional field    *)
(* that equals its default is on the wire is left free here -- unlike      *)
(* C02), and the byte size accumulated token by token equals both          *)
(* BLength() and the number of bytes written.                              *)
(* Strings and binaries are indistinguishable on the wire: v is given with *)
(* string atoms already rewritten as binary atoms.                         *)
(***************************************************************************)
EXTENDS Wire

Traces == ndJsonDeserialize("traces.ndjson")

VARIABLES tr, l, stk, nb
tvars == <<tr, l, stk, nb>>
T == Traces[tr]
STy(s) == [n |-> "struct", s |-> s]

TInit == tr \in 1..Len(Traces) /\ l = 1 /\ stk = <<>> /\ nb = 0

Emit(kind) == /\ l <= Len(T.toks) /\ T.toks[l].t = kind
              /\ stk' = ParseStep(stk, T.toks[l]) /\ stk' # BAD
              /\ nb' = nb + TokSize(T.toks[l])
              /\ l' = l + 1 /\ tr' = tr

TNext == \E kind \in {"SB", "SE", "FB", "FE", "STOP", "LB", "LE", "XB", "XE", "MB", "ME", "V"} : Emit(kind)
TSpec == TInit /\ [][TNext]_tvars

AtEnd == l = Len(T.toks) + 1
Good == /\ IsDone(stk)
        /\ LET r == DecStruct(T.s, T.toks) IN ~r.err /\ r.p = Len(T.toks) + 1 /\ Abs(STy(T.s), r.v) = Abs(STy(T.s), Norm(STy(T.s), T.v, FALSE))
        /\ nb = T.nbytes /\ nb = T.blen
Accepted == (AtEnd /\ Good) => PrintT("ACC " \o ToString(tr))
Progress == PrintT("AT " \o ToString(tr) \o " " \o ToString(l) \o " " \o ToString(nb))
=============================================================================
