------------------------------- MODULE MaskWire -------------------------------
(***************************************************************************)
(* C13: field-mask filtered serialization.  A mask is a set of simple      *)
(* paths plus a mode; a path is a sequence of steps                        *)
(*   [k |-> "f", n |-> field id] [k |-> "i", n |-> list/set index or       *)
(*   integer key] [k |-> "s", s |-> string key] [k |-> "*"]                *)
(* Sel(M, pos): is the position (a sequence of concrete steps from the     *)
(* root) selected?                                                         *)
(*   white: some path of M passes through pos (goes on below it) or is     *)
(*          complete at or above it (a complete path selects everything    *)
(*          below);                                                        *)
(*   black: no complete path is at or above pos;                           *)
(*   none (no mask) or an empty path set: everything.                      *)
(* A required field that is not selected is written all the same; the      *)
(* statement says "current value" and leaves open whether the sub-mask     *)
(* still prunes what is below it: RQ = "full" writes the whole value,      *)
(* RQ = "min" writes it with nothing below selected (only required fields  *)
(* survive, recursively).  Both are behaviours of this spec.               *)
(* The masked writer is the C02 writer with the presence rule strengthened *)
(* (optional/default field: present /\ selected; required field: always,   *)
(* with its current value -- or its zero value under                       *)
(* field_mask_zero_required -- when it is not selected), container headers *)
(* counting exactly the selected elements, sub-masks applied recursively.  *)
(* Elements of a map whose key is neither integer nor string can only be   *)
(* addressed by '*'.                                                       *)
(***************************************************************************)
EXTENDS WireGen, FiniteSetsExt, SequencesExt

CONSTANT MaxPaths   \* size bound of the general path sets

Alphabet == Schema.alphabet        \* << [p |-> path, s |-> its thrift-path string] >>
Groups == Schema.groups            \* << sequences of alphabet indexes whose subsets are all enumerated (index sets) >>
RootS == Schema.root               \* index of the root struct

StepMatches(ps, cs) == ps.k = "*" \/ ps = cs
PrefixMatch(p, pos, n) == \A i \in 1..n : StepMatches(p[i], pos[i])
Covers(p, pos) == Len(p) <= Len(pos) /\ PrefixMatch(p, pos, Len(p))
Through(p, pos) == Len(p) > Len(pos) /\ PrefixMatch(p, pos, Len(pos))
Sel(M, pos) == CASE M.mode = "none" -> TRUE
                 [] M.mode = "nothing" -> FALSE
                 [] M.paths = {} -> TRUE        \* "an empty mask means PASS ALL" (fieldmask/README.md)
                 [] M.mode = "white" -> \E p \in M.paths : Covers(p, pos) \/ Through(p, pos)
                 [] M.mode = "black" -> ~\E p \in M.paths : Covers(p, pos)

FStep(id) == [k |-> "f", n |-> id]
IStep(i) == [k |-> "i", n |-> i]
SStep(s) == [k |-> "s", s |-> s]
OStep == [k |-> "o"]               \* element of a map with a key that is neither integer nor string

AtomInt(a) == CHOOSE n \in -1..64 : a \in {"i32:" \o ToString(n), "i64:" \o ToString(n), "i16:" \o ToString(n), "i8:" \o ToString(n)}
AtomStr(a) == CHOOSE s \in {Schema.strkeys[i] : i \in 1..Len(Schema.strkeys)} : a = "str:" \o s
KeyStep(kt, kv) == CASE kt.n \in {"i8", "i16", "i32", "i64"} -> IStep(AtomInt(kv.a))
                     [] kt.n = "string" -> SStep(AtomStr(kv.a))
                     [] OTHER -> OStep

RECURSIVE ZeroTree(_)
ZeroTree(t) == CASE IsScalar(t) -> [a |-> ZeroAtom(t), ty |-> TType(t)]
                 [] t.n = "list" -> [l |-> TType(t.v), items |-> <<>>]
                 [] t.n = "set" -> [x |-> TType(t.v), n |-> 0, items |-> {}]
                 [] t.n = "map" -> [m |-> <<TType(t.k), TType(t.v)>>, n |-> 0, items |-> {}]
                 [] t.n = "struct" -> [s |-> {}, n |-> 0]

\* ZeroReq: field_mask_zero_required
Nothing == [mode |-> "nothing", paths |-> {}]
RECURSIVE MTree(_, _, _, _, _, _)
MTree(t, v, M, pos, ZeroReq, RQ) ==
  CASE IsScalar(t) -> [a |-> v.a, ty |-> TType(t)]
    [] t.n = "list" ->
         LET xs == IF IsNil(v) THEN <<>> ELSE v.l
             keep == SelectSeq([i \in 1..Len(xs) |-> i], LAMBDA i : Sel(M, Append(pos, IStep(i - 1)))) IN
         [l |-> TType(t.v), items |-> [j \in 1..Len(keep) |-> MTree(t.v, xs[keep[j]], M, Append(pos, IStep(keep[j] - 1)), ZeroReq, RQ)]]
    [] t.n = "set" ->
         LET xs == IF IsNil(v) THEN <<>> ELSE v.l
             keep == {i \in 1..Len(xs) : Sel(M, Append(pos, IStep(i - 1)))} IN
         [x |-> TType(t.v), n |-> Cardinality(keep),
          items |-> {MTree(t.v, xs[i], M, Append(pos, IStep(i - 1)), ZeroReq, RQ) : i \in keep}]
    [] t.n = "map" ->
         LET xs == IF IsNil(v) THEN <<>> ELSE v.m
             st(i) == KeyStep(t.k, xs[i][1])
             keep == {i \in 1..Len(xs) : Sel(M, Append(pos, st(i)))} IN
         [m |-> <<TType(t.k), TType(t.v)>>, n |-> Cardinality(keep),
          items |-> {<<Tree(t.k, xs[i][1]), MTree(t.v, xs[i][2], M, Append(pos, st(i)), ZeroReq, RQ)>> : i \in keep}]
    [] t.n = "struct" ->
         IF IsNil(v) THEN [s |-> {}, n |-> 0]
         ELSE LET fs == Fields(t.s)
                  P == {i \in FieldIdx(t.s) : Present(fs[i], v.s[fs[i].name])
                                              /\ (fs[i].req = "required" \/ Sel(M, Append(pos, FStep(fs[i].id))))}
                  sub(i) == IF Sel(M, Append(pos, FStep(fs[i].id)))
                            THEN MTree(fs[i].type, v.s[fs[i].name], M, Append(pos, FStep(fs[i].id)), ZeroReq, RQ)
                            ELSE IF ZeroReq THEN ZeroTree(fs[i].type)
                            ELSE IF RQ = "full" THEN Tree(fs[i].type, v.s[fs[i].name])
                            ELSE MTree(fs[i].type, v.s[fs[i].name], Nothing, <<>>, ZeroReq, RQ) IN
              [s |-> {[id |-> fs[i].id, ty |-> TType(fs[i].type), val |-> sub(i)] : i \in P}, n |-> Cardinality(P)]

\* what a masked Read of the full encoding stores: the selected part; a required field that is not
\* selected may be stored or left at its initial value (the statement is silent): RReq says which.
RECURSIVE MRead(_, _, _, _, _)
MRead(t, v, M, pos, RReq) ==
  IF IsNil(v) THEN v
  ELSE CASE IsScalar(t) -> v
    [] t.n \in {"list", "set"} ->
         LET keep == SelectSeq([i \in 1..Len(v.l) |-> i], LAMBDA i : Sel(M, Append(pos, IStep(i - 1)))) IN
         [l |-> [j \in 1..Len(keep) |-> MRead(t.v, v.l[keep[j]], M, Append(pos, IStep(keep[j] - 1)), RReq)]]
    [] t.n = "map" ->
         LET keep == SelectSeq([i \in 1..Len(v.m) |-> i], LAMBDA i : Sel(M, Append(pos, KeyStep(t.k, v.m[i][1])))) IN
         [m |-> [j \in 1..Len(keep) |-> <<v.m[keep[j]][1],
                     MRead(t.v, v.m[keep[j]][2], M, Append(pos, KeyStep(t.k, v.m[keep[j]][1])), RReq)>>]]
    [] t.n = "struct" ->
         [s |-> [nm \in DOMAIN v.s |->
                   LET f == Fields(t.s)[CHOOSE i \in FieldIdx(t.s) : Fields(t.s)[i].name = nm] IN
                   IF ~Present(f, v.s[nm]) THEN Initial(f)
                   ELSE IF Sel(M, Append(pos, FStep(f.id)))
                        THEN MRead(f.type, Norm(f.type, v.s[nm], f.req = "optional"), M, Append(pos, FStep(f.id)), RReq)
                   ELSE IF f.req = "required" /\ RReq THEN Norm(f.type, v.s[nm], FALSE)
                   ELSE Initial(f)]]

-----------------------------------------------------------------------------
\* two paths conflict when they agree up to a position where exactly one of them has '*', or when one is a
\* proper prefix of the other (a longer path below a complete one): order-dependent cases that belong to C14
Conflict(p, q) ==
  \/ \E i \in 1..(IF Len(p) < Len(q) THEN Len(p) ELSE Len(q)) :
        /\ SubSeq(p, 1, i - 1) = SubSeq(q, 1, i - 1)
        /\ (p[i].k = "*") # (q[i].k = "*")
  \/ (Len(p) < Len(q) /\ SubSeq(q, 1, Len(p)) = p)
  \/ (Len(q) < Len(p) /\ SubSeq(p, 1, Len(q)) = q)
ConflictFree(S) == \A a \in S, b \in S : a # b => ~Conflict(Alphabet[a].p, Alphabet[b].p)

MaskSets == {S \in UNION {kSubset(k, 1..Len(Alphabet)) : k \in 0..MaxPaths} : ConflictFree(S)}
            \cup UNION {SUBSET {Groups[g][i] : i \in 1..Len(Groups[g])} : g \in 1..Len(Groups)}

Mask(S, mode) == [mode |-> mode, paths |-> {Alphabet[i].p : i \in S}]
NoMask == [mode |-> "none", paths |-> {}]

MaskVals == {Schema.values[i] : i \in 1..Len(Schema.values)}

\* a path ENDING in '*' in black-list mode: the statement says both that '*' "selects everything" and that black hides
\* what a complete path covers; the two readings disagree, so such masks are kept out of the universe. A '*' in the
\* middle of a path ($.ls[*].x) is unambiguous in both modes and stays in.
HasStar(S) == \E a \in S : Alphabet[a].p[Len(Alphabet[a].p)].k = "*"
MaskCases(S) == {[k |-> "mask", m |-> S, mode |-> mode, v |-> v] :
                   mode \in (IF HasStar(S) THEN {"white"} ELSE {"white", "black"}), v \in MaskVals}

MInit == c = [k |-> "root"]
MNext == \/ c.k = "root" /\ c' \in {[k |-> "mset", m |-> S] : S \in MaskSets}
         \/ c.k = "mset" /\ c' \in MaskCases(c.m)

CM == Mask(c.m, c.mode)
RT == STy(RootS)

\* design-level invariants
NoMaskIsPlain == (c.k = "mask") => MTree(RT, c.v, NoMask, <<>>, FALSE, "full") = StructTree(RootS, c.v)
WhiteHidesUntouched ==     \* (sanity of Sel) a non-empty white mask never selects a field no path touches
  (c.k = "mask" /\ c.mode = "white" /\ CM.paths # {}) =>
     \A i \in FieldIdx(RootS) : (\A p \in CM.paths : p[1] # FStep(Fields(RootS)[i].id)) => ~Sel(CM, <<FStep(Fields(RootS)[i].id)>>)
BlackWhiteComplement ==        \* for a complete single-step path the two modes are complementary on that field
  (c.k = "mask") => \A p \in CM.paths : Len(p) = 1 =>
        (Sel([mode |-> "white", paths |-> {p}], p) /\ ~Sel([mode |-> "black", paths |-> {p}], p))

MEmit ==
  IF c.k # "mask" THEN TRUE
  ELSE PrintT("CASE " \o ToJson([k |-> "mask", mode |-> c.mode, v |-> c.v,
           ms |-> SetToSeq(c.m), paths |-> [i \in 1..Cardinality(c.m) |-> Alphabet[SetToSeq(c.m)[i]].s],
           read0 |-> MRead(RT, c.v, CM, <<>>, FALSE), read1 |-> MRead(RT, c.v, CM, <<>>, TRUE),
           full |-> EncStruct(RootS, c.v)]))
=============================================================================
