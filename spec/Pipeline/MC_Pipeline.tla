---------------------------- MODULE MC_Pipeline ----------------------------
(***************************************************************************)
(* Case generation and design-level checks for C04.                        *)
(*                                                                         *)
(*   root -> base -> rule -> chosen(edit) -> edit(judged) -> run(config)   *)
(*   root -> base -> rule -> chosen(edit)          Tier "slot2": edits only *)
(*                                                                         *)
(* (an edited program passes through phase "edit" before its configurations fan out)  *)
(* A case = base program x one edit of the catalogue (EditsFor) x backend  *)
(* x -r, or base program x command-line fault, or the unedited base.       *)
(* For every case TLC                                                      *)
(*   - applies the edit to the program model and evaluates the catalogue:  *)
(*     the edit must break the rule it stands for (EditBreaks) and the     *)
(*     base must break none (BaseValid);                                   *)
(*   - runs the transcribed pipeline (PipelineImpl) stage by stage and     *)
(*     records whether every step is a step of the abstract Pipeline       *)
(*     (conf); a case where it is not is a candidate defect, exported as   *)
(*     such - it becomes a verdict only if the real binary misbehaves;     *)
(*   - exports the case (Emit) with the abstract expectation and the       *)
(*     mechanism the model predicts.                                       *)
(* bases.json: <<[name, prog]>> written by checks/c04.py.                  *)
(***************************************************************************)
EXTENDS PipelineImpl, Edits, Json

CONSTANTS Tier          \* "quick" | "thorough" | "slot2"
Bases == JsonDeserialize("bases.json")
Deep == Tier = "thorough"

VARIABLES phase, bi, rule, cs, cmd, brk, broken, expected, conf, pre
vars == <<stage, outcome, filesWritten, li, mech, phase, bi, rule, cs, cmd, brk, broken, expected, conf, pre>>

NoCase == [kind |-> "none"]
\* the program of the case in work: the state carries the edits, not the edited program
CaseProg == IF cs.kind \in {"idl", "pair"} THEN ApplyEdits(Bases[bi].prog, cs.edits) ELSE Bases[bi].prog
Idle == /\ stage = "idle" /\ outcome = NoOutcome /\ filesWritten = {} /\ li = 0 /\ mech = ""
IdleUnchanged == UNCHANGED <<stage, outcome, filesWritten, li, mech>>

Init == /\ phase = "root" /\ bi = 0 /\ rule = "" /\ cs = NoCase /\ cmd = <<>>
        /\ brk = {} /\ broken = FALSE /\ expected = {} /\ conf = TRUE /\ pre = NoPre /\ Idle

PickBase == /\ phase = "root"
            /\ \E b \in Idx(Bases) : bi' = b
            /\ phase' = "base"
            /\ UNCHANGED <<rule, cs, cmd, brk, broken, expected, conf, pre>> /\ IdleUnchanged

Groups == IDLRules \cup {"cmd", "none"}
PickRule == /\ phase = "base"
            /\ \E r \in Groups : rule' = r
            /\ phase' = "rule"
            /\ UNCHANGED <<bi, cs, cmd, brk, broken, expected, conf, pre>> /\ IdleUnchanged

\* which rules of the case hold, and whether the input is broken: the rules the case stands for are
\* evaluated first, the whole catalogue only if none of them holds
Judge(p, c, case) ==
  LET declared == CASE case.kind = "idl" -> {case.edits[k].rule : k \in Idx(case.edits)}
                    [] case.kind = "cmd" -> {case.rule}
                    [] OTHER -> {}
      holding == {r \in declared : Holds(r, p, c)}
  IN /\ brk' = holding
     /\ broken' = IF holding # {} THEN TRUE ELSE Broken(p, c)

\* an edit has been chosen (cheap: many successors); judging the edited program is one separate step
Chosen(case) ==
  /\ cs' = case /\ phase' = "chosen"
  /\ UNCHANGED <<bi, rule, cmd, brk, broken, expected, conf, pre>> /\ IdleUnchanged
\* the edited program is judged once, before its configurations fan out (its command line will be a good one)
Prepare ==
  /\ phase = "chosen" /\ Tier # "slot2"
  /\ phase' = "edit"
  /\ Judge(CaseProg, GoodCmd("go", FALSE), cs)
  /\ pre' = PreLabels(CaseProg)
  /\ UNCHANGED <<bi, rule, cs, cmd, expected, conf>> /\ IdleUnchanged

\* enter the pipeline with program p and command line c
Enter(p, c) ==
  /\ cmd' = c
  /\ expected' = ExpectedFiles(p, c)
  /\ conf' = TRUE
  /\ phase' = "run"
  /\ stage' = "args" /\ outcome' = NoOutcome /\ filesWritten' = {} /\ li' = 1 /\ mech' = ""
  /\ UNCHANGED <<bi, rule>>
Start(p, c, case) ==
  /\ cs' = case
  /\ IF phase = "edit" THEN UNCHANGED <<brk, broken, pre>> ELSE Judge(p, c, case) /\ pre' = NoPre
  /\ Enter(p, c)

\* backend x -r. The quick tier runs the rules whose values only the backend types under all four
\* configurations and the others under two (go without -r, fastgo with -r); thorough runs all four.
AllConfigs == {<<b, r>> : b \in Backends, r \in BOOLEAN}
ConfigRules == {"constKind", "undefinedConst", "ambiguousConst"}
Configs(r) == IF Tier = "quick" /\ r \notin ConfigRules THEN {<<"go", FALSE>>, <<"fastgo", TRUE>>} ELSE AllConfigs

IdlCase(es) == [kind |-> "idl", rule |-> es[Len(es)].rule, edits |-> es]

\* the edit is applied and judged once (phase "edit"), then the configurations fan out
PickEdit ==
  /\ phase = "rule" /\ rule \in IDLRules /\ Tier # "slot2"
  /\ LET base == Bases[bi].prog
         es == EditsFor(base, rule, 1, Deep)
     IN \E k \in Idx(es) : Chosen(IdlCase(<<es[k]>>))
PickConfig ==
  /\ phase = "edit"
  /\ \E c \in Configs(rule) : Start(CaseProg, GoodCmd(c[1], c[2]), cs)

PickCmdFault ==
  /\ phase = "rule" /\ rule = "cmd" /\ Tier # "slot2"
  /\ \E b \in Backends : \E r \in BOOLEAN :
       LET fs == CmdFaults(b, r, Deep) IN
       \E k \in Idx(fs) : Start(Bases[bi].prog, fs[k][3], [kind |-> "cmd", rule |-> fs[k][1], variant |-> fs[k][2]])

PickNone ==
  /\ phase = "rule" /\ rule = "none" /\ Tier # "slot2"
  /\ \E b \in Backends : \E r \in BOOLEAN : Start(Bases[bi].prog, GoodCmd(b, r), [kind |-> "base"])

\* Tier "slot2": only the edits, with the fresh names of slot 2, for the second edit of two-edit
\* combinations (composed by checks/c04.py from a slot-1 case and a slot-2 edit of the same base)
PickEdit2 ==
  /\ phase = "rule" /\ rule \in IDLRules /\ Tier = "slot2"
  /\ LET es == EditsFor(Bases[bi].prog, rule, 2, FALSE)
     IN \E k \in Idx(es) : Chosen(IdlCase(<<es[k]>>))

Run == /\ phase = "run"
       /\ BNextPre(CaseProg, cmd, pre)
       /\ conf' = (conf /\ ANext(broken, expected))
       /\ UNCHANGED <<phase, bi, rule, cs, cmd, brk, broken, expected, pre>>

\* broken, brk, expected and pre are functions of (bi, cs, cmd): they are left out of the fingerprint
View == <<stage, outcome, filesWritten, li, mech, phase, bi, rule, cs, cmd, conf>>

Next == PickBase \/ PickRule \/ PickEdit \/ Prepare \/ PickConfig \/ PickCmdFault \/ PickNone \/ PickEdit2 \/ Run
Spec == Init /\ [][Next]_vars

-----------------------------------------------------------------------------
(* design-level checks: a failure means the specification suite is inconsistent (exit 2) *)
BaseValid == (phase = "base" /\ Tier # "slot2") => ~IDLBroken(Bases[bi].prog)
\* every edit breaks the rule it stands for; every command-line fault is one
EditBreaks == (phase = "run" /\ cs.kind \in {"idl", "cmd"}) =>
                 /\ broken
                 /\ IF cs.kind = "cmd" THEN cs.rule \in brk
                    ELSE \A k \in Idx(cs.edits) : cs.edits[k].rule \in brk
BaseAccepted == (phase = "run" /\ cs.kind = "base" /\ stage = "done") => ~broken /\ mech = "ok" /\ conf
\* the abstract machine itself keeps the statement (checked on the transcribed runs that conform)
AKeepsStatement == (phase = "run" /\ conf) => AInvariant(broken, expected)
AllowedAgrees == (phase = "run" /\ stage = "done") =>
                   (conf <=> Allowed(broken, expected, [exit |-> outcome.exit, diag |-> outcome.diag,
                                                          crash |-> outcome.crash, files |-> filesWritten]))
DesignInvariants == BaseValid /\ EditBreaks /\ BaseAccepted /\ AKeepsStatement /\ AllowedAgrees

Emit2 == (phase = "chosen" /\ Tier = "slot2") => PrintT("EDIT " \o ToJson([base |-> Bases[bi].name, edit |-> cs.edits[1]]))
Emit == (phase = "run" /\ stage = "done") =>
          PrintT("CASE " \o ToJson([base |-> Bases[bi].name, case |-> cs, cmd |-> cmd,
                                    brokenRules |-> brk, broken |-> broken, expected |-> expected,
                                    b |-> [mech |-> mech, exit |-> outcome.exit, crash |-> outcome.crash,
                                           files |-> filesWritten, conforms |-> conf]]))
=============================================================================
