SPECIFICATION Spec
CONSTANTS
  Tier = "quick"
  ImplFixes = {"unionDefault", "getEnumCycle", "dupArgs", "argDefaults", "lateGen"}
VIEW View
INVARIANTS DesignInvariants Emit Emit2
CHECK_DEADLOCK FALSE
