SPECIFICATION Spec
CONSTANTS
  Tier = "quick"
INVARIANTS DesignInvariants Emit
CHECK_DEADLOCK FALSE
