SPECIFICATION Spec
CONSTANTS
  Tier = "quick"
  ImplFixes = {}
VIEW View
INVARIANTS DesignInvariants Emit Emit2
CHECK_DEADLOCK FALSE
