SPECIFICATION Spec
CONSTANTS
  Tier = "quick"
  ImplFixes = {}
VIEW View
INVARIANTS DesignInvariants Emit
CHECK_DEADLOCK FALSE
