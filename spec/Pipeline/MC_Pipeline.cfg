SPECIFICATION Spec
CONSTANTS
  Tier = "quick"
VIEW View
INVARIANTS DesignInvariants Emit
CHECK_DEADLOCK FALSE
