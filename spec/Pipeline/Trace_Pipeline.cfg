SPECIFICATION TSpec
INVARIANTS TInvariants
CHECK_DEADLOCK FALSE
