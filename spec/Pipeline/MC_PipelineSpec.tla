--------------------------- MODULE MC_PipelineSpec ---------------------------
(***************************************************************************)
(* Layer A on its own: the abstract pipeline machine explored for every    *)
(* (broken, expected output) over a small file universe.  Checks that the  *)
(* machine keeps the statement (AInvariant), that the state predicate      *)
(* Allowed - used to judge the transcribed pipeline - says exactly what    *)
(* the machine can do at its end (soundness here; completeness by the      *)
(* reachability assertions below, which TLC must VIOLATE), and that every  *)
(* run ends (no deadlock before "done").                                   *)
(***************************************************************************)
EXTENDS Pipeline

VARIABLES broken, expected
svars == <<stage, outcome, filesWritten, broken, expected>>

FileUniverse == {<<1, "go">>, <<1, "k">>, <<2, "go">>}

SInit == broken \in BOOLEAN /\ expected \in SUBSET FileUniverse /\ AInit
SNext == ANext(broken, expected) /\ UNCHANGED <<broken, expected>>
SSpec == SInit /\ [][SNext]_svars

Obs == [exit |-> outcome.exit, diag |-> outcome.diag, crash |-> outcome.crash, files |-> filesWritten]
SInvariant == /\ AInvariant(broken, expected)
              /\ ADone => Allowed(broken, expected, Obs)
              /\ stage \in Stages
              /\ filesWritten \subseteq expected
\* only "done" has no successor
OnlyDoneStops == (stage # "done") => ENABLED SNext

\* reachability (each must be reported as violated): an accepted run, a diagnosed broken input, a refused valid input,
\* a refusal after part of the output was written
NoAccept   == ~(ADone /\ ~broken /\ outcome.exit = "zero" /\ filesWritten = expected /\ expected # {})
NoDiagnose == ~(ADone /\ broken /\ outcome.exit = "nonzero")
NoRefuse   == ~(ADone /\ ~broken /\ outcome.exit = "nonzero" /\ ~outcome.diag)
NoPartial  == ~(ADone /\ ~broken /\ outcome.exit = "nonzero" /\ filesWritten # {} /\ filesWritten # expected)
=============================================================================
