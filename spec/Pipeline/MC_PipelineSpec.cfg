SPECIFICATION SSpec
INVARIANTS SInvariant OnlyDoneStops
CHECK_DEADLOCK FALSE
