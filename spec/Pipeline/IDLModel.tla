------------------------------ MODULE IDLModel ------------------------------
(***************************************************************************)
(* The program model the C04 specifications speak about: an index based    *)
(* image of the program JSON of lib/idl.py (lib/c04_model.py: to_model).   *)
(*                                                                         *)
(*   P      = [files |-> <<F1, F2, ...>>]            F1 is the main file   *)
(*   F      = [path, prefix, syntax \in {"ok","bad"},                       *)
(*             incs     |-> <<[path, prefix, target]>>   target 0 = no     *)
(*                                                       such file         *)
(*             tds      |-> <<[name, type]>>                               *)
(*             consts   |-> <<[name, type, value]>>                        *)
(*             enums    |-> <<[name, values |-> <<[name, has, v, oor]>>]>> *)
(*             structs  |-> <<[cat, name, fields]>>  cat struct/union/exc. *)
(*             services |-> <<[name, hasExt, ext, funcs]>>]                *)
(*   func   = [name, oneway, void, ret, args, throws]                      *)
(*   field  = [id, name, req, type, hasDef, def]                           *)
(*   type   = [n |-> base] | [n |-> "list"/"set", v] | [n |-> "map", k, v] *)
(*          | [n |-> "ref", q, name]     q = "" for a local name           *)
(*   value  = [t |-> "int"/"dbl"] | [t |-> "str", s] | [t |-> "id", parts] *)
(*          | [t |-> "list", l] | [t |-> "map", m |-> <<<<k, v>>>>]        *)
(*          | [t |-> "none"]                                               *)
(* An enum value is explicit (has) with v inside int32, or explicit and    *)
(* outside int32 (oor = "hi"/"lo"; TLC integers ARE int32), or implicit.   *)
(***************************************************************************)
EXTENDS Integers, Sequences, FiniteSets, TLC

Idx(s) == 1..Len(s)
Rng(s) == {s[i] : i \in Idx(s)}

BaseTypes   == {"bool", "byte", "i8", "i16", "i32", "i64", "double", "string", "binary"}
IntCats     == {"byte", "i8", "i16", "i32", "i64"}
StructCats  == {"struct", "union", "exception"}
TypeKinds   == {"typedef", "enum"} \cup StructCats
MaxInt32    == 2147483647

NF(P)      == Len(P.files)
FileOf(P, f) == P.files[f]

-----------------------------------------------------------------------------
(* include graph *)
Targets(P, f) == {FileOf(P, f).incs[i].target : i \in Idx(FileOf(P, f).incs)} \ {0}

RECURSIVE ReachFrom(_, _, _)
ReachFrom(P, front, seen) ==
  IF front = {} THEN seen
  ELSE LET nxt == (UNION {Targets(P, f) : f \in front}) \ seen
       IN ReachFrom(P, nxt, seen \cup nxt)

\* the IDL set: the main file and everything it includes transitively
Reach(P) == ReachFrom(P, {1}, {1})
\* files reachable from f in one or more include steps
ReachPlus(P, f) == ReachFrom(P, Targets(P, f), Targets(P, f))
\* length of the shortest include path from f to g (0 if f = g), -1 if none
RECURSIVE DistFrom(_, _, _, _, _)
DistFrom(P, front, seen, g, d) ==
  IF g \in front THEN d
  ELSE IF front = {} THEN -1
  ELSE LET nxt == (UNION {Targets(P, f) : f \in front}) \ seen
       IN DistFrom(P, nxt, seen \cup nxt, g, d + 1)
Dist(P, f, g) == DistFrom(P, {f}, {f}, g, 0)

IncsWithPrefix(P, f, q) ==
  {i \in Idx(FileOf(P, f).incs) : FileOf(P, f).incs[i].prefix = q /\ FileOf(P, f).incs[i].target # 0}
HomesOf(P, f, q) ==
  IF q = "" THEN {f} ELSE {FileOf(P, f).incs[i].target : i \in IncsWithPrefix(P, f, q)}

-----------------------------------------------------------------------------
(* global names of one file *)
GlobalSeq(F) ==
  [i \in Idx(F.tds) |-> [name |-> F.tds[i].name, kind |-> "typedef", i |-> i]] \o
  [i \in Idx(F.consts) |-> [name |-> F.consts[i].name, kind |-> "const", i |-> i]] \o
  [i \in Idx(F.enums) |-> [name |-> F.enums[i].name, kind |-> "enum", i |-> i]] \o
  [i \in Idx(F.structs) |-> [name |-> F.structs[i].name, kind |-> F.structs[i].cat, i |-> i]] \o
  [i \in Idx(F.services) |-> [name |-> F.services[i].name, kind |-> "service", i |-> i]]

Globals(F) == Rng(GlobalSeq(F))
Named(F, n) == {g \in Globals(F) : g.name = n}
KindsOf(F, n) == {g.kind : g \in Named(F, n)}

\* direct look-ups (the hot path of every rule and of the transcribed pipeline)
HasIn(seq, n)   == \E i \in Idx(seq) : seq[i].name = n
FirstIn(seq, n) == CHOOSE i \in Idx(seq) : seq[i].name = n /\ \A j \in 1..(i - 1) : seq[j].name # n
HasTypeName(F, n) == HasIn(F.tds, n) \/ HasIn(F.enums, n) \/ HasIn(F.structs, n)
HasAnyName(F, n)  == HasTypeName(F, n) \/ HasIn(F.consts, n) \/ HasIn(F.services, n)

\* what a (possibly include-qualified) name written in file f denotes
DenotesAny(P, f, r)   == \E h \in HomesOf(P, f, r.q) : HasAnyName(FileOf(P, h), r.name)
IsTypeRef(P, f, r)    == \E h \in HomesOf(P, f, r.q) : HasTypeName(FileOf(P, h), r.name)
IsServiceRef(P, f, r) == \E h \in HomesOf(P, f, r.q) : HasIn(FileOf(P, h).services, r.name)
IsConstRef(P, f, r)   == \E h \in HomesOf(P, f, r.q) : HasIn(FileOf(P, h).consts, r.name)

-----------------------------------------------------------------------------
(* types *)
RECURSIVE Leaves(_)
Leaves(t) == CASE t.n = "ref" -> {[q |-> t.q, name |-> t.name]}
               [] t.n \in {"list", "set"} -> Leaves(t.v)
               [] t.n = "map" -> Leaves(t.k) \cup Leaves(t.v)
               [] OTHER -> {}

FieldSeqLeaves(fs) == UNION {Leaves(fs[i].type) : i \in Idx(fs)}
FuncLeaves(fn) == (IF fn.void THEN {} ELSE Leaves(fn.ret)) \cup FieldSeqLeaves(fn.args) \cup FieldSeqLeaves(fn.throws)

\* every reference to a type written in file F
TypeRefs(F) ==
  UNION {Leaves(F.tds[i].type) : i \in Idx(F.tds)} \cup
  UNION {Leaves(F.consts[i].type) : i \in Idx(F.consts)} \cup
  UNION {FieldSeqLeaves(F.structs[i].fields) : i \in Idx(F.structs)} \cup
  UNION {UNION {FuncLeaves(F.services[i].funcs[j]) : j \in Idx(F.services[i].funcs)} : i \in Idx(F.services)}

NTypedefs(P) == LET RECURSIVE Sum(_)
                    Sum(k) == IF k = 0 THEN 0 ELSE Len(FileOf(P, k).tds) + Sum(k - 1)
                IN Sum(NF(P))

\* Category of a type written in file f after following typedefs: [cat, h, i] where (h, i) locates the
\* enum / struct-like; cat = "cycle" when the typedef chain never ends, "undef" when a name on the
\* chain denotes no type.
RECURSIVE CatF(_, _, _, _)
CatF(P, f, t, fuel) ==
  IF t.n # "ref" THEN [cat |-> t.n, h |-> f, i |-> 0]
  ELSE LET hs == {h \in HomesOf(P, f, t.q) : HasTypeName(FileOf(P, h), t.name)}
       IN IF hs = {} THEN [cat |-> "undef", h |-> f, i |-> 0]
          ELSE LET h == CHOOSE x \in hs : \A y \in hs : x <= y
                   H == FileOf(P, h)
               IN IF HasIn(H.tds, t.name)
                  THEN IF fuel = 0 THEN [cat |-> "cycle", h |-> f, i |-> 0]
                       ELSE CatF(P, h, H.tds[FirstIn(H.tds, t.name)].type, fuel - 1)
                  ELSE IF HasIn(H.enums, t.name) THEN [cat |-> "enum", h |-> h, i |-> FirstIn(H.enums, t.name)]
                  ELSE [cat |-> H.structs[FirstIn(H.structs, t.name)].cat, h |-> h, i |-> FirstIn(H.structs, t.name)]
Cat(P, f, t) == CatF(P, f, t, NTypedefs(P) + 1)

-----------------------------------------------------------------------------
(* enum values: explicit or the predecessor's successor (0 for the first) *)
RECURSIVE EnumVal(_, _)
EnumVal(e, i) ==
  LET x == e.values[i] IN
  IF x.has THEN [v |-> x.v, oor |-> x.oor]
  ELSE IF i = 1 THEN [v |-> 0, oor |-> ""]
  ELSE LET p == EnumVal(e, i - 1)
       IN IF p.oor # "" THEN p
          ELSE IF p.v = MaxInt32 THEN [v |-> 0, oor |-> "hi"]
          ELSE [v |-> p.v + 1, oor |-> ""]

-----------------------------------------------------------------------------
(* constant values *)
IsBoolWord(v) == v.t = "id" /\ v.parts \in {<<"true">>, <<"false">>}

RECURSIVE Ids(_)
Ids(v) == CASE v.t = "id" -> IF IsBoolWord(v) THEN {} ELSE {v.parts}
            [] v.t = "list" -> UNION {Ids(v.l[i]) : i \in Idx(v.l)}
            [] v.t = "map" -> UNION {Ids(v.m[i][1]) \cup Ids(v.m[i][2]) : i \in Idx(v.m)}
            [] OTHER -> {}

FieldSeqIds(fs) == UNION {IF fs[i].hasDef THEN Ids(fs[i].def) ELSE {} : i \in Idx(fs)}

\* every constant identifier written in file F (constants, defaults of fields, arguments, throws)
ValueIds(F) ==
  UNION {Ids(F.consts[i].value) : i \in Idx(F.consts)} \cup
  UNION {FieldSeqIds(F.structs[i].fields) : i \in Idx(F.structs)} \cup
  UNION {UNION {FieldSeqIds(F.services[i].funcs[j].args) \cup FieldSeqIds(F.services[i].funcs[j].throws)
                : j \in Idx(F.services[i].funcs)} : i \in Idx(F.services)}

\* every (declared type, value) pair written in file F
FieldSeqTyped(fs) == {<<fs[i].type, fs[i].def>> : i \in {j \in Idx(fs) : fs[j].hasDef}}
TypedValues(F) ==
  {<<F.consts[i].type, F.consts[i].value>> : i \in Idx(F.consts)} \cup
  UNION {FieldSeqTyped(F.structs[i].fields) : i \in Idx(F.structs)} \cup
  UNION {UNION {FieldSeqTyped(F.services[i].funcs[j].args) \cup FieldSeqTyped(F.services[i].funcs[j].throws)
                : j \in Idx(F.services[i].funcs)} : i \in Idx(F.services)}

\* the enum that `name` written in file f stands for when used as the qualifier of an enum value
\* (an enum, or a typedef chain that ends in one): a set of <<h, i>>, empty if none
EnumOf(P, f, name) ==
  LET c == Cat(P, f, [n |-> "ref", q |-> "", name |-> name])
  IN IF c.cat = "enum" THEN {<<c.h, c.i>>} ELSE {}
EnumHasValue(P, hi, vn) ==
  \E k \in Idx(FileOf(P, hi[1]).enums[hi[2]].values) : FileOf(P, hi[1]).enums[hi[2]].values[k].name = vn

\* Number of things a constant identifier written in file f can stand for:
\*   C          a constant of this file
\*   E.V        a value of an enum of this file        inc.C    a constant of a directly included file
\*   inc.E.V    a value of an enum of a directly included file
Interpretations(P, f, parts) ==
  LET F == FileOf(P, f) IN
  CASE Len(parts) = 1 ->
         IF HasIn(F.consts, parts[1]) THEN 1 ELSE 0
    [] Len(parts) = 2 ->
         (IF \E hi \in EnumOf(P, f, parts[1]) : EnumHasValue(P, hi, parts[2]) THEN 1 ELSE 0)
         + Cardinality({i \in IncsWithPrefix(P, f, parts[1]) : HasIn(FileOf(P, F.incs[i].target).consts, parts[2])})
    [] Len(parts) = 3 ->
         Cardinality({i \in IncsWithPrefix(P, f, parts[1]) :
                        \E hi \in EnumOf(P, F.incs[i].target, parts[2]) : EnumHasValue(P, hi, parts[3])})
    [] OTHER -> 0
=============================================================================
