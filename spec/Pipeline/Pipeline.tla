------------------------------ MODULE Pipeline ------------------------------
(***************************************************************************)
(* Layer A of property C04: the thriftgo compile pipeline as a stage       *)
(* machine whose behaviours are exactly what the statement allows.         *)
(*                                                                         *)
(*   args -> parse(+includes) -> circle -> check -> resolve -> targets     *)
(*        -> backend -> feed -> persist -> done                            *)
(*                                                                         *)
(* The case (program P, command line C) enters through two values:         *)
(*   broken    Broken(P, C), the disjunction of the rule catalogue          *)
(*   expected  the complete output: {<<file index, "go"|"k">>}              *)
(* State: stage, outcome = [exit, diag, crash], filesWritten.              *)
(*                                                                         *)
(*   Broken  => outcome = [exit # 0, diagnostic, no crash], no file         *)
(*   ~Broken => either accepted: [exit 0, no crash] and the complete        *)
(*              output, or rejected: exit # 0, no crash (a program the      *)
(*              catalogue does not call broken may still be refused; the    *)
(*              statement is silent about it)                              *)
(*   never exit 0 without the complete output, never a Go panic/fatal      *)
(*   error trace, never a hang - because no action produces them.          *)
(* WHICH stage reports is free: Report is enabled at every stage.          *)
(***************************************************************************)
EXTENDS Catalogue

VARIABLES stage, outcome, filesWritten
avars == <<stage, outcome, filesWritten>>

StageSeq == <<"args", "parse", "circle", "check", "resolve", "targets", "backend", "feed", "persist", "done">>
Stages == Rng(StageSeq)
StageNo(s) == CHOOSE i \in Idx(StageSeq) : StageSeq[i] = s
NextStage(s) == StageSeq[StageNo(s) + 1]

NoOutcome == [exit |-> "none", diag |-> FALSE, crash |-> FALSE]
Outcome(e, d) == [exit |-> e, diag |-> d, crash |-> FALSE]

\* the complete output of an accepted run
GeneratedFiles(P, C) == IF C.recursive THEN Reach(P) ELSE {1}
ExpectedFiles(P, C) ==
  UNION {{<<f, "go">>} \cup (IF C.langs[i].name = "fastgo" THEN {<<f, "k">>} ELSE {})
         : f \in GeneratedFiles(P, C), i \in Idx(C.langs)}

AInit == stage = "args" /\ outcome = NoOutcome /\ filesWritten = {}

\* the stage finds nothing (to report) and hands over; a broken input never reaches persist
AAdvance(broken) ==
  /\ stage \notin {"persist", "done"}
  /\ broken => NextStage(stage) # "persist"
  /\ stage' = NextStage(stage)
  /\ UNCHANGED <<outcome, filesWritten>>

\* some stage reports the error: non-zero exit, a diagnostic, nothing written
AReport ==
  /\ stage \notin {"persist", "done"}
  /\ stage' = "done"
  /\ outcome' = Outcome("nonzero", TRUE)
  /\ UNCHANGED filesWritten

\* an input outside the catalogue is refused (diagnostic not demanded; while persisting, part of
\* the output may already be there)
AReject(broken, expected) ==
  /\ ~broken
  /\ stage # "done"
  /\ stage' = "done"
  /\ \E d \in BOOLEAN : outcome' = Outcome("nonzero", d)
  /\ IF stage = "persist" THEN filesWritten' \in SUBSET expected ELSE UNCHANGED filesWritten

\* the complete output is written and only then the run ends with status 0
APersist(broken, expected) ==
  /\ ~broken
  /\ stage = "persist"
  /\ filesWritten' = expected
  /\ stage' = "done"
  /\ \E d \in BOOLEAN : outcome' = Outcome("zero", d)

ANext(broken, expected) == AAdvance(broken) \/ AReport \/ AReject(broken, expected) \/ APersist(broken, expected)

-----------------------------------------------------------------------------
(* what the statement says about the end of every run, as state predicates *)
ADone == stage = "done"
BrokenIsDiagnosed(broken) ==
  (ADone /\ broken) => outcome.exit = "nonzero" /\ outcome.diag /\ ~outcome.crash /\ filesWritten = {}
ZeroMeansComplete(expected) == (ADone /\ outcome.exit = "zero") => filesWritten = expected
NeverCrashes == ~outcome.crash
AInvariant(broken, expected) == BrokenIsDiagnosed(broken) /\ ZeroMeansComplete(expected) /\ NeverCrashes

\* the same, as a predicate on a finished run [exit, diag, crash, files] (used to judge the
\* transcribed pipeline and, through Trace_Pipeline, the observations of the real binary)
Allowed(broken, expected, o) ==
  /\ ~o.crash
  /\ o.exit \in {"zero", "nonzero"}
  /\ IF broken THEN o.exit = "nonzero" /\ o.diag /\ o.files = {}
     ELSE IF o.exit = "zero" THEN o.files = expected ELSE o.files \subseteq expected
=============================================================================
