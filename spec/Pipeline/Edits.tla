-------------------------------- MODULE Edits --------------------------------
(***************************************************************************)
(* The universe of property C04: for a valid base program, every           *)
(* rule-breaking edit of the catalogue at every applicable position, and   *)
(* the command-line faults.                                                *)
(*                                                                         *)
(* An edit is [rule, variant, f, where, len, ops]: `ops` is a sequence of  *)
(* primitive, append-only operations on the program (so positions of the   *)
(* base program stay valid when two edits are combined); f / where say     *)
(* where in the include graph / in which construct the error sits.         *)
(* lib/c04_model.py applies the same ops to the program JSON.              *)
(*   [op |-> "syntax",  f, a, b, x |-> [variant]]    text of file f made   *)
(*                                                   ungrammatical         *)
(*   "addInc"   x = [path, prefix, target]  include appended to file f     *)
(*   "addDef"   x = [kind, def]             definition appended to file f  *)
(*   "addField" a = struct-like index       field appended                 *)
(*   "addArg" / "addThrow"  a = service, b = function index                *)
(*   "addFunc"  a = service index           function appended              *)
(*   "addEnumVals" a = enum index           x = sequence of values         *)
(* Edits are kept in sequences (not sets): their payloads are records of   *)
(* different shapes.  `deep` = FALSE keeps one representative position per *)
(* construct kind and file, TRUE takes all of them.                        *)
(***************************************************************************)
EXTENDS Catalogue

RECURSIVE Flat(_)
Flat(ss) == IF ss = <<>> THEN <<>> ELSE Head(ss) \o Flat(Tail(ss))
Sel(s, T(_)) == SelectSeq(s, T)
\* index sequence 1..n, or just <<1>> (if any) when not deep
Pos(n, deep) == IF n = 0 THEN <<>> ELSE IF deep THEN [i \in 1..n |-> i] ELSE <<1>>
IdxSeq(s) == [i \in Idx(s) |-> i]

-----------------------------------------------------------------------------
(* constructors *)
TBase(n)      == [n |-> n]
TRef(q, name) == [n |-> "ref", q |-> q, name |-> name]
TList(t)      == [n |-> "list", v |-> t]
TSet(t)       == [n |-> "set", v |-> t]
TMap(k, v)    == [n |-> "map", k |-> k, v |-> v]
TVoid         == [n |-> "void"]
VInt          == [t |-> "int"]
VDbl          == [t |-> "dbl"]
VStr(s)       == [t |-> "str", s |-> s]
VId(parts)    == [t |-> "id", parts |-> parts]
VList(l)      == [t |-> "list", l |-> l]
VMap(m)       == [t |-> "map", m |-> m]
VNone         == [t |-> "none"]
Fld(id, name, type)       == [id |-> id, name |-> name, req |-> "default", type |-> type, hasDef |-> FALSE, def |-> VNone]
FldD(id, name, type, def) == [id |-> id, name |-> name, req |-> "default", type |-> type, hasDef |-> TRUE, def |-> def]
Func(name, oneway, void, ret, args, throws) ==
  [name |-> name, oneway |-> oneway, void |-> void, ret |-> ret, args |-> args, throws |-> throws]
EVal(name, has, v, oor) == [name |-> name, has |-> has, v |-> v, oor |-> oor]

DTypedef(name, type)       == [kind |-> "typedef", def |-> [name |-> name, type |-> type]]
DConst(name, type, value)  == [kind |-> "const", def |-> [name |-> name, type |-> type, value |-> value]]
DEnum(name, values)        == [kind |-> "enum", def |-> [name |-> name, values |-> values]]
DStruct(cat, name, fields) == [kind |-> "struct", def |-> [cat |-> cat, name |-> name, fields |-> fields]]
DService(name, hasExt, ext, funcs) ==
  [kind |-> "service", def |-> [name |-> name, hasExt |-> hasExt, ext |-> ext, funcs |-> funcs]]

Op(op, f, a, b, x)  == [op |-> op, f |-> f, a |-> a, b |-> b, x |-> x]
OpSyntax(f, v)      == Op("syntax", f, 0, 0, [variant |-> v])
OpAddInc(f, p, q, t) == Op("addInc", f, 0, 0, [path |-> p, prefix |-> q, target |-> t])
OpAddDef(f, d)      == Op("addDef", f, 0, 0, d)
OpAddField(f, s, x) == Op("addField", f, s, 0, x)
OpAddArg(f, v, k, x)   == Op("addArg", f, v, k, x)
OpAddThrow(f, v, k, x) == Op("addThrow", f, v, k, x)
OpAddFunc(f, v, x)  == Op("addFunc", f, v, 0, x)
OpAddEnumVals(f, e, xs) == Op("addEnumVals", f, e, 0, xs)

Edit(rule, variant, f, where, len, ops) ==
  [rule |-> rule, variant |-> variant, f |-> f, where |-> where, len |-> len, ops |-> ops]

-----------------------------------------------------------------------------
(* applying an edit *)
ApplyOp(P, o) ==
  CASE o.op = "syntax"   -> [P EXCEPT !.files[o.f].syntax = "bad"]
    [] o.op = "addInc"   -> [P EXCEPT !.files[o.f].incs = Append(@, o.x)]
    [] o.op = "addDef"   ->
        (CASE o.x.kind = "typedef" -> [P EXCEPT !.files[o.f].tds = Append(@, o.x.def)]
           [] o.x.kind = "const"   -> [P EXCEPT !.files[o.f].consts = Append(@, o.x.def)]
           [] o.x.kind = "enum"    -> [P EXCEPT !.files[o.f].enums = Append(@, o.x.def)]
           [] o.x.kind = "struct"  -> [P EXCEPT !.files[o.f].structs = Append(@, o.x.def)]
           [] o.x.kind = "service" -> [P EXCEPT !.files[o.f].services = Append(@, o.x.def)])
    [] o.op = "addField" -> [P EXCEPT !.files[o.f].structs[o.a].fields = Append(@, o.x)]
    [] o.op = "addArg"   -> [P EXCEPT !.files[o.f].services[o.a].funcs[o.b].args = Append(@, o.x)]
    [] o.op = "addThrow" -> [P EXCEPT !.files[o.f].services[o.a].funcs[o.b].throws = Append(@, o.x)]
    [] o.op = "addFunc"  -> [P EXCEPT !.files[o.f].services[o.a].funcs = Append(@, o.x)]
    [] o.op = "addEnumVals" -> [P EXCEPT !.files[o.f].enums[o.a].values = @ \o o.x]
RECURSIVE ApplyOps(_, _)
ApplyOps(P, ops) == IF ops = <<>> THEN P ELSE ApplyOps(ApplyOp(P, Head(ops)), Tail(ops))
ApplyEdit(P, e) == ApplyOps(P, e.ops)
RECURSIVE ApplyEdits(_, _)
ApplyEdits(P, es) == IF es = <<>> THEN P ELSE ApplyEdits(ApplyEdit(P, Head(es)), Tail(es))

-----------------------------------------------------------------------------
(* fresh names of edit slot s (1 or 2) *)
Sfx(s)   == ToString(s)
NewId(s) == 90 + s
N(base, s) == base \o Sfx(s)

Files(P) == [f \in 1..NF(P) |-> f]
Kinds7 == <<"typedef", "const", "enum", "struct", "union", "exception", "service">>
MinimalDef(k, name, s) ==
  CASE k = "typedef" -> DTypedef(name, TBase("i32"))
    [] k = "const"   -> DConst(name, TBase("i32"), VInt)
    [] k = "enum"    -> DEnum(name, <<EVal(N("ZV", s), TRUE, NewId(s), "")>>)
    [] k \in StructCats -> DStruct(k, name, <<>>)
    [] k = "service" -> DService(name, FALSE, TRef("", ""), <<>>)

\* struct-likes of F: all, or the first of each category
StructPos(F, deep) ==
  IF deep THEN IdxSeq(F.structs)
  ELSE Sel(IdxSeq(F.structs), LAMBDA i : \A j \in 1..(i - 1) : F.structs[j].cat # F.structs[i].cat)
\* <<service, function>> positions: all, or the first function that satisfies T of the first service that has one
FuncPos(F, T(_), deep) ==
  LET all == Flat([v \in Idx(F.services) |->
                     Sel([k \in Idx(F.services[v].funcs) |-> <<v, k>>], LAMBDA p : T(F.services[p[1]].funcs[p[2]]))])
  IN IF deep \/ all = <<>> THEN all ELSE <<all[1]>>
AnyFunc(fn) == TRUE

-----------------------------------------------------------------------------
(* the rules, one enumeration each *)
SyntaxVariants(deep) == IF deep THEN <<"dropClose", "stray", "unterminated", "badKeyword", "missingName", "doubleEqual">>
                        ELSE <<"dropClose", "stray", "unterminated">>
ESyntax(P, s, deep) ==
  Flat([f \in 1..NF(P) |-> [k \in Idx(SyntaxVariants(deep)) |->
          Edit("syntax", SyntaxVariants(deep)[k], f, "file", 0, <<OpSyntax(f, SyntaxVariants(deep)[k])>>)]])

EMissingInclude(P, s, deep) ==
  [f \in 1..NF(P) |-> Edit("missingInclude", "append", f, "file", 0,
                           <<OpAddInc(f, N("nosuch", s) \o ".thrift", N("nosuch", s), 0)>>)]

\* an include from f back to itself or to a file that reaches f: a cycle of length Dist(j, f) + 1
ECyclicInclude(P, s, deep) ==
  Flat([f \in 1..NF(P) |->
    Flat([j \in 1..NF(P) |->
      IF j = f \/ f \in ReachPlus(P, j)
      THEN <<Edit("cyclicInclude", IF j = 1 THEN "throughMain" ELSE "belowMain", f, "file", Dist(P, j, f) + 1,
                  <<OpAddInc(f, FileOf(P, j).path, FileOf(P, j).prefix, j)>>)>>
      ELSE <<>>])])

EDupGlobal(P, s, deep) ==
  Flat([f \in 1..NF(P) |->
    LET gs == GlobalSeq(FileOf(P, f))
        old == Sel(gs, LAMBDA g : deep \/ g.i = 1)
    IN Flat([a \in Idx(old) |->
         LET g == old[a]
             ks == IF deep /\ g.i = 1 THEN Kinds7 ELSE <<g.kind, IF g.kind = "enum" THEN "struct" ELSE "enum">>
         IN [k \in Idx(ks) |-> Edit("dupGlobal", g.kind \o "+" \o ks[k], f, "file", 0,
                                    <<OpAddDef(f, MinimalDef(ks[k], g.name, s))>>)]])])

\* a new field that repeats the name (fresh id) or the id (fresh name) of an existing one
DupFieldEdits(P, s, deep, rule) ==
  LET NewF(old) == IF rule = "dupFieldName" THEN Fld(NewId(s), old.name, old.type)
                   ELSE Fld(old.id, N("zf", s), old.type)
  IN Flat([f \in 1..NF(P) |->
       LET F == FileOf(P, f) IN
       Flat([a \in Idx(StructPos(F, deep)) |->
               LET si == StructPos(F, deep)[a]
                   fs == F.structs[si].fields
               IN [k \in Idx(Pos(Len(fs), deep)) |->
                     Edit(rule, "field", f, F.structs[si].cat, 0, <<OpAddField(f, si, NewF(fs[Pos(Len(fs), deep)[k]]))>>)]])
       \o Flat([a \in Idx(FuncPos(F, LAMBDA fn : Len(fn.args) > 0, deep)) |->
               LET p == FuncPos(F, LAMBDA fn : Len(fn.args) > 0, deep)[a]
                   fs == F.services[p[1]].funcs[p[2]].args
               IN [k \in Idx(Pos(Len(fs), deep)) |->
                     Edit(rule, "field", f, "args", 0, <<OpAddArg(f, p[1], p[2], NewF(fs[Pos(Len(fs), deep)[k]]))>>)]])
       \o Flat([a \in Idx(FuncPos(F, LAMBDA fn : Len(fn.throws) > 0, deep)) |->
               LET p == FuncPos(F, LAMBDA fn : Len(fn.throws) > 0, deep)[a]
                   fs == F.services[p[1]].funcs[p[2]].throws
               IN [k \in Idx(Pos(Len(fs), deep)) |->
                     Edit(rule, "field", f, "throws", 0, <<OpAddThrow(f, p[1], p[2], NewF(fs[Pos(Len(fs), deep)[k]]))>>)]])])
EDupFieldName(P, s, deep) == DupFieldEdits(P, s, deep, "dupFieldName")
EDupFieldId(P, s, deep)   == DupFieldEdits(P, s, deep, "dupFieldId")

EDupFunction(P, s, deep) ==
  Flat([f \in 1..NF(P) |->
    LET F == FileOf(P, f)
        vs == Sel(IdxSeq(F.services), LAMBDA v : Len(F.services[v].funcs) > 0)
    IN Flat([a \in Idx(Pos(Len(vs), deep)) |->
         LET v == vs[Pos(Len(vs), deep)[a]]
             fns == F.services[v].funcs
         IN [k \in Idx(Pos(Len(fns), deep)) |->
               Edit("dupFunction", "function", f, "service", 0,
                    <<OpAddFunc(f, v, Func(fns[Pos(Len(fns), deep)[k]].name, FALSE, TRUE, TVoid, <<>>, <<>>))>>)]])])

EnumEdits(P, s, deep, rule) ==
  Flat([f \in 1..NF(P) |->
    LET F == FileOf(P, f) IN
    Flat([a \in Idx(Pos(Len(F.enums), deep)) |->
      LET ei == Pos(Len(F.enums), deep)[a]
          e == F.enums[ei]
          E(variant, vals) == Edit(rule, variant, f, "enum", 0, <<OpAddEnumVals(f, ei, vals)>>)
      IN CASE rule = "dupEnumName" ->
                Flat([k \in Idx(Pos(Len(e.values), deep)) |->
                        <<E("explicit", <<EVal(e.values[Pos(Len(e.values), deep)[k]].name, TRUE, NewId(s), "")>>),
                          E("implicit", <<EVal(e.values[Pos(Len(e.values), deep)[k]].name, FALSE, 0, "")>>)>>])
           [] rule = "dupEnumNumber" ->
                [k \in Idx(Pos(Len(e.values), deep)) |->
                   E("explicit", <<EVal(N("ZV", s), TRUE, EnumVal(e, Pos(Len(e.values), deep)[k]).v, "")>>)]
           [] rule = "enumRange" ->
                <<E("above", <<EVal(N("ZV", s), TRUE, 0, "hi")>>),
                  E("below", <<EVal(N("ZV", s), TRUE, 0, "lo")>>),
                  E("implicitAboveMax", <<EVal(N("ZV", s), TRUE, MaxInt32, ""), EVal(N("ZW", s), FALSE, 0, "")>>)>>])])
EDupEnumName(P, s, deep)   == EnumEdits(P, s, deep, "dupEnumName")
EDupEnumNumber(P, s, deep) == EnumEdits(P, s, deep, "dupEnumNumber")
EEnumRange(P, s, deep)     == EnumEdits(P, s, deep, "enumRange")

\* files reachable from f in two or more include steps but not included by f itself, with a definition of a kind in K
Indirect(P, f, K) ==
  Sel(Files(P), LAMBDA h : h \in ReachPlus(P, f) /\ h \notin Targets(P, f) /\ h # f
                           /\ \E g \in Globals(FileOf(P, h)) : g.kind \in K
                           /\ IncsWithPrefix(P, f, FileOf(P, h).prefix) = {})
FirstOfKind(F, K) == LET gs == Sel(GlobalSeq(F), LAMBDA g : g.kind \in K) IN IF gs = <<>> THEN <<>> ELSE <<gs[1]>>
IncSeq(P, f) == Sel(IdxSeq(FileOf(P, f).incs), LAMBDA i : FileOf(P, f).incs[i].target # 0)

\* references that are not types, as <<variant, ref>>
BadTypeRefs(P, f, s, rule) ==
  LET F == FileOf(P, f) IN
  IF rule = "undefinedType" THEN
    <<<<"local", TRef("", N("Nope", s))>>, <<"unknownPrefix", TRef(N("nofile", s), "X")>>>>
    \o [a \in Idx(IncSeq(P, f)) |-> <<"member", TRef(F.incs[IncSeq(P, f)[a]].prefix, N("Nope", s))>>]
    \o [a \in Idx(Indirect(P, f, TypeKinds)) |->
          LET h == Indirect(P, f, TypeKinds)[a]
          IN <<"notDirectlyIncluded", TRef(FileOf(P, h).prefix, FirstOfKind(FileOf(P, h), TypeKinds)[1].name)>>]
  ELSE
    [a \in Idx(FirstOfKind(F, {"const"})) |-> <<"localConst", TRef("", FirstOfKind(F, {"const"})[a].name)>>]
    \o [a \in Idx(FirstOfKind(F, {"service"})) |-> <<"localService", TRef("", FirstOfKind(F, {"service"})[a].name)>>]
    \o Flat([a \in Idx(IncSeq(P, f)) |->
          LET inc == F.incs[IncSeq(P, f)[a]]
              T == FileOf(P, inc.target)
          IN [b \in Idx(FirstOfKind(T, {"const"})) |-> <<"memberConst", TRef(inc.prefix, FirstOfKind(T, {"const"})[b].name)>>]
             \o [b \in Idx(FirstOfKind(T, {"service"})) |-> <<"memberService", TRef(inc.prefix, FirstOfKind(T, {"service"})[b].name)>>]])

Wraps(t, all) == IF all THEN <<<<"plain", t>>, <<"listOf", TList(t)>>, <<"mapValue", TMap(TBase("string"), t)>>,
                               <<"mapKey", TMap(t, TBase("string"))>>, <<"setOf", TSet(t)>>>>
                 ELSE <<<<"plain", t>>>>
\* every place a type can be written in file f, as <<where, ops>> for the type t
TypePlaces(P, f, s, deep, t) ==
  LET F == FileOf(P, f) IN
  <<<<"typedef", <<OpAddDef(f, DTypedef(N("Zt", s), t))>>>>,
    <<"const", <<OpAddDef(f, DConst(N("Zk", s), t, VInt))>>>>>>
  \o [a \in Idx(StructPos(F, deep)) |->
        <<F.structs[StructPos(F, deep)[a]].cat, <<OpAddField(f, StructPos(F, deep)[a], Fld(NewId(s), N("zf", s), t))>>>>]
  \o Flat([a \in Idx(FuncPos(F, AnyFunc, deep)) |->
        LET p == FuncPos(F, AnyFunc, deep)[a] IN
        <<<<"args", <<OpAddArg(f, p[1], p[2], Fld(NewId(s), N("zf", s), t))>>>>,
          <<"throws", <<OpAddThrow(f, p[1], p[2], Fld(NewId(s), N("zf", s), t))>>>>,
          <<"return", <<OpAddFunc(f, p[1], Func(N("zfn", s), FALSE, FALSE, t, <<>>, <<>>))>>>>>>])
BadTypeEdits(P, s, deep, rule) ==
  Flat([f \in 1..NF(P) |->
    Flat([a \in Idx(BadTypeRefs(P, f, s, rule)) |->
      LET vr == BadTypeRefs(P, f, s, rule)[a]
          all == TypePlaces(P, f, s, deep, vr[2])
          \* not deep: every place for the first kind of reference, typedef and struct for the others
          bs == Sel(IdxSeq(all), LAMBDA b : deep \/ a = 1 \/ all[b][1] \in {"typedef", "struct"})
      IN Flat([c \in Idx(bs) |->
           LET b == bs[c]
               where == all[b][1]
               ws == Wraps(vr[2], (where = "struct" /\ (deep \/ a = 1)) \/ (deep /\ a = 1 /\ where \in {"typedef", "args", "return"}))
           IN [w \in Idx(ws) |->
                 Edit(rule, vr[1] \o "/" \o ws[w][1], f, where, 0, TypePlaces(P, f, s, deep, ws[w][2])[b][2])]])])])
EUndefinedType(P, s, deep) == BadTypeEdits(P, s, deep, "undefinedType")
ENonType(P, s, deep)       == BadTypeEdits(P, s, deep, "nonType")

\* Zc<s>a -> Zc<s>b -> ... -> Zc<s>a, and optionally something that dereferences it
CycleName(s, k) == N("Zc", s) \o <<"a", "b", "c">>[k]
CycleDefs(f, s, len) ==
  [k \in 1..len |-> OpAddDef(f, DTypedef(CycleName(s, k), TRef("", CycleName(s, IF k = len THEN 1 ELSE k + 1))))]
ETypedefChain(P, s, deep) ==
  Flat([f \in 1..NF(P) |->
    LET F == FileOf(P, f)
        parents == Sel(Files(P), LAMBDA g : f \in Targets(P, g))
        sp == IF deep \/ F.structs = <<>> THEN StructPos(F, deep) ELSE <<StructPos(F, deep)[1]>>
    IN Flat([len \in 1..3 |->
         LET E(variant, where, more) == Edit("typedefChain", variant, f, where, len, CycleDefs(f, s, len) \o more)
             deref == VId(<<CycleName(s, 1), "V">>)
         IN <<E("unused", "typedef", <<>>),
              E("constDerefs", "const", <<OpAddDef(f, DConst(N("Zk", s), TBase("i32"), deref))>>),
              E("constTyped", "const", <<OpAddDef(f, DConst(N("Zk", s), TRef("", CycleName(s, 1)), VInt))>>)>>
            \o [a \in Idx(sp) |->
                  E("defaultDerefs", F.structs[sp[a]].cat,
                    <<OpAddField(f, sp[a], FldD(NewId(s), N("zf", s), TBase("i32"), deref))>>)]
            \o [a \in Idx(sp) |->
                  E("fieldTyped", F.structs[sp[a]].cat,
                    <<OpAddField(f, sp[a], Fld(NewId(s), N("zf", s), TRef("", CycleName(s, 1))))>>)]
            \o [a \in Idx(parents) |->
                  E("includerDerefs", "const",
                    <<OpAddDef(parents[a], DConst(N("Zk", s), TBase("i32"), VId(<<F.prefix, CycleName(s, 1), "V">>)))>>)]])])

\* every place a (type, value) pair can be written in file f, as <<where, ops>>
ValuePlaces(P, f, s, deep, t, v) ==
  LET F == FileOf(P, f) IN
  <<<<"const", <<OpAddDef(f, DConst(N("Zk", s), t, v))>>>>>>
  \o [a \in Idx(StructPos(F, deep)) |->
        <<F.structs[StructPos(F, deep)[a]].cat, <<OpAddField(f, StructPos(F, deep)[a], FldD(NewId(s), N("zf", s), t, v))>>>>]
  \o [a \in Idx(FuncPos(F, AnyFunc, deep)) |->
        <<"args", <<OpAddArg(f, FuncPos(F, AnyFunc, deep)[a][1], FuncPos(F, AnyFunc, deep)[a][2], FldD(NewId(s), N("zf", s), t, v))>>>>]

\* identifiers that stand for nothing, as <<variant, type to declare, parts>>
UndefinedIds(P, f, s) ==
  LET F == FileOf(P, f)
      i32 == TBase("i32")
  IN <<<<"local", i32, <<N("Nope", s)>>>>, <<"unknownPrefix", i32, <<N("nofile", s), "X">>>>>>
     \o [a \in Idx(FirstOfKind(F, {"enum"})) |->
           <<"enumMember", TRef("", FirstOfKind(F, {"enum"})[a].name), <<FirstOfKind(F, {"enum"})[a].name, N("Nope", s)>>>>]
     \o Flat([a \in Idx(IncSeq(P, f)) |->
           LET inc == F.incs[IncSeq(P, f)[a]]
               T == FileOf(P, inc.target)
           IN <<<<"member", i32, <<inc.prefix, N("Nope", s)>>>>>>
              \o [b \in Idx(FirstOfKind(T, {"enum"})) |->
                    <<"memberEnumMember", TRef(inc.prefix, FirstOfKind(T, {"enum"})[b].name),
                      <<inc.prefix, FirstOfKind(T, {"enum"})[b].name, N("Nope", s)>>>>]])
     \o [a \in Idx(Indirect(P, f, {"const"})) |->
           LET h == Indirect(P, f, {"const"})[a]
           IN <<"notDirectlyIncluded", i32, <<FileOf(P, h).prefix, FirstOfKind(FileOf(P, h), {"const"})[1].name>>>>]
EUndefinedConst(P, s, deep) ==
  Flat([f \in 1..NF(P) |->
    Flat([a \in Idx(UndefinedIds(P, f, s)) |->
      LET u == UndefinedIds(P, f, s)[a]
          places == ValuePlaces(P, f, s, deep, u[2], VId(u[3]))
          sel == IF deep \/ u[1] = "local" THEN places ELSE <<places[1]>>
      IN [b \in Idx(sel) |-> Edit("undefinedConst", u[1], f, sel[b][1], 0, sel[b][2])]
         \o (IF deep \/ u[1] = "local"
             THEN <<Edit("undefinedConst", u[1] \o "/inList", f, "const", 0,
                         <<OpAddDef(f, DConst(N("Zk", s), TList(u[2]), VList(<<VId(u[3])>>)))>>),
                    Edit("undefinedConst", u[1] \o "/inMapValue", f, "const", 0,
                         <<OpAddDef(f, DConst(N("Zk", s), TMap(TBase("string"), u[2]), VMap(<<<<VStr("k"), VId(u[3])>>>>)))>>)>>
             ELSE <<>>)])])

\* an enum named like an include prefix with a value named like a constant of that include:
\* `prefix.Name` then stands for both
EAmbiguousConst(P, s, deep) ==
  Flat([f \in 1..NF(P) |->
    LET F == FileOf(P, f) IN
    Flat([a \in Idx(IncSeq(P, f)) |->
      LET inc == F.incs[IncSeq(P, f)[a]]
          cs == FirstOfKind(FileOf(P, inc.target), {"const"})
      IN IF cs = <<>> \/ HasAnyName(F, inc.prefix) THEN <<>>
         ELSE LET clash == OpAddDef(f, DEnum(inc.prefix, <<EVal(cs[1].name, TRUE, NewId(s), "")>>))
                  places == ValuePlaces(P, f, s, deep, TBase("i32"), VId(<<inc.prefix, cs[1].name>>))
              IN [b \in Idx(places) |-> Edit("ambiguousConst", "enumNamedLikeInclude", f, places[b][1], 0,
                                             <<clash>> \o places[b][2])]])])

\* (declared type, value) pairs the type cannot hold, as <<variant, type, value, core>>
KindPairs(P, f, s, deep) ==
  LET F == FileOf(P, f)
      S(x) == VStr(x)
      ints == IF deep THEN <<"i32", "i64", "i16", "i8", "byte">> ELSE <<"i32", "i64">>
      sts == IF deep THEN IdxSeq(F.structs) ELSE StructPos(F, FALSE)
      allTd == Sel(IdxSeq(F.tds), LAMBDA i : Cat(P, f, F.tds[i].type).cat = "i32")
      tdI32 == IF deep \/ allTd = <<>> THEN allTd ELSE <<allTd[1]>>
  IN [a \in Idx(ints) |-> <<"stringFor_" \o ints[a], TBase(ints[a]), S("s"), ints[a] = "i32">>]
     \o <<<<"doubleFor_i32", TBase("i32"), VDbl, FALSE>>, <<"listFor_i32", TBase("i32"), VList(<<VInt>>), FALSE>>,
          <<"intFor_string", TBase("string"), VInt, FALSE>>, <<"stringFor_bool", TBase("bool"), S("s"), FALSE>>>>
     \o (IF deep THEN <<<<"mapFor_i32", TBase("i32"), VMap(<<<<S("k"), VInt>>>>), FALSE>>,
                        <<"listFor_string", TBase("string"), VList(<<S("s")>>), FALSE>>,
                        <<"intFor_binary", TBase("binary"), VInt, FALSE>>,
                        <<"stringFor_double", TBase("double"), S("s"), FALSE>>>>
         ELSE <<>>)
     \o [a \in Idx(FirstOfKind(F, {"enum"})) |-> <<"stringFor_enum", TRef("", FirstOfKind(F, {"enum"})[a].name), S("s"), FALSE>>]
     \o [a \in Idx(tdI32) |-> <<"stringFor_typedefOf_i32", TRef("", F.tds[tdI32[a]].name), S("s"), FALSE>>]
     \o Flat([a \in Idx(sts) |->
           LET st == F.structs[sts[a]]
               t == TRef("", st.name)
               c == st.cat
           IN <<<<"intFor_" \o c, t, VInt, FALSE>>,
                <<"unknownFieldIn_" \o c, t, VMap(<<<<S(N("nope", s)), VInt>>>>), c = "struct">>>>
              \o (IF deep \/ c = "struct"
                  THEN <<<<"stringFor_" \o c, t, S("s"), FALSE>>, <<"listFor_" \o c, t, VList(<<VInt>>), FALSE>>,
                         <<"nonStringKeyIn_" \o c, t, VMap(<<<<VInt, VInt>>>>), c = "struct">>>>
                  ELSE <<>>)
              \o (IF Len(st.fields) > 0 /\ Cat(P, f, st.fields[1].type).cat \in IntCats
                  THEN <<<<"stringForFieldOf_" \o c, t, VMap(<<<<S(st.fields[1].name), S("s")>>>>), FALSE>>>>
                  ELSE <<>>)])
     \o Flat([a \in Idx(IncSeq(P, f)) |->
           LET inc == F.incs[IncSeq(P, f)[a]]
               ss == FirstOfKind(FileOf(P, inc.target), {"struct"})
           IN [b \in Idx(ss) |-> <<"unknownFieldIn_includedStruct", TRef(inc.prefix, ss[b].name),
                                   VMap(<<<<S(N("nope", s)), VInt>>>>), FALSE>>]])
EConstKind(P, s, deep) ==
  Flat([f \in 1..NF(P) |->
    Flat([a \in Idx(KindPairs(P, f, s, deep)) |->
      LET kp == KindPairs(P, f, s, deep)[a]
          places == ValuePlaces(P, f, s, deep, kp[2], kp[3])
          sel == IF kp[4] THEN places
                 ELSE IF deep THEN Sel(places, LAMBDA pl : pl[1] \in {"const", "struct", "args"})
                 ELSE <<places[1]>>
      IN [b \in Idx(sel) |-> Edit("constKind", kp[1], f, sel[b][1], 0, sel[b][2])]])])

EOneway(P, s, deep) ==
  Flat([f \in 1..NF(P) |->
    LET F == FileOf(P, f)
        xs == FirstOfKind(F, {"exception"})
    IN Flat([a \in Idx(Pos(Len(F.services), deep)) |->
         LET v == Pos(Len(F.services), deep)[a]
             E(variant, fn) == Edit("oneway", variant, f, "service", 0, <<OpAddFunc(f, v, fn)>>)
             thr == IF xs = <<>> THEN <<>> ELSE <<Fld(1, "e", TRef("", xs[1].name))>>
         IN <<E("returns", Func(N("zfn", s), TRUE, FALSE, TBase("i32"), <<>>, <<>>))>>
            \o (IF xs = <<>> THEN <<>>
                ELSE <<E("throws", Func(N("zfn", s), TRUE, TRUE, TVoid, <<>>, thr)),
                       E("returnsAndThrows", Func(N("zfn", s), TRUE, FALSE, TBase("i32"), <<>>, thr))>>)])])

EUnknownBase(P, s, deep) ==
  Flat([f \in 1..NF(P) |->
    LET F == FileOf(P, f)
        E(variant, ref) == Edit("unknownBase", variant, f, "service", 0, <<OpAddDef(f, DService(N("Zs", s), TRUE, ref, <<>>))>>)
    IN <<E("local", TRef("", N("Nope", s))), E("unknownPrefix", TRef(N("nofile", s), "X"))>>
       \o [a \in Idx(FirstOfKind(F, StructCats)) |-> E("localNonService", TRef("", FirstOfKind(F, StructCats)[a].name))]
       \o Flat([a \in Idx(IncSeq(P, f)) |->
             LET inc == F.incs[IncSeq(P, f)[a]]
                 T == FileOf(P, inc.target)
             IN <<E("member", TRef(inc.prefix, N("Nope", s)))>>
                \o [b \in Idx(FirstOfKind(T, StructCats)) |-> E("memberNonService", TRef(inc.prefix, FirstOfKind(T, StructCats)[b].name))]])
       \o [a \in Idx(Indirect(P, f, {"service"})) |->
             LET h == Indirect(P, f, {"service"})[a]
             IN E("notDirectlyIncluded", TRef(FileOf(P, h).prefix, FirstOfKind(FileOf(P, h), {"service"})[1].name))]])

\* fields with defaults are added to a union until it has two
EUnionDefaults(P, s, deep) ==
  Flat([f \in 1..NF(P) |->
    LET F == FileOf(P, f)
        us == Sel(IdxSeq(F.structs), LAMBDA i : F.structs[i].cat = "union")
    IN Flat([a \in Idx(Pos(Len(us), deep)) |->
         LET u == us[Pos(Len(us), deep)[a]]
             have == Cardinality({k \in Idx(F.structs[u].fields) : F.structs[u].fields[k].hasDef})
             E(variant, t, v) ==
               Edit("unionDefaults", variant, f, "union", 0,
                    IF have >= 1 THEN <<OpAddField(f, u, FldD(NewId(s), N("zf", s), t, v))>>
                    ELSE <<OpAddField(f, u, FldD(NewId(s), N("zf", s), t, v)), OpAddField(f, u, FldD(NewId(s) + 2, N("zg", s), t, v))>>)
         IN <<E("intDefault", TBase("i32"), VInt), E("stringDefault", TBase("string"), VStr("x"))>>])])

EditsFor(P, rule, s, deep) ==
  CASE rule = "syntax"          -> ESyntax(P, s, deep)
    [] rule = "missingInclude"  -> EMissingInclude(P, s, deep)
    [] rule = "cyclicInclude"   -> ECyclicInclude(P, s, deep)
    [] rule = "dupGlobal"       -> EDupGlobal(P, s, deep)
    [] rule = "dupFieldName"    -> EDupFieldName(P, s, deep)
    [] rule = "dupFieldId"      -> EDupFieldId(P, s, deep)
    [] rule = "dupFunction"     -> EDupFunction(P, s, deep)
    [] rule = "dupEnumName"     -> EDupEnumName(P, s, deep)
    [] rule = "dupEnumNumber"   -> EDupEnumNumber(P, s, deep)
    [] rule = "enumRange"       -> EEnumRange(P, s, deep)
    [] rule = "undefinedType"   -> EUndefinedType(P, s, deep)
    [] rule = "nonType"         -> ENonType(P, s, deep)
    [] rule = "typedefChain"    -> ETypedefChain(P, s, deep)
    [] rule = "undefinedConst"  -> EUndefinedConst(P, s, deep)
    [] rule = "ambiguousConst"  -> EAmbiguousConst(P, s, deep)
    [] rule = "constKind"       -> EConstKind(P, s, deep)
    [] rule = "oneway"          -> EOneway(P, s, deep)
    [] rule = "unknownBase"     -> EUnknownBase(P, s, deep)
    [] rule = "unionDefaults"   -> EUnionDefaults(P, s, deep)

-----------------------------------------------------------------------------
(* command lines *)
Opt(n, hasV, v, eq) == [n |-> n, hasV |-> hasV, v |-> v, vHasEq |-> eq]
Lang(name, opts)    == [name |-> name, opts |-> opts]
Cmd(langs, recursive) ==
  [flagsOk |-> TRUE, idls |-> 1, idlExists |-> TRUE, recursive |-> recursive, langs |-> langs, plugins |-> <<>>]
GoodCmd(backend, recursive) == Cmd(<<Lang(backend, <<>>)>>, recursive)

\* faults as <<rule, variant, cmd>>
CmdFaults(backend, recursive, deep) ==
  LET good == GoodCmd(backend, recursive)
      L(opts) == [good EXCEPT !.langs = <<Lang(backend, opts)>>]
      sw == IF deep THEN <<"gen_setter", "with_reflection", "keep_unknown_fields", "gen_deep_equal", "no_fmt", "ignore_initialisms">>
            ELSE <<"gen_setter", "ignore_initialisms">>
      words == IF deep THEN <<"maybe", "1", "TRUE", "yes">> ELSE <<"maybe", "TRUE">>
      other == IF backend = "go" THEN "fastgo" ELSE "go"
  IN <<<<"badFlag", "unknownFlag", [good EXCEPT !.flagsOk = FALSE]>>,
       <<"idlCount", "none", [good EXCEPT !.idls = 0]>>,
       <<"idlCount", "two", [good EXCEPT !.idls = 2]>>,
       <<"idlMissing", "noSuchFile", [good EXCEPT !.idlExists = FALSE]>>,
       <<"noLang", "noGen", [good EXCEPT !.langs = <<>>]>>,
       <<"unknownBackend", "only", [good EXCEPT !.langs = <<Lang("nosuchlang", <<>>)>>]>>,
       <<"unknownBackend", "empty", [good EXCEPT !.langs = <<Lang("", <<>>)>>]>>,
       <<"unknownBackend", "first", [good EXCEPT !.langs = <<Lang("nosuchlang", <<>>), Lang(backend, <<>>)>>]>>,
       <<"unknownBackend", "second", [good EXCEPT !.langs = <<Lang(backend, <<>>), Lang("nosuchlang", <<>>)>>]>>,
       <<"badOptionValue", "template", L(<<Opt("template", TRUE, "bogus", FALSE)>>)>>,
       <<"badOptionValue", "templateEmpty", L(<<Opt("template", FALSE, "", FALSE)>>)>>,
       <<"badOptionValue", "naming_style", L(<<Opt("naming_style", TRUE, "bogus", FALSE)>>)>>,
       <<"badOptionValue", "use_package", L(<<Opt("use_package", TRUE, "nopair", FALSE)>>)>>,
       <<"badOptionValue", "use_packageEmpty", L(<<Opt("use_package", FALSE, "", FALSE)>>)>>,
       <<"badOptionValue", "secondGen", [good EXCEPT !.langs = <<Lang(backend, <<>>), Lang(other, <<Opt("template", TRUE, "bogus", FALSE)>>)>>]>>,
       <<"optionConflict", "fieldMaskWithoutReflection", L(<<Opt("with_field_mask", FALSE, "", FALSE)>>)>>,
       <<"optionConflict", "apacheWarningAndAdaptor", L(<<Opt("apache_warning", FALSE, "", FALSE), Opt("apache_adaptor", FALSE, "", FALSE)>>)>>,
       <<"optionConflict", "snakeAndLowerCamel", L(<<Opt("snake_style_json_tag", FALSE, "", FALSE), Opt("lower_camel_style_json_tag", TRUE, "true", FALSE)>>)>>,
       <<"optionConflict", "alwaysJsonWithoutJson", L(<<Opt("gen_json_tag", TRUE, "false", FALSE), Opt("always_gen_json_tag", FALSE, "", FALSE)>>)>>,
       <<"missingPlugin", "notOnPath", [good EXCEPT !.plugins = <<[name |-> "nosuchplugin", exists |-> FALSE]>>]>>>>
     \o Flat([a \in Idx(sw) |-> [b \in Idx(words) |->
          <<"badOptionValue", sw[a] \o "=" \o words[b], L(<<Opt(sw[a], TRUE, words[b], FALSE)>>)>>]])
     \o (IF deep THEN <<<<"badOptionValue", "afterGoodOption", L(<<Opt("gen_setter", FALSE, "", FALSE), Opt("template", TRUE, "bogus", FALSE)>>)>>,
                        <<"badOptionValue", "beforeGoodOption", L(<<Opt("naming_style", TRUE, "bogus", FALSE), Opt("gen_setter", FALSE, "", FALSE)>>)>>>>
         ELSE <<>>)
=============================================================================
