------------------------------ MODULE Catalogue ------------------------------
(***************************************************************************)
(* The rule catalogue of property C04, one predicate per rule, over the    *)
(* program model (IDLModel) and over the command-line model.               *)
(*                                                                         *)
(*   Broken(P, C) == \E rule : Holds(rule, P, C)                           *)
(*                                                                         *)
(* A rule speaks about the IDL set = the main file and every file it       *)
(* includes transitively ("wherever in the include graph the error         *)
(* sits"), used or not. The predicates are declarative: they say what is   *)
(* wrong with the input, not which part of thriftgo notices.               *)
(*                                                                         *)
(* Command-line model                                                      *)
(*   C = [flagsOk, idls, idlExists, recursive,                             *)
(*        langs   |-> <<[name, opts |-> <<[n, hasV, v, vHasEq]>>]>>,       *)
(*        plugins |-> <<[name, exists]>>]                                  *)
(***************************************************************************)
EXTENDS IDLModel

HasDup(s) == \E i, j \in Idx(s) : i < j /\ s[i] = s[j]
Names(s)  == [i \in Idx(s) |-> s[i].name]
FieldIds(s) == [i \in Idx(s) |-> s[i].id]

\* every field list of a file with the place it sits in
FieldLists(F) ==
  {[where |-> F.structs[i].cat, fields |-> F.structs[i].fields] : i \in Idx(F.structs)} \cup
  UNION {UNION {{[where |-> "args", fields |-> F.services[i].funcs[j].args],
                 [where |-> "throws", fields |-> F.services[i].funcs[j].throws]}
                : j \in Idx(F.services[i].funcs)} : i \in Idx(F.services)}

-----------------------------------------------------------------------------
(* rules about one file *)
RSyntax(P, f)         == FileOf(P, f).syntax # "ok"
RMissingInclude(P, f) == \E i \in Idx(FileOf(P, f).incs) : FileOf(P, f).incs[i].target = 0
RCyclicInclude(P, f)  == f \in ReachPlus(P, f)
RDupGlobal(P, f)      == HasDup(Names(GlobalSeq(FileOf(P, f))))
RDupFieldName(P, f)   == \E fl \in FieldLists(FileOf(P, f)) : HasDup(Names(fl.fields))
RDupFieldId(P, f)     == \E fl \in FieldLists(FileOf(P, f)) : HasDup(FieldIds(fl.fields))
RDupFunction(P, f)    == \E i \in Idx(FileOf(P, f).services) : HasDup(Names(FileOf(P, f).services[i].funcs))
RDupEnumName(P, f)    == \E i \in Idx(FileOf(P, f).enums) : HasDup(Names(FileOf(P, f).enums[i].values))
RDupEnumNumber(P, f)  ==
  \E i \in Idx(FileOf(P, f).enums) :
    LET e == FileOf(P, f).enums[i] IN
    \E a, b \in Idx(e.values) : a < b /\ e.values[a].name # e.values[b].name /\ EnumVal(e, a) = EnumVal(e, b)
                                /\ EnumVal(e, a).oor = ""
REnumRange(P, f)      ==
  \E i \in Idx(FileOf(P, f).enums) : \E a \in Idx(FileOf(P, f).enums[i].values) : EnumVal(FileOf(P, f).enums[i], a).oor # ""

\* a name used as a type that denotes nothing / denotes something that is not a type
RUndefinedType(P, f)  == \E r \in TypeRefs(FileOf(P, f)) : ~DenotesAny(P, f, r)
RNonType(P, f)        == \E r \in TypeRefs(FileOf(P, f)) : DenotesAny(P, f, r) /\ ~IsTypeRef(P, f, r)
RTypedefChain(P, f)   == \E i \in Idx(FileOf(P, f).tds) : Cat(P, f, FileOf(P, f).tds[i].type).cat = "cycle"

RUndefinedConst(P, f) == \E ps \in ValueIds(FileOf(P, f)) : Interpretations(P, f, ps) = 0
RAmbiguousConst(P, f) == \E ps \in ValueIds(FileOf(P, f)) : Interpretations(P, f, ps) > 1

\* A value of a kind the declared scalar or struct type cannot hold. Identifiers are not judged
\* (their kind is the kind of what they name); container types are not judged (the statement
\* speaks of scalar and struct types). A struct literal is a map literal with string keys naming
\* fields; the values of known fields are judged against the field's type, to depth 2.
RECURSIVE KindBad(_, _, _, _, _)
KindBad(P, f, t, v, depth) ==
  LET c == Cat(P, f, t) IN
  CASE c.cat \in IntCats               -> v.t \in {"str", "dbl", "list", "map"}
    [] c.cat \in {"bool", "double"}    -> v.t \in {"str", "list", "map"}
    [] c.cat \in {"string", "binary"}  -> v.t \in {"int", "dbl", "list", "map"}
    [] c.cat = "enum"                  -> v.t \in {"str", "dbl", "list", "map"}
    [] c.cat \in StructCats ->
         \/ v.t \in {"int", "dbl", "str", "list"}
         \/ /\ v.t = "map"
            /\ \E k \in Idx(v.m) :
                 LET key == v.m[k][1]
                     fs  == FileOf(P, c.h).structs[c.i].fields
                 IN \/ key.t # "str"
                    \/ /\ key.t = "str"
                       /\ \/ \A x \in Idx(fs) : fs[x].name # key.s
                          \/ /\ depth > 0
                             /\ \E x \in Idx(fs) : fs[x].name = key.s /\ KindBad(P, c.h, fs[x].type, v.m[k][2], depth - 1)
    [] OTHER -> FALSE
RConstKind(P, f) == \E tv \in TypedValues(FileOf(P, f)) : KindBad(P, f, tv[1], tv[2], 2)

ROneway(P, f) ==
  \E i \in Idx(FileOf(P, f).services) : \E j \in Idx(FileOf(P, f).services[i].funcs) :
    LET fn == FileOf(P, f).services[i].funcs[j] IN fn.oneway /\ (~fn.void \/ Len(fn.throws) > 0)

RUnknownBase(P, f) ==
  \E i \in Idx(FileOf(P, f).services) :
    FileOf(P, f).services[i].hasExt /\ ~IsServiceRef(P, f, FileOf(P, f).services[i].ext)

RUnionDefaults(P, f) ==
  \E i \in Idx(FileOf(P, f).structs) :
    LET s == FileOf(P, f).structs[i] IN s.cat = "union" /\ Cardinality({k \in Idx(s.fields) : s.fields[k].hasDef}) > 1

IDLRules == {"syntax", "missingInclude", "cyclicInclude", "dupGlobal", "dupFieldName", "dupFieldId",
             "dupFunction", "dupEnumName", "dupEnumNumber", "enumRange", "undefinedType", "nonType",
             "typedefChain", "undefinedConst", "ambiguousConst", "constKind", "oneway", "unknownBase",
             "unionDefaults"}

FileHolds(rule, P, f) ==
  CASE rule = "syntax"          -> RSyntax(P, f)
    [] rule = "missingInclude"  -> RMissingInclude(P, f)
    [] rule = "cyclicInclude"   -> RCyclicInclude(P, f)
    [] rule = "dupGlobal"       -> RDupGlobal(P, f)
    [] rule = "dupFieldName"    -> RDupFieldName(P, f)
    [] rule = "dupFieldId"      -> RDupFieldId(P, f)
    [] rule = "dupFunction"     -> RDupFunction(P, f)
    [] rule = "dupEnumName"     -> RDupEnumName(P, f)
    [] rule = "dupEnumNumber"   -> RDupEnumNumber(P, f)
    [] rule = "enumRange"       -> REnumRange(P, f)
    [] rule = "undefinedType"   -> RUndefinedType(P, f)
    [] rule = "nonType"         -> RNonType(P, f)
    [] rule = "typedefChain"    -> RTypedefChain(P, f)
    [] rule = "undefinedConst"  -> RUndefinedConst(P, f)
    [] rule = "ambiguousConst"  -> RAmbiguousConst(P, f)
    [] rule = "constKind"       -> RConstKind(P, f)
    [] rule = "oneway"          -> ROneway(P, f)
    [] rule = "unknownBase"     -> RUnknownBase(P, f)
    [] rule = "unionDefaults"   -> RUnionDefaults(P, f)

\* a rule is broken by the IDL set when some file of the set breaks it
IDLHolds(rule, P) == \E f \in Reach(P) : FileHolds(rule, P, f)
IDLBroken(P)      == \E rule \in IDLRules : IDLHolds(rule, P)
IDLBrokenRules(P) == {rule \in IDLRules : IDLHolds(rule, P)}

-----------------------------------------------------------------------------
(* command line (transcribed from `thriftgo -h` and README "Command line") *)
Backends   == {"go", "fastgo"}
Templates  == {"slim", "raw_struct"}
Styles     == {"thriftgo", "golint", "apache"}
ValueOpts  == {"thrift_import_path", "use_package", "naming_style", "ignore_initialisms", "package_prefix", "template"}
\* the boolean switches used by the universes (every switch of `-h` takes "", "true" or "false")
BoolWords  == {"", "true", "false"}

OptOn(l, n)  == \E i \in Idx(l.opts) : l.opts[i].n = n /\ l.opts[i].v \in {"", "true"}
OptOff(l, n) == \E i \in Idx(l.opts) : l.opts[i].n = n /\ l.opts[i].v = "false"

OptBadValue(o) ==
  CASE o.n = "template"     -> o.v \notin Templates
    [] o.n = "naming_style" -> o.v \notin Styles
    [] o.n = "use_package"  -> ~o.vHasEq
    [] o.n \in {"thrift_import_path", "package_prefix"} -> FALSE
    [] OTHER                -> o.v \notin BoolWords            \* a switch

\* documented requirements between switches
OptConflict(l) ==
  \/ OptOn(l, "with_field_mask") /\ ~OptOn(l, "with_reflection")
  \/ OptOn(l, "apache_warning") /\ OptOn(l, "apache_adaptor")
  \/ OptOn(l, "snake_style_json_tag") /\ OptOn(l, "lower_camel_style_json_tag")
  \/ OptOn(l, "always_gen_json_tag") /\ OptOff(l, "gen_json_tag")

CmdRules == {"badFlag", "idlCount", "idlMissing", "noLang", "unknownBackend", "badOptionValue",
             "optionConflict", "missingPlugin"}

CmdHolds(rule, C) ==
  CASE rule = "badFlag"        -> ~C.flagsOk
    [] rule = "idlCount"       -> C.idls # 1
    [] rule = "idlMissing"     -> C.idls = 1 /\ ~C.idlExists
    [] rule = "noLang"         -> Len(C.langs) = 0
    [] rule = "unknownBackend" -> \E i \in Idx(C.langs) : C.langs[i].name \notin Backends
    [] rule = "badOptionValue" -> \E i \in Idx(C.langs) : \E k \in Idx(C.langs[i].opts) : OptBadValue(C.langs[i].opts[k])
    [] rule = "optionConflict" -> \E i \in Idx(C.langs) : OptConflict(C.langs[i])
    [] rule = "missingPlugin"  -> \E i \in Idx(C.plugins) : ~C.plugins[i].exists
CmdBroken(C) == \E rule \in CmdRules : CmdHolds(rule, C)

-----------------------------------------------------------------------------
Rules == IDLRules \cup CmdRules
Holds(rule, P, C) == IF rule \in CmdRules THEN CmdHolds(rule, C) ELSE IDLHolds(rule, P)
\* An unreadable main file leaves no IDL set to judge.
Broken(P, C) == CmdBroken(C) \/ IDLBroken(P)
=============================================================================
