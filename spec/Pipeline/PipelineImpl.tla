---------------------------- MODULE PipelineImpl ----------------------------
(***************************************************************************)
(* Layer B of property C04: the mechanisms of the real pipeline, one       *)
(* operator per stage, transcribed from                                    *)
(*   main.go, sdk/invoke.go            stage order, exit status             *)
(*   args/args.go                      flag parsing, IDL count              *)
(*   parser/parser.go                  parseFileRecursively (PEG, search)   *)
(*   parser/circle_detect.go           CircleDetect                         *)
(*   semantic/checker.go               CheckAll and its five sub-checks     *)
(*   semantic/semantic.go              ResolveSymbols (guard/recover),      *)
(*                                     getEnum, ResolveTypedefs             *)
(*   generator/generator.go            Generate (backend lookup, plugins)   *)
(*   generator/golang/option.go        HandleOptions, validateOptions       *)
(*   generator/golang/scope_internal.go, resolver.go                        *)
(*                                     BuildScope over used includes,       *)
(*                                     ensureType/ensureCode -> os.Exit(2), *)
(*                                     the recover in Scope.init            *)
(* Each stage operator yields "" (nothing found) or the label of the       *)
(* mechanism that fires.  This model is never the oracle: it predicts      *)
(* which mechanism reports each case and shows which cases the code has    *)
(* no (proper) mechanism for; the verdict comes from the real binary       *)
(* judged against Pipeline.tla.                                            *)
(***************************************************************************)
EXTENDS Pipeline

\* The transcription follows /repo at the commit the check was written against. Repairs of the defects
\* this property found change five mechanisms; each is transcribed in both forms and selected here
\* (checks/c04.py IMPL_FIXES), so that the model can follow the code when a repair is committed:
\*   "unionDefault"  CheckUnions sets hasDefault
\*   "getEnumCycle"  getEnum stops at a typedef it has already followed
\*   "dupArgs"       CheckFunctions looks for repeated IDs / names in argument and throws lists
\*   "argDefaults"   ResolveFunction resolves the default values of arguments and throws
\*   "lateGen"       every -g entry (backend name, option values) is checked before anything is generated
CONSTANT ImplFixes
Fixed(x) == x \in ImplFixes

RECURSIVE FirstFrom(_, _)
FirstFrom(s, i) == IF i > Len(s) THEN "" ELSE IF s[i] # "" THEN s[i] ELSE FirstFrom(s, i + 1)
First(s) == FirstFrom(s, 1)
If(c, label) == IF c THEN label ELSE ""

-----------------------------------------------------------------------------
(* args.Parse *)
BArgs(C) == IF ~C.flagsOk THEN "args.flag" ELSE IF C.idls # 1 THEN "args.idlCount" ELSE ""

-----------------------------------------------------------------------------
(* parser.ParseFile(recursive): text, then the includes in order; a file already in thriftMap is
   not parsed again *)
RECURSIVE BParseFile(_, _, _)
RECURSIVE BParseIncs(_, _, _, _)
BParseFile(P, f, st) ==
  IF st.fail # "" \/ f \in st.seen THEN st
  ELSE IF FileOf(P, f).syntax # "ok" THEN [st EXCEPT !.fail = "parse.peg"]
  ELSE BParseIncs(P, f, 1, [st EXCEPT !.seen = @ \cup {f}])
BParseIncs(P, f, i, st) ==
  IF st.fail # "" \/ i > Len(FileOf(P, f).incs) THEN st
  ELSE LET t == FileOf(P, f).incs[i].target
       IN IF t = 0 THEN [st EXCEPT !.fail = "parse.search"]
          ELSE BParseIncs(P, f, i + 1, BParseFile(P, t, st))
BParse(P, C) == IF ~C.idlExists THEN "parse.search"
                ELSE BParseFile(P, 1, [seen |-> {}, fail |-> ""]).fail

-----------------------------------------------------------------------------
(* parser.CircleDetect: a DFS from the main file that reports a file met again on the current path *)
BCircle(P) == If(\E f \in Reach(P) : f \in ReachPlus(P, f), "circle")

\* Thrift.DepthFirstSearch: post-order, every file once
RECURSIVE PostVisit(_, _, _)
RECURSIVE PostIncs(_, _, _, _)
PostVisit(P, f, st) ==
  IF f \in st.seen THEN st
  ELSE LET s2 == PostIncs(P, f, 1, [st EXCEPT !.seen = @ \cup {f}])
       IN [s2 EXCEPT !.out = Append(@, f)]
PostIncs(P, f, i, st) ==
  IF i > Len(FileOf(P, f).incs) THEN st
  ELSE PostIncs(P, f, i + 1, IF FileOf(P, f).incs[i].target = 0 THEN st
                             ELSE PostVisit(P, FileOf(P, f).incs[i].target, st))
PostOrder(P) == PostVisit(P, 1, [seen |-> {}, out |-> <<>>]).out

-----------------------------------------------------------------------------
(* semantic.CheckAll: for every file (post-order) CheckGlobals, CheckEnums, CheckStructLikes,
   CheckUnions, CheckFunctions *)
\* typedefs, constants, struct-likes, services - enums are not looked at
BCheckGlobals(F) == HasDup(Names(F.tds) \o Names(F.consts) \o Names(F.structs) \o Names(F.services))
BCheckEnums(F) ==
  \E i \in Idx(F.enums) :
    LET e == F.enums[i] IN
    \/ HasDup(Names(e.values))
    \/ \E a, b \in Idx(e.values) : a < b /\ e.values[a].name # e.values[b].name /\ EnumVal(e, a) = EnumVal(e, b)
    \/ \E a \in Idx(e.values) : EnumVal(e, a).oor # ""
\* only struct, union, exception: the argument and throws lists of functions are not looked at
BCheckStructLikes(F) == \E i \in Idx(F.structs) : HasDup(FieldIds(F.structs[i].fields)) \/ HasDup(Names(F.structs[i].fields))
\* `hasDefault` is declared and tested but never assigned: the "another default value" branch is dead
BCheckUnions(F) ==
  /\ Fixed("unionDefault")
  /\ \E i \in Idx(F.structs) :
       F.structs[i].cat = "union" /\ Cardinality({k \in Idx(F.structs[i].fields) : F.structs[i].fields[k].hasDef}) > 1
BCheckFunctions(F) ==
  \E i \in Idx(F.services) :
    \/ HasDup(Names(F.services[i].funcs))
    \/ \E j \in Idx(F.services[i].funcs) :
         LET fn == F.services[i].funcs[j] IN
         \/ fn.oneway /\ (~fn.void \/ Len(fn.throws) > 0)
         \/ /\ Fixed("dupArgs")
            /\ \/ HasDup(FieldIds(fn.args)) \/ HasDup(Names(fn.args))
               \/ HasDup(FieldIds(fn.throws)) \/ HasDup(Names(fn.throws))
BCheckFile(F) == First(<<If(BCheckGlobals(F), "check.globals"), If(BCheckEnums(F), "check.enums"),
                         If(BCheckStructLikes(F), "check.structs"), If(BCheckUnions(F), "check.unions"),
                         If(BCheckFunctions(F), "check.functions")>>)
BCheck(P) == LET po == PostOrder(P) IN First([k \in Idx(po) |-> BCheckFile(FileOf(P, po[k]))])

-----------------------------------------------------------------------------
(* semantic.ResolveSymbols *)
BTypeBad(P, f, t) == \E r \in Leaves(t) : ~IsTypeRef(P, f, r)

\* getEnum(ast, name): follows typedefs recursively with no visited set; a typedef whose type was
\* resolved to an include continues there, a local one continues with the type's name.
\* r = "overflow" stands for the unbounded recursion (fatal error: stack overflow).
NilEnum == [r |-> "nil", h |-> 0, i |-> 0]
RECURSIVE BGetEnum(_, _, _, _)
BGetEnum(P, f, name, fuel) ==
  LET F == FileOf(P, f) IN
  IF HasIn(F.enums, name) /\ ~HasIn(F.tds, name) THEN [r |-> "enum", h |-> f, i |-> FirstIn(F.enums, name)]
  ELSE IF ~HasIn(F.tds, name) THEN NilEnum
  ELSE IF fuel = 0 THEN (IF Fixed("getEnumCycle") THEN NilEnum ELSE [r |-> "overflow", h |-> 0, i |-> 0])
  ELSE LET t == F.tds[FirstIn(F.tds, name)].type IN
       IF t.n # "ref" THEN NilEnum
       ELSE IF t.q = "" THEN BGetEnum(P, f, t.name, fuel - 1)
       ELSE LET hs == {h \in HomesOf(P, f, t.q) : HasTypeName(FileOf(P, h), t.name)}
            IN IF hs = {} THEN NilEnum
               ELSE BGetEnum(P, CHOOSE h \in hs : \A h2 \in hs : h <= h2, t.name, fuel - 1)
GetEnum(P, f, name) == BGetEnum(P, f, name, NTypedefs(P) + 1)
EnumMatches(P, e, vn) ==
  IF e.r # "enum" THEN 0
  ELSE Cardinality({k \in Idx(FileOf(P, e.h).enums[e.i].values) : FileOf(P, e.h).enums[e.i].values[k].name = vn})

\* ResolveConstValue for an identifier: SplitValue gives [rest, last] and, if rest has a dot,
\* [rest', enum, last]; file prefixes and names have no dots in the universes, so one split each.
BIdLabel(n) == IF n = 0 THEN "resolve.undefinedValue" ELSE IF n = 1 THEN "" ELSE "resolve.ambiguous"
BId(P, f, parts) ==
  LET F == FileOf(P, f) IN
  CASE Len(parts) = 1 -> BIdLabel(IF HasIn(F.consts, parts[1]) THEN 1 ELSE 0)
    [] Len(parts) = 2 ->
         LET e == GetEnum(P, f, parts[1]) IN
         IF e.r = "overflow" THEN "crash.stackOverflow"
         ELSE BIdLabel(EnumMatches(P, e, parts[2])
                       + Cardinality({i \in IncsWithPrefix(P, f, parts[1]) : HasIn(FileOf(P, F.incs[i].target).consts, parts[2])}))
    [] Len(parts) = 3 ->
         LET is == IncsWithPrefix(P, f, parts[1]) IN
         IF \E i \in is : GetEnum(P, F.incs[i].target, parts[2]).r = "overflow" THEN "crash.stackOverflow"
         ELSE LET RECURSIVE Sum(_)
                  Sum(S) == IF S = {} THEN 0
                            ELSE LET i == CHOOSE x \in S : TRUE
                                 IN EnumMatches(P, GetEnum(P, F.incs[i].target, parts[2]), parts[3]) + Sum(S \ {i})
              IN BIdLabel(Sum(is))
    [] OTHER -> "resolve.undefinedValue"

RECURSIVE BConstValue(_, _, _)
BConstValue(P, f, v) ==
  CASE v.t = "id"   -> IF IsBoolWord(v) THEN "" ELSE BId(P, f, v.parts)
    [] v.t = "list" -> First([i \in Idx(v.l) |-> BConstValue(P, f, v.l[i])])
    [] v.t = "map"  -> First([i \in 1..(2 * Len(v.m)) |->
                               BConstValue(P, f, v.m[(i + 1) \div 2][IF i % 2 = 1 THEN 1 ELSE 2])])
    [] OTHER -> ""

BTypeLabel(P, f, t) == If(BTypeBad(P, f, t), "resolve.type")
\* ResolveStructField: type, then the default value
BFieldsLabel(P, f, fs) ==
  First([k \in 1..(2 * Len(fs)) |->
           LET x == fs[(k + 1) \div 2] IN
           IF k % 2 = 1 THEN BTypeLabel(P, f, x.type)
           ELSE IF x.hasDef THEN BConstValue(P, f, x.def) ELSE ""])
\* ResolveFunction: return type, argument types, throws types - default values of arguments are
\* never resolved
BFuncLabel(P, f, fn) ==
  IF Fixed("argDefaults")
  THEN First(<<IF fn.void THEN "" ELSE BTypeLabel(P, f, fn.ret)>> \o <<BFieldsLabel(P, f, fn.args), BFieldsLabel(P, f, fn.throws)>>)
  ELSE First(<<IF fn.void THEN "" ELSE BTypeLabel(P, f, fn.ret)>>
             \o [k \in Idx(fn.args) |-> BTypeLabel(P, f, fn.args[k].type)]
             \o [k \in Idx(fn.throws) |-> BTypeLabel(P, f, fn.throws[k].type)])
BServiceLabel(P, f, s) ==
  First([k \in Idx(s.funcs) |-> BFuncLabel(P, f, s.funcs[k])]
        \o <<If(s.hasExt /\ ~IsServiceRef(P, f, s.ext), "resolve.base")>>)

\* ResolveAST of one file (its includes are done): RegisterNames, typedefs, constants, struct-likes,
\* services (+ base), ResolveTypedefs
BResolveFile(P, f) ==
  LET F == FileOf(P, f) IN
  First(<<If(HasDup(Names(GlobalSeq(F))), "resolve.names")>>
        \o [k \in Idx(F.tds) |-> BTypeLabel(P, f, F.tds[k].type)]
        \o [k \in 1..(2 * Len(F.consts)) |->
              LET c == F.consts[(k + 1) \div 2] IN
              IF k % 2 = 1 THEN BTypeLabel(P, f, c.type) ELSE BConstValue(P, f, c.value)]
        \o [k \in Idx(F.structs) |-> BFieldsLabel(P, f, F.structs[k].fields)]
        \o [k \in Idx(F.services) |-> BServiceLabel(P, f, F.services[k])]
        \* ResolveTypedefs: the references to typedefs that never leave the category "typedef" - a typedef of
        \* this file whose chain comes back to itself is one of them
        \o <<If(\E k \in Idx(F.tds) : Cat(P, f, F.tds[k].type).cat = "cycle", "resolve.typedefs")>>)
\* includes first, recursively, each file once: the post-order again, stopping at the first error
BResolve(P) == LET po == PostOrder(P) IN First([k \in Idx(po) |-> BResolveFile(P, po[k])])

-----------------------------------------------------------------------------
(* Generator.Generate for one -g entry *)
\* HandleOptions: the actions in the order of the list, then validateOptions
BOptionBad(o) ==
  CASE o.n = "use_package"  -> ~o.vHasEq
    [] o.n = "naming_style" -> o.v \notin Styles
    [] o.n = "template"     -> o.v \notin (Templates \cup {"default"})
    [] o.n \in {"thrift_import_path", "package_prefix"} -> FALSE
    [] OTHER -> o.v \notin BoolWords
BOptions(l) == If((\E k \in Idx(l.opts) : BOptionBad(l.opts[k])) \/ OptConflict(l), "backend.options")

(* sdk: UsedPlugins, Targets (ParseCompactArguments), "No output language(s) specified" *)
BTargets(C) ==
  IF \E i \in Idx(C.langs) : C.langs[i].name = "" THEN "targets.parse"
  ELSE IF Fixed("lateGen") /\ \E i \in Idx(C.langs) : BOptions(C.langs[i]) # "" THEN "targets.options"
  ELSE IF Len(C.langs) = 0 THEN "targets.noLang"
  ELSE IF Fixed("lateGen") /\ \E i \in Idx(C.langs) : C.langs[i].name \notin Backends THEN "targets.lang"
  ELSE ""

\* Include.Used is set by ResolveSymbols when a type, a constant identifier (of a constant or of a
\* struct-like field - not of an argument) or a base service of the file resolves into the include
ResolvedIds(F) == IF Fixed("argDefaults") THEN ValueIds(F) ELSE
  UNION {Ids(F.consts[i].value) : i \in Idx(F.consts)} \cup
  UNION {FieldSeqIds(F.structs[i].fields) : i \in Idx(F.structs)}
UsedInc(P, f, i) ==
  LET F == FileOf(P, f)
      inc == F.incs[i]
      T == FileOf(P, inc.target)
  IN \/ \E r \in TypeRefs(F) : r.q = inc.prefix /\ HasTypeName(T, r.name)
     \/ \E ps \in ResolvedIds(F) :
          \/ Len(ps) = 2 /\ ps[1] = inc.prefix /\ HasIn(T.consts, ps[2])
          \/ Len(ps) = 3 /\ ps[1] = inc.prefix /\ EnumMatches(P, GetEnum(P, inc.target, ps[2]), ps[3]) > 0
     \/ \E k \in Idx(F.services) : F.services[k].hasExt /\ F.services[k].ext.q = inc.prefix
                                   /\ HasIn(T.services, F.services[k].ext.name)
UsedTargets(P, f) == {FileOf(P, f).incs[i].target : i \in {j \in Idx(FileOf(P, f).incs) :
                                                           FileOf(P, f).incs[j].target # 0 /\ UsedInc(P, f, j)}}
RECURSIVE ScopeClosure(_, _, _)
ScopeClosure(P, front, seen) ==
  IF front = {} THEN seen
  ELSE LET nxt == (UNION {UsedTargets(P, f) : f \in front}) \ seen IN ScopeClosure(P, nxt, seen \cup nxt)
\* the files a Scope is built for: the rendered ones and, transitively, their used includes
Scoped(P, C) == LET r == GeneratedFiles(P, C) IN ScopeClosure(P, r, r)

\* Resolver.resolveConst: the value against the category of the declared type. `res` says whether
\* ResolveSymbols has seen the value (Extra set); getIDValue dereferences Extra without a nil check.
RECURSIVE BKind(_, _, _, _, _)
BKind(P, f, t, v, res) ==
  LET c == Cat(P, f, t)
      IdVal == IF IsBoolWord(v) THEN "" ELSE IF res THEN "" ELSE "backend.recover"
      Exit == "backend.exit"
  IN
  CASE c.cat = "bool"    -> IF v.t \in {"int", "dbl"} THEN "" ELSE IF v.t = "id" THEN IdVal ELSE Exit
    [] c.cat \in IntCats -> IF v.t = "int" THEN "" ELSE IF v.t = "id" THEN IdVal ELSE Exit
    [] c.cat = "double"  -> IF v.t \in {"int", "dbl"} THEN "" ELSE IF v.t = "id" THEN IdVal ELSE Exit
    [] c.cat \in {"string", "binary"} ->
         IF v.t = "str" THEN "" ELSE IF v.t = "id" THEN (IF IsBoolWord(v) THEN Exit ELSE IdVal) ELSE Exit
    [] c.cat = "enum"    ->
         IF v.t = "int" THEN "" ELSE IF v.t = "id" THEN (IF IsBoolWord(v) \/ ~res THEN "backend.recover" ELSE "") ELSE Exit
    [] c.cat \in {"list", "set"} ->
         IF v.t = "list" /\ t.n \in {"list", "set"} THEN First([k \in Idx(v.l) |-> BKind(P, f, t.v, v.l[k], res)])
         ELSE IF v.t = "id" THEN IdVal ELSE ""                       \* "fault tolerance": an empty literal
    [] c.cat = "map" ->
         IF v.t = "map" /\ t.n = "map"
         THEN First([k \in 1..(2 * Len(v.m)) |->
                       IF k % 2 = 1 THEN BKind(P, f, t.k, v.m[(k + 1) \div 2][1], res)
                       ELSE BKind(P, f, t.v, v.m[(k + 1) \div 2][2], res)])
         ELSE IF v.t = "id" THEN IdVal ELSE ""
    [] c.cat \in StructCats ->
         IF v.t = "id" THEN (IF IsBoolWord(v) \/ ~res THEN "backend.recover" ELSE "")
         ELSE IF v.t # "map" THEN Exit
         ELSE LET fs == FileOf(P, c.h).structs[c.i].fields IN
              First([k \in Idx(v.m) |->
                       LET key == v.m[k][1] IN
                       IF key.t # "str" THEN Exit
                       ELSE IF \A x \in Idx(fs) : fs[x].name # key.s THEN Exit
                       ELSE LET x == CHOOSE y \in Idx(fs) : fs[y].name = key.s /\ \A z \in Idx(fs) : fs[z].name = key.s => y <= z
                            IN BKind(P, c.h, fs[x].type, v.m[k][2], res)])
    [] OTHER -> Exit

BFieldsKind(P, f, fs, res) ==
  First([k \in Idx(fs) |-> IF fs[k].hasDef THEN BKind(P, f, fs[k].type, fs[k].def, res) ELSE ""])
\* Scope.resolveTypesAndValues: fields of the struct-likes, then of the synthesized argument and
\* result structs, then constants
BScopeFile(P, f) ==
  LET F == FileOf(P, f) IN
  First([k \in Idx(F.structs) |-> BFieldsKind(P, f, F.structs[k].fields, TRUE)]
        \o [k \in Idx(F.services) |->
              First([j \in 1..(2 * Len(F.services[k].funcs)) |->
                       LET fn == F.services[k].funcs[(j + 1) \div 2] IN
                       IF j % 2 = 1 THEN BFieldsKind(P, f, fn.args, Fixed("argDefaults"))
                       ELSE BFieldsKind(P, f, fn.throws, Fixed("argDefaults"))])]
        \o [k \in Idx(F.consts) |-> BKind(P, f, F.consts[k].type, F.consts[k].value, TRUE)])
BScopes(P, C) ==
  LET po == PostOrder(P)
      sc == Scoped(P, C)
  IN First([k \in Idx(po) |-> IF po[k] \in sc THEN BScopeFile(P, po[k]) ELSE ""])

BBackend(P, C, li) ==
  LET l == C.langs[li] IN
  IF l.name \notin Backends THEN "backend.lang"
  ELSE IF \E i \in Idx(C.plugins) : ~C.plugins[i].exists THEN "backend.plugin"
  ELSE IF BOptions(l) # "" THEN BOptions(l)
  ELSE BScopes(P, C)

LangFiles(P, C, li) ==
  UNION {{<<f, "go">>} \cup (IF C.langs[li].name = "fastgo" THEN {<<f, "k">>} ELSE {}) : f \in GeneratedFiles(P, C)}

-----------------------------------------------------------------------------
(* how a firing mechanism ends the process *)
BOutcome(label) ==
  CASE label = "crash.stackOverflow" -> [exit |-> "nonzero", diag |-> TRUE, crash |-> TRUE]  \* runtime: fatal error, status 2
    [] label = "backend.recover"     -> [exit |-> "nonzero", diag |-> TRUE, crash |-> TRUE]  \* message = recovered panic + stack
    [] label = "main.recover"        -> [exit |-> "zero", diag |-> TRUE, crash |-> TRUE]     \* handlePanic prints and returns
    [] OTHER                         -> [exit |-> "nonzero", diag |-> TRUE, crash |-> FALSE] \* error -> println, os.Exit(2)

(* the stage machine: stage, outcome, filesWritten as in Pipeline; li = the -g entry in work; mech = what fired *)
VARIABLES li, mech
bvars == <<stage, outcome, filesWritten, li, mech>>

BInit == AInit /\ li = 1 /\ mech = ""

StageLabel(P, C) ==
  CASE stage = "args"    -> BArgs(C)
    [] stage = "parse"   -> BParse(P, C)
    [] stage = "circle"  -> BCircle(P)
    [] stage = "check"   -> BCheck(P)
    [] stage = "resolve" -> BResolve(P)
    [] stage = "targets" -> BTargets(C)
    [] stage = "backend" -> BBackend(P, C, li)
    [] OTHER -> ""

BFail(label) ==
  /\ stage' = "done" /\ outcome' = BOutcome(label) /\ mech' = label
  /\ UNCHANGED <<filesWritten, li>>

BStepL(label) ==
  /\ stage \notin {"persist", "done"}
  /\ IF label # "" THEN BFail(label)
     ELSE stage' = NextStage(stage) /\ UNCHANGED <<outcome, filesWritten, li, mech>>
BStep(P, C) == BStepL(StageLabel(P, C))

\* the labels of the stages that do not depend on the command line, up to the first that fires
PreStages == {"parse", "circle", "check", "resolve"}
NoPre == [known |-> FALSE, parse |-> "", circle |-> "", check |-> "", resolve |-> ""]
PreLabels(P) ==
  LET c == [flagsOk |-> TRUE, idls |-> 1, idlExists |-> TRUE]
      none == [known |-> TRUE, parse |-> "", circle |-> "", check |-> "", resolve |-> ""]
      pa == BParse(P, c)
  IN IF pa # "" THEN [none EXCEPT !.parse = pa]
     ELSE LET ci == BCircle(P) IN
          IF ci # "" THEN [none EXCEPT !.circle = ci]
          ELSE LET ch == BCheck(P) IN
               IF ch # "" THEN [none EXCEPT !.check = ch]
               ELSE [none EXCEPT !.resolve = BResolve(P)]

\* Persist of one -g entry; the loop of InvokeThriftgo then takes the next entry or returns nil (status 0)
BPersist(P, C) ==
  /\ stage = "persist"
  /\ filesWritten' = filesWritten \cup LangFiles(P, C, li)
  /\ IF li < Len(C.langs)
     THEN li' = li + 1 /\ stage' = "backend" /\ UNCHANGED <<outcome, mech>>
     ELSE stage' = "done" /\ outcome' = [exit |-> "zero", diag |-> FALSE, crash |-> FALSE] /\ mech' = "ok" /\ UNCHANGED li

BNext(P, C) == BStep(P, C) \/ BPersist(P, C)
\* the same with the command-line independent labels computed beforehand (pre.known)
BNextPre(P, C, pre) ==
  \/ BStepL(IF pre.known /\ stage \in PreStages THEN pre[stage] ELSE StageLabel(P, C))
  \/ BPersist(P, C)
=============================================================================
