--------------------------- MODULE Trace_Pipeline ---------------------------
(***************************************************************************)
(* Validation of what the real thriftgo binary did against layer A.        *)
(*                                                                         *)
(* obs.ndjson: one line per distinct program that was handed to the        *)
(* binary, as the model image of the ACTUAL program JSON that was          *)
(* rendered (lib/c04_model.py to_model, after the edit was applied by      *)
(* Python), with the rules the case stands for and every run made on it:   *)
(*   [prog, rules, runs |-> <<[id, cmd, obs |-> [exit, diag, crash,         *)
(*                                              files |-> <<<<f, kind>>>>]]>>] *)
(* Each run is an independent behaviour of the abstract Pipeline machine:  *)
(* TLC evaluates Broken on the program/command line (the rules the case    *)
(* stands for first, the whole catalogue if none of them holds) and        *)
(* explores every behaviour the statement allows; the run is accepted      *)
(* ("ACC id") iff one of them ends in exactly the observed outcome and     *)
(* output-file set.  "NOTBROKEN p rule" = the program Python produced does *)
(* not break the rule the TLC case stands for (machinery error).           *)
(* For a two-edit combination one of its two rules has to hold.            *)
(***************************************************************************)
EXTENDS Pipeline, Json

Progs == ndJsonDeserialize("obs.ndjson")

VARIABLES grp, pi, ri, held, idl, broken, expected
tvars == <<stage, outcome, filesWritten, grp, pi, ri, held, idl, broken, expected>>

\* the successors of one state are computed by one worker: root -> group -> program -> run
NGroups == 64

Prog == Progs[pi].prog
RunRec == Progs[pi].runs[ri]
Declared == Rng(Progs[pi].rules) \cap IDLRules

TInit == /\ grp = 0 /\ pi = 0 /\ ri = 0 /\ held = {} /\ idl = FALSE /\ broken = FALSE /\ expected = {}
         /\ stage = "idle" /\ outcome = NoOutcome /\ filesWritten = {}

TPickGroup ==
  /\ grp = 0
  /\ \E g \in 1..NGroups : grp' = g
  /\ UNCHANGED <<pi, ri, held, idl, broken, expected, stage, outcome, filesWritten>>

TPickProg ==
  /\ grp # 0 /\ pi = 0
  /\ \E p \in {q \in Idx(Progs) : q % NGroups = grp - 1} :
       /\ pi' = p
       /\ LET h == {r \in Rng(Progs[p].rules) \cap IDLRules : IDLHolds(r, Progs[p].prog)}
          IN held' = h /\ idl' = IF h # {} THEN TRUE ELSE IDLBroken(Progs[p].prog)
  /\ UNCHANGED <<grp, ri, broken, expected, stage, outcome, filesWritten>>

TPickRun ==
  /\ pi # 0 /\ ri = 0
  /\ \E r \in Idx(Progs[pi].runs) :
       /\ ri' = r
       /\ broken' = (idl \/ CmdBroken(Progs[pi].runs[r].cmd))
       /\ expected' = ExpectedFiles(Prog, Progs[pi].runs[r].cmd)
  /\ stage' = "args" /\ outcome' = NoOutcome /\ filesWritten' = {}
  /\ UNCHANGED <<grp, pi, held, idl>>

TStep == /\ ri # 0
         /\ ANext(broken, expected)
         /\ UNCHANGED <<grp, pi, ri, held, idl, broken, expected>>

TNext == TPickGroup \/ TPickProg \/ TPickRun \/ TStep
TSpec == TInit /\ [][TNext]_tvars

ObsFiles(o) == {<<o.files[i][1], o.files[i][2]>> : i \in Idx(o.files)}
Matches(o) == /\ outcome.exit = o.exit /\ outcome.diag = o.diag /\ outcome.crash = o.crash
              /\ filesWritten = ObsFiles(o)

Accepted == (ri # 0 /\ stage = "done" /\ Matches(RunRec.obs)) => PrintT("ACC " \o ToString(RunRec.id))
Judged == (ri # 0 /\ stage = "args") => PrintT("RUN " \o ToString(RunRec.id) \o (IF broken THEN " broken" ELSE " unbroken"))
\* the rule a case stands for must hold on the program that was really rendered; of the rules of a
\* two-edit combination at least one (the second edit may mask the first: a constant used as a type
\* stops being a non-type when the other edit defines a struct of the same name)
DeclaredHold == (pi # 0 /\ ri = 0) =>
                  IF Cardinality(Declared) <= 1
                  THEN \A r \in Declared : r \in held \/ PrintT("NOTBROKEN " \o ToString(pi) \o " " \o r)
                  ELSE held # {} \/ PrintT("NOTBROKEN " \o ToString(pi) \o " all")
\* the machine keeps the statement in every reachable state
Statement == ri # 0 => AInvariant(broken, expected)
TInvariants == Accepted /\ Judged /\ DeclaredHold /\ Statement
=============================================================================
