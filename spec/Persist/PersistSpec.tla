---------------------------- MODULE PersistSpec ----------------------------
(***************************************************************************)
(* Layer A for C19: the abstract state machine whose behaviours are        *)
(* exactly what the property statement allows of one call that persists n  *)
(* generated files ("jobs").  It speaks only about what a caller can        *)
(* observe through public interfaces: the post-processor being entered and *)
(* left for a job, the write callback being entered and left for a job,    *)
(* and the call returning success or an error.  Nothing about goroutines,  *)
(* channels or semaphores.                                                 *)
(*                                                                         *)
(*   success  => every job was post-processed and written (completely,     *)
(*               exactly once, its own content under its own path)         *)
(*   a failed post-process or write step => an error is returned           *)
(*   never returns while a write of this call is in flight; no write       *)
(*   starts after the return                                                *)
(*   no job is written twice                                               *)
(*   it always returns (liveness, AReturns)                                *)
(*                                                                         *)
(* Deliberately permissive where the statement is silent: post-processing  *)
(* may overlap the return of an error, an error may be returned although   *)
(* nothing failed, jobs may be handled in any order and with any           *)
(* parallelism, after an error the remaining jobs may or may not be        *)
(* processed.  "Own path, own content" is enforced by the binding: an      *)
(* observed event is matched to APPBegin(j)/AWriteBegin(j) only if it       *)
(* carries job j's path and (post-processed) content.                      *)
(***************************************************************************)
EXTENDS Naturals, FiniteSets

CONSTANT MaxJobs

VARIABLES n,     \* number of jobs of this call
          withPP,\* whether a post-processor is configured for this call (none: files are written as they are)
          st,    \* st[j]: how far job j got
          ret    \* "none" | "ok" | "err"
avars == <<n, withPP, st, ret>>

AJobs == 1..n
AStates == {"idle", "inpp", "ppok", "ppfail", "inwr", "wrok", "wrfail"}

ATypeOK == /\ n \in 0..MaxJobs
           /\ withPP \in BOOLEAN
           /\ st \in [AJobs -> AStates]
           /\ ret \in {"none", "ok", "err"}

AInit == /\ n \in 0..MaxJobs
         /\ withPP \in BOOLEAN
         /\ st = [j \in 1..n |-> "idle"]
         /\ ret = "none"

AFailed(j) == st[j] \in {"ppfail", "wrfail"}

\* PostProcess is entered for job j (with j's path and content)
APPBegin(j) == /\ withPP
               /\ st[j] = "idle"
               /\ st' = [st EXCEPT ![j] = "inpp"]
               /\ UNCHANGED <<n, withPP, ret>>

\* PostProcess returns for job j; a failure is incompatible with a success already returned
APPEnd(j, ok) == /\ st[j] = "inpp"
                 /\ (ok \/ ret # "ok")
                 /\ st' = [st EXCEPT ![j] = IF ok THEN "ppok" ELSE "ppfail"]
                 /\ UNCHANGED <<n, withPP, ret>>

\* the write of job j (own path, post-processed own content) starts: only after a
\* successful post-process (if there is a post-processor), only once, never after the
\* call has returned
AWriteBegin(j) == /\ st[j] = (IF withPP THEN "ppok" ELSE "idle")
                  /\ ret = "none"
                  /\ st' = [st EXCEPT ![j] = "inwr"]
                  /\ UNCHANGED <<n, withPP, ret>>

AWriteEnd(j, ok) == /\ st[j] = "inwr"
                    /\ st' = [st EXCEPT ![j] = IF ok THEN "wrok" ELSE "wrfail"]
                    /\ UNCHANGED <<n, withPP, ret>>

AReturn(r) == /\ ret = "none"
              /\ \A j \in AJobs : st[j] # "inwr"                   \* no write in flight
              /\ (r = "ok") => \A j \in AJobs : st[j] = "wrok"     \* success only if all written
              /\ (\E j \in AJobs : AFailed(j)) => r = "err"       \* any failed step => error
              /\ ret' = r
              /\ UNCHANGED <<n, withPP, st>>

ANext == \/ \E j \in AJobs : APPBegin(j) \/ AWriteBegin(j)
         \/ \E j \in AJobs, ok \in BOOLEAN : APPEnd(j, ok) \/ AWriteEnd(j, ok)
         \/ \E r \in {"ok", "err"} : AReturn(r)

ASpec == AInit /\ [][ANext]_avars
AReturns == <>(ret # "none")

(***************************************************************************)
(* Consequences (checked by TLC on this module alone, MC_PersistSpec.cfg)  *)
(***************************************************************************)
ASuccessMeansAllWritten == (ret = "ok") => \A j \in AJobs : st[j] = "wrok"
AFailureMeansError      == (ret # "none" /\ \E j \in AJobs : AFailed(j)) => ret = "err"
ANoWriteAfterReturn     == (ret # "none") => \A j \in AJobs : st[j] # "inwr"
AInvariants == ATypeOK /\ ASuccessMeansAllWritten /\ AFailureMeansError /\ ANoWriteAfterReturn
=============================================================================
