SPECIFICATION TSpec
CONSTANTS
  MaxN = 64
  MaxK = 64
  PPChoices = {TRUE, FALSE}
  AtomicDoneRelease = FALSE
INVARIANTS Accepted Invariants
CHECK_DEADLOCK FALSE
