------------------------------- MODULE Persist -------------------------------
(***************************************************************************
Layer B for C19: asyncPostProcess.OnFinished of /repo/generator/generator.go
transcribed action for action.

  errs := make(chan error, len(jobs)); processing := make(chan struct{}, K)
  for _, j := range jobs {
    select {                                      pc "select"
    case processing <- struct{}{}:                DAcquire -> "acquired"
    case err := <-errs: wg.Wait(); return err     DRecvErr -> "errRecv", DErrWait -> "errWaited",
    }                                             DErrReturn -> "returned"
    wg.Add(1)                                     DAdd -> "spawn"
    go func(path, content) {                      DSpawn: worker j at "start"
      defer func() { wg.Done(); <-processing }()
      content, err = pp.PostProcess(path, content)    WPPBegin -> "inpp", WPPEnd -> "ppDone"
      if err == nil { err = f(path, content) }        WWriteBegin -> "inwr", WWriteEnd -> "writeDone"
      if err != nil { errs <- err }                   WErrSend -> "errSent"
    }()                                               WToDone -> "done", WDone -> "rel", WRelease -> "exit"
  }
  wg.Wait()                                       pc "wait": DWait -> "waited"
  select { case err := <-errs: return err         DFinal -> "finalErr" / "finalNone",
           default: return nil }                  DFinalReturn -> "returned"

Every pc value except "rel" is the name of the trace point (verif hook, or the
harness' own point inside PostProcess / the write callback) at which the goroutine
is parked BEFORE its next action, so a behaviour of this module is a schedule the
harness can force through the gate: one action = one goroutine moves from one gate
to its next gate.  The dispatcher's select is two independently enabled actions.
Which post-process / write steps fail is chosen non-deterministically at the step
(= every subset of failing jobs at either step).

AtomicDoneRelease = TRUE merges wg.Done and <-processing into one step (the hook
has no gate between them; used when behaviours are generated for replay).  FALSE is
the code's real grain (used for model checking and for validating recorded traces).
 ***************************************************************************)
EXTENDS Naturals, Sequences, FiniteSets

CONSTANTS MaxN,               \* jobs: n \in 0..MaxN
          MaxK,               \* concurrency: k \in 1..MaxK
          AtomicDoneRelease,  \* BOOLEAN
          PPChoices           \* subset of BOOLEAN: is a post-processor configured (p.pp != nil)

VARIABLES n, k, hasPP,   \* the call's parameters, fixed in Init
          dpc,           \* dispatcher pc
          i,             \* index of the job the loop is at
          got,           \* job whose error the dispatcher received (0 = none)
          processing,    \* number of tokens in the semaphore channel
          errs,          \* content of the errs channel: sequence of job ids
          wg,            \* WaitGroup counter
          wpc,           \* wpc[j]: worker pc ("none" = not spawned)
          ppres, wres,   \* result of job j's post-process / write: "none" | "ok" | "fail"
          files,         \* files[j]: sequence of contents written under job j's path
          ret            \* "none" = not returned, "ok", "err" (then got = job whose error is returned)

vars == <<n, k, hasPP, dpc, i, got, processing, errs, wg, wpc, ppres, wres, files, ret>>

Jobs == 1..n
PP(j) == j + 100        \* post-processed content of job j (job j's raw content is j)
Out(j) == IF hasPP THEN PP(j) ELSE j   \* what must end up under job j's path

DPcs == {"select", "acquired", "spawn", "errRecv", "errWaited", "wait", "waited",
         "finalErr", "finalNone", "returned"}
WPcs == {"none", "start", "inpp", "ppDone", "inwr", "writeDone", "errSent", "done", "rel", "exit"}

TypeOK == /\ n \in 0..MaxN /\ k \in 1..MaxK /\ hasPP \in PPChoices
          /\ dpc \in DPcs /\ i \in 1..(n + 1) /\ got \in 0..n
          /\ processing \in 0..k
          /\ errs \in Seq(Jobs) /\ Len(errs) <= n
          /\ wg \in 0..n
          /\ wpc \in [Jobs -> WPcs]
          /\ ppres \in [Jobs -> {"none", "ok", "fail"}]
          /\ wres \in [Jobs -> {"none", "ok", "fail"}]
          /\ \A j \in Jobs : files[j] \in {<<>>, <<Out(j)>>}
          /\ ret \in {"none", "ok", "err"}

Init == /\ n \in 0..MaxN /\ k \in 1..MaxK /\ hasPP \in PPChoices
        /\ dpc = IF n = 0 THEN "wait" ELSE "select"
        /\ i = 1 /\ got = 0 /\ processing = 0 /\ errs = <<>> /\ wg = 0
        /\ wpc = [j \in 1..n |-> "none"]
        /\ ppres = [j \in 1..n |-> "none"]
        /\ wres = [j \in 1..n |-> "none"]
        /\ files = [j \in 1..n |-> <<>>]
        /\ ret = "none"

(************************** dispatcher ************************************)
DAcquire == /\ dpc = "select" /\ processing < k
            /\ processing' = processing + 1 /\ dpc' = "acquired"
            /\ UNCHANGED <<n, k, hasPP, i, got, errs, wg, wpc, ppres, wres, files, ret>>

DRecvErr == /\ dpc = "select" /\ errs # <<>>
            /\ got' = Head(errs) /\ errs' = Tail(errs) /\ dpc' = "errRecv"
            /\ UNCHANGED <<n, k, hasPP, i, processing, wg, wpc, ppres, wres, files, ret>>

DAdd == /\ dpc = "acquired"
        /\ wg' = wg + 1 /\ dpc' = "spawn"
        /\ UNCHANGED <<n, k, hasPP, i, got, processing, errs, wpc, ppres, wres, files, ret>>

DSpawn == /\ dpc = "spawn"
          /\ wpc' = [wpc EXCEPT ![i] = "start"]
          /\ i' = i + 1
          /\ dpc' = IF i + 1 > n THEN "wait" ELSE "select"
          /\ UNCHANGED <<n, k, hasPP, got, processing, errs, wg, ppres, wres, files, ret>>

DErrWait == /\ dpc = "errRecv" /\ wg = 0
            /\ dpc' = "errWaited"
            /\ UNCHANGED <<n, k, hasPP, i, got, processing, errs, wg, wpc, ppres, wres, files, ret>>

DErrReturn == /\ dpc = "errWaited"
              /\ ret' = "err" /\ dpc' = "returned"
              /\ UNCHANGED <<n, k, hasPP, i, got, processing, errs, wg, wpc, ppres, wres, files>>

DWait == /\ dpc = "wait" /\ wg = 0
         /\ dpc' = "waited"
         /\ UNCHANGED <<n, k, hasPP, i, got, processing, errs, wg, wpc, ppres, wres, files, ret>>

DFinal == /\ dpc = "waited"
          /\ IF errs # <<>>
               THEN got' = Head(errs) /\ errs' = Tail(errs) /\ dpc' = "finalErr"
               ELSE dpc' = "finalNone" /\ UNCHANGED <<got, errs>>
          /\ UNCHANGED <<n, k, hasPP, i, processing, wg, wpc, ppres, wres, files, ret>>

DFinalReturn == /\ dpc \in {"finalErr", "finalNone"}
                /\ ret' = IF dpc = "finalErr" THEN "err" ELSE "ok"
                /\ dpc' = "returned"
                /\ UNCHANGED <<n, k, hasPP, i, got, processing, errs, wg, wpc, ppres, wres, files>>

Dispatcher == DAcquire \/ DRecvErr \/ DAdd \/ DSpawn \/ DErrWait \/ DErrReturn
              \/ DWait \/ DFinal \/ DFinalReturn

(***************************** worker j ***********************************)
WPPBegin(j) == /\ hasPP
               /\ wpc[j] = "start"
               /\ wpc' = [wpc EXCEPT ![j] = "inpp"]
               /\ UNCHANGED <<n, k, hasPP, dpc, i, got, processing, errs, wg, ppres, wres, files, ret>>

WPPEnd(j, ok) == /\ wpc[j] = "inpp"
                 /\ wpc' = [wpc EXCEPT ![j] = "ppDone"]
                 /\ ppres' = [ppres EXCEPT ![j] = IF ok THEN "ok" ELSE "fail"]
                 /\ UNCHANGED <<n, k, hasPP, dpc, i, got, processing, errs, wg, wres, files, ret>>

WWriteBegin(j) == /\ \/ wpc[j] = "ppDone" /\ ppres[j] = "ok"
                     \/ wpc[j] = "start" /\ ~hasPP           \* if p.pp != nil { ... } skipped
                  /\ wpc' = [wpc EXCEPT ![j] = "inwr"]
                  /\ UNCHANGED <<n, k, hasPP, dpc, i, got, processing, errs, wg, ppres, wres, files, ret>>

WWriteEnd(j, ok) == /\ wpc[j] = "inwr"
                    /\ wpc' = [wpc EXCEPT ![j] = "writeDone"]
                    /\ wres' = [wres EXCEPT ![j] = IF ok THEN "ok" ELSE "fail"]
                    /\ files' = IF ok THEN [files EXCEPT ![j] = Append(@, Out(j))] ELSE files
                    /\ UNCHANGED <<n, k, hasPP, dpc, i, got, processing, errs, wg, ppres, ret>>

WantsErrSend(j) == \/ wpc[j] = "ppDone" /\ ppres[j] = "fail"
                   \/ wpc[j] = "writeDone" /\ wres[j] = "fail"

WErrSend(j) == /\ WantsErrSend(j)
               /\ Len(errs) < n                 \* cap(errs) = len(jobs); blocks when full
               /\ errs' = Append(errs, j)
               /\ wpc' = [wpc EXCEPT ![j] = "errSent"]
               /\ UNCHANGED <<n, k, hasPP, dpc, i, got, processing, wg, ppres, wres, files, ret>>

WToDone(j) == /\ \/ wpc[j] = "writeDone" /\ wres[j] = "ok"
                 \/ wpc[j] = "errSent"
              /\ wpc' = [wpc EXCEPT ![j] = "done"]
              /\ UNCHANGED <<n, k, hasPP, dpc, i, got, processing, errs, wg, ppres, wres, files, ret>>

WDone(j) == /\ ~AtomicDoneRelease
            /\ wpc[j] = "done"
            /\ wg' = wg - 1
            /\ wpc' = [wpc EXCEPT ![j] = "rel"]
            /\ UNCHANGED <<n, k, hasPP, dpc, i, got, processing, errs, ppres, wres, files, ret>>

WRelease(j) == /\ wpc[j] = "rel"
               /\ processing > 0                \* a receive on an empty channel would block
               /\ processing' = processing - 1
               /\ wpc' = [wpc EXCEPT ![j] = "exit"]
               /\ UNCHANGED <<n, k, hasPP, dpc, i, got, errs, wg, ppres, wres, files, ret>>

WDoneRelease(j) == /\ AtomicDoneRelease
                   /\ wpc[j] = "done"
                   /\ processing > 0
                   /\ wg' = wg - 1 /\ processing' = processing - 1
                   /\ wpc' = [wpc EXCEPT ![j] = "exit"]
                   /\ UNCHANGED <<n, k, hasPP, dpc, i, got, errs, ppres, wres, files, ret>>

Worker(j) == \/ WPPBegin(j) \/ WWriteBegin(j) \/ WErrSend(j) \/ WToDone(j)
             \/ WDone(j) \/ WRelease(j) \/ WDoneRelease(j)
             \/ \E ok \in BOOLEAN : WPPEnd(j, ok) \/ WWriteEnd(j, ok)

Next == Dispatcher \/ \E j \in Jobs : Worker(j)

Terminal == dpc = "returned" /\ \A j \in Jobs : wpc[j] \in {"none", "exit"}
NextT == Next \/ (Terminal /\ UNCHANGED vars)      \* so that TLC's deadlock check means deadlock

Fairness == WF_vars(Dispatcher) /\ \A j \in 1..MaxN : WF_vars(j \in Jobs /\ Worker(j))
Spec == Init /\ [][NextT]_vars /\ Fairness

(************************* properties of the model ************************)
Returned == ret # "none"
Started(j) == wpc[j] # "none"
Failed(j) == ppres[j] = "fail" \/ wres[j] = "fail"
InFlight(j) == wpc[j] = "inwr"

\* success => every job post-processed and written exactly once with its own content
SuccessMeansAllWritten ==
    (ret = "ok") => \A j \in Jobs : ppres[j] = (IF hasPP THEN "ok" ELSE "none") /\ wres[j] = "ok" /\ files[j] = <<Out(j)>>
\* any failed step => an error is returned, and it is the error of a job that failed
FailureMeansError ==
    Returned => /\ (\E j \in Jobs : Failed(j)) => ret # "ok"
                /\ (ret = "err") => got \in Jobs /\ Failed(got)
\* never returns while a write (or any step of a worker before wg.Done) is in flight
NoWorkInFlightAtReturn ==
    Returned => \A j \in Jobs : wpc[j] \in {"none", "rel", "exit"}
NoDoubleWrite == \A j \in Jobs : Len(files[j]) <= 1
\* the semaphore bounds the workers between spawn and release; wg counts the workers before Done
SemaphoreCounts ==
    /\ processing = Cardinality({j \in Jobs : wpc[j] \notin {"none", "exit"}})
                      + (IF dpc \in {"acquired", "spawn"} THEN 1 ELSE 0)
    /\ wg = Cardinality({j \in Jobs : wpc[j] \notin {"none", "rel", "exit"}})
              + (IF dpc = "spawn" THEN 1 ELSE 0)
\* a worker never blocks on sending its error (capacity n), nor on the release
NeverBlocksWorker ==
    \A j \in Jobs : /\ WantsErrSend(j) => Len(errs) < n
                    /\ wpc[j] \in {"done", "rel"} => processing > 0
\* jobs after an early error return are never started; all others ran to the end
EarlyExit == Returned => \A j \in Jobs : (j < i) = Started(j)

Invariants == TypeOK /\ SuccessMeansAllWritten /\ FailureMeansError /\ NoWorkInFlightAtReturn
              /\ NoDoubleWrite /\ SemaphoreCounts /\ NeverBlocksWorker /\ EarlyExit

AlwaysReturns == <>Returned
Terminates == <>Terminal

(************************* refinement of layer A **************************)
ASt(j) == CASE wpc[j] \in {"none", "start"} -> "idle"
            [] wpc[j] = "inpp" -> "inpp"
            [] wpc[j] = "ppDone" -> IF ppres[j] = "ok" THEN "ppok" ELSE "ppfail"
            [] wpc[j] = "inwr" -> "inwr"
            [] OTHER -> IF ppres[j] = "fail" THEN "ppfail"
                        ELSE IF wres[j] = "ok" THEN "wrok" ELSE "wrfail"
A == INSTANCE PersistSpec WITH MaxJobs <- MaxN, withPP <- hasPP,
                               st <- [j \in Jobs |-> ASt(j)],
                               ret <- ret
Refines == A!ASpec
=============================================================================
