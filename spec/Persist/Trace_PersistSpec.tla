-------------------------- MODULE Trace_PersistSpec --------------------------
(***************************************************************************)
(* Trace validation for C19 against layer A.  Every line of traces.ndjson  *)
(* is one run of the real OnFinished:                                      *)
(*   [jobs |-> <<[path, content], ...>>, withpp |-> BOOLEAN,               *)
(*    ev   |-> the events observed through the public interfaces, in the   *)
(*            order of the harness' single mutex-protected log (a real     *)
(*            order: ppBegin/wBegin are logged inside the callback before  *)
(*            its work, ppEnd/wEnd inside it after its work, ret after the *)
(*            call has returned),                                          *)
(*    files |-> what the write callback has stored when all is over]       *)
(* A trace is accepted iff it is a behaviour of PersistSpec that ends      *)
(* returned, and the stored files are exactly the successfully written     *)
(* jobs, once each, own post-processed content under own path.             *)
(***************************************************************************)
EXTENDS PersistSpec, Sequences, TLC, Json

Traces == ndJsonDeserialize("traces.ndjson")

VARIABLES tr, l
tvars == <<n, withPP, st, ret, tr, l>>

T == Traces[tr]
Ev == T.ev[l]
PPStr(c) == IF withPP THEN "pp(" \o c \o ")" ELSE c
JobsAt(p) == {j \in AJobs : T.jobs[j].path = p}

TInit == /\ tr \in 1..Len(Traces)
         /\ l = 1
         /\ n = Len(Traces[tr].jobs)
         /\ withPP = Traces[tr].withpp
         /\ st = [j \in 1..Len(Traces[tr].jobs) |-> "idle"]
         /\ ret = "none"

TStep == /\ l <= Len(T.ev)
         /\ l' = l + 1 /\ tr' = tr
         /\ CASE Ev.e = "ppBegin" -> \E j \in JobsAt(Ev.path) : T.jobs[j].content = Ev.content /\ APPBegin(j)
              [] Ev.e = "ppEnd"   -> \E j \in JobsAt(Ev.path) : APPEnd(j, Ev.ok)
              [] Ev.e = "wBegin"  -> \E j \in JobsAt(Ev.path) : PPStr(T.jobs[j].content) = Ev.content /\ AWriteBegin(j)
              [] Ev.e = "wEnd"    -> \E j \in JobsAt(Ev.path) : AWriteEnd(j, Ev.ok)
              [] Ev.e = "ret"     -> AReturn(IF Ev.ok THEN "ok" ELSE "err")
              [] OTHER -> FALSE

TSpec == TInit /\ [][TStep]_tvars

FilesOK == /\ \A j \in AJobs : st[j] = "wrok" =>
                 \E f \in 1..Len(T.files) : T.files[f].path = T.jobs[j].path
           /\ \A f \in 1..Len(T.files) :
                 /\ \E j \in AJobs : /\ T.files[f].path = T.jobs[j].path /\ st[j] = "wrok"
                                     /\ T.files[f].contents = <<PPStr(T.jobs[j].content)>>
                 /\ \A g \in 1..Len(T.files) : T.files[g].path = T.files[f].path => g = f

Accepted == (l = Len(T.ev) + 1 /\ ret # "none" /\ FilesOK) => PrintT("ACC " \o ToString(tr))
Progress == PrintT("AT " \o ToString(tr) \o " " \o ToString(l))
=============================================================================
