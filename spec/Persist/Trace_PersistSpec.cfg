SPECIFICATION TSpec
CONSTANTS MaxJobs = 64
INVARIANTS Accepted AInvariants
CHECK_DEADLOCK FALSE
