SPECIFICATION Spec
CONSTANTS
  MaxN = 3
  MaxK = 2
  PPChoices = {TRUE, FALSE}
  AtomicDoneRelease = FALSE
INVARIANTS Invariants
PROPERTIES Refines AlwaysReturns Terminates
CHECK_DEADLOCK TRUE
