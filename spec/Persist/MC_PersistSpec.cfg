SPECIFICATION ASpec
CONSTANTS MaxJobs = 3
INVARIANTS AInvariants
CHECK_DEADLOCK FALSE
