SPECIFICATION TSpec
CONSTANTS MaxJobs = 64
INVARIANTS Accepted Progress
CHECK_DEADLOCK FALSE
