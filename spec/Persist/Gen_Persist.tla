----------------------------- MODULE Gen_Persist -----------------------------
(***************************************************************************)
(* Case generation for C19 (spec -> code).  The implementation-shaped      *)
(* model with a history variable: h is the schedule so far, one record per *)
(* action: which goroutine moved (0 = dispatcher, j = worker of job j),    *)
(* the gate it reached, and whether the dispatcher's select had both       *)
(* branches enabled in the state it was taken in (then the real outcome    *)
(* cannot be forced and either is accepted).                               *)
(*  - EmitTerminal: complete behaviours (-simulate, or BFS for tiny N)     *)
(*  - EmitState with VIEW View: one schedule prefix per reachable state    *)
(*    of the model (state cover); the harness forces the prefix and lets   *)
(*    the real code finish on its own.                                     *)
(***************************************************************************)
EXTENDS Persist, TLC, Json

VARIABLE h
gvars == <<vars, h>>

Mover == IF dpc' # dpc THEN 0 ELSE CHOOSE j \in Jobs : wpc'[j] # wpc[j]
Step == [g    |-> Mover,
         to   |-> IF dpc' # dpc THEN dpc' ELSE wpc'[Mover],
         both |-> (dpc = "select" /\ processing < k /\ errs # <<>>)]

GInit == Init /\ h = <<>>
GNext == Next /\ h' = Append(h, Step)
GSpec == GInit /\ [][GNext]_gvars
View == vars

FaultOf(j) == IF ppres[j] = "fail" THEN "pp" ELSE IF wres[j] = "fail" THEN "wr" ELSE "none"
Case == [n |-> n, k |-> k, withpp |-> hasPP, h |-> h, terminal |-> Terminal,
         ret |-> ret, got |-> got,
         fault |-> [j \in Jobs |-> FaultOf(j)],
         pp |-> [j \in Jobs |-> ppres[j]], wr |-> [j \in Jobs |-> wres[j]],
         files |-> [j \in Jobs |-> Len(files[j])],
         wpc |-> [j \in Jobs |-> wpc[j]], dpc |-> dpc,
         inflight |-> Cardinality({j \in Jobs : wpc[j] = "inwr"}),
         nerrs |-> Len(errs)]
EmitTerminal == Terminal => PrintT("CASE " \o ToJson(Case))
EmitState == PrintT("CASE " \o ToJson(Case))
=============================================================================
