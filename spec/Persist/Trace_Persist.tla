---------------------------- MODULE Trace_Persist ----------------------------
(***************************************************************************)
(* Trace validation for C19 against layer B (conformance of the            *)
(* implementation-shaped model, code -> spec).  A line of traces.ndjson:   *)
(*   [n, k, withpp, fault |-> <<"none"|"pp"|"wr", ...>>,                   *)
(*    d |-> gates reached by the dispatcher, in its own order,             *)
(*    w |-> <<gates reached by worker 1 in its own order, ...>>,           *)
(*    ret |-> "ok"|"err", got |-> job whose error was returned]            *)
(* Only the per-goroutine order is used; the interleaving of the           *)
(* goroutines is NOT taken from the log: TLC searches for one that is a    *)
(* behaviour of Persist (fine grain: wg.Done and the release are separate  *)
(* steps, the state between them, "rel", is not a trace point).            *)
(***************************************************************************)
EXTENDS Persist, TLC, Json

Traces == ndJsonDeserialize("traces.ndjson")

VARIABLES tr, di, wi
tvars == <<vars, tr, di, wi>>
T == Traces[tr]

TInit == /\ tr \in 1..Len(Traces)
         /\ n = Traces[tr].n /\ k = Traces[tr].k /\ hasPP = Traces[tr].withpp
         /\ Init
         /\ Len(Traces[tr].d) >= 1 /\ Traces[tr].d[1] = dpc
         /\ di = 2
         /\ wi = [j \in 1..Traces[tr].n |-> 1]

NextW(j) == IF wi[j] <= Len(T.w[j]) THEN T.w[j][wi[j]] ELSE "-"

TNext == /\ Next
         /\ tr' = tr
         /\ IF dpc' # dpc
              THEN /\ di <= Len(T.d) /\ T.d[di] = dpc' /\ di' = di + 1
                   /\ IF dpc = "spawn"     \* the go statement: worker i is at its first gate
                        THEN NextW(i) = "start" /\ wi' = [wi EXCEPT ![i] = @ + 1]
                        ELSE wi' = wi
              ELSE /\ di' = di
                   /\ \E j \in Jobs : /\ wpc'[j] # wpc[j]
                                      /\ IF wpc'[j] = "rel" THEN wi' = wi
                                         ELSE NextW(j) = wpc'[j] /\ wi' = [wi EXCEPT ![j] = @ + 1]
         \* the injected faults are a function of the job and the step
         /\ \A j \in Jobs : /\ ppres'[j] # "none" => (ppres'[j] = "fail") = (T.fault[j] = "pp")
                            /\ wres'[j] # "none" => (wres'[j] = "fail") = (T.fault[j] = "wr")
         /\ ret' # "none" => ret' = T.ret /\ (ret' = "err" => got' = T.got)

TSpec == TInit /\ [][TNext]_tvars

Consumed == di = Len(T.d) + 1 /\ \A j \in Jobs : wi[j] = Len(T.w[j]) + 1
Accepted == (Consumed /\ dpc = "returned") => PrintT("ACC " \o ToString(tr))
=============================================================================
