------------------------------ MODULE TrimImpl ------------------------------
(***************************************************************************)
(* Layer B: transcription of the trimmer's algorithm (tool/trimmer/trim):  *)
(* markAST = preProcess (markKeptPart on every file of the include tree,   *)
(* marking the includes that lead to a file with kept parts) + markService *)
(* for every service of the root file + cleanServiceExtends; markService / *)
(* markFunction / markType / markStructLike / markTypeDef / markInclude;   *)
(* traceExtendMethod for `-m`; traversal (sweep) with the include-list     *)
(* filter.  The marks are one set per run (the trimmer keys them by root   *)
(* file name): mk = definitions, mf = functions, mi = include edges.       *)
(* kc = keptPartCache, es = extServices (services whose `extends` is       *)
(* cleared).  It is NOT the oracle: TLC checks B => A on the universe and  *)
(* a disagreement is a candidate that only counts when the real code shows *)
(* the same behaviour.                                                      *)
(***************************************************************************)
EXTENDS Trim

RECURSIVE SortedSeq(_)
SortedSeq(S) == IF S = {} THEN <<>>
                ELSE LET m == CHOOSE x \in S : \A y \in S : x <= y IN <<m>> \o SortedSeq(S \ {m})
InFile(I, f, K) == SortedSeq({d \in I.alive : I.G.defs[d].k \in K /\ I.G.defs[d].f = f})

\* Repairs of the pinned algorithm that a tree under test may carry (the check probes the tree and sets this):
\*   "localbase": markService also follows a base service of the same file
\*   "extinc":    markService does not mark the include of a base service whose `extends` is being cleared
\*   "traceprefix": traceExtendMethod refuses names that merely start with the pattern text, like markService
CONSTANT Fixes

\* the context of one run: program, arguments, patterns as the code reads them (an unqualified name gets the
\* name of the only / the LAST service of the root file: trimmer.go doTrimAST)
LastRootSvc(I) == CHOOSE s \in I.roots : \A s2 \in I.roots : s2 <= s
CodePats(I, pats) ==
  IF I.roots = {} THEN {}
  ELSE {IF pats[i].q = "unq" THEN [q |-> "exact", s |-> LastRootSvc(I), f |-> pats[i].f] ELSE pats[i] : i \in DOMAIN pats}
Ctx(I, Ar) == [I |-> I, G |-> I.G, Ar |-> Ar, force |-> Ar.preserve = "off", filt |-> Len(Ar.pats) > 0,
               P |-> CodePats(I, Ar.pats)]

St0(I) == [mk |-> {}, mf |-> {}, mi |-> {}, kc |-> [f \in I.files |-> 2], es |-> {}]
MarkDef(st, d) == [st EXCEPT !.mk = @ \cup {d}]
MarkInc(st, f, g) == [st EXCEPT !.mi = @ \cup {<<f, g>>}]

\* checkPreserve (preserved files are outside the model)
CheckPres(C, d) == /\ ~C.force
                   /\ \/ d \in Range(C.Ar.plist)
                      \/ (~C.Ar.nocomment /\ C.G.defs[d].pres = "c")

\* how the code decides that pattern p selects function fn addressed as <service s>.<fn>:
\* markService: regexp search, but a name that has the pattern text as a proper prefix is refused
\*              (`funcName == method.String() || !strings.HasPrefix(funcName, method.String())`)
\* traceExtendMethod: regexp search only
CodeMatchSvc(p, s, fn) == Match(p, s, fn) \/ (p.q = "anysvc" /\ fn.pre # "" /\ p.f = fn.pre)
CodeMatchTrace(p, s, fn) == IF "traceprefix" \in Fixes THEN CodeMatchSvc(p, s, fn) ELSE MatchMay(p, s, fn)

RECURSIVE BType(_, _, _, _), BTypes(_, _, _, _, _), BSL(_, _, _), BTd(_, _, _)
\* markType(theType, ast = file f)
BType(C, st, t, f) ==
  CASE t.n = "b" -> st                                       \* Category <= 8 && IsTypedef == nil
    [] t.n \in {"l", "s"} -> BType(C, st, t.v, f)            \* ValueType
    [] t.n = "m" -> BType(C, BType(C, st, t.k, f), t.v, f)   \* KeyType, ValueType
    [] t.n = "r" ->
       LET d   == t.d
           g   == C.G.defs[d].f
           k   == C.G.defs[d].k
           st1 == IF g # f THEN MarkInc(st, f, g) ELSE st    \* Reference != nil: markInclude, baseAST = included
       IN IF k = "typedef"
          THEN (IF g # f THEN st1                            \* markTypeDef compares Alias with "g.T": never equal
                ELSE BTd(C, st1, d))
          ELSE IF k \in SLKinds THEN BSL(C, st1, d)
          ELSE IF k = "enum" THEN MarkDef(st1, d)
          ELSE st1
BTypes(C, st, ts, i, f) == IF i > Len(ts) THEN st ELSE BTypes(C, BType(C, st, ts[i], f), ts, i + 1, f)
\* markStructLike
BSL(C, st, d) == IF d \in st.mk THEN st ELSE BTypes(C, MarkDef(st, d), C.G.defs[d].ty, 1, C.G.defs[d].f)
\* markTypeDef (found locally)
BTd(C, st, d) == IF d \in st.mk THEN st ELSE BTypes(C, MarkDef(st, d), C.G.defs[d].ty, 1, C.G.defs[d].f)

\* markFunction
BFn(C, st, s, i) ==
  LET fn == C.G.defs[s].fns[i]
      f  == C.G.defs[s].f
      s0 == [st EXCEPT !.mf = @ \cup {<<s, fn.name>>}]
  IN BTypes(C, BTypes(C, BTypes(C, s0, fn.a, 1, f), fn.t, 1, f), fn.r, 1, f)

\* markKeptPart(ast = file f): [st, ret]
RECURSIVE BPresLoop(_, _, _, _, _), BDefTypes(_, _, _, _)
BDefTypes(C, st, ds, i) == IF i > Len(ds) THEN st
                           ELSE BDefTypes(C, BTypes(C, st, C.G.defs[ds[i]].ty, 1, C.G.defs[ds[i]].f), ds, i + 1)
BPresLoop(C, st, sls, i, ret) ==
  IF i > Len(sls) THEN [st |-> st, ret |-> ret]
  ELSE IF sls[i] \notin st.mk /\ CheckPres(C, sls[i])
       THEN BPresLoop(C, BSL(C, st, sls[i]), sls, i + 1, TRUE)
       ELSE BPresLoop(C, st, sls, i + 1, ret)
BKept(C, st, f) ==
  IF st.kc[f] # 2 THEN [st |-> st, ret |-> st.kc[f] = 1]
  ELSE LET cs  == C.I.byfile[f].consts
           tds == C.I.byfile[f].typedefs
           st2 == BDefTypes(C, BDefTypes(C, st, cs, 1), tds, 1)
           sls == C.I.byfile[f].sls
           r   == IF C.force THEN [st |-> st2, ret |-> Len(cs) + Len(tds) > 0]
                  ELSE BPresLoop(C, st2, sls, 1, Len(cs) + Len(tds) > 0)
       IN [st |-> [r.st EXCEPT !.kc[f] = IF r.ret THEN 1 ELSE 0], ret |-> r.ret]

\* preProcess(ast = file f): [st, ret]
RECURSIVE BPre(_, _, _), BPreLoop(_, _, _, _, _)
BPre(C, st, f) == LET r == BKept(C, st, f) IN BPreLoop(C, r.st, f, 1, r.ret)
BPreLoop(C, st, f, k, ret) ==
  IF k > Len(C.G.inc[f]) THEN [st |-> st, ret |-> ret]
  ELSE LET g == C.G.inc[f][k]
           r == BPre(C, st, g)
       IN IF r.ret THEN BPreLoop(C, MarkInc(r.st, f, g), f, k + 1, TRUE)
          ELSE BPreLoop(C, r.st, f, k + 1, ret)

\* traceExtendMethod(fathers, svc): [st, ret]
RECURSIVE BTrace(_, _, _, _), BTraceFns(_, _, _, _, _, _)
BTraceFns(C, st, fathers, s, i, ret) ==
  IF i > Len(C.G.defs[s].fns) THEN [st |-> st, ret |-> ret]
  ELSE IF \E fa \in Range(fathers), p \in C.P : CodeMatchTrace(p, fa, C.G.defs[s].fns[i])
       THEN BTraceFns(C, BFn(C, MarkDef(st, s), s, i), fathers, s, i + 1, TRUE)
       ELSE BTraceFns(C, st, fathers, s, i + 1, ret)
BTrace(C, st, fathers, s) ==
  LET r1 == BTraceFns(C, st, fathers, s, 1, FALSE)
      b  == C.G.defs[s].ext
      r2 == IF b = 0 THEN r1
            ELSE LET back == BTrace(C, r1.st, Append(fathers, b), b)
                 IN [st  |-> IF back.ret THEN back.st ELSE [back.st EXCEPT !.es = @ \cup {s}],  \* markServiceExtends
                     ret |-> back.ret \/ r1.ret]
  IN IF r2.ret
     THEN [st  |-> IF b # 0 /\ FileOf(C.I, b) # FileOf(C.I, s) /\ ("extinc" \in Fixes => s \notin r2.st.es)
                   THEN MarkInc(MarkDef(r2.st, s), FileOf(C.I, s), FileOf(C.I, b)) ELSE MarkDef(r2.st, s),
           ret |-> TRUE]
     ELSE r2

\* markService
RECURSIVE BSvc(_, _, _), BSvcFns(_, _, _, _)
BSvcFns(C, st, s, i) ==
  IF i > Len(C.G.defs[s].fns) THEN st
  ELSE IF ~C.filt THEN BSvcFns(C, BFn(C, st, s, i), s, i + 1)
       ELSE IF \E p \in C.P : CodeMatchSvc(p, s, C.G.defs[s].fns[i])
            THEN BSvcFns(C, BFn(C, MarkDef(st, s), s, i), s, i + 1)
            ELSE BSvcFns(C, st, s, i + 1)
BSvc(C, st, s) ==
  IF s \in st.mk THEN st
  ELSE LET b   == C.G.defs[s].ext
           st1 == IF ~C.filt THEN MarkDef(st, s) ELSE st
           st2 == BSvcFns(C, st1, s, 1)
           st3 == IF C.filt /\ b # 0 THEN BTrace(C, st2, <<s>>, s).st ELSE st2
       IN IF b # 0 /\ s \in st3.mk /\ ("extinc" \in Fixes => s \notin st3.es)
          THEN IF FileOf(C.I, b) # FileOf(C.I, s)                        \* svc.Reference != nil
               THEN BSvc(C, MarkInc(st3, FileOf(C.I, s), FileOf(C.I, b)), b)
               ELSE IF "localbase" \in Fixes THEN BSvc(C, st3, b)
                    ELSE st3                                            \* a local base is not followed here
          ELSE st3

RECURSIVE BSvcs(_, _, _, _)
BSvcs(C, st, ss, i) == IF i > Len(ss) THEN st ELSE BSvcs(C, BSvc(C, st, ss[i]), ss, i + 1)
\* markAST
BMarks(C) == BSvcs(C, BPre(C, St0(C.I), 1).st, C.I.byfile[1].svcs, 1)

\* traversal + the state the re-resolution leaves
BSweep(C, st) ==
  LET G == C.G  I == C.I
      contrib == {FileOf(I, d) : d \in I.cte}
      incKept == {e \in I.ainc : e \in st.mi \/ e[2] \in contrib}
      surv == FileReach(incKept, {1})
      kept == {d \in I.alive : /\ FileOf(I, d) \in surv
                               /\ \/ G.defs[d].k \in {"const", "typedef", "enum"}
                                  \/ G.defs[d].k \in SLKinds /\ (d \in st.mk \/ CheckPres(C, d))
                                  \/ G.defs[d].k = "service" /\ d \in st.mk}
      R0 == [kept |-> kept,
             fns  |-> {sf \in I.fns : sf[1] \in kept /\ (C.filt => sf \in st.mf)},
             inc  |-> {e \in incKept : e[1] \in surv},
             ext  |-> {s \in kept \cap I.svcs : G.defs[s].ext # 0 /\ s \notin st.es}]
  IN [kept |-> R0.kept, fns |-> R0.fns, inc |-> R0.inc, ext |-> R0.ext, ok |-> WellFormed(I, R0)]

BTrim(I, Ar) == LET C == Ctx(I, Ar) IN BSweep(C, BMarks(C))

\* the program a result leaves behind (same numbering; removed definitions become "dead")
Apply(G, R) ==
  [inc  |-> [f \in 1..Len(G.inc) |-> LET keep(g) == <<f, g>> \in R.inc IN SelectSeq(G.inc[f], keep)],
   defs |-> [d \in 1..Len(G.defs) |->
               IF d \notin R.kept THEN [G.defs[d] EXCEPT !.k = "dead"]
               ELSE IF G.defs[d].k = "service"
                    THEN LET keepf(fn) == <<d, fn.name>> \in R.fns
                         IN [G.defs[d] EXCEPT !.fns = SelectSeq(@, keepf), !.ext = IF d \in R.ext THEN @ ELSE 0]
                    ELSE G.defs[d]]]

BResult(I, Ar) ==
  LET r1 == BTrim(I, Ar)
      r2 == BTrim(Info(Apply(I.G, r1)), Ar)
  IN [kept |-> r1.kept, fns |-> r1.fns, inc |-> r1.inc, ext |-> r1.ext, ok |-> r1.ok, same |-> TRUE,
      idem |-> (~r1.ok) \/ (r2.kept = r1.kept /\ r2.fns = r1.fns /\ r2.inc = r1.inc /\ r2.ext = r1.ext)]
=============================================================================
