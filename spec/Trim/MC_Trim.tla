------------------------------- MODULE MC_Trim -------------------------------
(***************************************************************************)
(* The bounded universe of C16 and the design-level check B => A.          *)
(*                                                                         *)
(* A program is built in stages (each stage is one TLC step, so that the   *)
(* work fans out over all workers):                                        *)
(*   root -> include topology x service layout -> filler definitions of    *)
(*   the included files (nothing / enum / constant / constant used by a    *)
(*   root constant / typedef of a base type) -> up to MaxSlots "slots".    *)
(* A slot is one struct-like (or enum) X placed in some file and used      *)
(* through exactly one edge kind, or not at all:                           *)
(*   user  a function of a service (argument / result / throws), a field   *)
(*         of an earlier slot or of itself, a constant, or nobody          *)
(*   w     directly, list / set element, map key, map value, nested list   *)
(*   via   directly, through a typedef in the user's file (of the wrapped  *)
(*         type), a typedef in X's file, a typedef in a file in between    *)
(*   f     the file of X (the user's file or one it includes directly)     *)
(*   k     struct / union / exception / enum;  pres: `@preserve` comment   *)
(* For every finished program the action Evaluate evaluates every argument *)
(* set of ArgMenu (method patterns, preserve on / off, comment switch,     *)
(* preserved-struct list, the same through trim_config.yaml): layer B's    *)
(* result, B => A (flag bok), satisfiability of A (flag asat); the         *)
(* invariant Emit prints the program with its cases.                        *)
(***************************************************************************)
EXTENDS TrimImpl, Json

CONSTANTS Universes   \* sequence of [topos, lays, fills, maxslots, menus, argsel]; and Fixes of TrimImpl

VARIABLES stage, g, out
vars == <<stage, g, out>>
\* g = [u (universe number), G, sl (definition numbers of the slots' X), topo, lay, fill, slots (descriptors)]

Topo(n) == CASE n = "one"   -> << <<>> >>
             [] n = "two"   -> << <<2>>, <<>> >>
             [] n = "chain" -> << <<2>>, <<3>>, <<>> >>
             [] n = "fork"  -> << <<2, 3>>, <<>>, <<>> >>
             [] n = "dia"   -> << <<2, 3>>, <<3>>, <<>> >>
             [] n = "dia4"  -> << <<2, 3>>, <<4>>, <<4>>, <<>> >>
             \* an intermediate file with several includes: dropping an early one renumbers the later ones while
             \* the root file may lose nothing at all
             [] n = "mid"   -> << <<2>>, <<3, 4>>, <<>>, <<>> >>
             [] n = "mid3"  -> << <<2>>, <<3, 4, 5>>, <<>>, <<>>, <<>> >>

Fn(name, grp) == [name |-> name, g |-> grp, pre |-> "", a |-> <<>>, r |-> <<>>, t |-> <<>>]
FnX(name, grp, pre) == [Fn(name, grp) EXCEPT !.pre = pre]
M1X == <<Fn("m1", "m"), FnX("m1x", "m", "m1")>>      \* a name that extends another name
P1X == <<Fn("p1", "p"), FnX("p1x", "p", "p1")>>
Def(k, f, ty) == [k |-> k, f |-> f, ty |-> ty, cv |-> <<>>, pres |-> "n", ext |-> 0, fns |-> <<>>]
Svc(f, ext, fns) == [Def("service", f, <<>>) EXCEPT !.ext = ext, !.fns = fns]
M12 == <<Fn("m1", "m"), Fn("m2", "m")>>
P12 == <<Fn("p1", "p"), Fn("p2", "p")>>

\* service layouts for include lists inc: sets of [name, svcs]
Layouts(inc) ==
  LET d1 == Range(inc[1]) IN
     {[name |-> "none", svcs |-> <<>>]}
  \cup {[name |-> "S", svcs |-> <<Svc(1, 0, M12)>>]}
  \cup {[name |-> "SS", svcs |-> <<Svc(1, 0, M12), Svc(1, 0, <<Fn("m1", "m"), Fn("q1", "q")>>)>>]}
  \cup {[name |-> "SB", svcs |-> <<Svc(1, 2, M12), Svc(fb, 0, P12)>>] : fb \in {1} \cup d1}
  \cup {[name |-> "BS", svcs |-> <<Svc(1, 0, P12), Svc(1, 1, M12)>>]}
  \cup {[name |-> "SBB", svcs |-> <<Svc(1, 2, M12), Svc(e[1], 3, P12), Svc(e[2], 0, <<Fn("r1", "r")>>)>>] :
          e \in {e \in ({1} \cup d1) \X (1..Len(inc)) : e[2] = e[1] \/ e[2] \in Range(inc[e[1]])}}
  \cup {[name |-> "SSB", svcs |-> <<Svc(1, 3, M12), Svc(1, 3, <<Fn("q1", "q")>>), Svc(fb, 0, P12)>>] : fb \in {1} \cup d1}
  \cup {[name |-> "inc", svcs |-> <<Svc(fb, 0, M12)>>] : fb \in d1}
  \cup {[name |-> "Sx", svcs |-> <<Svc(1, 0, M1X)>>]}
  \cup {[name |-> "SBx", svcs |-> <<Svc(1, 2, M1X), Svc(fb, 0, P1X)>>] : fb \in {1} \cup d1}

\* fillers: one letter per included file
FillDefs(inc, fl, base) ==
  LET RECURSIVE F(_, _)
      F(f, acc) ==
        IF f > Len(inc) THEN acc
        ELSE LET c == fl[f - 1] IN
             F(f + 1, CASE c = "n" -> acc
                        [] c = "e" -> Append(acc, Def("enum", f, <<>>))
                        [] c = "c" -> Append(acc, Def("const", f, <<[n |-> "b"]>>))
                        [] c = "t" -> Append(acc, Def("typedef", f, <<[n |-> "b"]>>))
                        [] c = "r" -> Append(Append(acc, Def("const", f, <<[n |-> "b"]>>)),
                                             [Def("const", 1, <<[n |-> "b"]>>) EXCEPT !.cv = <<base + Len(acc) + 1>>]))
  IN F(2, <<>>)
FillOK(inc, fl) == \A f \in 2..Len(inc) : fl[f - 1] = "r" => f \in Range(inc[1])

\* ------------------------------------------------------------------ slots
Services(G) == {d \in 1..Len(G.defs) : G.defs[d].k = "service"}
StructLikes(G) == {d \in 1..Len(G.defs) : G.defs[d].k \in SLKinds}
RootSvcs(G) == {s \in Services(G) : G.defs[s].f = 1}
Files(G) == 1..Len(G.inc)
RECURSIVE GAnc(_, _)
GAnc(G, s) == IF G.defs[s].ext = 0 THEN {s} ELSE {s} \cup GAnc(G, G.defs[s].ext)
Ref(d) == [n |-> "r", d |-> d]
Base == [n |-> "b"]
Wrap(w, t) == CASE w = "d"  -> t
                [] w = "l"  -> [n |-> "l", v |-> t]
                [] w = "s"  -> [n |-> "s", v |-> t]
                [] w = "mk" -> [n |-> "m", k |-> t, v |-> Base]
                [] w = "mv" -> [n |-> "m", k |-> Base, v |-> t]
                [] w = "ll" -> [n |-> "l", v |-> [n |-> "l", v |-> t]]

Usr(c, s, i, pos, j, uf) == [c |-> c, s |-> s, i |-> i, pos |-> pos, j |-> j, uf |-> uf]
Slot(u, w, via, f, k, pres) == [u |-> u, w |-> w, via |-> via, f |-> f, k |-> k, pres |-> pres, dv |-> FALSE]
\* constants of files that file f includes directly (targets of a default value `= g.C`)
ConstsBelow(G, f) == {c \in 1..Len(G.defs) : G.defs[c].k = "const" /\ G.defs[c].f \in Range(G.inc[f]) /\ G.defs[c].cv = <<>>
                                              /\ G.defs[c].ty = <<[n |-> "b"]>>}

\* the file the user of slot sl (the n-th slot) is in
UserFile(st, n, sl) == CASE sl.u.c = "fn" -> st.G.defs[sl.u.s].f
                         [] sl.u.c = "fld" -> IF sl.u.j = n THEN sl.f ELSE st.G.defs[st.sl[sl.u.j]].f
                         [] OTHER -> sl.u.uf
Mid(G, uf, f) == {m \in Range(G.inc[uf]) : f \in Range(G.inc[m])}

SlotOK(st, n, sl) ==
  LET G == st.G  uf == UserFile(st, n, sl) IN
  /\ sl.f \in 1..Len(G.inc)
  /\ IF sl.via = "tm" THEN Mid(G, uf, sl.f) # {} ELSE (sl.f = uf \/ sl.f \in Range(G.inc[uf]))
  /\ sl.u.c = "fn" => /\ sl.u.s \in Services(G) /\ sl.u.i \in DOMAIN G.defs[sl.u.s].fns
                      /\ sl.u.pos = "r" => G.defs[sl.u.s].fns[sl.u.i].r = <<>>
                      /\ sl.u.pos = "t" <=> sl.k = "exception"
                      /\ sl.u.pos = "t" => (sl.w = "d" /\ sl.via = "d")
  /\ sl.u.c = "fld" => /\ sl.u.j \in 1..n /\ sl.k # "exception"
                       /\ sl.u.j < n => G.defs[st.sl[sl.u.j]].k \in SLKinds
                       /\ sl.u.j = n => (sl.k \in {"struct", "union"} /\ sl.via = "d")
  /\ sl.u.c = "const" => /\ sl.k \in {"struct", "enum"} /\ sl.w \in {"d", "l", "mv"} /\ sl.u.uf \in Files(G)
                         /\ sl.k = "enum" => sl.w = "d"
  /\ sl.dv => (sl.k \in SLKinds /\ ConstsBelow(G, sl.f) # {})
  /\ sl.u.c = "none" => /\ sl.w = "d" /\ sl.u.uf \in Files(G)
                        /\ sl.via = "d" => sl.u.uf = sl.f
                        /\ sl.via = "tr" => sl.u.uf = sl.f
  /\ sl.k = "enum" => sl.pres = "n"
  /\ sl.k = "exception" /\ sl.u.c # "fn" => sl.u.c = "none"
  /\ (sl.w = "mk" /\ sl.k # "enum") => sl.via # "d"    \* a struct as a map key only through a typedef name

AddSlot(st, sl) ==
  LET G   == st.G
      n   == Len(st.sl) + 1
      uf  == UserFile(st, n, sl)
      x   == Len(G.defs) + 1
      t   == x + 1
      tdf == CASE sl.via = "tl" -> uf [] sl.via = "tr" -> sl.f
               [] sl.via = "tm" -> CHOOSE m \in Mid(G, uf, sl.f) : \A m2 \in Mid(G, uf, sl.f) : m <= m2
               [] OTHER -> 0
      uty == CASE sl.via = "d"  -> Wrap(sl.w, Ref(x))
               [] sl.via = "tl" -> Ref(t)
               [] OTHER         -> Wrap(sl.w, Ref(t))
      tty == IF sl.via = "tl" THEN Wrap(sl.w, Ref(x)) ELSE Ref(x)
      xd  == [Def(sl.k, sl.f, IF sl.u.c = "fld" /\ sl.u.j = n THEN <<uty>> ELSE <<>>) EXCEPT
                 !.pres = sl.pres,
                 !.cv = IF sl.dv THEN <<CHOOSE c \in ConstsBelow(G, sl.f) : \A c2 \in ConstsBelow(G, sl.f) : c <= c2>> ELSE <<>>]
      d1  == Append(G.defs, xd)
      d2  == IF sl.via = "d" THEN d1 ELSE Append(d1, Def("typedef", tdf, <<tty>>))
      d3  == CASE sl.u.c = "fn" ->
                    [d2 EXCEPT ![sl.u.s].fns[sl.u.i] =
                        CASE sl.u.pos = "a" -> [@ EXCEPT !.a = Append(@, uty)]
                          [] sl.u.pos = "r" -> [@ EXCEPT !.r = Append(@, uty)]
                          [] sl.u.pos = "t" -> [@ EXCEPT !.t = Append(@, uty)]]
               [] sl.u.c = "fld" /\ sl.u.j < n -> [d2 EXCEPT ![st.sl[sl.u.j]].ty = Append(@, uty)]
               [] sl.u.c = "const" -> Append(d2, Def("const", uf, <<uty>>))
               [] OTHER -> d2
  IN [st EXCEPT !.G.defs = d3, !.sl = Append(@, x), !.slots = Append(@, sl)]

FnUsers(G, poss) == UNION {{Usr("fn", s, i, p, 0, 0) : i \in DOMAIN G.defs[s].fns, p \in poss} : s \in Services(G)}
FirstFn(G) == IF Services(G) = {} THEN {} ELSE {Usr("fn", CHOOSE s \in Services(G) : \A s2 \in Services(G) : s <= s2, 1, "a", 0, 0)}
Prod(us, ws, vias, fs, ks, ps) == {Slot(u, w, v, f, k, p) : u \in us, w \in ws, v \in vias, f \in fs, k \in ks, p \in ps}
AllW == {"d", "l", "s", "mk", "mv", "ll"}
AllVia == {"d", "tl", "tr", "tm"}

\* named menus: candidate slots for the n-th slot (filtered by SlotOK)
Menu(name, st, n) ==
  LET G == st.G  F == Files(G)
      none == {Usr("none", 0, 0, "", 0, f) : f \in F}
      cst  == {Usr("const", 0, 0, "", 0, f) : f \in F}
      prev == {Usr("fld", 0, 0, "", j, 0) : j \in 1..(n - 1)}
      self == {Usr("fld", 0, 0, "", n, 0)}
  IN CASE name = "edges" ->   \* every function position of every service, every kind, placed everywhere
            Prod(FnUsers(G, {"a", "r", "t"}), {"d"}, {"d"}, F, {"struct", "union", "exception", "enum"}, {"n"})
       [] name = "shapes" ->  \* wrap x via x file for one argument
            Prod(FirstFn(G), AllW, AllVia, F, {"struct"}, {"n"})
       [] name = "kinds" ->   \* kind x via x file
            Prod(FirstFn(G), {"d", "l"}, {"d", "tr"}, F, {"union", "enum"}, {"n"})
       [] name = "loose" ->   \* not used by a function: nobody / constant / self, preserved or not
            Prod(none, {"d"}, AllVia, F, {"struct", "union", "exception"}, {"n", "c"})
            \cup Prod(cst, {"d", "l", "mv"}, {"d", "tr"}, F, {"struct", "enum"}, {"n"})
            \cup Prod(self, {"d", "l", "mv"}, {"d"}, F, {"struct"}, {"n", "c"})
       [] name = "child" ->   \* field of an earlier slot
            Prod(prev, {"d", "l", "mk", "mv"}, AllVia, F, {"struct", "union", "enum"}, {"n"})
       [] name = "childs" ->  \* small version
            Prod(prev, {"d", "mv"}, {"d", "tr"}, F, {"struct"}, {"n"})
       [] name = "loose2" ->
            Prod(none, {"d"}, {"d", "tl"}, F, {"struct"}, {"n", "c"})
       [] name = "parents" -> \* something a second slot can hang below
            Prod(FirstFn(G) \cup none, {"d"}, {"d", "tr"}, F, {"struct", "union"}, {"n"})
       [] name = "dflt" ->    \* a struct-like with a field whose default value is a constant of an included file
            {[sl EXCEPT !.dv = TRUE] : sl \in Prod(FirstFn(G) \cup none, {"d"}, {"d"}, F, {"struct", "union"}, {"n", "c"})}
       [] name = "fn1" ->     \* one plain argument of the first function of every service
            Prod({u \in FnUsers(G, {"a"}) : u.i = 1}, {"d"}, {"d"}, F, {"struct"}, {"n"})
       [] name = "fns" ->
            Prod(FnUsers(G, {"a", "r"}), {"d"}, {"d", "tr"}, F, {"struct"}, {"n"})

SlotChoices(st) ==
  LET n == Len(st.sl) + 1 IN
  {sl \in UNION {Menu(m, st, n) : m \in Universes[st.u].menus[n]} : SlotOK(st, n, sl)}

\* ------------------------------------------------------------------ arguments
Pat(q, s, f) == [q |-> q, s |-> s, f |-> f]
Arg(pats, pr, nc, pl, y) == [pats |-> pats, preserve |-> pr, nocomment |-> nc, plist |-> pl, yaml |-> y]
NoPat == <<>>

FnNames(G, x) == {G.defs[x].fns[i].name : i \in DOMAIN G.defs[x].fns}
\* <<derived or base service, base service>> pairs below a root service
BasePairs(G) == UNION {{<<r, x>> : x \in GAnc(G, r) \ {r}} : r \in RootSvcs(G)}
PatMenu(G) ==
  LET R == RootSvcs(G)  BP == BasePairs(G) IN
  {NoPat}
  \cup UNION {{<<Pat("exact", x, n)>> : n \in FnNames(G, x)} : x \in R}
  \cup UNION {{<<Pat("exact", e[1], n)>> : n \in FnNames(G, e[2])} : e \in BP}     \* inherited method, derived name
  \cup UNION {{<<Pat("exact", e[2], n)>> : n \in FnNames(G, e[2])} : e \in BP}     \* the base service's own name
  \cup {<<Pat("svcall", r, "")>> : r \in R}
  \cup {<<Pat("prefix", r, G.defs[r].fns[1].g)>> : r \in R}
  \cup {<<Pat("unq", 0, G.defs[r].fns[1].name)>> : r \in R}
  \cup {<<Pat("unq", 0, G.defs[r].fns[2].name)>> : r \in {r \in R : Len(G.defs[r].fns) > 1}}
  \cup {<<Pat("anysvc", 0, "m1")>> : r \in R}
  \cup {<<Pat("exact", r, "zz")>> : r \in R}
  \cup {<<Pat("exact", e[1], G.defs[e[1]].fns[Len(G.defs[e[1]].fns)].name), Pat("exact", e[1], G.defs[e[2]].fns[1].name)>> : e \in BP}

ArgMenu(G) ==
  LET SL == StructLikes(G)
      hasC == \E d \in SL : G.defs[d].pres = "c"
      pl == {<<d>> : d \in SL}
      r1 == IF RootSvcs(G) = {} THEN {} ELSE
            LET r == CHOOSE r \in RootSvcs(G) : TRUE IN {<<Pat("exact", r, G.defs[r].fns[1].name)>>}
  IN {Arg(p, "unset", FALSE, <<>>, FALSE) : p \in PatMenu(G)}
     \cup (IF SL = {} THEN {} ELSE
           {Arg(NoPat, "off", FALSE, <<>>, FALSE), Arg(NoPat, "on", FALSE, <<>>, FALSE),
            Arg(NoPat, "off", FALSE, <<>>, TRUE)}
           \cup {Arg(NoPat, "unset", FALSE, l, y) : l \in pl, y \in {FALSE, TRUE}}
           \cup {Arg(NoPat, "off", FALSE, l, FALSE) : l \in pl}
           \cup {Arg(p, "off", FALSE, <<>>, FALSE) : p \in r1}
           \cup {Arg(p, "unset", FALSE, l, FALSE) : p \in r1, l \in pl}
           \cup {Arg(p, "unset", FALSE, <<>>, TRUE) : p \in r1})
     \cup (IF hasC THEN {Arg(NoPat, "unset", TRUE, <<>>, FALSE), Arg(NoPat, "unset", TRUE, <<>>, TRUE)} ELSE {})

\* ArgSel = "all": the whole menu; "few": no filter, the functions of the first root service one at a time,
\* preserve off, one preserved-struct list, the comment switch
Args(G, argsel) ==
  IF argsel = "all" THEN ArgMenu(G)
  ELSE LET R == RootSvcs(G)
           r == CHOOSE x \in R : \A y \in R : x <= y
           SL == StructLikes(G)
           d == CHOOSE x \in SL : \A y \in SL : x <= y
       IN {Arg(NoPat, "unset", FALSE, <<>>, FALSE)}
          \cup (IF R = {} THEN {} ELSE {Arg(<<Pat("exact", r, n)>>, "unset", FALSE, <<>>, FALSE) : n \in FnNames(G, r)})
          \cup (IF SL = {} THEN {} ELSE {Arg(NoPat, "off", FALSE, <<>>, FALSE), Arg(NoPat, "unset", FALSE, <<d>>, FALSE)})
          \cup (IF \E x \in SL : G.defs[x].pres = "c" THEN {Arg(NoPat, "unset", TRUE, <<>>, FALSE)} ELSE {})

\* ------------------------------------------------------------------ the state machine
Init == stage = "root" /\ out = <<>> /\ g = [u |-> 0, G |-> [inc |-> <<<<>>>>, defs |-> <<>>], sl |-> <<>>, topo |-> "", lay |-> "", fill |-> <<>>, slots |-> <<>>]

PickTopoLay ==
  /\ stage = "root"
  /\ \E u \in DOMAIN Universes : \E tp \in Universes[u].topos :
     \E ly \in {l \in Layouts(Topo(tp)) : l.name \in Universes[u].lays} :
       /\ g' = [g EXCEPT !.u = u, !.G = [inc |-> Topo(tp), defs |-> ly.svcs], !.topo = tp, !.lay = ly.name]
       /\ stage' = "lay" /\ UNCHANGED out

PickFill ==
  /\ stage = "lay"
  /\ \E fl \in [1..(Len(g.G.inc) - 1) -> Universes[g.u].fills] :
       /\ FillOK(g.G.inc, fl)
       /\ g' = [g EXCEPT !.G.defs = @ \o FillDefs(g.G.inc, fl, Len(g.G.defs)), !.fill = fl]
       /\ stage' = "prog" /\ UNCHANGED out

PickSlot ==
  /\ stage = "prog" /\ Len(g.sl) < Universes[g.u].maxslots
  /\ \E sl \in SlotChoices(g) : g' = AddSlot(g, sl)
  /\ UNCHANGED <<stage, out>>

\* B => A, case export.  The evaluation of a program's cases is a step of its own so that the worker that takes
\* the program state from the queue does it (all workers busy), not the worker that generated the state.
Cases(G, argsel) ==
  LET I == Info(G) IN {LET b == BResult(I, a) IN [ar |-> a, b |-> b, bok |-> Allowed(I, a, b), asat |-> Allowed(I, a, Ideal(I, a))] : a \in Args(G, argsel)}
Evaluate ==
  /\ stage = "prog" /\ stage' = "done" /\ UNCHANGED g
  /\ out' = Cases(g.G, Universes[g.u].argsel)

Next == PickTopoLay \/ PickFill \/ PickSlot \/ Evaluate
Spec == Init /\ [][Next]_vars

Emit == stage = "done" =>
          PrintT("CASE " \o ToJson([u |-> g.u, G |-> g.G, topo |-> g.topo, lay |-> g.lay, fill |-> g.fill, slots |-> g.slots,
                                    cases |-> out]))

U(topos, lays, fills, maxslots, menus, argsel) ==
  [topos |-> topos, lays |-> lays, fills |-> fills, maxslots |-> maxslots, menus |-> menus, argsel |-> argsel]
AllLays == {"none", "S", "SS", "SB", "BS", "SBB", "SSB", "inc"}
M1  == <<{"edges", "shapes", "kinds", "loose"}>>

cSmoke == << U({"one", "two"}, {"S", "SB"}, {"n", "e"}, 1, <<{"edges", "loose2"}>>, "all") >>

cQuick == <<
  \* every edge kind / wrap / via / placement with one slot
  U({"two"}, {"S"}, {"n", "e"}, 1, M1, "few"),
  U({"dia"}, {"S"}, {"n"}, 1, M1, "few"),
  \* service layouts x all filters / preserve arguments
  U({"two"}, {"SB", "SS", "SBB", "SSB", "BS", "inc"}, {"n", "r"}, 1, <<{"fn1", "loose2"}>>, "all"),
  \* default values that refer to constants of included files
  U({"two", "dia"}, {"S"}, {"c", "n"}, 1, <<{"dflt"}>>, "few"),
  \* function names that extend other names (anchoring of the patterns)
  U({"two"}, {"SBx"}, {"n"}, 1, <<{"fn1"}>>, "all"),
  \* two slots: parent / child chains across files
  U({"chain"}, {"S"}, {"n"}, 2, <<{"parents"}, {"childs", "loose2"}>>, "few"),
  \* an intermediate file that drops its first include and keeps a later one (include renumbering below an
  \* untouched root): type references and default-value references
  U({"mid"}, {"S"}, {"n"}, 2, <<{"parents"}, {"childs"}>>, "few"),
  U({"mid"}, {"S"}, {"n", "c"}, 1, <<{"dflt"}>>, "few") >>

cThorough == <<
  \* every edge kind / wrap / via / kind / placement, every topology
  U({"one", "two", "chain", "fork", "dia", "dia4"}, {"S", "SB"}, {"n", "e"}, 1, M1, "few"),
  \* every service layout x every argument set x fillers
  U({"two", "chain", "dia"}, AllLays, {"n", "e", "r"}, 1, <<{"fn1", "loose2"}>>, "all"),
  U({"fork", "dia4"}, {"SB", "SBB", "inc"}, {"n", "c", "t"}, 1, <<{"fn1"}>>, "all"),
  \* function names that extend other names (anchoring of the patterns)
  U({"two"}, {"Sx", "SBx"}, {"n"}, 1, <<{"fns"}>>, "all"),
  U({"two", "chain", "fork", "dia"}, {"S", "SB"}, {"c", "n", "e"}, 1, <<{"dflt"}>>, "all"),
  \* two slots: chains of uses across files
  U({"two", "chain", "dia"}, {"S", "SB"}, {"n"}, 2, <<{"parents"}, {"child", "loose2"}>>, "few"),
  \* three slots
  U({"chain", "dia"}, {"S"}, {"n"}, 3, <<{"parents"}, {"childs"}, {"childs", "loose2"}>>, "few"),
  \* include renumbering in an intermediate file (first of two / three includes dropped), base services there too
  U({"mid", "mid3"}, {"S"}, {"n"}, 2, <<{"parents"}, {"child"}>>, "few"),
  U({"mid"}, {"SB"}, {"n", "e"}, 2, <<{"parents"}, {"childs"}>>, "few"),
  U({"mid3"}, {"S"}, {"n"}, 3, <<{"parents"}, {"childs"}, {"childs"}>>, "few"),
  U({"mid", "mid3"}, {"S", "SB"}, {"n", "c"}, 1, <<{"dflt"}>>, "few") >>

\* Design-level results exported with every case: bok (layer B's result is Allowed by layer A -- the refinement
\* B => A; a FALSE is a candidate defect that counts only when the real code shows it too) and asat (layer A allows
\* the minimal result Ideal: the property is satisfiable for this case; a FALSE is an inconsistency of the spec).
=============================================================================
