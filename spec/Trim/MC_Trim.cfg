SPECIFICATION Spec
CONSTANTS
  Universes <- cSmoke
  Fixes = {}
INVARIANTS Emit
CHECK_DEADLOCK FALSE
