SPECIFICATION Spec
CONSTANTS
  Topos = {"one", "two"}
  Lays = {"S", "SB"}
  Fills = {"n", "e"}
  MaxSlots = 1
  Menus <- cMenusSmall
  ArgSel = "all"
  Fixes = {}
INVARIANTS Emit
CHECK_DEADLOCK FALSE
