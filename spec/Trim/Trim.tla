-------------------------------- MODULE Trim --------------------------------
(***************************************************************************)
(* C16 -- IDL trimming (tool/trimmer/trim, option trim_idl).                *)
(*                                                                         *)
(* The graph model.  A program G is                                         *)
(*   G.inc  : per file (1 = root file) the ordered list of the files it    *)
(*            includes directly,                                            *)
(*   G.defs : the definitions of all files, one record each                 *)
(*     k    "struct" | "union" | "exception" | "enum" | "typedef" | "const" *)
(*          | "service" | "dead" (a definition a previous trim removed)     *)
(*     f    the file the definition is in                                   *)
(*     ty   the type expressions the definition uses: field types of a      *)
(*          struct-like, <<target>> of a typedef, <<type>> of a constant    *)
(*     cv   definitions (constants) referred to by value from a constant    *)
(*          value or a field default                                        *)
(*     pres "c" = carries a `// @preserve` comment, "n" = not               *)
(*     ext  base service (definition number) or 0                           *)
(*     fns  functions of a service: [name, g (name group), pre, a, r, t]    *)
(*          with argument / result / throws type expressions; pre = the    *)
(*          name of a function of which this name is a proper extension    *)
(*          ("m1x" extends "m1"), else ""                                   *)
(* A type expression is a tree: [n |-> "b"] (base type), [n |-> "r", d]     *)
(* (reference to definition d: a struct-like, enum or typedef, in the same  *)
(* file or in a directly included one), [n |-> "l"|"s", v], [n |-> "m",k,v].*)
(* The edges of the graph are the uses: argument / result / throws types,   *)
(* field types, container key / element types, typedef targets, base        *)
(* services, and the include edge every cross-file use induces.             *)
(*                                                                         *)
(* Trimmer arguments Ar: pats (sequence of method patterns), preserve       *)
(* ("unset" | "on" | "off"), nocomment (disable_preserve_comment), plist    *)
(* (sequence of struct-likes in the preserved-struct list).                 *)
(*                                                                         *)
(* A result R of trimming: kept (definitions left in files still reachable  *)
(* from the root through the remaining includes), fns (<<service, name>>    *)
(* of the functions left), inc (<<f, g>> include edges left), ext (services *)
(* whose `extends` is left), ok (no error / panic, the trimmed AST is       *)
(* internally consistent, its dump parses, checks and resolves), idem       *)
(* (trimming the result again changes nothing), same (every definition      *)
(* left has the text it had).                                               *)
(*                                                                         *)
(* Layer A is the predicate Allowed(I, Ar, R) with I = Info(G): exactly the *)
(* results the property statement allows.  Where the statement is silent    *)
(* the predicate is permissive (see the comments at MayFns, C5, C7).        *)
(***************************************************************************)
EXTENDS Naturals, Sequences, FiniteSets, TLC

Range(s) == {s[i] : i \in DOMAIN s}
SLKinds == {"struct", "union", "exception"}

RECURSIVE TypeRefs(_)
TypeRefs(t) == CASE t.n = "b" -> {}
                 [] t.n = "r" -> {t.d}
                 [] t.n \in {"l", "s"} -> TypeRefs(t.v)
                 [] t.n = "m" -> TypeRefs(t.k) \cup TypeRefs(t.v)
SeqRefs(ts) == UNION {TypeRefs(ts[i]) : i \in DOMAIN ts}
FnRefs(fn) == SeqRefs(fn.a) \cup SeqRefs(fn.r) \cup SeqRefs(fn.t)

FileReach(E, S) ==   \* files reachable from the files S over the include edges E
  LET RECURSIVE R(_)
      R(X) == LET Y == X \cup {e[2] : e \in {e \in E : e[1] \in X}} IN IF Y = X THEN X ELSE R(Y)
  IN R(S)

\* everything about a program that does not depend on arguments or results, computed once per program
Info(G) ==
  LET nd    == Len(G.defs)
      alive == {d \in 1..nd : G.defs[d].k # "dead"}
      kind(K) == {d \in alive : G.defs[d].k \in K}
      svcs  == kind({"service"})
      files == 1..Len(G.inc)
      ainc  == UNION {{<<f, G.inc[f][k]>> : k \in 1..Len(G.inc[f])} : f \in files}
      RECURSIVE anc(_)
      anc(s) == IF G.defs[s].ext = 0 THEN <<s>> ELSE <<s>> \o anc(G.defs[s].ext)
      RECURSIVE sorted(_)
      sorted(S) == IF S = {} THEN <<>> ELSE LET m == CHOOSE x \in S : \A y \in S : x <= y IN <<m>> \o sorted(S \ {m})
      inf(f, K) == sorted({d \in alive : G.defs[d].k \in K /\ G.defs[d].f = f})
  IN [G      |-> G,
      \* per file the definitions in textual order, by list of the AST (layer B walks them in this order)
      byfile |-> [f \in files |-> [consts |-> inf(f, {"const"}), typedefs |-> inf(f, {"typedef"}),
                                    sls |-> inf(f, {"struct"}) \o inf(f, {"union"}) \o inf(f, {"exception"}),
                                    svcs |-> inf(f, {"service"})]],
      alive  |-> alive,
      files  |-> files,
      svcs   |-> svcs,
      sls    |-> kind(SLKinds),
      always |-> kind({"const", "typedef"}),          \* never removed, and roots of the closure
      cte    |-> kind({"const", "typedef", "enum"}),
      enumf  |-> {G.defs[d].f : d \in kind({"enum"})},
      ainc   |-> ainc,
      below  |-> [f \in files |-> FileReach(ainc, {f})],
      roots  |-> {s \in svcs : G.defs[s].f = 1},
      anc    |-> [s \in svcs |-> anc(s)],
      fns    |-> UNION {{<<s, G.defs[s].fns[i].name>> : i \in DOMAIN G.defs[s].fns} : s \in svcs},
      succ   |-> [d \in alive |-> IF G.defs[d].k = "service" THEN {} ELSE SeqRefs(G.defs[d].ty)]]

FileOf(I, d) == I.G.defs[d].f
FnRec(I, sf) == LET fs == I.G.defs[sf[1]].fns IN fs[CHOOSE i \in DOMAIN fs : fs[i].name = sf[2]]
AncSet(I, s) == Range(I.anc[s])
PathTo(I, r, x) == LET a == I.anc[r]
                       k == CHOOSE i \in DOMAIN a : a[i] = x
                   IN {a[i] : i \in 1..k}

\* method patterns: what `-m <text>` denotes on <<service, function>> in this universe
Match(p, s, fn) == CASE p.q = "exact"  -> p.s = s /\ p.f = fn.name      \* -m S1.m1
                     [] p.q = "svcall" -> p.s = s                        \* -m S1\..*
                     [] p.q = "anysvc" -> p.f = fn.name                  \* -m .*\.m1
                     [] p.q = "prefix" -> p.s = s /\ p.f = fn.g          \* -m S1\.m.*
                     [] p.q = "unq"    -> FALSE                          \* -m m1 : interpreted first
\* The patterns are regular expressions and the statement does not say whether they are anchored: a function whose
\* name merely extends the name written ("S1.m1" against S1.m1x) MAY count as matching.
MatchMay(p, s, fn) == \/ Match(p, s, fn)
                      \/ p.q = "exact" /\ p.s = s /\ fn.pre # "" /\ p.f = fn.pre
                      \/ p.q = "anysvc" /\ fn.pre # "" /\ p.f = fn.pre

\* an unqualified name means the method of that name in SOME service of the root file (the statement does not
\* say which when there are several); every consistent reading is an interpretation
Interps(I, pats) ==
  LET U == {i \in DOMAIN pats : pats[i].q = "unq"}
      Q == {pats[i] : i \in DOMAIN pats \ U}
  IN IF U = {} \/ I.roots = {} THEN {Q}
     ELSE {Q \cup {[q |-> "exact", s |-> c[i], f |-> pats[i].f] : i \in U} : c \in [U -> I.roots]}

ReachFrom(I, S) ==
  LET RECURSIVE R(_)
      R(X) == LET Y == X \cup UNION {I.succ[d] : d \in X} IN IF Y = X THEN X ELSE R(Y)
  IN R(S)

PresMust(I, Ar) == IF Ar.preserve = "off" THEN {}
                   ELSE {d \in I.sls : d \in Range(Ar.plist) \/ (I.G.defs[d].pres = "c" /\ ~Ar.nocomment)}
\* disable_preserve_comment is not mentioned by the statement: a commented struct may then go or stay
PresMay(I, Ar) == IF Ar.preserve = "off" THEN {}
                  ELSE {d \in I.sls : d \in Range(Ar.plist) \/ I.G.defs[d].pres = "c"}

\* ------------------------------------------------------------------ layer A
\* <<function, root service it is reached from, service on the path whose name the pattern uses>>
Selected(I, P) ==
  {w \in I.fns \X I.roots \X I.svcs :
      /\ w[1][1] \in AncSet(I, w[2])
      /\ w[3] \in PathTo(I, w[2], w[1][1])
      /\ \E p \in P : Match(p, w[3], FnRec(I, w[1]))}

MustFns(I, P, sel) ==
  IF P = {} THEN {sf \in I.fns : \E r \in I.roots : sf[1] \in AncSet(I, r)}
  ELSE {w[1] : w \in {w \in sel : FileOf(I, w[3]) = 1}}
\* May: without a filter the statement does not speak about services of included files that nobody extends.
\* With a filter: a method selected through the name of a base service that lives in an included file, and the
\* other methods of base services ("base-service methods they need") may stay.
SelectedMay(I, P) ==
  {w \in I.fns \X I.roots \X I.svcs :
      /\ w[1][1] \in AncSet(I, w[2])
      /\ w[3] \in PathTo(I, w[2], w[1][1])
      /\ \E p \in P : MatchMay(p, w[3], FnRec(I, w[1]))}
MayFns(I, P, sel) ==
  IF P = {} THEN I.fns
  ELSE {w[1] : w \in SelectedMay(I, P)} \cup {sf \in I.fns : \E r \in I.roots : sf[1] \in AncSet(I, r) \ {r}}

\* a kept method addressed through service s2 needs s2, the service that defines it and the `extends` chain between
LinksOK(I, P, sel, R) ==
  IF P = {} THEN \A r \in I.roots : \A y \in AncSet(I, r) : y \in R.kept /\ (I.G.defs[y].ext # 0 => y \in R.ext)
  ELSE \A w \in sel : FileOf(I, w[3]) = 1 =>
         \A y \in PathTo(I, w[3], w[1][1]) : y \in R.kept /\ (y # w[1][1] => y \in R.ext)

\* what a kept definition d refers to directly
DirectRefs(I, R, d) ==
  IF I.G.defs[d].k = "service"
  THEN UNION {FnRefs(FnRec(I, sf)) : sf \in {x \in R.fns : x[1] = d}} \cup (IF d \in R.ext THEN {I.G.defs[d].ext} ELSE {})
  ELSE I.succ[d] \cup Range(I.G.defs[d].cv)

\* C6: every remaining reference resolves, through an include that is still there
WellFormed(I, R) ==
  \A d \in R.kept : \A e \in DirectRefs(I, R, d) :
     e \in R.kept /\ (FileOf(I, e) = FileOf(I, d) \/ <<FileOf(I, d), FileOf(I, e)>> \in R.inc)

Shape(I, R) ==
  /\ R.kept \subseteq I.alive
  /\ R.inc \subseteq I.ainc
  /\ R.fns \subseteq I.fns /\ \A sf \in R.fns : sf[1] \in R.kept
  /\ R.ext \subseteq {s \in R.kept \cap I.svcs : I.G.defs[s].ext # 0}

AllowedI(I, Ar, P, R) ==
  LET surv   == FileReach(R.inc, {1})
      sel    == Selected(I, P)
      roots  == UNION {FnRefs(FnRec(I, sf)) : sf \in R.fns} \cup I.always
      rMust  == ReachFrom(I, roots \cup PresMust(I, Ar))
      rMay   == ReachFrom(I, roots \cup PresMay(I, Ar))
      ms0    == {1} \cup {FileOf(I, d) : d \in rMust}
      RECURSIVE MS(_)
      MS(X)  == LET Y == X \cup {g \in I.enumf : \E f \in X : <<f, g>> \in I.ainc} IN IF Y = X THEN X ELSE MS(Y)
      giving == {FileOf(I, d) : d \in I.cte \cup rMay}                      \* files that contribute something
      refersInto(f, g) == \E d \in R.kept : FileOf(I, d) = f /\ \E e \in DirectRefs(I, R, d) : FileOf(I, e) = g
  IN
  \* C0 shape of the result
  /\ Shape(I, R) /\ \A d \in R.kept : FileOf(I, d) \in surv
  \* C8 methods: only matching methods (and base-service methods they need), all matching ones, with their services
  /\ MustFns(I, P, sel) \subseteq R.fns /\ R.fns \subseteq MayFns(I, P, sel)
  /\ LinksOK(I, P, sel, R)
  \* C1 all constants and typedefs are kept
  /\ I.always \subseteq R.kept
  \* C2 nothing but struct-likes, services and includes is ever removed from a file that stays
  /\ \A d \in I.cte : FileOf(I, d) \in surv => d \in R.kept
  \* C3 soundness: everything reachable from the kept methods, constants, typedefs and preserved structs is kept
  /\ rMust \subseteq R.kept
  \* C4 minimality: every other struct-like is removed
  /\ \A d \in R.kept \cap I.sls : d \in rMay
  \* C5 "keeps all enums": the file of an enum stays when a file that must stay includes it.  (An enum behind a
  \*    file that contributes nothing else may go with that file: "removes every include no longer needed".)
  /\ MS(ms0) \subseteq surv
  \* C6 the result is well formed
  /\ WellFormed(I, R)
  \* C7 every include no longer needed is removed: an include that stays is referred into by something kept, or
  \*    the included file (with what it includes) contributes constants / typedefs / enums / kept struct-likes
  /\ \A e \in R.inc : e[1] \in surv => (refersInto(e[1], e[2]) \/ I.below[e[2]] \cap giving # {})

Allowed(I, Ar, R) ==
  /\ R.ok      \* valid IDL set: no error, passes semantic analysis, dump re-parses
  /\ R.same    \* meaning of what is kept is unchanged
  /\ R.idem    \* trimming again changes nothing
  /\ \E P \in Interps(I, Ar.pats) : AllowedI(I, Ar, P, R)

\* Design-level sanity of layer A: for every program and argument set there IS an allowed result -- the one that
\* keeps exactly what must be kept (TLC checks Allowed(I, Ar, Ideal(I, Ar)) for every generated case).
Ideal(I, Ar) ==
  LET P     == CHOOSE P \in Interps(I, Ar.pats) : TRUE
      sel   == Selected(I, P)
      msel  == {w \in sel : FileOf(I, w[3]) = 1}
      fns   == MustFns(I, P, sel)
      svcs  == IF P = {} THEN UNION {AncSet(I, r) : r \in I.roots}
               ELSE UNION {PathTo(I, w[3], w[1][1]) : w \in msel}
      ext   == IF P = {} THEN {s \in svcs : I.G.defs[s].ext # 0}
               ELSE UNION {PathTo(I, w[3], w[1][1]) \ {w[1][1]} : w \in msel}
      roots == UNION {FnRefs(FnRec(I, sf)) : sf \in fns} \cup I.always
      rMust == ReachFrom(I, roots \cup PresMust(I, Ar))
      give  == {FileOf(I, d) : d \in I.cte \cup rMust}
      inc0  == {e \in I.ainc : I.below[e[2]] \cap give # {}}
                 \cup {<<FileOf(I, s), FileOf(I, I.G.defs[s].ext)>> : s \in {s \in ext : FileOf(I, s) # FileOf(I, I.G.defs[s].ext)}}
      surv  == FileReach(inc0, {1})
  IN [kept |-> {d \in rMust \cup svcs \cup I.cte : FileOf(I, d) \in surv},
      fns  |-> fns, inc |-> {e \in inc0 : e[1] \in surv}, ext |-> ext, ok |-> TRUE, same |-> TRUE, idem |-> TRUE]

\* which clause fails first (diagnostics for rejected observations)
Why(I, Ar, R) ==
  IF ~R.ok THEN "invalid-result" ELSE IF ~R.same THEN "meaning-changed" ELSE IF ~R.idem THEN "not-idempotent"
  ELSE LET P == CHOOSE P \in Interps(I, Ar.pats) : TRUE
           sel   == Selected(I, P)
           roots == UNION {FnRefs(FnRec(I, sf)) : sf \in R.fns} \cup I.always
           rMust == ReachFrom(I, roots \cup PresMust(I, Ar))
           rMay  == ReachFrom(I, roots \cup PresMay(I, Ar))
       IN IF ~Shape(I, R) THEN "malformed-observation"
          ELSE IF ~(MustFns(I, P, sel) \subseteq R.fns) THEN "matching-method-removed"
          ELSE IF ~(R.fns \subseteq MayFns(I, P, sel)) THEN "non-matching-method-kept"
          ELSE IF ~LinksOK(I, P, sel, R) THEN "service-chain-broken"
          ELSE IF ~(rMust \subseteq R.kept) THEN "needed-definition-removed"
          ELSE IF \E d \in R.kept \cap I.sls : d \notin rMay THEN "unneeded-struct-kept"
          ELSE IF ~WellFormed(I, R) THEN "dangling-reference"
          ELSE "include-or-enum-rule"
=============================================================================
