-------------------------------- MODULE Trim --------------------------------
(***************************************************************************)
(* C16 -- IDL trimming (tool/trimmer/trim, option trim_idl).                *)
(*                                                                         *)
(* The graph model.  A program G is                                         *)
(*   G.inc  : per file (1 = root file) the ordered list of the files it    *)
(*            includes directly,                                            *)
(*   G.defs : the definitions of all files, one record each                 *)
(*     k    "struct" | "union" | "exception" | "enum" | "typedef" | "const" *)
(*          | "service" | "dead" (a definition a previous trim removed)     *)
(*     f    the file the definition is in                                   *)
(*     ty   the type expressions the definition uses: field types of a      *)
(*          struct-like, <<target>> of a typedef, <<type>> of a constant    *)
(*     cv   definitions (constants) referred to by value from a constant    *)
(*          value or a field default                                        *)
(*     pres "c" = carries a `// @preserve` comment, "n" = not               *)
(*     ext  base service (definition number) or 0                           *)
(*     fns  functions of a service: [name, g (name group), a, r, t] with    *)
(*          argument / result / throws type expressions                     *)
(* A type expression is a tree: [n |-> "b"] (base type), [n |-> "r", d]     *)
(* (reference to definition d: a struct-like, enum or typedef, in the same  *)
(* file or in a directly included one), [n |-> "l"|"s", v], [n |-> "m",k,v].*)
(* The edges of the graph are the uses: argument / result / throws types,   *)
(* field types, container key / element types, typedef targets, base        *)
(* services, and the include edge every cross-file use induces.             *)
(*                                                                         *)
(* Trimmer arguments Ar: pats (sequence of method patterns), preserve       *)
(* ("unset" | "on" | "off"), nocomment (disable_preserve_comment), plist    *)
(* (sequence of struct-likes in the preserved-struct list).                 *)
(*                                                                         *)
(* A result R of trimming: kept (definitions left in files still reachable  *)
(* from the root through the remaining includes), fns (<<service, name>>    *)
(* of the functions left), inc (<<f, g>> include edges left), ext (services *)
(* whose `extends` is left), ok (no error / panic, the trimmed AST is       *)
(* internally consistent, its dump parses, checks and resolves), idem       *)
(* (trimming the result again changes nothing), same (every definition      *)
(* left has the text it had).                                               *)
(*                                                                         *)
(* Layer A is the predicate Allowed(G, Ar, R): exactly the results the      *)
(* property statement allows.  Where the statement is silent the predicate  *)
(* is permissive (see the comments at MayFns, C5, C7).                      *)
(***************************************************************************)
EXTENDS Naturals, Sequences, FiniteSets, TLC

Range(s) == {s[i] : i \in DOMAIN s}

SLKinds == {"struct", "union", "exception"}
Alive(G) == {d \in 1..Len(G.defs) : G.defs[d].k # "dead"}
OfKind(G, K) == {d \in Alive(G) : G.defs[d].k \in K}
Services(G) == OfKind(G, {"service"})
StructLikes(G) == OfKind(G, SLKinds)
FileOf(G, d) == G.defs[d].f
Files(G) == 1..Len(G.inc)

RECURSIVE TypeRefs(_)
TypeRefs(t) == CASE t.n = "b" -> {}
                 [] t.n = "r" -> {t.d}
                 [] t.n \in {"l", "s"} -> TypeRefs(t.v)
                 [] t.n = "m" -> TypeRefs(t.k) \cup TypeRefs(t.v)
SeqRefs(ts) == UNION {TypeRefs(ts[i]) : i \in DOMAIN ts}
FnRefs(fn) == SeqRefs(fn.a) \cup SeqRefs(fn.r) \cup SeqRefs(fn.t)

AllFns(G) == UNION {{<<s, G.defs[s].fns[i].name>> : i \in DOMAIN G.defs[s].fns} : s \in Services(G)}
FnRec(G, sf) == LET fs == G.defs[sf[1]].fns IN fs[CHOOSE i \in DOMAIN fs : fs[i].name = sf[2]]

\* the chain s, base(s), base(base(s)), ...
RECURSIVE Anc(_, _)
Anc(G, s) == IF G.defs[s].ext = 0 THEN <<s>> ELSE <<s>> \o Anc(G, G.defs[s].ext)
AncSet(G, s) == Range(Anc(G, s))
PathTo(G, r, x) == LET a == Anc(G, r)
                       k == CHOOSE i \in DOMAIN a : a[i] = x
                   IN {a[i] : i \in 1..k}
RootSvcs(G) == {s \in Services(G) : FileOf(G, s) = 1}

\* method patterns: what `-m <text>` denotes on <<service, function>> in this universe
Match(p, s, fn) == CASE p.q = "exact"  -> p.s = s /\ p.f = fn.name      \* -m S1.m1
                     [] p.q = "svcall" -> p.s = s                        \* -m S1\..*
                     [] p.q = "anysvc" -> p.f = fn.name                  \* -m .*\.m1
                     [] p.q = "prefix" -> p.s = s /\ p.f = fn.g          \* -m S1\.m.*
                     [] p.q = "unq"    -> FALSE                          \* -m m1 : interpreted first

\* an unqualified name means the method of that name in SOME service of the root file (the statement does not
\* say which when there are several); every consistent reading is an interpretation
Interps(G, pats) ==
  LET U == {i \in DOMAIN pats : pats[i].q = "unq"}
      Q == {pats[i] : i \in DOMAIN pats \ U}
  IN IF U = {} \/ RootSvcs(G) = {} THEN {Q}
     ELSE {Q \cup {[q |-> "exact", s |-> c[i], f |-> pats[i].f] : i \in U} : c \in [U -> RootSvcs(G)]}

\* ------------------------------------------------------------------ reachability
Succ(G, d) == IF G.defs[d].k = "service" THEN {} ELSE SeqRefs(G.defs[d].ty)
ReachFrom(G, S) ==
  LET RECURSIVE R(_)
      R(X) == LET Y == X \cup UNION {Succ(G, d) : d \in X} IN IF Y = X THEN X ELSE R(Y)
  IN R(S)

FileReach(E, S) ==   \* files reachable from the files S over the include edges E
  LET RECURSIVE R(_)
      R(X) == LET Y == X \cup {e[2] : e \in {e \in E : e[1] \in X}} IN IF Y = X THEN X ELSE R(Y)
  IN R(S)
AllInc(G) == UNION {{<<f, G.inc[f][k]>> : k \in 1..Len(G.inc[f])} : f \in Files(G)}

PresMust(G, Ar) == IF Ar.preserve = "off" THEN {}
                   ELSE {d \in StructLikes(G) : d \in Range(Ar.plist) \/ (G.defs[d].pres = "c" /\ ~Ar.nocomment)}
\* disable_preserve_comment is not mentioned by the statement: a commented struct may then go or stay
PresMay(G, Ar) == IF Ar.preserve = "off" THEN {}
                  ELSE {d \in StructLikes(G) : d \in Range(Ar.plist) \/ G.defs[d].pres = "c"}

\* ------------------------------------------------------------------ layer A
Always(G) == OfKind(G, {"const", "typedef"})

MustFns(G, P) ==
  IF P = {} THEN {sf \in AllFns(G) : \E r \in RootSvcs(G) : sf[1] \in AncSet(G, r)}
  ELSE {sf \in AllFns(G) : \E r \in RootSvcs(G) : /\ sf[1] \in AncSet(G, r)
                                                  /\ \E s2 \in PathTo(G, r, sf[1]) :
                                                       /\ FileOf(G, s2) = 1
                                                       /\ \E p \in P : Match(p, s2, FnRec(G, sf))}
\* May: without a filter the statement does not speak about services of included files that nobody extends.
\* With a filter: a method selected through the name of a base service that lives in an included file, and the
\* other methods of base services ("base-service methods they need") may stay.
MayFns(G, P) ==
  IF P = {} THEN AllFns(G)
  ELSE {sf \in AllFns(G) : \E r \in RootSvcs(G) : /\ sf[1] \in AncSet(G, r)
                                                  /\ \/ sf[1] # r
                                                     \/ \E s2 \in PathTo(G, r, sf[1]), p \in P : Match(p, s2, FnRec(G, sf))}

\* a kept method addressed through service s2 needs s2, the service that defines it and the `extends` chain between
LinksOK(G, P, R) ==
  IF P = {} THEN \A r \in RootSvcs(G) : \A y \in AncSet(G, r) : y \in R.kept /\ (G.defs[y].ext # 0 => y \in R.ext)
  ELSE \A sf \in MustFns(G, P) : \A r \in RootSvcs(G) :
         sf[1] \in AncSet(G, r) =>
           \A s2 \in PathTo(G, r, sf[1]) :
             (FileOf(G, s2) = 1 /\ \E p \in P : Match(p, s2, FnRec(G, sf))) =>
                \A y \in PathTo(G, s2, sf[1]) : y \in R.kept /\ (y # sf[1] => y \in R.ext)

\* what a kept definition d refers to directly
DirectRefs(G, R, d) ==
  IF G.defs[d].k = "service"
  THEN UNION {FnRefs(FnRec(G, sf)) : sf \in {x \in R.fns : x[1] = d}} \cup (IF d \in R.ext THEN {G.defs[d].ext} ELSE {})
  ELSE SeqRefs(G.defs[d].ty) \cup Range(G.defs[d].cv)

AllowedI(G, Ar, P, R) ==
  LET surv   == FileReach(R.inc, {1})
      roots  == UNION {FnRefs(FnRec(G, sf)) : sf \in R.fns} \cup Always(G)
      rMust  == ReachFrom(G, roots \cup PresMust(G, Ar))
      rMay   == ReachFrom(G, roots \cup PresMay(G, Ar))
      enumF  == {FileOf(G, d) : d \in OfKind(G, {"enum"})}
      ms0    == {1} \cup {FileOf(G, d) : d \in rMust}
      RECURSIVE MS(_)
      MS(X)  == LET Y == X \cup {g \in enumF : \E f \in X : <<f, g>> \in AllInc(G)} IN IF Y = X THEN X ELSE MS(Y)
      contributes(g) == \E h \in FileReach(AllInc(G), {g}) : \E d \in Alive(G) :
                           FileOf(G, d) = h /\ (G.defs[d].k \in {"const", "typedef", "enum"} \/ d \in rMay)
      refersInto(f, g) == \E d \in R.kept : FileOf(G, d) = f /\ \E e \in DirectRefs(G, R, d) : FileOf(G, e) = g
  IN
  \* C0 shape of the result
  /\ R.kept \subseteq Alive(G) /\ \A d \in R.kept : FileOf(G, d) \in surv
  /\ R.inc \subseteq AllInc(G)
  /\ R.fns \subseteq AllFns(G) /\ \A sf \in R.fns : sf[1] \in R.kept
  /\ R.ext \subseteq {s \in R.kept \cap Services(G) : G.defs[s].ext # 0}
  \* C8 methods: only matching methods (and base-service methods they need), all matching ones, with their services
  /\ MustFns(G, P) \subseteq R.fns /\ R.fns \subseteq MayFns(G, P)
  /\ LinksOK(G, P, R)
  \* C1 all constants and typedefs are kept
  /\ Always(G) \subseteq R.kept
  \* C2 nothing but struct-likes, services and includes is ever removed from a file that stays
  /\ \A d \in OfKind(G, {"enum", "const", "typedef"}) : FileOf(G, d) \in surv => d \in R.kept
  \* C3 soundness: everything reachable from the kept methods, constants, typedefs and preserved structs is kept
  /\ rMust \subseteq R.kept
  \* C4 minimality: every other struct-like is removed
  /\ \A d \in R.kept : G.defs[d].k \in SLKinds => d \in rMay
  \* C5 "keeps all enums": the file of an enum stays when a file that must stay includes it.  (An enum behind a
  \*    file that contributes nothing else may go with that file: "removes every include no longer needed".)
  /\ MS(ms0) \subseteq surv
  \* C6 the result is well formed: every remaining reference resolves, through an include that is still there
  /\ \A d \in R.kept : \A e \in DirectRefs(G, R, d) :
        e \in R.kept /\ (FileOf(G, e) = FileOf(G, d) \/ <<FileOf(G, d), FileOf(G, e)>> \in R.inc)
  \* C7 every include no longer needed is removed: an include that stays is referred into by something kept, or
  \*    the included file (with what it includes) contributes constants / typedefs / enums / kept struct-likes
  /\ \A e \in R.inc : e[1] \in surv => (refersInto(e[1], e[2]) \/ contributes(e[2]))

Allowed(G, Ar, R) ==
  /\ R.ok      \* valid IDL set: no error, passes semantic analysis, dump re-parses
  /\ R.same    \* meaning of what is kept is unchanged
  /\ R.idem    \* trimming again changes nothing
  /\ \E P \in Interps(G, Ar.pats) : AllowedI(G, Ar, P, R)

\* which clause fails first (diagnostics for rejected observations)
Why(G, Ar, R) ==
  IF ~R.ok THEN "invalid-result" ELSE IF ~R.same THEN "meaning-changed" ELSE IF ~R.idem THEN "not-idempotent"
  ELSE LET P == CHOOSE P \in Interps(G, Ar.pats) : TRUE
           surv  == FileReach(R.inc, {1})
           roots == UNION {FnRefs(FnRec(G, sf)) : sf \in R.fns} \cup Always(G)
           rMust == ReachFrom(G, roots \cup PresMust(G, Ar))
           rMay  == ReachFrom(G, roots \cup PresMay(G, Ar))
       IN IF ~(MustFns(G, P) \subseteq R.fns) THEN "matching-method-removed"
          ELSE IF ~(R.fns \subseteq MayFns(G, P)) THEN "non-matching-method-kept"
          ELSE IF ~LinksOK(G, P, R) THEN "service-chain-broken"
          ELSE IF ~(rMust \subseteq R.kept) THEN "needed-definition-removed"
          ELSE IF \E d \in R.kept : G.defs[d].k \in SLKinds /\ d \notin rMay THEN "unneeded-struct-kept"
          ELSE IF \E d \in R.kept : \E e \in DirectRefs(G, R, d) :
                    ~(e \in R.kept /\ (FileOf(G, e) = FileOf(G, d) \/ <<FileOf(G, d), FileOf(G, e)>> \in R.inc))
               THEN "dangling-reference"
          ELSE "include-or-enum-rule"
=============================================================================
