----------------------------- MODULE Trace_Trim -----------------------------
(***************************************************************************)
(* Validation of what the REAL trimmer did against layer A.                *)
(* Every line of obs.ndjson is one program with the observations made on   *)
(* it:  [G |-> program graph, rows |-> << [ar |-> arguments, r |-> result  *)
(* observed from the real code (sets as sequences)] >>].                   *)
(* Each line is an independent one-step behaviour (root -> group -> line,  *)
(* so that all workers share the work); for a line TLC prints              *)
(*   ACC <line> <number of rows that are results Allowed by Trim.tla>      *)
(*   REJ <line> <row> <first clause that fails>   for every other row.     *)
(***************************************************************************)
EXTENDS Trim, Json

CONSTANT NGroups
Obs == ndJsonDeserialize("obs.ndjson")

VARIABLES grp, ln
tvars == <<grp, ln>>

ToR(r) == [kept |-> Range(r.kept), fns |-> Range(r.fns), inc |-> Range(r.inc), ext |-> Range(r.ext),
           ok |-> r.ok, same |-> r.same, idem |-> r.idem]

TInit == grp = 0 /\ ln = 0
TNext == \/ grp = 0 /\ grp' \in 1..NGroups /\ ln' = 0
         \/ grp > 0 /\ ln = 0 /\ ln' \in {i \in 1..Len(Obs) : (i % NGroups) + 1 = grp} /\ grp' = grp
TSpec == TInit /\ [][TNext]_tvars

Accepted ==
  ln > 0 =>
    LET o   == Obs[ln]
        I   == Info(o.G)
        bad == {k \in DOMAIN o.rows : ~Allowed(I, o.rows[k].ar, ToR(o.rows[k].r))}
    IN /\ PrintT("ACC " \o ToString(ln) \o " " \o ToString(Len(o.rows) - Cardinality(bad)))
       /\ \A k \in bad : PrintT("REJ " \o ToString(ln) \o " " \o ToString(k) \o " "
                                \o Why(I, o.rows[k].ar, ToR(o.rows[k].r)))
=============================================================================
