SPECIFICATION TSpec
CONSTANTS
  NGroups = 64
INVARIANTS Accepted
CHECK_DEADLOCK FALSE
