SPECIFICATION BSpec
CONSTANTS
  Universe <- UOf
  Tier = "quick"
INVARIANTS RefInit Conform PositionFree EmitB
ACTION_CONSTRAINT RefStep
CHECK_DEADLOCK FALSE
