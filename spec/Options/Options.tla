------------------------------ MODULE Options ------------------------------
(***************************************************************************)
(* C20 -- layer (A): every documented option of the go backend switches     *)
(* exactly its own feature.                                                 *)
(*                                                                          *)
(* `Doc` is the option table of README.md ("Go backend options") and of     *)
(* `thriftgo -h`, transcribed by hand at the pinned commit: option name,    *)
(* kind (boolean switch / value option) and the documented default.  The    *)
(* feature key of a switch is its own name.  Option names the real backend  *)
(* lists in `-h` at run time but which are not in the transcription are     *)
(* documented by `-h` as boolean switches ("(Enabled by default)" marks a   *)
(* default of true); they extend Doc (HelpOnly) so that a newly added       *)
(* option is judged like any other.                                         *)
(*                                                                          *)
(* The abstract machine: starting from the documented defaults, the options *)
(* of a list are applied ONE AT A TIME IN ANY ORDER -- the final state is   *)
(* by construction independent of the position of an option among others.   *)
(* Apply changes exactly the setting the option documents; a value that is  *)
(* not documented as legal makes the whole list an error.  Finish applies   *)
(* the documented implications and rejects documented-invalid combinations. *)
(* Where the documentation is silent or contradicts itself the machine is   *)
(* nondeterministic (both outcomes allowed).                                *)
(*                                                                          *)
(* An option occurrence is a record                                         *)
(*   [n: name, bare: no "=" given, v: text after the first "=",             *)
(*    a: the argument string, ok/p/r: v has the form p=r]                   *)
(* (TLC cannot take strings apart, so the universe builds them bottom-up).  *)
(***************************************************************************)
EXTENDS Naturals, Sequences, FiniteSets, TLC, Json

CONSTANTS Universe(_), \* tier -> set of cases [level: "backend" | "cli", opts: sequence of occurrences]
          Tier          \* (an operator, so that TLC builds the set when Init is evaluated, not at start-up)

\* option table of the real backend at run time (harness dump of GoBackend.Options(), table
\* order): sequence of [name, def, chars].  A plain definition: TLC reads the file once.
Table == ndJsonDeserialize("table.ndjson")

VARIABLES st,        \* abstract settings (record, see S0)
          cs,        \* the case being run
          todo,      \* indexes of cs.opts not applied yet
          ph         \* "apply" | "done"
vars == <<st, cs, todo, ph>>

----------------------------------------------------------------------------
(* The documentation, transcribed.                                          *)

\* boolean switches: <<name, documented default>>; README table order.
\* always_gen_json_tag is listed by -h only ("Deprecated.").
DocBool == <<
  <<"ignore_initialisms", FALSE>>,
  <<"json_enum_as_text", FALSE>>,
  <<"enum_marshal", FALSE>>,
  <<"enum_unmarshal", FALSE>>,
  <<"gen_setter", FALSE>>,
  <<"gen_db_tag", FALSE>>,
  <<"omitempty_for_optional", TRUE>>,
  <<"use_type_alias", TRUE>>,
  <<"validate_set", TRUE>>,
  <<"value_type_in_container", FALSE>>,
  <<"scan_value_for_enum", TRUE>>,
  <<"reorder_fields", FALSE>>,
  <<"typed_enum_string", FALSE>>,
  <<"keep_unknown_fields", FALSE>>,
  <<"gen_deep_equal", FALSE>>,
  <<"compatible_names", FALSE>>,
  <<"reserve_comments", FALSE>>,
  <<"nil_safe", FALSE>>,
  <<"frugal_tag", FALSE>>,
  <<"unescape_double_quote", TRUE>>,
  <<"gen_type_meta", FALSE>>,
  <<"gen_json_tag", TRUE>>,
  <<"always_gen_json_tag", FALSE>>,
  <<"snake_style_json_tag", FALSE>>,
  <<"lower_camel_style_json_tag", FALSE>>,
  <<"with_reflection", FALSE>>,
  <<"enum_as_int_32", FALSE>>,
  <<"trim_idl", FALSE>>,
  <<"json_stringer", FALSE>>,
  <<"with_field_mask", FALSE>>,
  <<"field_mask_halfway", FALSE>>,
  <<"field_mask_zero_required", FALSE>>,
  <<"thrift_streaming", FALSE>>,
  <<"no_default_serdes", FALSE>>,
  <<"no_alias_type_reflection_method", FALSE>>,
  <<"enable_ref_interface", FALSE>>,
  <<"use_option", FALSE>>,
  <<"streamx", FALSE>>,
  <<"no_fmt", FALSE>>,
  <<"skip_empty", FALSE>>,
  <<"no_processor", FALSE>>,
  <<"get_enum_annotation", FALSE>>,
  <<"apache_warning", FALSE>>,
  <<"apache_adaptor", FALSE>>,
  <<"skip_go_gen", FALSE>>,
  <<"code_ref", FALSE>>,
  <<"code_ref_slim", FALSE>>,
  <<"exp_code_ref", FALSE>>,
  <<"keep_code_ref_name", FALSE>>,
  <<"enable_nested_struct", FALSE>> >>

\* value options
ValueNames   == {"thrift_import_path", "use_package", "naming_style", "package_prefix", "template"}
DocStyles    == {"golint", "apache", "thriftgo"}     \* naming_style=<style>
DefaultStyle == "thriftgo"
DocTemplates == {"slim", "raw_struct"}               \* template=<name>
NoTemplate   == "default"                            \* what Template() reports when none was chosen
ThriftLib    == "github.com/apache/thrift/lib/go/thrift"   \* thrift_import_path replaces this import

DocBoolNames == {DocBool[i][1] : i \in 1..Len(DocBool)}
DocNames     == DocBoolNames \cup ValueNames
TableNames   == {Table[j].name : j \in 1..Len(Table)}
\* options that only the run-time `-h` documents
HelpOnly     == TableNames \ DocNames
BoolNames    == DocBoolNames \cup HelpOnly
Names        == BoolNames \cup ValueNames
\* the switches that are documented as enabled by default
DocOn        == {DocBool[i][1] : i \in {k \in 1..Len(DocBool) : DocBool[k][2]}} \cup
                {Table[j].name : j \in {k \in 1..Len(Table) : Table[k].name \in HelpOnly /\ Table[k].def}}

ASSUME Cardinality(DocBoolNames) = Len(DocBool)      \* no name transcribed twice

----------------------------------------------------------------------------
(* Abstract state and the effect of one option.                             *)

S0 == [on     |-> DocOn,            \* the switches that are on (subset of BoolNames)
       style  |-> DefaultStyle,
       tmpl   |-> NoTemplate,
       given  |-> FALSE,            \* a template option was given
       prefix |-> "",
       repl   |-> {},               \* import replacements, set of <<path, replacement>>
       err    |-> FALSE]

Value(o) == IF o.bare THEN "" ELSE o.v
Put(R, p, r) == {x \in R : x[1] # p} \cup {<<p, r>>}
Fail(s) == [s EXCEPT !.err = TRUE]

\* `-h`: Boolean options accept "false", "true" and "" (empty is treated as "true").
CheckBool(val) == IF val \in {"", "true"} THEN "T" ELSE IF val = "false" THEN "F" ELSE "E"

\* the set of states the documentation allows after option occurrence o in state s
AApply(s, o) ==
  LET val == Value(o) IN
  IF o.n \in BoolNames THEN
       LET b == CheckBool(val) IN
       IF b = "E" THEN {Fail(s)}
       ELSE {[s EXCEPT !.on = IF b = "T" THEN s.on \cup {o.n} ELSE s.on \ {o.n}]}
  ELSE IF o.n = "naming_style" THEN
       IF val \in DocStyles THEN {[s EXCEPT !.style = val]} ELSE {Fail(s)}
  ELSE IF o.n = "template" THEN
       IF val \in DocTemplates THEN {[s EXCEPT !.tmpl = val, !.given = TRUE]}
       \* "default" is what Template() calls the absence of a template; the documentation does
       \* not list it as a value: accepting it (as "no template") and rejecting it are both fine
       ELSE IF val = NoTemplate THEN {[s EXCEPT !.tmpl = val, !.given = TRUE], Fail(s)}
       ELSE {Fail(s)}
  ELSE IF o.n = "package_prefix" THEN {[s EXCEPT !.prefix = val]}
  ELSE IF o.n = "thrift_import_path" THEN {[s EXCEPT !.repl = Put(s.repl, ThriftLib, val)]}
  ELSE IF o.n = "use_package" THEN
       IF o.ok THEN {[s EXCEPT !.repl = Put(s.repl, o.p, o.r)]} ELSE {Fail(s)}
  ELSE {s}   \* not a documented name: outside the statement (never in a universe)

\* Documented as invalid: README "apache_warning and apache_adaptor ... are mutually exclusive".
MustReject(f) == "apache_warning" \in f /\ "apache_adaptor" \in f
\* The documentation is unclear ("requires ..." next to a trouble-shooting row that describes a
\* silent no-op) or silent: rejecting and accepting are both allowed.
MayReject(f) == \/ "with_field_mask" \in f /\ "with_reflection" \notin f
                \/ "streamx" \in f /\ "thrift_streaming" \notin f
                \/ "snake_style_json_tag" \in f /\ "lower_camel_style_json_tag" \in f
                \/ "always_gen_json_tag" \in f /\ "gen_json_tag" \notin f

\* the set of final states: documented implications, then documented-invalid combinations
AFinish(s, level) ==
  IF s.err THEN {s} ELSE
  LET \* README enable_nested_struct: "Only valid with the slim or raw_struct template; thriftgo
      \* automatically switches to slim if this option is set and no template is specified."
      \* (command-line level).  An explicit template=default is not a documented input: either.
      ts == IF level = "cli" /\ "enable_nested_struct" \in s.on
            THEN IF ~s.given THEN {"slim"}
                 ELSE IF s.tmpl \in DocTemplates THEN {s.tmpl} ELSE {s.tmpl, "slim"}
            ELSE {s.tmpl}
  IN UNION { LET \* README gen_deep_equal: "Silently disabled when template=slim."
                 f == IF t = "slim" THEN s.on \ {"gen_deep_equal"} ELSE s.on
                 es == IF MustReject(f) THEN {TRUE} ELSE IF MayReject(f) THEN {TRUE, FALSE} ELSE {FALSE}
             IN {[s EXCEPT !.tmpl = t, !.on = f, !.err = e] : e \in es}
           : t \in ts }

\* what is observable of a final state; after an error only the error is
Outcome(s) ==
  IF s.err THEN [err |-> TRUE, on |-> {}, style |-> "", tmpl |-> "", prefix |-> "", repl |-> {}]
  ELSE [err |-> FALSE, on |-> s.on, style |-> s.style, tmpl |-> s.tmpl,
        prefix |-> s.prefix, repl |-> s.repl]

----------------------------------------------------------------------------
(* The machine.                                                             *)

InitState == st = S0 /\ todo = 1..Len(cs.opts) /\ ph = "apply"
Init == cs \in Universe(Tier) /\ InitState

Apply(i) == /\ ph = "apply" /\ ~st.err /\ i \in todo
            /\ st' \in AApply(st, cs.opts[i])
            /\ todo' = todo \ {i}
            /\ UNCHANGED <<cs, ph>>

Finish == /\ ph = "apply" /\ (st.err \/ todo = {})
          /\ st' \in AFinish(st, cs.level)
          /\ ph' = "done" /\ todo' = {}
          /\ UNCHANGED cs

Next == (\E i \in todo : Apply(i)) \/ Finish
Spec == Init /\ [][Next]_vars

----------------------------------------------------------------------------
(* Design-level invariants of (A).                                          *)

TypeOK == /\ st.on \subseteq BoolNames
          /\ st.style \in DocStyles
          /\ st.tmpl \in DocTemplates \cup {NoTemplate}
          /\ ph \in {"apply", "done"}

\* an option only ever touches its own key: every switch that is not named in the case still
\* has its documented default (except the documented implication slim => no deep-equal)
OnlyOwnKey == \A n \in BoolNames :
                 (\A i \in 1..Len(cs.opts) : cs.opts[i].n # n) /\ ~st.err
                 => \/ (n \in st.on) = (n \in DocOn)
                    \/ n = "gen_deep_equal" /\ st.tmpl = "slim" /\ n \notin st.on
Implications == (ph = "done" /\ ~st.err) =>
                  /\ st.tmpl = "slim" => "gen_deep_equal" \notin st.on
                  /\ ~MustReject(st.on)
                  /\ (cs.level = "cli" /\ "enable_nested_struct" \in st.on) =>
                        (st.tmpl \in DocTemplates \/ st.given)
AInvariants == TypeOK /\ OnlyOwnKey /\ Implications

\* the same machine as a function of the case (options in list order); used by layer (B)
RECURSIVE AFold(_, _, _)
AFold(S, opts, k) == IF k > Len(opts) THEN S
                     ELSE AFold(UNION {IF s.err THEN {s} ELSE AApply(s, opts[k]) : s \in S}, opts, k + 1)
AOutcomes(c) == {Outcome(f) : f \in UNION {AFinish(s, c.level) : s \in AFold({S0}, c.opts, 1)}}

Args(c) == [i \in 1..Len(c.opts) |-> c.opts[i].a]
\* case generation: one line per allowed outcome of a case
Emit == (ph = "done") =>
          PrintT("CASE " \o ToJson([lv |-> cs.level, args |-> Args(cs), out |-> Outcome(st)]))
=============================================================================
