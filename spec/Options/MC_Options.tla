----------------------------- MODULE MC_Options -----------------------------
(***************************************************************************)
(* Universes of option lists for C20 and the run-time data.                 *)
(*   table.ndjson  one line per entry of the real GoBackend.Options(), in   *)
(*                 table order: {name, def, chars}                          *)
(*   lists.ndjson  random longer lists produced by Gen_OptionLists          *)
(***************************************************************************)
EXTENDS Options

RandomLists == ndJsonDeserialize("lists.ndjson")

\* what the specification takes as documented (for the orchestration: drift report, chars of names)
ASSUME PrintT("DOC " \o ToJson([names |-> Names, bools |-> BoolNames, on |-> DocOn,
                                 helponly |-> HelpOnly, gone |-> DocNames \ TableNames]))

Occ(n, bare, v) == [n |-> n, bare |-> bare, v |-> v, a |-> IF bare THEN n ELSE n \o "=" \o v,
                    ok |-> FALSE, p |-> "", r |-> ""]
OccP(n, p, r) == [n |-> n, bare |-> FALSE, v |-> p \o "=" \o r, a |-> n \o "=" \o p \o "=" \o r,
                  ok |-> TRUE, p |-> p, r |-> r]

GarbageQuick == {"garbage", "truee"}
GarbageMore  == {"garbage", "truee", "no", "2", "fals"}

\* every documented way to give a switch, and values that are not booleans
BoolLegal(n) == {Occ(n, TRUE, ""), Occ(n, FALSE, ""), Occ(n, FALSE, "true"), Occ(n, FALSE, "false")}
BoolBad(n, G) == {Occ(n, FALSE, g) : g \in G}

ValLegal(n) ==
  CASE n = "naming_style" -> {Occ(n, FALSE, s) : s \in DocStyles}
    [] n = "template" -> {Occ(n, FALSE, t) : t \in DocTemplates}
    [] n = "use_package" -> {OccP(n, "a/b", "c/d"), OccP(n, "database/sql/driver", "example.com/drv")}
    [] n = "thrift_import_path" -> {Occ(n, FALSE, "example.com/thrift"), Occ(n, FALSE, "x/y")}
    [] n = "package_prefix" -> {Occ(n, FALSE, "example.com/pp"), Occ(n, FALSE, "pre/fix")}
ValBad(n) ==
  CASE n = "naming_style" -> {Occ(n, TRUE, ""), Occ(n, FALSE, ""), Occ(n, FALSE, "bogus")}
    [] n = "template" -> {Occ(n, TRUE, ""), Occ(n, FALSE, ""), Occ(n, FALSE, "bogus")}
    [] n = "use_package" -> {Occ(n, TRUE, ""), Occ(n, FALSE, ""), Occ(n, FALSE, "nopair")}
    [] OTHER -> {}
ValUnclear(n) == IF n = "template" THEN {Occ(n, FALSE, NoTemplate)} ELSE {}

Legal(n)   == IF n \in BoolNames THEN BoolLegal(n) ELSE ValLegal(n)
Bad(n, G)  == IF n \in BoolNames THEN BoolBad(n, G) ELSE ValBad(n)
Forms(n, G) == Legal(n) \cup Bad(n, G) \cup ValUnclear(n)

\* the "on" / "off" settings of an option used in the pair universes
Settings2(n) ==
  CASE n \in BoolNames -> {Occ(n, TRUE, ""), Occ(n, FALSE, "false")}
    [] n = "naming_style" -> {Occ(n, FALSE, "golint"), Occ(n, FALSE, "apache")}
    [] OTHER -> ValLegal(n)
Settings3(n) ==
  CASE n \in BoolNames -> {Occ(n, TRUE, ""), Occ(n, FALSE, "true"), Occ(n, FALSE, "false")}
    [] OTHER -> ValLegal(n) \cup ValUnclear(n)

Levels == {"backend", "cli"}
Case(lv, opts) == [level |-> lv, opts |-> opts]

\* (no big UNION below: TLC builds a UNION by linear membership tests, quadratic in the result)
All(N, S(_)) == UNION {S(n) : n \in N}        \* a few hundred occurrences at most
Distinct(c) == \A i, j \in 1..Len(c.opts) : i # j => c.opts[i].n # c.opts[j].n

Empty == {Case(lv, <<>>) : lv \in Levels}
Singles(G) == LET F(n) == Forms(n, G) IN {Case(lv, <<o>>) : lv \in Levels, o \in All(Names, F)}
Pairs(lv, N1, N2, S(_)) ==
  {c \in {Case(lv, <<x, y>>) : x \in All(N1, S), y \in All(N2, S)} : Distinct(c)}
\* a value that must be rejected next to a legal option, in both positions
BadPairs(lv, NB, NO, G) ==
  LET B(n) == Bad(n, G) IN
  {c \in {Case(lv, <<b, s>>) : b \in All(NB, B), s \in All(NO, Settings2)} \cup
         {Case(lv, <<s, b>>) : b \in All(NB, B), s \in All(NO, Settings2)} : Distinct(c)}
Triples(lv, N, S(_)) ==
  {c \in {Case(lv, <<x, y, z>>) : x \in All(N, S), y \in All(N, S), z \in All(N, S)} : Distinct(c)}

\* the documented-invalid combination next to every other option, in every position: validation must not depend on
\* what else is in the list
RejectTriples(lv) ==
  LET A == All({"apache_warning"}, Settings2)
      B == All({"apache_adaptor"}, Settings2)
      Z == All(Names, Settings2)
  IN {c \in UNION {{Case(lv, <<a, b, z>>), Case(lv, <<z, a, b>>), Case(lv, <<a, z, b>>), Case(lv, <<b, a, z>>)} :
                       a \in A, b \in B, z \in Z} : Distinct(c)}

\* options whose documented effect depends on another option
Focus == {"enable_nested_struct", "template", "gen_deep_equal"}
Neighbours == {"gen_setter", "naming_style", "template", "enable_nested_struct"}
\* every option that takes part in a documented implication, requirement or exclusion
Core == {"apache_warning", "apache_adaptor", "with_field_mask", "with_reflection", "gen_json_tag",
         "always_gen_json_tag", "snake_style_json_tag", "lower_camel_style_json_tag", "streamx",
         "thrift_streaming", "template", "enable_nested_struct", "gen_deep_equal", "naming_style",
         "ignore_initialisms"}

Random == {RandomLists[i] : i \in 1..Len(RandomLists)}

\* The universes take a dummy argument: TLC evaluates every zero-arity constant definition at
\* start-up, and only the one selected by Tier is wanted.
UQuick(x) == Empty \cup Singles(GarbageQuick)
          \cup Pairs("backend", Names, Names, Settings2)
          \cup Pairs("cli", Focus, Names, Settings2) \cup Pairs("cli", Names, Focus, Settings2)
          \cup BadPairs("backend", Names, Neighbours, {"garbage"})
          \cup BadPairs("cli", Names, {"enable_nested_struct"}, {"garbage"})
          \cup RejectTriples("backend") \cup RejectTriples("cli")
          \cup Random

UThoroughBackend(x) == Empty \cup Singles(GarbageMore)
             \cup Pairs("backend", Names, Names, Settings3)
             \cup BadPairs("backend", Names, Names, {"garbage"})
UThoroughCli(x) == Pairs("cli", Names, Names, Settings2)
             \cup Pairs("cli", Focus, Names, Settings3) \cup Pairs("cli", Names, Focus, Settings3)
             \cup BadPairs("cli", Names, Neighbours, {"garbage"})
             \cup Random

BackendOnly(U) == {c \in U : c.level = "backend"}
UOf(t) == CASE t = "quick" -> UQuick(0)
            [] t = "quick-backend" -> BackendOnly(UQuick(0))
            [] t = "small" -> Empty \cup Singles(GarbageQuick) \cup Random
            [] t = "thorough-refines" -> BackendOnly(UThoroughBackend(0))
            [] t = "thorough-backend" -> UThoroughBackend(0)
            [] t = "thorough-cli" -> UThoroughCli(0)
            [] t = "thorough-triples" -> Triples("backend", Core, Settings2) \cup Triples("cli", Core, Settings2)
            [] t = "lists" -> Random
=============================================================================
