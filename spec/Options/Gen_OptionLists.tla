--------------------------- MODULE Gen_OptionLists ---------------------------
(***************************************************************************)
(* Random longer option lists for C20 (TLC -simulate, seeded): a list of n  *)
(* in 3..8 occurrences of distinct documented options in documented forms;  *)
(* in one mode out of four the list may contain one value that must be      *)
(* rejected.  Every completed list is printed as one LIST line.  An option  *)
(* is chosen in two steps (name, then form) to keep the number of           *)
(* successors -simulate has to enumerate small.  The variables of the       *)
(* abstract machine are parked.                                             *)
(***************************************************************************)
EXTENDS MC_Options
VARIABLES l, n, lvl, mode, pick, hasBad, fin
gvars == <<l, n, lvl, mode, pick, hasBad, fin, st, cs, todo, ph>>
parked == <<st, cs, todo, ph>>

LInit == /\ l = <<>> /\ fin = FALSE /\ pick = "" /\ hasBad = FALSE
         /\ n \in 3..8 /\ lvl \in Levels /\ mode \in 1..4
         /\ st = S0 /\ cs = Case("backend", <<>>) /\ todo = {} /\ ph = "gen"
LName == /\ pick = "" /\ Len(l) < n
         /\ \E m \in Names : (\A i \in 1..Len(l) : l[i].n # m) /\ pick' = m
         /\ UNCHANGED <<l, n, lvl, mode, hasBad, fin, parked>>
LForm == /\ pick # ""
         /\ \E o \in Legal(pick) \cup (IF mode = 4 /\ ~hasBad THEN Bad(pick, GarbageQuick) ELSE {}) :
              /\ l' = Append(l, o)
              /\ hasBad' = (hasBad \/ o \notin Legal(pick))
         /\ pick' = ""
         /\ UNCHANGED <<n, lvl, mode, fin, parked>>
\* -simulate evaluates the invariants on every successor it could pick; the completed list has
\* exactly one successor (fin), so exactly the lists of the traces taken are printed
LDone == /\ Len(l) = n /\ pick = "" /\ ~fin /\ fin' = TRUE
         /\ UNCHANGED <<l, n, lvl, mode, pick, hasBad, parked>>
LSpec == LInit /\ [][LName \/ LForm \/ LDone]_gvars
LEmit == fin => PrintT("LIST " \o ToJson(Case(lvl, l)))
=============================================================================
