--------------------------- MODULE Gen_OptionLists ---------------------------
(***************************************************************************)
(* Random longer option lists for C20 (TLC -simulate, seeded): a list of n  *)
(* in 3..8 occurrences of distinct documented options in documented forms;  *)
(* in one mode out of four the list may contain one value that must be      *)
(* rejected.  Every completed list is printed as one LIST line.  The        *)
(* variables of the abstract machine are parked.                            *)
(***************************************************************************)
EXTENDS MC_Options
VARIABLES l, n, lvl, mode, fin
gvars == <<l, n, lvl, mode, fin, st, cs, todo, ph>>

LegalOccs == UNION {Legal(m) : m \in Names}
BadOccs   == UNION {Bad(m, GarbageQuick) : m \in Names}
IsBad(o)  == o \in BadOccs

LInit == /\ l = <<>> /\ fin = FALSE /\ n \in 3..8 /\ lvl \in Levels /\ mode \in 1..4
         /\ st = S0 /\ cs = Case("backend", <<>>) /\ todo = {} /\ ph = "gen"
LNext == /\ Len(l) < n
         /\ \E o \in (IF mode = 4 /\ \A i \in 1..Len(l) : ~IsBad(l[i]) THEN LegalOccs \cup BadOccs ELSE LegalOccs) :
              /\ \A i \in 1..Len(l) : l[i].n # o.n
              /\ l' = Append(l, o)
         /\ UNCHANGED <<n, lvl, mode, fin, st, cs, todo, ph>>
\* -simulate evaluates the invariants on every successor it could pick; the completed list has
\* exactly one successor (fin), so exactly the lists of the traces taken are printed
LDone == /\ Len(l) = n /\ ~fin /\ fin' = TRUE
         /\ UNCHANGED <<l, n, lvl, mode, st, cs, todo, ph>>
LSpec == LInit /\ [][LNext \/ LDone]_gvars
LEmit == fin => PrintT("LIST " \o ToJson(Case(lvl, l)))
=============================================================================
