SPECIFICATION LSpec
CONSTANTS
  Universe <- UOf
  Tier = "lists"
INVARIANTS LEmit
CHECK_DEADLOCK FALSE
