SPECIFICATION Spec
CONSTANTS
  Universe <- UOf
  Tier = "quick"
INVARIANTS AInvariants Emit
CHECK_DEADLOCK FALSE
