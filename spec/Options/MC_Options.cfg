SPECIFICATION Spec
CONSTANTS
  Table <- cTable
  Universe <- UTier
  Tier = "quick"
INVARIANTS AInvariants Emit
CHECK_DEADLOCK FALSE
