SPECIFICATION BSpec
CONSTANTS
  Universe <- UOf
  Tier = "quick"
PROPERTY Refines
CHECK_DEADLOCK FALSE
