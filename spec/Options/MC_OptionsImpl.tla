--------------------------- MODULE MC_OptionsImpl ---------------------------
EXTENDS OptionsImpl, MC_Options

\* Two -g targets in one run (outside the statement; reported as findings, never as verdicts):
\* what the implementation model predicts for the settings each target generates with, next to
\* the outcomes the abstract machine allows for each target on its own.
Ign(v) == IF v = "" THEN Occ("ignore_initialisms", TRUE, "") ELSE Occ("ignore_initialisms", FALSE, v)
Sty(s) == Occ("naming_style", FALSE, s)
TargetLists == { <<>>, <<Ign("")>>, <<Ign("false")>>, <<Sty("golint")>>, <<Sty("apache")>>,
                 <<Sty("golint"), Ign("")>>, <<Ign(""), Sty("golint")>> }
ArgsOf(t) == [i \in 1..Len(t) |-> t[i].a]
ASSUME \A t1, t2 \in TargetLists :
         LET o == TwoTargets(t1, t2) IN
         PrintT("TWOTARGETS " \o ToJson([t1 |-> ArgsOf(t1), t2 |-> ArgsOf(t2), obs1 |-> o[1], obs2 |-> o[2],
                                          allowed1 |-> AOutcomes(Case("cli", t1)),
                                          allowed2 |-> AOutcomes(Case("cli", t2))]))
=============================================================================
