---------------------------- MODULE OptionsImpl ----------------------------
(***************************************************************************)
(* C20 -- layer (B): the option handling of the go backend as the code does *)
(* it (generator/golang/option.go, util.go, args/args.go), transcribed.     *)
(*                                                                          *)
(*  * allParams is an ordered table (Table, read from the real              *)
(*    GoBackend.Options() at run time).  HandleOptions splits every         *)
(*    argument at the first "=" and scans the table FROM THE TOP for the    *)
(*    first entry p with strings.HasPrefix(givenName, p.name); that entry's *)
(*    action runs.  No entry: the argument is ignored ("unsupported").      *)
(*  * entry actions: the six codeUtilsParams, everything else sets the      *)
(*    Features field tagged with the entry's name after checkBool.          *)
(*  * an action error returns at once; otherwise slim => GenDeepEqual=false *)
(*    and validateOptions.                                                  *)
(*  * naming styles are process-wide singletons (sing); a CodeUtils keeps   *)
(*    doInitialisms and re-applies it in SetNamingStyle / UseInitialisms.   *)
(*    The initial value of doInitialisms is read from the real code.        *)
(*  * command-line level: args.checkOptions runs HandleOptions on a         *)
(*    throw-away CodeUtils (errors ignored), then adapts the template for   *)
(*    enable_nested_struct (condition and loop copy transcribed literally), *)
(*    then the backend runs HandleOptions(Pack(opts)) on a fresh CodeUtils. *)
(*                                                                          *)
(* TLC checks (B) => (A): every step of a backend-level run is a step of    *)
(* the abstract machine (RefStep lists the steps that are not; PROPERTY     *)
(* Refines is the same statement as a temporal property), and the final     *)
(* observation of every run is an outcome (A) allows (Conform lists the     *)
(* others).  A listed divergence is a CANDIDATE defect, never a verdict.    *)
(* Shadows lists every (given name, table entry) pair where the first       *)
(* prefix match is not the exact match.                                     *)
(***************************************************************************)
EXTENDS Options
\* The variables of (A) -- st, todo, ph -- are kept here as ghost variables: every step of (B)
\* sets them to the image of (B)'s state under the refinement mapping (Ghost), so that
\* "(B) refines (A)" is literally "(B)'s behaviours satisfy Options!Spec".
\* (EXTENDS, not INSTANCE: Table is a file-backed definition and must be evaluated once.)

Given == ndJsonDeserialize("given.ndjson")   \* [s, chars] for every name a case may give
Impl  == ndJsonDeserialize("impl.ndjson")[1] \* [doInit, styles, templates, thriftLib] of the real code

VARIABLES args,    \* arguments HandleOptions of the backend gets (after checkOptions / Pack)
          k,       \* next argument
          pc,      \* "start" | "args" | "ret" | "done"
          cu,      \* the backend's CodeUtils: [on, sty, doInit, tmpl, prefix, repl]
          herr,    \* HandleOptions returned an error
          tgiven,  \* history: the template action ran
          sing     \* naming style singletons: style -> initialism correction enabled
bvars == <<cs, st, todo, ph, args, k, pc, cu, herr, tgiven, sing>>

----------------------------------------------------------------------------
Min(S) == CHOOSE x \in S : \A y \in S : x <= y
IsPrefix(p, s) == Len(p) <= Len(s) /\ SubSeq(s, 1, Len(p)) = p   \* strings.HasPrefix(s, p)

GivenNames == {Given[i].s : i \in 1..Len(Given)}
CharsOf == [n \in GivenNames |-> Given[CHOOSE i \in 1..Len(Given) : Given[i].s = n].chars]
\* for _, p := range allParams { if p.match(name) { ...; continue next } }
FirstMatch == [n \in GivenNames |->
                 LET S == {j \in 1..Len(Table) : IsPrefix(Table[j].chars, CharsOf[n])}
                 IN IF S = {} THEN 0 ELSE Min(S)]
Shadows == {<<n, IF FirstMatch[n] = 0 THEN "" ELSE Table[FirstMatch[n]].name>> :
              n \in {m \in GivenNames : FirstMatch[m] = 0 \/ Table[FirstMatch[m]].name # m}}
PrefixPairs == {<<a, b>> \in GivenNames \X GivenNames : a # b /\ IsPrefix(CharsOf[a], CharsOf[b])}
ASSUME PrintT("SHADOWS " \o ToJson(Shadows))
ASSUME PrintT("PREFIXPAIRS " \o ToJson(PrefixPairs))

Special == {"thrift_import_path", "use_package", "naming_style", "ignore_initialisms",
            "package_prefix", "template"}
RealStyles == {Impl.styles[i] : i \in 1..Len(Impl.styles)}
RealTemplates == {Impl.templates[i] : i \in 1..Len(Impl.templates)}
DefaultsOn == {Table[j].name : j \in {i \in 1..Len(Table) : Table[i].def}}   \* defaultFeatures

NewCU == [on |-> DefaultsOn, sty |-> "thriftgo", doInit |-> Impl.doInit, tmpl |-> "default",
          prefix |-> "", repl |-> {}]
Sing0 == [s \in RealStyles |-> TRUE]      \* zero value of every style: correction enabled


R(c, s, g, e) == [cu |-> c, sing |-> s, given |-> g, err |-> e]

\* p.action(value, cu) of table entry e
Act(c, sg, g, e, o) ==
  LET val == Value(o) IN
  CASE e = "thrift_import_path" -> R([c EXCEPT !.repl = Put(c.repl, Impl.thriftLib, val)], sg, g, FALSE)
    [] e = "use_package" ->      \* strings.SplitN(value, "=", 2)
         IF o.ok THEN R([c EXCEPT !.repl = Put(c.repl, o.p, o.r)], sg, g, FALSE) ELSE R(c, sg, g, TRUE)
    [] e = "naming_style" ->     \* NewNamingStyle(value) == nil -> error; SetNamingStyle
         IF val \in RealStyles
         THEN R([c EXCEPT !.sty = val], [sg EXCEPT ![val] = c.doInit], g, FALSE)
         ELSE R(c, sg, g, TRUE)
    [] e = "ignore_initialisms" ->   \* UseInitialisms(!ignore)
         LET b == CheckBool(val) IN
         IF b = "E" THEN R(c, sg, g, TRUE)
         ELSE R([c EXCEPT !.doInit = (b = "F")], [sg EXCEPT ![c.sty] = (b = "F")], g, FALSE)
    [] e = "package_prefix" -> R([c EXCEPT !.prefix = val], sg, g, FALSE)
    [] e = "template" ->         \* UseTemplate
         IF val = "default" \/ val \in RealTemplates
         THEN R([c EXCEPT !.tmpl = val], sg, TRUE, FALSE) ELSE R(c, sg, g, TRUE)
    [] OTHER ->                  \* Features.params(): checkBool, field.SetBool
         LET b == CheckBool(val) IN
         IF b = "E" THEN R(c, sg, g, TRUE)
         ELSE R([c EXCEPT !.on = IF b = "T" THEN c.on \cup {e} ELSE c.on \ {e}], sg, g, FALSE)

\* one iteration of the loop over args in HandleOptions
HandleArg(c, sg, g, o) ==
  LET j == FirstMatch[o.n] IN
  IF j = 0 THEN R(c, sg, g, FALSE)            \* cu.Info("unsupported option:", a)
  ELSE Act(c, sg, g, Table[j].name, o)

\* after the loop: slim template, validateOptions
Post(c) ==
  LET on1 == IF c.tmpl = "slim" THEN c.on \ {"gen_deep_equal"} ELSE c.on
      bad == \/ "apache_warning" \in on1 /\ "apache_adaptor" \in on1
             \/ "with_field_mask" \in on1 /\ "with_reflection" \notin on1
             \/ "snake_style_json_tag" \in on1 /\ "lower_camel_style_json_tag" \in on1
             \/ "gen_json_tag" \notin on1 /\ "always_gen_json_tag" \in on1
  IN [cu |-> [c EXCEPT !.on = on1], err |-> bad]

\* HandleOptions as a function (used for the throw-away CodeUtils of checkOptions)
RECURSIVE Run(_, _, _, _)
Run(c, sg, as, i) ==
  IF i > Len(as) THEN [cu |-> Post(c).cu, sing |-> sg]
  ELSE LET r == HandleArg(c, sg, FALSE, as[i]) IN
       IF r.err THEN [cu |-> r.cu, sing |-> r.sing]      \* return err: the caller ignores it
       ELSE Run(r.cu, r.sing, as, i + 1)

\* plugin.Pack: name + "=" + desc
Pack(as) == [i \in 1..Len(as) |-> [as[i] EXCEPT !.bare = FALSE]]
TemplateSlim == [n |-> "template", bare |-> FALSE, v |-> "slim", a |-> "template=slim",
                 ok |-> FALSE, p |-> "", r |-> ""]

\* args.checkOptions
CheckOptions(opts, sg) ==
  LET r == Run(NewCU, sg, Pack(opts), 1) IN
  IF "enable_nested_struct" \in r.cu.on
  THEN IF r.cu.tmpl # "slim" \/ r.cu.tmpl # "raw_struct"        \* sic
       THEN IF \E i \in 1..Len(opts) : opts[i].n = "template"
            THEN [opts |-> opts, sing |-> r.sing]                \* opt.Desc = "slim" hits a loop copy
            ELSE [opts |-> Append(opts, TemplateSlim), sing |-> r.sing]
       ELSE [opts |-> opts, sing |-> r.sing]
  ELSE [opts |-> opts, sing |-> r.sing]

\* HandleOptions of a backend as a function
RECURSIVE RunB(_, _, _, _, _)
RunB(c, sg, g, as, i) ==
  IF i > Len(as) THEN LET p == Post(c) IN R(p.cu, sg, g, p.err)
  ELSE LET r == HandleArg(c, sg, g, as[i]) IN
       IF r.err THEN r ELSE RunB(r.cu, r.sing, r.given, as, i + 1)
ObsOf(r) == Outcome([on |-> r.cu.on \cup (IF r.sing[r.cu.sty] THEN {} ELSE {"ignore_initialisms"}),
                     style |-> r.cu.sty, tmpl |-> r.cu.tmpl, given |-> r.given, prefix |-> r.cu.prefix,
                     repl |-> r.cu.repl, err |-> r.err])
\* Beyond the statement (one option list): sdk.InvokeThriftgo with two -g targets.  Targets() runs
\* checkOptions for both, then the backends run one after the other (each generates before the
\* next starts); the naming style objects are shared by all four CodeUtils.
TwoTargets(t1, t2) ==
  LET c1 == CheckOptions(t1, Sing0)
      c2 == CheckOptions(t2, c1.sing)
      b1 == RunB(NewCU, c2.sing, FALSE, Pack(c1.opts), 1)
      b2 == RunB(NewCU, b1.sing, FALSE, Pack(c2.opts), 1)
  IN <<ObsOf(b1), ObsOf(b2)>>

----------------------------------------------------------------------------
(* the refinement mapping                                                   *)

\* initialism correction is observable through the style object in use
OnObs == cu.on \cup (IF sing[cu.sty] THEN {} ELSE {"ignore_initialisms"})
ASt == [on |-> OnObs, style |-> cu.sty, tmpl |-> cu.tmpl, given |-> tgiven, prefix |-> cu.prefix,
        repl |-> cu.repl, err |-> herr]
ATodo == IF pc = "start" THEN 1..Len(cs.opts) ELSE IF pc = "done" THEN {} ELSE k..Len(cs.opts)
APh == IF pc = "done" THEN "done" ELSE "apply"
Ghost == st' = ASt' /\ todo' = ATodo' /\ ph' = APh'

----------------------------------------------------------------------------
BInit == /\ cs \in Universe(Tier)
         /\ args = cs.opts /\ k = 1 /\ pc = "start"
         /\ cu = NewCU /\ herr = FALSE /\ tgiven = FALSE /\ sing = Sing0
         /\ st = ASt /\ todo = ATodo /\ ph = APh

BStart == /\ pc = "start"
          /\ IF cs.level = "cli"
             THEN LET r == CheckOptions(cs.opts, sing) IN args' = Pack(r.opts) /\ sing' = r.sing
             ELSE UNCHANGED <<args, sing>>
          /\ pc' = "args"
          /\ UNCHANGED <<cs, k, cu, herr, tgiven>>

BArg == /\ pc = "args" /\ k <= Len(args)
        /\ LET r == HandleArg(cu, sing, tgiven, args[k]) IN
           /\ cu' = r.cu /\ sing' = r.sing /\ tgiven' = r.given /\ herr' = r.err
           /\ pc' = IF r.err THEN "ret" ELSE "args"
        /\ k' = k + 1
        /\ UNCHANGED <<cs, args>>

BReturn == /\ pc = "ret" /\ pc' = "done"
           /\ UNCHANGED <<cs, args, k, cu, herr, tgiven, sing>>

BFinish == /\ pc = "args" /\ k > Len(args)
           /\ LET r == Post(cu) IN cu' = r.cu /\ herr' = r.err
           /\ pc' = "done"
           /\ UNCHANGED <<cs, args, k, tgiven, sing>>

BNext == (BStart \/ BArg \/ BReturn \/ BFinish) /\ Ghost
BSpec == BInit /\ [][BNext]_bvars

----------------------------------------------------------------------------
(* (B) => (A)                                                               *)

Obs == Outcome(st)
CaseId == [lv |-> cs.level, args |-> Args(cs)]

\* backend level: HandleOptions step by step is the abstract machine.  Refines is the statement;
\* RefInit / RefStep say the same state by state and LIST every exception instead of stopping.
Backend == cs.level = "backend"
\* (checked on backend-level universes only; the case is shared, so "cs \in Universe" is not
\* repeated: as an implied initial predicate TLC would rebuild the universe for every case)
Refines == InitState /\ [][Next]_vars
RefInit == (pc = "start" /\ Backend) =>
             (st = S0 \/ PrintT("NONREFINE " \o ToJson(CaseId @@ [step |-> "init", k |-> 0])))
RefStep == \/ ~Backend
           \/ Next \/ UNCHANGED vars
           \/ PrintT("NONREFINE " \o ToJson(CaseId @@ [step |-> pc, k |-> k]))

\* every level: the final observation is an outcome the abstract machine allows
Conform == (pc = "done") =>
             \/ Obs \in AOutcomes(cs)
             \/ PrintT("DIVERGE " \o ToJson(CaseId @@ [obs |-> Obs]))

\* (A) itself: the outcomes do not depend on the position of an option among the others
Rev(c) == [c EXCEPT !.opts = [i \in 1..Len(c.opts) |-> c.opts[Len(c.opts) + 1 - i]]]
\* (evaluated once per case, in the state after BStart, so that the BFS workers share the work)
Once == pc = "args" /\ k = 1
PositionFree == Once => AOutcomes(cs) = AOutcomes(Rev(cs))

\* case generation: the case with every outcome (A) allows
EmitB == Once => PrintT("CASES " \o ToJson(CaseId @@ [outs |-> AOutcomes(cs)]))
=============================================================================
