---------------------------- MODULE ResolveGen ----------------------------
(***************************************************************************)
(* Bounded universe of multi-file programs for C05, the TLC state machine  *)
(* that runs layer B on every program (and on permutations of its          *)
(* definitions), the design-level invariants (B => A, order independence)  *)
(* and the emission of the program cases with the per-node expectation of  *)
(* layer A.                                                                *)
(*                                                                         *)
(* A program is built from                                                 *)
(*   layout   include DAG over nf <= 4 files (every edge set i -> j, i < j,*)
(*            with all files reachable from the main file), a naming       *)
(*            scheme (plain; two files with the same base name in          *)
(*            different directories; a base name with a dot) and the order *)
(*            of the include statements                                    *)
(*   chain    typedefs T1 -> T2 -> .. -> Tk -> final (k <= MaxChain), the  *)
(*            final being an enum / struct / union / exception D0 or a     *)
(*            base / container type; every element placed in a file such   *)
(*            that each step stays in the file or crosses a direct include *)
(*   refs     in file R (which sees T1): one reference of every kind to T1 *)
(*            (typedef target, constant type, field, list/set element, map *)
(*            key and value, function return / argument / throws, union    *)
(*            and exception members), `extends`, constants written Const   *)
(*            and inc.Const, and -- when the final is an enum -- its value *)
(*            V1 written through every chain element R can see             *)
(*            (Enum.V, Typedef.V, inc.Enum.V, inc.Typedef.V), as constant  *)
(*            values, field defaults, list elements, map keys and values   *)
(*   sec      decoys (the chain names defined again, differently, in every *)
(*            other file), a definition named like an include prefix       *)
(*            (struct, enum, typedef, constant, service; and the ambiguous *)
(*            enum-value-vs-included-constant), where the base service is  *)
(*   perm     permutations of the definitions of each file                 *)
(***************************************************************************)
EXTENDS Resolve, Json

CONSTANTS Plans,         \* set of [files, schemes, chain, dkinds, rmode, secper, perm]:
                         \*   files 1..4; schemes subset of {"std","same23","same34","dotted"}; chain 0..4 (typedefs);
                         \*   dkinds subset of {"enum","struct","union","exception","i32","string","list","map"};
                         \*   rmode "main" (references only in the main file) | "all"; secper = secondary combinations
                         \*   per core case (of 224); perm "none" | "rev" | "light" | "full"
          Seed,
          WithNeg        \* BOOLEAN: include the hand-written programs (negative / special)

-----------------------------------------------------------------------------
\* ---- layouts
EdgesOf(nf) == {e \in (1 .. nf) \X (1 .. nf) : e[1] < e[2]}
RECURSIVE ReachN(_, _, _)
ReachN(E, R, n) == IF n = 0 THEN R ELSE ReachN(E, R \cup {e[2] : e \in {e \in E : e[1] \in R}}, n - 1)
Dags(nf) == {E \in SUBSET EdgesOf(nf) : ReachN(E, {1}, nf) = 1 .. nf}
RECURSIVE Asc(_)
Asc(T) == IF T = {} THEN <<>> ELSE LET m == CHOOSE x \in T : \A y \in T : x <= y IN <<m>> \o Asc(T \ {m})
Rev(s) == [i \in DOMAIN s |-> s[Len(s) + 1 - i]]
RECURSIVE Asc2(_)
Asc2(T) == IF T = {} THEN <<>> ELSE LET m == CHOOSE x \in T : \A y \in T : x[1] * 10 + x[2] <= y[1] * 10 + y[2] IN <<m>> \o Asc2(T \ {m})
IncSeq(E, f, ord) == LET a == Asc({e[2] : e \in {e \in E : e[1] = f}}) IN IF ord = "asc" THEN a ELSE Rev(a)

SchemePaths(s) ==
  CASE s = "std" -> <<"m.thrift", "a.thrift", "b.thrift", "c.thrift">>
    [] s = "same23" -> <<"m.thrift", "p/x.thrift", "q/x.thrift", "c.thrift">>
    [] s = "same34" -> <<"m.thrift", "a.thrift", "p/x.thrift", "q/x.thrift">>
    [] s = "dotted" -> <<"m.thrift", "a.thrift", "a.b.thrift", "c.thrift">>
SchemePres(s) ==
  CASE s = "std" -> <<"m", "a", "b", "c">>
    [] s = "same23" -> <<"m", "x", "x", "c">>
    [] s = "same34" -> <<"m", "a", "x", "x">>
    [] s = "dotted" -> <<"m", "a", "a.b", "c">>
SchemeOK(s, nf) == CASE s = "std" -> TRUE [] s = "same23" -> nf >= 3 [] s = "same34" -> nf = 4 [] s = "dotted" -> nf >= 3

Groups == UNION {UNION {{[k |-> "grp", plan |-> pl, nf |-> nf, E |-> E, scheme |-> s]
                         : E \in Dags(nf), s \in {s \in pl.schemes : SchemeOK(s, nf)}} : nf \in 1 .. pl.files} : pl \in Plans}

\* ---- chains
Virtual(dk) == dk \in {"i32", "string", "list", "map"}
VirtType(dk) == CASE dk = "i32" -> Base("i32") [] dk = "string" -> Base("string")
                  [] dk = "list" -> ListT(Base("i32")) [] dk = "map" -> MapT(Base("string"), Base("i64"))
NElems(k, dk) == IF Virtual(dk) THEN k ELSE k + 1
VisOf(E, f) == {f} \cup {e[2] : e \in {e \in E : e[1] = f}}
RECURSIVE Placements(_, _, _)
Placements(E, from, n) ==
  IF n = 0 THEN {<<>>} ELSE UNION {{<<g>> \o rest : rest \in Placements(E, g, n - 1)} : g \in VisOf(E, from)}

RECURSIVE SumSeq(_)
SumSeq(s) == IF s = <<>> THEN 0 ELSE Head(s) * Len(s) + SumSeq(Tail(s))
KindNo(dk) == CASE dk = "enum" -> 1 [] dk = "struct" -> 2 [] dk = "union" -> 3 [] dk = "exception" -> 4
                [] dk = "i32" -> 5 [] dk = "string" -> 6 [] dk = "list" -> 7 [] dk = "map" -> 8
CoreHash(g, R, k, dk, loc) == R * 5 + k * 17 + KindNo(dk) * 3 + SumSeq(loc) * 7 + Cardinality(g.E) * 13 + g.nf

\* ---- secondary dimensions: 2 x 7 x 4 x 2 x 2 = 224 combinations, addressed by a number
PfxSeq == <<"none", "struct", "enum", "typedef", "const", "service", "enumKC">>
SvcSeq == <<"inc1", "local", "incL", "none">>
OrdSeq == <<"asc", "desc">>
SecOf(i) == [no |-> i, decoy |-> (i % 2 = 1), pfx |-> PfxSeq[((i \div 2) % 7) + 1], svc |-> SvcSeq[((i \div 14) % 4) + 1],
             ord |-> OrdSeq[((i \div 56) % 2) + 1],
             kr |-> ((i \div 112) % 2 = 0)]      \* kr: R has a constant referring to a constant of each of its includes
SecNos(h, per) == {(h * 37 + Seed * 11 + t * 29) % 224 : t \in 0 .. (per - 1)}

Subs(g) ==          \* sub-groups [g, R, k, dk], only there to spread the work over TLC's workers
  UNION {UNION {{[k |-> "sub", g |-> g, R |-> R, ck |-> k, dk |-> dk] : dk \in {dk \in g.plan.dkinds : NElems(k, dk) >= 1}}
                : k \in 0 .. g.plan.chain} : R \in (IF g.plan.rmode = "main" THEN {1} ELSE 1 .. g.nf)}
Metas(s) ==
  LET g == s.g IN
  UNION {{[fam |-> "gen", nf |-> g.nf, E |-> Asc2(g.E), scheme |-> g.scheme, R |-> s.R, k |-> s.ck, dk |-> s.dk, loc |-> loc,
           sec |-> SecOf(i)] : i \in SecNos(CoreHash(g, s.R, s.ck, s.dk, loc), g.plan.secper)}
         : loc \in Placements(g.E, s.R, NElems(s.ck, s.dk))}

-----------------------------------------------------------------------------
\* ---- building the program of a meta record
EName(m, i) == IF i <= m.k THEN "T" \o ToString(i) ELSE "D0"
MPre(m, g) == SchemePres(m.scheme)[g]
MEdges(m) == Range(m.E)
MIncs(m, f) == IncSeq(MEdges(m), f, m.sec.ord)
NEl(m) == NElems(m.k, m.dk)
RefFrom(m, from, i) == Ref(IF m.loc[i] = from THEN "" ELSE MPre(m, m.loc[i]), EName(m, i))
FinalDef(m) ==
  CASE m.dk = "enum" -> EnumD("D0", <<"V1", "V2">>)
    [] m.dk = "struct" -> SLD("struct", "D0", <<Field("x", Base("i32"), NoV)>>)
    [] m.dk = "union" -> SLD("union", "D0", <<Field("x", Base("i32"), NoV), Field("y", Base("string"), NoV)>>)
    [] m.dk = "exception" -> SLD("exception", "D0", <<Field("msg", Base("string"), NoV)>>)
ElemDef(m, i) ==
  IF i <= m.k THEN TypedefD(EName(m, i), IF i < NEl(m) THEN RefFrom(m, m.loc[i], i + 1) ELSE VirtType(m.dk))
  ELSE FinalDef(m)
DecoyDef(m, i) == IF m.dk = "enum" THEN SLD("struct", EName(m, i), <<>>) ELSE EnumD(EName(m, i), <<"V1", "V2">>)

SeqOfSet(T) == Asc(T)
ChainDefs(m, g) == LET I == Asc({i \in 1 .. NEl(m) : m.loc[i] = g}) IN [j \in DOMAIN I |-> ElemDef(m, I[j])]
DecoyDefs(m, g) == IF m.sec.decoy THEN LET I == Asc({i \in 1 .. NEl(m) : m.loc[i] # g}) IN [j \in DOMAIN I |-> DecoyDef(m, I[j])]
                   ELSE <<>>
KCName(g) == "KC" \o ToString(g)

\* spellings of the enum value V1 visible from R, one per chain element R can see
SpOne(m, i) ==
  LET incs == MIncs(m, m.R) IN
  IF m.loc[i] = m.R THEN <<<<EName(m, i), "V1">>>>
  ELSE LET J == Asc({j \in DOMAIN incs : incs[j] = m.loc[i]}) IN
       [q \in DOMAIN J |-> <<MPre(m, m.loc[i]), EName(m, i), "V1">>]
RECURSIVE SpAll(_, _)
SpAll(m, i) == IF i > NEl(m) THEN <<>> ELSE SpOne(m, i) \o SpAll(m, i + 1)
Spellings(m) ==
  IF m.dk # "enum" THEN <<>> ELSE SpAll(m, 1)

SvcHost(m) ==
  LET incs == MIncs(m, m.R) IN
  CASE m.sec.svc = "none" -> 0
    [] m.sec.svc = "local" -> m.R
    [] m.sec.svc = "inc1" -> IF Len(incs) = 0 THEN m.R ELSE incs[1]
    [] m.sec.svc = "incL" -> IF Len(incs) = 0 THEN m.R ELSE incs[Len(incs)]
\* (a base name with a dot cannot be the name of a definition)
PfxName(m) == LET incs == MIncs(m, m.R) IN
              IF Len(incs) = 0 \/ (m.scheme = "dotted" /\ incs[1] = 3) THEN "" ELSE MPre(m, incs[1])
PfxDefs(m) ==
  LET P == PfxName(m)
      incs == MIncs(m, m.R) IN
  IF P = "" \/ m.sec.pfx = "none" THEN <<>>
  ELSE CASE m.sec.pfx = "struct" -> <<SLD("struct", P, <<>>), SLD("struct", "RP", <<Field("p1", Ref("", P), NoV)>>)>>
         [] m.sec.pfx = "enum" -> <<EnumD(P, <<"V1", "V2">>), ConstD("KP", Ref("", P), VId(<<P, "V1">>))>>
         [] m.sec.pfx = "enumKC" -> <<EnumD(P, <<"V1", KCName(incs[1])>>), ConstD("KP", Base("i32"), VId(<<P, KCName(incs[1])>>))>>
         [] m.sec.pfx = "typedef" -> <<TypedefD(P, Base("i32")), SLD("struct", "RP", <<Field("p1", Ref("", P), NoV)>>)>>
         [] m.sec.pfx = "const" -> <<ConstD(P, Base("i32"), VInt(1)), ConstD("KP", Base("i32"), VId(<<P>>))>>
         [] m.sec.pfx = "service" -> <<SvcD(P, NoT, <<>>), SvcD("RPS", Ref("", P), <<>>)>>

RefDefs(m) ==
  LET R == m.R
      H == RefFrom(m, R, 1)
      sp == Spellings(m)
      incs == MIncs(m, R)
      val == CASE m.dk = "enum" -> VId(sp[1])
               [] m.dk \in {"struct", "union", "exception", "map"} -> VMap(<<>>)
               [] m.dk = "i32" -> VInt(1)
               [] m.dk = "string" -> [t |-> "str", s |-> "x"]
               [] m.dk = "list" -> VList(<<>>)
      host == SvcHost(m)
      ext == IF host = 0 THEN NoT ELSE Ref(IF host = R THEN "" ELSE MPre(m, host), "BS") IN
  <<TypedefD("RT", H),
    ConstD("RC", H, val),
    ConstD("RCL", ListT(H), VList(<<>>)),
    SLD("struct", "RS", <<Field("f1", H, NoV), Field("f2", ListT(H), NoV), Field("f3", MapT(H, H), NoV),
                          Field("f4", SetT(H), NoV)>>
                        \o (IF m.dk = "enum" THEN <<Field("f5", H, VId(sp[Len(sp)]))>> ELSE <<>>)),
    SLD("union", "RU", <<Field("u1", H, NoV), Field("u2", Base("i32"), NoV)>>),
    SLD("exception", "RE", <<Field("e1", H, NoV)>>),
    SvcD("RV", ext, <<Fn("fn", H, <<Field("a", H, NoV), Field("b", ListT(H), NoV)>>, <<Field("t", H, NoV)>>),
                      Fn("fv", NoT, <<>>, <<>>)>>)>>
  \o [i \in DOMAIN sp |-> ConstD("KV" \o ToString(i), H, VId(sp[i]))]
  \o (IF m.dk = "enum"
      THEN <<ConstD("KL", ListT(H), VList([i \in DOMAIN sp |-> VId(sp[i])])),
             ConstD("KM", MapT(H, H), VMap(<<<<VId(sp[1]), VId(sp[Len(sp)])>>>>))>>
      ELSE <<>>)
  \o <<ConstD("KR0", Base("i32"), VId(<<KCName(R)>>))>>
  \o (IF m.sec.kr THEN [j \in DOMAIN incs |-> ConstD("KR" \o ToString(j), Base("i32"), VId(<<MPre(m, incs[j]), KCName(incs[j])>>))]
      ELSE <<>>)
  \o PfxDefs(m)

FileDefs(m, g) ==
  (IF g = m.R THEN RefDefs(m) ELSE <<>>)
  \o ChainDefs(m, g) \o DecoyDefs(m, g)
  \o <<ConstD(KCName(g), Base("i32"), VInt(7))>>
  \o (IF SvcHost(m) = g \/ (m.sec.decoy /\ SvcHost(m) # 0) THEN <<SvcD("BS", NoT, <<>>)>> ELSE <<>>)
BuildGen(m) ==
  [files |-> [g \in 1 .. m.nf |-> [path |-> SchemePaths(m.scheme)[g], pre |-> MPre(m, g), incs |-> MIncs(m, g),
                                   defs |-> FileDefs(m, g)]]]

\* ---- hand-written programs: names that denote nothing (the model rejects), and a few special positives
F1(path, pre, incs, defs) == [path |-> path, pre |-> pre, incs |-> incs, defs |-> defs]
I32 == Base("i32")
HandProg(name) ==
  CASE name = "transitive-type" ->       \* m -> a -> b; m writes b.T1 although it does not include b
         [files |-> <<F1("m.thrift", "m", <<2>>, <<TypedefD("RT", Ref("b", "T1")), TypedefD("OK", Ref("a", "TA"))>>),
                      F1("a.thrift", "a", <<3>>, <<TypedefD("TA", Ref("b", "T1"))>>),
                      F1("b.thrift", "b", <<>>, <<TypedefD("T1", I32)>>)>>]
    [] name = "transitive-value" ->
         [files |-> <<F1("m.thrift", "m", <<2>>, <<ConstD("K", I32, VId(<<"b", "KC">>)), TypedefD("OK", Ref("a", "TA"))>>),
                      F1("a.thrift", "a", <<3>>, <<TypedefD("TA", I32), ConstD("KA", I32, VId(<<"b", "KC">>))>>),
                      F1("b.thrift", "b", <<>>, <<ConstD("KC", I32, VInt(1))>>)>>]
    [] name = "undefined-local" -> [files |-> <<F1("m.thrift", "m", <<>>, <<TypedefD("RT", Ref("", "Nope"))>>)>>]
    [] name = "const-as-type" ->
         [files |-> <<F1("m.thrift", "m", <<>>, <<ConstD("K", I32, VInt(1)), TypedefD("RT", Ref("", "K"))>>)>>]
    [] name = "service-as-type" ->
         [files |-> <<F1("m.thrift", "m", <<>>, <<SvcD("V", NoT, <<>>), SLD("struct", "S", <<Field("f", Ref("", "V"), NoV)>>)>>)>>]
    [] name = "typedef-cycle" ->
         [files |-> <<F1("m.thrift", "m", <<>>, <<TypedefD("A", Ref("", "B")), TypedefD("B", Ref("", "A")),
                                                   TypedefD("C", I32)>>)>>]
    [] name = "typedef-cycle-across" ->
         [files |-> <<F1("m.thrift", "m", <<2>>, <<TypedefD("A", Ref("a", "B")), TypedefD("S", Ref("", "A"))>>),
                      F1("a.thrift", "a", <<>>, <<TypedefD("B", Ref("", "B2")), TypedefD("B2", Ref("", "B"))>>)>>]
    [] name = "extends-struct" ->
         [files |-> <<F1("m.thrift", "m", <<>>, <<SLD("struct", "S", <<>>), SvcD("V", Ref("", "S"), <<>>)>>)>>]
    [] name = "extends-missing-inc" ->
         [files |-> <<F1("m.thrift", "m", <<2>>, <<SvcD("V", Ref("a", "Nope"), <<>>)>>),
                      F1("a.thrift", "a", <<>>, <<SvcD("B", NoT, <<>>)>>)>>]
    [] name = "inc-missing-type" ->
         [files |-> <<F1("m.thrift", "m", <<2>>, <<TypedefD("RT", Ref("a", "Nope"))>>),
                      F1("a.thrift", "a", <<>>, <<TypedefD("T", I32)>>)>>]
    [] name = "enum-value-missing" ->
         [files |-> <<F1("m.thrift", "m", <<>>, <<EnumD("E", <<"V1">>), ConstD("K", Ref("", "E"), VId(<<"E", "V9">>))>>)>>]
    [] name = "inc-enum-value-missing" ->
         [files |-> <<F1("m.thrift", "m", <<2>>, <<ConstD("K", Ref("a", "E"), VId(<<"a", "E", "V9">>))>>),
                      F1("a.thrift", "a", <<>>, <<EnumD("E", <<"V1">>)>>)>>]
    [] name = "bare-enum-value" ->       \* V1 without its enum is not one of the spellings
         [files |-> <<F1("m.thrift", "m", <<>>, <<EnumD("E", <<"V1">>), ConstD("K", Ref("", "E"), VId(<<"V1">>))>>)>>]
    [] name = "struct-dot-value" ->
         [files |-> <<F1("m.thrift", "m", <<>>, <<SLD("struct", "S", <<>>), ConstD("K", I32, VId(<<"S", "V1">>))>>)>>]
    [] name = "dup-names" ->
         [files |-> <<F1("m.thrift", "m", <<>>, <<EnumD("E", <<"V1">>), SLD("struct", "E", <<>>)>>)>>]
    \* positives
    [] name = "deep-containers" ->
         [files |-> <<F1("m.thrift", "m", <<2>>,
                         <<TypedefD("L", ListT(Ref("a", "TE"))), EnumD("E", <<"V1">>), TypedefD("TT", Ref("", "L")),
                           SLD("struct", "S", <<Field("f", MapT(ListT(Ref("a", "TE")), SetT(MapT(Ref("", "TT"), Ref("a", "E")))), NoV),
                                                Field("g", ListT(ListT(Ref("", "E"))),
                                                      VList(<<VList(<<VId(<<"E", "V1">>)>>), VList(<<>>)>>)),
                                                Field("h", MapT(Ref("", "E"), ListT(Ref("a", "E"))),
                                                      VMap(<<<<VId(<<"E", "V1">>), VList(<<VId(<<"a", "TE", "V2">>), VId(<<"a", "E", "V1">>)>>)>>>>))>>)>>),
                      F1("a.thrift", "a", <<>>, <<TypedefD("TE", Ref("", "E")), EnumD("E", <<"V1", "V2">>)>>)>>]
    [] name = "local-td-of-included-enum" ->   \* the candidate of DESIGN 6/C05; a.thrift also has an unrelated enum LE with V1
         [files |-> <<F1("m.thrift", "m", <<2>>, <<TypedefD("LE", Ref("a", "E")), ConstD("K", Ref("", "LE"), VId(<<"LE", "V1">>))>>),
                      F1("a.thrift", "a", <<>>, <<EnumD("E", <<"V1", "V2">>), EnumD("LE", <<"V1", "V3">>)>>)>>]
    [] name = "same-name-everywhere" ->        \* T means something else in every file
         [files |-> <<F1("m.thrift", "m", <<2, 3>>,
                         <<SLD("struct", "T", <<>>),
                           SLD("struct", "S", <<Field("l", Ref("", "T"), NoV), Field("a", Ref("a", "T"), NoV), Field("b", Ref("b", "T"), NoV)>>)>>),
                      F1("a.thrift", "a", <<3>>, <<TypedefD("T", Ref("b", "T"))>>),
                      F1("b.thrift", "b", <<>>, <<EnumD("T", <<"V1">>)>>)>>]
    [] name = "same-alias-typedefs" ->         \* three DIFFERENT typedefs called Tag, all referred to from m
         [files |-> <<F1("m.thrift", "m", <<2, 3>>,
                         <<TypedefD("Tag", Base("string")),
                           SLD("struct", "S", <<Field("l", Ref("", "Tag"), NoV), Field("a", Ref("a", "Tag"), NoV),
                                                Field("b", ListT(Ref("b", "Tag")), NoV), Field("l2", ListT(Ref("", "Tag")), NoV),
                                                Field("a2", MapT(Ref("", "Tag"), Ref("a", "Tag")), NoV)>>)>>),
                      F1("a.thrift", "a", <<>>, <<SLD("struct", "TagInfo", <<>>), TypedefD("Tag", Ref("", "TagInfo"))>>),
                      F1("b.thrift", "b", <<>>, <<EnumD("TE", <<"V1">>), TypedefD("Tag", Ref("", "TE"))>>)>>]
    [] name = "bool-idents" ->
         [files |-> <<F1("m.thrift", "m", <<>>, <<ConstD("B1", Base("bool"), VId(<<"true">>)), ConstD("B2", Base("bool"), VId(<<"false">>)),
                                                   ConstD("B3", Base("bool"), VId(<<"B1">>))>>)>>]
    [] name = "unused-include" ->
         [files |-> <<F1("m.thrift", "m", <<2, 3>>, <<TypedefD("T", Ref("b", "TB"))>>),
                      F1("a.thrift", "a", <<>>, <<TypedefD("TA", I32)>>),
                      F1("b.thrift", "b", <<>>, <<TypedefD("TB", I32)>>)>>]
UsedHand(name) ==      \* m includes a and b; exactly one thing refers to a; nothing refers to b
  LET mdefs == CASE name = "used-by-extends" -> <<SvcD("V", Ref("a", "B"), <<>>)>>
                 [] name = "used-by-const" -> <<ConstD("K", I32, VId(<<"a", "KC">>))>>
                 [] name = "used-by-enum-value" -> <<ConstD("K", I32, VId(<<"a", "E", "V1">>))>>
                 [] name = "used-by-typedef-enum-value" -> <<ConstD("K", I32, VId(<<"a", "TE", "V1">>))>>
                 [] name = "used-by-type" -> <<SLD("struct", "S", <<Field("f", Ref("a", "E"), NoV)>>)>>
                 [] name = "used-by-container-element" -> <<SLD("struct", "S", <<Field("f", MapT(Base("string"), ListT(Ref("a", "TE"))), NoV)>>)>>
                 [] name = "used-by-throws" -> <<SvcD("V", NoT, <<Fn("f", NoT, <<>>, <<Field("e", Ref("a", "X"), NoV)>>)>>)>>
                 [] name = "used-by-nothing" -> <<SLD("struct", "S", <<Field("f", I32, NoV)>>)>> IN
  [files |-> <<F1("m.thrift", "m", <<2, 3>>, mdefs),
               F1("a.thrift", "a", <<>>, <<SvcD("B", NoT, <<>>), ConstD("KC", I32, VInt(1)), EnumD("E", <<"V1">>),
                                           TypedefD("TE", Ref("", "E")), SLD("exception", "X", <<>>)>>),
               F1("b.thrift", "b", <<>>, <<SvcD("B", NoT, <<>>), ConstD("KC", I32, VInt(1)), EnumD("E", <<"V1">>),
                                           TypedefD("TE", Ref("", "E")), SLD("exception", "X", <<>>)>>)>>]
UsedHandNames == {"used-by-extends", "used-by-const", "used-by-enum-value", "used-by-typedef-enum-value", "used-by-type",
                  "used-by-container-element", "used-by-throws", "used-by-nothing"}
HandNames == UsedHandNames \cup {"transitive-type", "transitive-value", "undefined-local", "const-as-type", "service-as-type", "typedef-cycle",
              "typedef-cycle-across", "extends-struct", "extends-missing-inc", "inc-missing-type", "enum-value-missing",
              "inc-enum-value-missing", "bare-enum-value", "struct-dot-value", "dup-names",
              "deep-containers", "local-td-of-included-enum", "same-name-everywhere", "same-alias-typedefs", "bool-idents",
              "unused-include"}

Build(m) == IF m.fam = "gen" THEN BuildGen(m) ELSE IF m.name \in UsedHandNames THEN UsedHand(m.name) ELSE HandProg(m.name)

-----------------------------------------------------------------------------
\* ---- permutations of the definitions: ord[f] is a permutation of DOMAIN defs; new defs[i] = old defs[ord[f][i]]
IdOrd(p) == [f \in 1 .. NFiles(p) |-> [i \in DOMAIN Defs(p, f) |-> i]]
RevOrd(p) == [f \in 1 .. NFiles(p) |-> [i \in DOMAIN Defs(p, f) |-> Len(Defs(p, f)) + 1 - i]]
Permute(p, ord) == [files |-> [f \in 1 .. NFiles(p) |-> [p.files[f] EXCEPT !.defs = [i \in DOMAIN ord[f] |-> Defs(p, f)[ord[f][i]]]]]]
PermsOf(n) == {s \in [1 .. n -> 1 .. n] : \A i, j \in 1 .. n : i # j => s[i] # s[j]}
KindPos(p, f, K) == Asc({i \in DOMAIN Defs(p, f) : Defs(p, f)[i].k \in K})
KindOrd(p, f, K, pi) ==       \* permute only the definitions of the kinds K in file f
  LET P == KindPos(p, f, K) IN
  [g \in 1 .. NFiles(p) |->
     IF g # f THEN [i \in DOMAIN Defs(p, g) |-> i]
     ELSE [i \in DOMAIN Defs(p, f) |->
             IF \E q \in DOMAIN P : P[q] = i THEN P[pi[CHOOSE q \in DOMAIN P : P[q] = i]] ELSE i]]
Rot(n) == [i \in 1 .. n |-> (i % n) + 1]
KindSets == {{"typedef"}, {"const"}, {"enum"}, {"struct"}, {"union"}, {"exception"}, {"service"}}
KindTag(K) == CHOOSE k \in K : TRUE
PermOrds(p, PermMode) ==      \* set of [name, ord] (the identity excluded)
  LET rev == {[name |-> "rev", ord |-> RevOrd(p)]}
      kp(f, K) == LET n == Len(KindPos(p, f, K)) IN
                  IF n < 2 THEN {}
                  ELSE IF n <= 4 THEN {[name |-> "k:" \o ToString(f) \o ":" \o KindTag(K), ord |-> KindOrd(p, f, K, pi)]
                                       : pi \in {s \in PermsOf(n) : s # [i \in 1 .. n |-> i]}}
                  ELSE {[name |-> "k:" \o ToString(f) \o ":" \o KindTag(K), ord |-> KindOrd(p, f, K, pi)]
                        : pi \in {Rot(n), Rev([i \in 1 .. n |-> i])}}
      mostTd == CHOOSE f \in 1 .. NFiles(p) : \A g \in 1 .. NFiles(p) :
                   Len(KindPos(p, f, {"typedef"})) >= Len(KindPos(p, g, {"typedef"})) IN
  CASE PermMode = "none" -> {}
    [] PermMode = "rev" -> rev
    [] PermMode = "light" -> rev \cup kp(mostTd, {"typedef"})
    [] PermMode = "full" -> rev \cup UNION {UNION {kp(f, K) : K \in KindSets} : f \in 1 .. NFiles(p)}
DistinctOrds(S) == {o \in S : \A o2 \in S : o2.ord = o.ord => o2.name = o.name}

-----------------------------------------------------------------------------
\* ---- layer A evaluated once per program (kept in the case record; identical for every permutation because node keys
\*      and the declarative semantics do not mention positions)
IncsOfRefs(al) == {r.idx + 1 : r \in al}          \* NoRef has idx -1: position 0 = the file itself
ExpTypes(p, sym) == [f \in 1 .. NFiles(p) |-> {[key |-> n.key, al |-> AllowedTypeS(p, sym, f, n.t), dr |-> DerefS(p, sym, f, n.t)]
                                               : n \in FileTypeNodes(p, f)}]
ExpIdNode(key, T, al) == [key |-> key, nt |-> Cardinality(T), al |-> al]
ExpIdNodeT(p, sym, f, n, T) == ExpIdNode(n.key, T, AllowedExtraS(p, sym, f, n.segs, T))
ExpIds(p, sym) == [f \in 1 .. NFiles(p) |-> {ExpIdNodeT(p, sym, f, n, ValTargetsS(p, sym, f, n.segs)) : n \in FileIdNodes(p, f)}]
ExpExts(p) == [f \in 1 .. NFiles(p) |-> {[key |-> n.key, al |-> AllowedExt(p, f, n.t)] : n \in FileExtNodes(p, f)}]
IncSets(types, ids, exts) == {IncsOfRefs({r.ref : r \in n.al}) : n \in types} \cup {IncsOfRefs(n.al) : n \in exts}
                             \cup {IncsOfRefs(n.al) : n \in ids}
UsedOf(p, f, N) == [must |-> {j \in DOMAIN Incs(p, f) : {j} \in N}, may |-> {j \in DOMAIN Incs(p, f) : \E t \in N : j \in t}]
ExpOf3(p, types, ids, exts) ==
  [types |-> UNION {types[f] : f \in 1 .. NFiles(p)},
   ids |-> UNION {ids[f] : f \in 1 .. NFiles(p)},
   exts |-> UNION {exts[f] : f \in 1 .. NFiles(p)},
   used |-> [f \in 1 .. NFiles(p) |-> UsedOf(p, f, IncSets(types[f], ids[f], exts[f]))],
   n2c |-> [f \in 1 .. NFiles(p) |-> N2C(p, f)]]
ExpOfS(p, sym) == ExpOf3(p, ExpTypes(p, sym), ExpIds(p, sym), ExpExts(p))
ExpOf(p) == ExpOfS(p, Sym(p))
StatusOf(p, exp) ==
  IF DupNames(p) THEN "dup"
  ELSE IF (\E n \in exp.types : n.al = {}) \/ (\E n \in exp.ids : n.nt = 0) \/ (\E n \in exp.exts : n.al = {}) THEN "undefined"
  ELSE IF (\E n \in exp.types : Cardinality(n.al) > 1) \/ (\E n \in exp.ids : n.nt > 1) \/ (\E n \in exp.exts : Cardinality(n.al) > 1)
       THEN "ambiguous" ELSE "unique"
ExtraIn(x, al) == \E a \in al : a.isEnum = x.isEnum /\ a.idx = x.idx /\ a.name = x.name /\ (a.sel = "*" \/ a.sel = x.sel)
\* keys at which a successful final state of B is not allowed by A  (same predicate as Resolve!BadKeys, from the stored exp)
BadOf(p, exp, S0) ==
  {n.key : n \in {n \in exp.types : ~(n.key \in DOMAIN S0.ty /\ S0.ty[n.key] \in n.al)}}
  \cup {n.key : n \in {n \in exp.ids : ~(n.key \in DOMAIN S0.ex /\ ExtraIn(S0.ex[n.key], n.al))}}
  \cup {n.key : n \in {n \in exp.exts : ~((IF n.key \in DOMAIN S0.sref THEN S0.sref[n.key] ELSE NoRef) \in n.al)}}
  \cup UNION {{FPath(p, f) \o "|inc:" \o ToString(j - 1) :
                j \in {j \in DOMAIN Incs(p, f) : (j \in exp.used[f].must /\ <<f, j>> \notin S0.used)
                                                 \/ (j \notin exp.used[f].may /\ <<f, j>> \in S0.used)}} : f \in 1 .. NFiles(p)}

\* ---- the state machine: root -> group -> base case (identity order) -> its permutations; every case runs layer B
VARIABLES c, S
vars == <<c, S>>
NullS == [mk |-> {}, n2c |-> <<>>, ty |-> <<>>, ex |-> <<>>, sref |-> <<>>, used |-> {}, stack |-> <<>>, err |-> "", n |-> 0]
NullRes == [err |-> "-", ty |-> <<>>, ex |-> <<>>, sref |-> <<>>, used |-> {}]
\* A case is made in two steps (built, then analysed) so that the program is a plain value of the state when layer A
\* is evaluated over it (TLC does not cache LET / argument values inside an action).
Built(m, pm) == [k |-> "built", meta |-> m, pm |-> pm, prog |-> Build(m)]
Analysed(b) == [k |-> "case", meta |-> b.meta, pm |-> b.pm, perm |-> "id", ord |-> IdOrd(b.prog), prog |-> b.prog, exp |-> ExpOf(b.prog),
                baseres |-> NullRes]

Init == c = [k |-> "root"] /\ S = NullS
FanGroups ==
  /\ c.k = "root"
  /\ \/ c' \in Groups
     \/ WithNeg /\ c' = [k |-> "hand"]
  /\ S' = NullS
FanSubs == c.k = "grp" /\ c' \in Subs(c) /\ S' = NullS
FanCases ==
  /\ \/ c.k = "sub" /\ \E m \in Metas(c) : c' = Built(m, c.g.plan.perm)
     \/ c.k = "hand" /\ \E nm \in HandNames : c' = Built([fam |-> "hand", name |-> nm], "rev")
  /\ S' = NullS
Analyse == c.k = "built" /\ c' = Analysed(c) /\ S' = InitB(c.prog)
Finished == c.k = "case" /\ Done(S)
FanPerms ==        \* from the finished run of the identity order, which every permuted run is compared with
  /\ Finished /\ c.perm = "id"
  /\ \E o \in PermOrds(c.prog, c.pm) :
        /\ o.ord # c.ord
        /\ c' = [c EXCEPT !.perm = o.name, !.ord = o.ord, !.prog = Permute(c.prog, o.ord), !.baseres = BRes(S)]
  /\ S' = InitB(c'.prog)
Running == c.k = "case" /\ ~Done(S)
BIncludes == Running /\ PC(S) = "includes" /\ S' = Step(c.prog, S) /\ UNCHANGED c
BRegisterNames == Running /\ PC(S) = "register" /\ S' = Step(c.prog, S) /\ UNCHANGED c
BTypedefTypes == Running /\ PC(S) = "typedefs" /\ S' = Step(c.prog, S) /\ UNCHANGED c
BConstants == Running /\ PC(S) = "constants" /\ S' = Step(c.prog, S) /\ UNCHANGED c
BStructFields == Running /\ PC(S) = "structs" /\ S' = Step(c.prog, S) /\ UNCHANGED c
BServices == Running /\ PC(S) = "services" /\ S' = Step(c.prog, S) /\ UNCHANGED c
BTypedefRound == Running /\ PC(S) = "round" /\ S' = Step(c.prog, S) /\ UNCHANGED c
BReturn == Running /\ PC(S) = "return" /\ S' = Step(c.prog, S) /\ UNCHANGED c
Next == FanGroups \/ FanSubs \/ FanCases \/ Analyse \/ FanPerms \/ BIncludes \/ BRegisterNames \/ BTypedefTypes \/ BConstants
        \/ BStructFields \/ BServices \/ BTypedefRound \/ BReturn

-----------------------------------------------------------------------------
\* ---- design-level invariants
TypeOK == c.k \in {"root", "grp", "sub", "hand", "built", "case"}
St == StatusOf(c.prog, c.exp)

\* B => A.  B accepts only programs in which every name denotes something and accepts every program in which every name
\* denotes exactly one thing; on accepted programs every stored record is one A allows -- except for the candidate class.
BRefinesA ==
  Finished =>
    /\ (S.err = "" => St \in {"unique", "ambiguous"})
    /\ (St = "unique" => S.err = "")
    /\ (S.err = "" => \A key \in BadOf(c.prog, c.exp, S) : ~SelFixed /\ EnumSelCandidate(c.prog, S, key))
    /\ (S.err = "" => \A f \in 1 .. NFiles(c.prog) : S.n2c[f] = c.exp.n2c[f])

\* the final resolution state does not depend on the order of the definitions
OrderIndependent == (Finished /\ c.perm # "id") => BRes(S) = c.baseres

\* the tabulated denotation (Sym) used for the emitted expectation agrees with the recursive definitions of layer A
TableAgrees == (c.k = "case" /\ c.perm = "id" /\ S.n = 0) => SymConsistent(c.prog, Sym(c.prog))

\* the retry loop makes progress or stops: bounded run length
Terminates == S.n <= 120

\* ---- emission
CType(t) == t
CDef(d) ==
  CASE d.k = "typedef" -> [k |-> d.k, name |-> d.name, ty |-> d.ty]
    [] d.k = "const" -> [k |-> d.k, name |-> d.name, ty |-> d.ty, val |-> d.val]
    [] d.k = "enum" -> [k |-> d.k, name |-> d.name, vals |-> d.vals]
    [] d.k \in {"struct", "union", "exception"} -> [k |-> d.k, name |-> d.name, fields |-> d.fields]
    [] d.k = "service" -> [k |-> d.k, name |-> d.name, ext |-> d.ext, fns |-> d.fns]
CProg(p) == [files |-> [f \in 1 .. NFiles(p) |-> [path |-> FPath(p, f), pre |-> Pre(p, f), incs |-> Incs(p, f),
                                                   defs |-> [i \in DOMAIN Defs(p, f) |-> CDef(Defs(p, f)[i])]]]]
BOut(p, exp, S0) ==
  [err |-> S0.err, steps |-> S0.n,
   ty |-> {[key |-> k, r |-> S0.ty[k]] : k \in DOMAIN S0.ty},
   ex |-> {[key |-> k, r |-> S0.ex[k]] : k \in DOMAIN S0.ex},
   sref |-> {[key |-> k, r |-> S0.sref[k]] : k \in DOMAIN S0.sref},
   used |-> S0.used,
   bad |-> IF S0.err = "" THEN BadOf(p, exp, S0) ELSE {}]
Emit ==
  Finished =>
    IF c.perm = "id"
    THEN PrintT("CASE " \o ToJson([meta |-> c.meta, perm |-> "id", prog |-> CProg(c.prog), status |-> St,
                                   exp |-> c.exp, b |-> BOut(c.prog, c.exp, S)]))
    ELSE PrintT("CASE " \o ToJson([meta |-> c.meta, perm |-> c.perm, ord |-> c.ord, berr |-> S.err, steps |-> S.n]))
=============================================================================
