INIT Init
NEXT Next
INVARIANT Accepted
CHECK_DEADLOCK FALSE
