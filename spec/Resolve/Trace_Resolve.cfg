INIT Init
NEXT Next
CONSTANT SelFixed = FALSE
INVARIANT Accepted
CHECK_DEADLOCK FALSE
