--------------------------- MODULE Trace_Resolve ---------------------------
(***************************************************************************)
(* Validation of what the real resolver stored in the AST against layer A. *)
(* Every line of traces.ndjson is one run of the real front end:           *)
(*   [prog  |-> the program (as emitted by ResolveGen),                    *)
(*    types |-> [key |-> [cat, td, ref, dr]], ids |-> [key |-> extra],     *)
(*    exts  |-> [key |-> ref],             used |-> [file|inc:j |-> BOOLEAN]]*)
(* A run is accepted iff every reference node of the program carries a     *)
(* record layer A allows (Resolve!AllowedType / ExtraOK / AllowedExt, the   *)
(* recursive definitions, not the tabulated form used for the emitted      *)
(* expectation) and the used flags are those layer A demands.              *)
(* Each trace is an independent behaviour; accepted traces print ACC <n>.  *)
(***************************************************************************)
EXTENDS Resolve, Json

Traces == ndJsonDeserialize("traces.ndjson")

Has(rec, key) == key \in DOMAIN rec
TypeOKAt(p, f, n, o) ==
  /\ Has(o.types, n.key)
  /\ [cat |-> o.types[n.key].cat, td |-> o.types[n.key].td, ref |-> o.types[n.key].ref] \in AllowedType(p, f, n.t)
  /\ o.types[n.key].dr \in FinalDefs(p, f, n.t, Fuel)      \* what semantic.Deref reaches from the stored binding
IdOKAt(p, f, n, o) == Has(o.ids, n.key) /\ ExtraOK(p, f, n.segs, o.ids[n.key])
ExtOKAt(p, f, n, o) == Has(o.exts, n.key) /\ o.exts[n.key] \in AllowedExt(p, f, n.t)
Through(p, f, j, o) ==        \* some stored binding of file f goes through its j-th include
  \/ \E n \in FileTypeNodes(p, f) : Has(o.types, n.key) /\ o.types[n.key].ref.idx = j - 1
  \/ \E n \in FileIdNodes(p, f) : Has(o.ids, n.key) /\ o.ids[n.key].idx = j - 1
  \/ \E n \in FileExtNodes(p, f) : Has(o.exts, n.key) /\ o.exts[n.key].idx = j - 1
UsedKey(p, f, j) == FPath(p, f) \o "|inc:" \o ToString(j - 1)
UsedOKAt(p, f, j, o, N) ==      \* N = Resolve!NodeIncSets(p, f): must = {j} \in N, may = j in some member
  Has(o.used, UsedKey(p, f, j)) =>
    o.used[UsedKey(p, f, j)] = (IF {j} \in N THEN TRUE ELSE IF ~(\E t \in N : j \in t) THEN FALSE ELSE Through(p, f, j, o))
UsedOKAll(p, f, o, N) == \A j \in DOMAIN Incs(p, f) : UsedOKAt(p, f, j, o, N)
Conforms(p, o) ==
  \A f \in 1 .. NFiles(p) :
     /\ \A n \in FileTypeNodes(p, f) : TypeOKAt(p, f, n, o)
     /\ \A n \in FileIdNodes(p, f) : IdOKAt(p, f, n, o)
     /\ \A n \in FileExtNodes(p, f) : ExtOKAt(p, f, n, o)
     /\ UsedOKAll(p, f, o, NodeIncSets(p, f))

VARIABLE tr
Init == tr = 0
Next == tr = 0 /\ tr' \in 1 .. Len(Traces)
Accepted == (tr # 0 /\ Conforms(Traces[tr].prog, Traces[tr])) => PrintT("ACC " \o ToString(tr))
=============================================================================
