------------------------------ MODULE Resolve ------------------------------
(***************************************************************************)
(* C05 -- symbol resolution binds every reference to the definition the    *)
(* IDL names.                                                              *)
(*                                                                         *)
(* Layer A (declarative): what a written name DENOTES in a multi-file      *)
(* program, and from that, for every reference node, the set of resolution *)
(* records the property allows (category, typedef flag, include reference; *)
(* for identifier values the binding record; for includes the used flag).  *)
(* Where the IDL itself is ambiguous (two includes with the same base      *)
(* name both define the name; `p.X` is both a local enum value and a       *)
(* constant of include p) every candidate is allowed.                      *)
(*                                                                         *)
(* Layer B (implementation shaped): a transcription of                     *)
(* semantic.ResolveSymbols / resolver.ResolveAST of /repo: includes first, *)
(* RegisterNames, then the passes over typedefs, constants, struct-likes,  *)
(* services (functions, base service) and the ResolveTypedefs retry loop   *)
(* that stops when a round makes no progress.  B is a deterministic        *)
(* machine `Step`; its actions are the passes.                             *)
(*                                                                         *)
(* The program is data (sequences and records; no CONSTANT).               *)
(***************************************************************************)
EXTENDS Naturals, Integers, Sequences, FiniteSets, TLC

CONSTANT SelFixed   \* which getEnum layer B transcribes: FALSE = the pinned one (selector = the written name, index = the
                    \* include found through a typedef); TRUE = with pending_fixes/C05-enum-sel-through-local-typedef.diff
                    \* (the selector is a name of the file the index points at).  The check asks the real code which it is.

-----------------------------------------------------------------------------
(* Program model.                                                          *)
(*  prog  = [files |-> <<FILE...>>]            file 1 is the main file     *)
(*  FILE  = [path, pre, incs, defs]   pre = base name without extension,   *)
(*          incs = sequence of file numbers in the order of the include    *)
(*          statements, defs = definitions in source order                 *)
(*  DEF   = [k, name, ty, val, vals, fields, ext, fns]                     *)
(*  TYPE  = [n |-> base] | [n |-> "list"|"set", v] | [n |-> "map", k, v]   *)
(*        | [n |-> "ref", pre, name]   written `name` or `pre.name`        *)
(*  VAL   = [t |-> "int"] | [t |-> "id", segs] | [t |-> "list", xs]        *)
(*        | [t |-> "map", kvs] | [t |-> "none"]                            *)
(***************************************************************************)
NoT == [n |-> "none"]
NoV == [t |-> "none"]
Base(b) == [n |-> b]
Ref(pre, name) == [n |-> "ref", pre |-> pre, name |-> name]
ListT(v) == [n |-> "list", v |-> v]
SetT(v) == [n |-> "set", v |-> v]
MapT(k, v) == [n |-> "map", k |-> k, v |-> v]
VInt(i) == [t |-> "int", i |-> i]
VId(segs) == [t |-> "id", segs |-> segs]
VList(xs) == [t |-> "list", xs |-> xs]
VMap(kvs) == [t |-> "map", kvs |-> kvs]

Def(k, name) == [k |-> k, name |-> name, ty |-> NoT, val |-> NoV, vals |-> <<>>, fields |-> <<>>,
                 ext |-> NoT, fns |-> <<>>]
TypedefD(name, ty) == [Def("typedef", name) EXCEPT !.ty = ty]
ConstD(name, ty, val) == [Def("const", name) EXCEPT !.ty = ty, !.val = val]
EnumD(name, vals) == [Def("enum", name) EXCEPT !.vals = vals]
SLD(kind, name, fields) == [Def(kind, name) EXCEPT !.fields = fields]
SvcD(name, ext, fns) == [Def("service", name) EXCEPT !.ext = ext, !.fns = fns]
Field(name, ty, dv) == [name |-> name, ty |-> ty, dv |-> dv]
Fn(name, ret, args, throws) == [name |-> name, ret |-> ret, args |-> args, throws |-> throws]

BaseCat == [bool |-> "Bool", byte |-> "Byte", i8 |-> "Byte", i16 |-> "I16", i32 |-> "I32", i64 |-> "I64",
            double |-> "Double", string |-> "String", binary |-> "Binary"]
ContCat == [list |-> "List", set |-> "Set", map |-> "Map"]
KindCat == [typedef |-> "Typedef", const |-> "Constant", enum |-> "Enum", struct |-> "Struct", union |-> "Union",
            exception |-> "Exception", service |-> "Service"]
TypeKinds == {"typedef", "enum", "struct", "union", "exception"}
TypeCats == {"Enum", "Struct", "Union", "Exception", "Typedef"}   \* Category_Enum .. Category_Typedef
NoRef == [name |-> "", idx |-> -1]
Fuel == 12        \* longer than any typedef chain of the universes (cycles run out of fuel)

Range(s) == {s[i] : i \in DOMAIN s}
Incs(p, f) == p.files[f].incs
Pre(p, g) == p.files[g].pre
FPath(p, f) == p.files[f].path
Defs(p, f) == p.files[f].defs
OfKind(p, f, K) == SelectSeq(Defs(p, f), LAMBDA d : d.k \in K)

RECURSIVE Join(_)
Join(segs) == IF Len(segs) = 1 THEN segs[1] ELSE segs[1] \o "." \o Join(Tail(segs))
TypeName(t) == IF t.n = "ref" THEN (IF t.pre = "" THEN t.name ELSE t.pre \o "." \o t.name) ELSE t.n

\* ---- node keys (independent of the order of the definitions)
TdKey(p, f, name) == FPath(p, f) \o "|td:" \o name \o "|type"
DefTypeSlots(p, f, d) ==     \* top-level type expressions of a definition, in the order the resolver visits them
  LET pf == FPath(p, f) IN
  CASE d.k = "typedef" -> <<[key |-> pf \o "|td:" \o d.name \o "|type", t |-> d.ty]>>
    [] d.k = "const" -> <<[key |-> pf \o "|const:" \o d.name \o "|type", t |-> d.ty]>>
    [] d.k \in {"struct", "union", "exception"} ->
         [i \in DOMAIN d.fields |-> [key |-> pf \o "|sl:" \o d.name \o "|f:" \o d.fields[i].name \o "|type", t |-> d.fields[i].ty]]
    [] OTHER -> <<>>
FnTypeSlots(p, f, d, fn) ==
  LET fk == FPath(p, f) \o "|svc:" \o d.name \o "|fn:" \o fn.name IN
  (IF fn.ret = NoT THEN <<>> ELSE <<[key |-> fk \o "|ret", t |-> fn.ret]>>)
  \o [i \in DOMAIN fn.args |-> [key |-> fk \o "|arg:" \o fn.args[i].name \o "|type", t |-> fn.args[i].ty]]
  \o [i \in DOMAIN fn.throws |-> [key |-> fk \o "|throw:" \o fn.throws[i].name \o "|type", t |-> fn.throws[i].ty]]
ValSlots(p, f, d) ==
  LET pf == FPath(p, f) IN
  CASE d.k = "const" -> <<[key |-> pf \o "|const:" \o d.name \o "|value", v |-> d.val]>>
    [] d.k \in {"struct", "union", "exception"} ->
         LET withDv == SelectSeq(d.fields, LAMBDA x : x.dv # NoV) IN
         [i \in DOMAIN withDv |-> [key |-> pf \o "|sl:" \o d.name \o "|f:" \o withDv[i].name \o "|default", v |-> withDv[i].dv]]
    [] OTHER -> <<>>
ExtKey(p, f, d) == FPath(p, f) \o "|svc:" \o d.name \o "|extends"

RECURSIVE TypeNodes(_, _)
TypeNodes(key, t) ==
  {[key |-> key, t |-> t]} \cup
  (IF t.n \in {"list", "set"} THEN TypeNodes(key \o ".v", t.v)
   ELSE IF t.n = "map" THEN TypeNodes(key \o ".k", t.k) \cup TypeNodes(key \o ".v", t.v) ELSE {})
RECURSIVE IdNodes(_, _)
IdNodes(key, v) ==
  IF v.t = "id" THEN (IF v.segs \in {<<"true">>, <<"false">>} THEN {} ELSE {[key |-> key, segs |-> v.segs]})   \* literals
  ELSE IF v.t = "list" THEN UNION {IdNodes(key \o ".l" \o ToString(i), v.xs[i]) : i \in DOMAIN v.xs}
  ELSE IF v.t = "map" THEN UNION {IdNodes(key \o ".m" \o ToString(i) \o "k", v.kvs[i][1])
                                    \cup IdNodes(key \o ".m" \o ToString(i) \o "v", v.kvs[i][2]) : i \in DOMAIN v.kvs}
  ELSE {}

FileTypeNodes(p, f) ==
  UNION {LET d == Defs(p, f)[i] IN
         UNION {TypeNodes(s.key, s.t) : s \in Range(DefTypeSlots(p, f, d))}
         \cup UNION {UNION {TypeNodes(s.key, s.t) : s \in Range(FnTypeSlots(p, f, d, d.fns[j]))} : j \in DOMAIN d.fns}
         : i \in DOMAIN Defs(p, f)}
FileIdNodes(p, f) ==
  UNION {LET d == Defs(p, f)[i] IN UNION {IdNodes(s.key, s.v) : s \in Range(ValSlots(p, f, d))} : i \in DOMAIN Defs(p, f)}
FileExtNodes(p, f) ==
  {[key |-> ExtKey(p, f, Defs(p, f)[i]), t |-> Defs(p, f)[i].ext] :
      i \in {i \in DOMAIN Defs(p, f) : Defs(p, f)[i].k = "service" /\ Defs(p, f)[i].ext # NoT}}

-----------------------------------------------------------------------------
(***************************************************************************)
(* LAYER A -- what the IDL names.                                          *)
(***************************************************************************)
\* the files in which a name written with prefix `pre` in file f is looked up (inc = position of the include, 0 = f itself)
Scopes(p, f, pre) ==
  IF pre = "" THEN {[f |-> f, inc |-> 0]}
  ELSE {[f |-> Incs(p, f)[j], inc |-> j] : j \in {j \in DOMAIN Incs(p, f) : Pre(p, Incs(p, f)[j]) = pre}}
DefIdx(p, g, name, K) == {i \in DOMAIN Defs(p, g) : Defs(p, g)[i].name = name /\ Defs(p, g)[i].k \in K}
Cands(p, f, t, K) ==       \* the definitions of a kind in K the written name t can denote: [f, inc, d]
  UNION {{[f |-> s.f, inc |-> s.inc, d |-> i] : i \in DefIdx(p, s.f, t.name, K)} : s \in Scopes(p, f, t.pre)}
TypeCands(p, f, t) == Cands(p, f, t, TypeKinds)
DefAt(p, c) == Defs(p, c.f)[c.d]

\* Denotes: typedef chains followed to the end, across includes.  Set valued (empty: nothing is denoted / a cycle).
RECURSIVE FinalCats(_, _, _, _), CandCats(_, _, _)
FinalCats(p, f, t, fuel) ==
  IF t.n \in DOMAIN BaseCat THEN {BaseCat[t.n]}
  ELSE IF t.n \in DOMAIN ContCat THEN {ContCat[t.n]}
  ELSE IF fuel = 0 THEN {}
  ELSE UNION {CandCats(p, c, fuel) : c \in TypeCands(p, f, t)}
CandCats(p, c, fuel) ==
  LET d == DefAt(p, c) IN IF d.k = "typedef" THEN FinalCats(p, c.f, d.ty, fuel - 1) ELSE {KindCat[d.k]}

\* the definition (or base / container type expression) a type expression finally denotes, as semantic.Deref reports it:
\* [file, name, cat]; for a base or container type the file is the one in which it is written
RECURSIVE FinalDefs(_, _, _, _)
FinalDefs(p, f, t, fuel) ==
  IF t.n \in DOMAIN BaseCat THEN {[file |-> FPath(p, f), name |-> t.n, cat |-> BaseCat[t.n]]}
  ELSE IF t.n \in DOMAIN ContCat THEN {[file |-> FPath(p, f), name |-> t.n, cat |-> ContCat[t.n]]}
  ELSE IF fuel = 0 THEN {}
  ELSE UNION {LET d == DefAt(p, c) IN
              IF d.k = "typedef" THEN FinalDefs(p, c.f, d.ty, fuel - 1)
              ELSE {[file |-> FPath(p, c.f), name |-> d.name, cat |-> KindCat[d.k]]} : c \in TypeCands(p, f, t)}

\* the enum definitions a written type name denotes (through typedefs): set of [f, d]
RECURSIVE EnumsOf(_, _, _, _)
EnumsOf(p, f, t, fuel) ==
  IF t.n # "ref" \/ fuel = 0 THEN {}
  ELSE UNION {LET d == DefAt(p, c) IN
              IF d.k = "enum" THEN {[f |-> c.f, d |-> c.d]}
              ELSE IF d.k = "typedef" THEN EnumsOf(p, c.f, d.ty, fuel - 1) ELSE {} : c \in TypeCands(p, f, t)}
HasVal(p, e, v) == v \in Range(Defs(p, e.f)[e.d].vals)

\* allowed resolution records of a type node
AllowedType(p, f, t) ==
  IF t.n \in DOMAIN BaseCat THEN {[cat |-> BaseCat[t.n], td |-> FALSE, ref |-> NoRef]}
  ELSE IF t.n \in DOMAIN ContCat THEN {[cat |-> ContCat[t.n], td |-> FALSE, ref |-> NoRef]}
  ELSE UNION {{[cat |-> c, td |-> (DefAt(p, cand).k = "typedef"),
                ref |-> IF t.pre = "" THEN NoRef ELSE [name |-> t.name, idx |-> cand.inc - 1]]
               : c \in CandCats(p, cand, Fuel)} : cand \in TypeCands(p, f, t)}
TypeIncs(p, f, t) == IF t.n = "ref" THEN {c.inc : c \in {c \in TypeCands(p, f, t) : CandCats(p, c, Fuel) # {}}} ELSE {0}

\* base service
AllowedExt(p, f, t) ==
  {IF t.pre = "" THEN NoRef ELSE [name |-> t.name, idx |-> c.inc - 1] : c \in Cands(p, f, t, {"service"})}
ExtIncs(p, f, t) == {c.inc : c \in Cands(p, f, t, {"service"})}

\* the constant / enum value an identifier names: set of targets [kind, f, d, v]
ConstT(g, i) == [kind |-> "const", f |-> g, d |-> i, v |-> ""]
EnumT(e, v) == [kind |-> "ev", f |-> e.f, d |-> e.d, v |-> v]
ValTargets(p, f, segs) ==
  LET n == Len(segs)
      v == segs[n] IN
  IF n = 1 THEN {ConstT(f, i) : i \in DefIdx(p, f, v, {"const"})}
  ELSE LET front == Join(SubSeq(segs, 1, n - 1))
           A == IF n = 2 THEN {EnumT(e, v) : e \in {e \in EnumsOf(p, f, Ref("", segs[1]), Fuel) : HasVal(p, e, v)}} ELSE {}
           B == UNION {{ConstT(s.f, i) : i \in DefIdx(p, s.f, v, {"const"})} : s \in Scopes(p, f, front)}
           C == IF n >= 3
                THEN UNION {{EnumT(e, v) : e \in {e \in EnumsOf(p, s.f, Ref("", segs[n - 1]), Fuel) : HasVal(p, e, v)}}
                            : s \in Scopes(p, f, Join(SubSeq(segs, 1, n - 2)))}
                ELSE {}
       IN A \cup B \cup C

\* what a binding record [isEnum, idx, name, sel] stored in file f designates: the file selected by idx (-1 = f), in it
\* the constant `name`, or the value `name` of the enum the type name `sel` denotes there (typedefs followed)
ExtraFile(p, f, x) == IF x.idx = -1 THEN f ELSE Incs(p, f)[x.idx + 1]
ExtraTargets(p, f, x) ==
  IF x.idx < -1 \/ x.idx >= Len(Incs(p, f)) THEN {}
  ELSE LET g == ExtraFile(p, f, x) IN
       IF x.isEnum THEN {EnumT(e, x.name) : e \in {e \in EnumsOf(p, g, Ref("", x.sel), Fuel) : HasVal(p, e, x.name)}}
       ELSE {ConstT(g, i) : i \in DefIdx(p, g, x.name, {"const"})}
TypeNames(p, g) == {Defs(p, g)[i].name : i \in {i \in DOMAIN Defs(p, g) : Defs(p, g)[i].k \in TypeKinds}}
ExtraSpace(p, f, v) ==      \* sel "*" = any selector text (the property does not constrain it for constants)
  {[isEnum |-> FALSE, idx |-> i, name |-> v, sel |-> "*"] : i \in -1 .. (Len(Incs(p, f)) - 1)}
  \cup UNION {{[isEnum |-> TRUE, idx |-> i, name |-> v, sel |-> s] : s \in TypeNames(p, IF i = -1 THEN f ELSE Incs(p, f)[i + 1])}
              : i \in -1 .. (Len(Incs(p, f)) - 1)}
\* (values are handed on as operator arguments, not LET definitions: TLC re-evaluates a LET body on every use inside a
\*  quantified context, an argument is evaluated once)
SingleIn(X, T) == Cardinality(X) = 1 /\ X \subseteq T
AllowedExtraT(p, f, segs, T) ==
  {x \in ExtraSpace(p, f, segs[Len(segs)]) : SingleIn(ExtraTargets(p, f, x), T)}
AllowedExtra(p, f, segs) == AllowedExtraT(p, f, segs, ValTargets(p, f, segs))
ExtraOK(p, f, segs, x) ==   \* membership test for an observed record (sel of a constant binding is free)
  /\ x.name = segs[Len(segs)]
  /\ Cardinality(ExtraTargets(p, f, x)) = 1
  /\ ExtraTargets(p, f, x) \subseteq ValTargets(p, f, segs)

\* per file: includes that must / may be marked used
NodeIncSets(p, f) ==
  {TypeIncs(p, f, n.t) : n \in FileTypeNodes(p, f)}
  \cup {ExtIncs(p, f, n.t) : n \in FileExtNodes(p, f)}
  \cup {{x.idx + 1 : x \in AllowedExtra(p, f, n.segs)} : n \in FileIdNodes(p, f)}
UsedMust(p, f) == {j \in DOMAIN Incs(p, f) : {j} \in NodeIncSets(p, f)}
UsedMay(p, f) == {j \in DOMAIN Incs(p, f) : \E s \in NodeIncSets(p, f) : j \in s}

NFiles(p) == Len(p.files)

\* ---- the same denotation, tabulated once per program (TLC does not memoize operators): for every file and every type
\*      name defined in it, the final categories, whether the name is a typedef, and the enums it denotes
Sym(p) ==
  [g \in 1 .. NFiles(p) |->
     [nm \in TypeNames(p, g) |->
        [cats |-> FinalCats(p, g, Ref("", nm), Fuel),
         td |-> DefIdx(p, g, nm, {"typedef"}) # {},
         enums |-> EnumsOf(p, g, Ref("", nm), Fuel),
         fin |-> FinalDefs(p, g, Ref("", nm), Fuel)]]]
DerefS(p, sym, f, t) ==
  IF t.n # "ref" THEN FinalDefs(p, f, t, Fuel)
  ELSE UNION {sym[s.f][t.name].fin : s \in {s \in Scopes(p, f, t.pre) : t.name \in DOMAIN sym[s.f]}}
\* name -> category of everything a file defines (Thrift.Name2Category)
N2C(p, f) == [nm \in {Defs(p, f)[i].name : i \in DOMAIN Defs(p, f)} |->
                KindCat[Defs(p, f)[CHOOSE i \in DOMAIN Defs(p, f) : Defs(p, f)[i].name = nm].k]]
AllowedTypeS(p, sym, f, t) ==
  IF t.n \in DOMAIN BaseCat THEN {[cat |-> BaseCat[t.n], td |-> FALSE, ref |-> NoRef]}
  ELSE IF t.n \in DOMAIN ContCat THEN {[cat |-> ContCat[t.n], td |-> FALSE, ref |-> NoRef]}
  ELSE UNION {{[cat |-> c, td |-> sym[s.f][t.name].td,
                ref |-> IF t.pre = "" THEN NoRef ELSE [name |-> t.name, idx |-> s.inc - 1]] : c \in sym[s.f][t.name].cats}
              : s \in {s \in Scopes(p, f, t.pre) : t.name \in DOMAIN sym[s.f]}}
EnumValsS(p, sym, g, nm, v) ==
  IF nm \in DOMAIN sym[g] THEN {EnumT(e, v) : e \in {e \in sym[g][nm].enums : HasVal(p, e, v)}} ELSE {}
ValTargetsS(p, sym, f, segs) ==
  LET n == Len(segs)
      v == segs[n] IN
  IF n = 1 THEN {ConstT(f, i) : i \in DefIdx(p, f, v, {"const"})}
  ELSE (IF n = 2 THEN EnumValsS(p, sym, f, segs[1], v) ELSE {})
       \cup UNION {{ConstT(s.f, i) : i \in DefIdx(p, s.f, v, {"const"})} : s \in Scopes(p, f, Join(SubSeq(segs, 1, n - 1)))}
       \cup (IF n >= 3 THEN UNION {EnumValsS(p, sym, s.f, segs[n - 1], v) : s \in Scopes(p, f, Join(SubSeq(segs, 1, n - 2)))}
             ELSE {})
ExtraTargetsS(p, sym, f, x) ==
  LET g == ExtraFile(p, f, x) IN
  IF x.isEnum THEN EnumValsS(p, sym, g, x.sel, x.name) ELSE {ConstT(g, i) : i \in DefIdx(p, g, x.name, {"const"})}
AllowedExtraS(p, sym, f, segs, T) ==
  {x \in ExtraSpace(p, f, segs[Len(segs)]) : SingleIn(ExtraTargetsS(p, sym, f, x), T)}
\* the table agrees with the definitions (checked by TLC on every program of the universe)
SymConsistent(p, sym) ==
  \A f \in 1 .. NFiles(p) :
     /\ \A n \in FileTypeNodes(p, f) : /\ AllowedTypeS(p, sym, f, n.t) = AllowedType(p, f, n.t)
                                         /\ DerefS(p, sym, f, n.t) = FinalDefs(p, f, n.t, Fuel)
     /\ \A n \in FileIdNodes(p, f) :
          /\ ValTargetsS(p, sym, f, n.segs) = ValTargets(p, f, n.segs)
          /\ AllowedExtraS(p, sym, f, n.segs, ValTargetsS(p, sym, f, n.segs)) = AllowedExtra(p, f, n.segs)

DupNames(p) == \E f \in 1 .. NFiles(p) : \E i, j \in DOMAIN Defs(p, f) : i < j /\ Defs(p, f)[i].name = Defs(p, f)[j].name
Undefined(p) ==
  \E f \in 1 .. NFiles(p) :
     \/ \E n \in FileTypeNodes(p, f) : AllowedType(p, f, n.t) = {}
     \/ \E n \in FileIdNodes(p, f) : ValTargets(p, f, n.segs) = {}
     \/ \E n \in FileExtNodes(p, f) : AllowedExt(p, f, n.t) = {}
Ambiguous(p) ==
  \E f \in 1 .. NFiles(p) :
     \/ \E n \in FileTypeNodes(p, f) : Cardinality(AllowedType(p, f, n.t)) > 1
     \/ \E n \in FileIdNodes(p, f) : Cardinality(ValTargets(p, f, n.segs)) > 1
     \/ \E n \in FileExtNodes(p, f) : Cardinality(AllowedExt(p, f, n.t)) > 1
\* "unique": every reference names exactly one definition -- the programs the property quantifies over
Status(p) == IF DupNames(p) THEN "dup" ELSE IF Undefined(p) THEN "undefined" ELSE IF Ambiguous(p) THEN "ambiguous" ELSE "unique"

-----------------------------------------------------------------------------
(***************************************************************************)
(* LAYER B -- transcription of semantic/semantic.go.                       *)
(* State S = [mk, n2c, ty, ex, sref, used, stack, err, n]                  *)
(*   mk    files whose Name2Category map exists (ResolveSymbols entered)   *)
(*   n2c   per file: name -> category                                      *)
(*   ty    type node key -> [cat, td, ref]      (Type.Category/IsTypedef/Reference) *)
(*   ex    identifier node key -> [isEnum, idx, name, sel]   (ConstValue.Extra)     *)
(*   sref  service key -> ref                   (Service.Reference)        *)
(*   used  set of <<file, include position>>    (Include.Used)             *)
(*   stack ResolveSymbols activations: [f, pc, j, tds, cnt]                *)
(***************************************************************************)
Frame(g) == [f |-> g, pc |-> "includes", j |-> 1, tds |-> <<>>, cnt |-> 0]
InitB(p) == [mk |-> {1}, n2c |-> [f \in 1 .. NFiles(p) |-> <<>>], ty |-> <<>>, ex |-> <<>>, sref |-> <<>>,
             used |-> {}, stack |-> <<Frame(1)>>, err |-> "", n |-> 0]
Top(S) == S.stack[Len(S.stack)]
SetTop(S, fr) == [S EXCEPT !.stack[Len(S.stack)] = fr]
Done(S) == S.err # "" \/ S.stack = <<>>
PC(S) == IF Done(S) THEN "done" ELSE Top(S).pc

\* ---- ResolveAST: includes first
StepIncludes(p, S) ==
  LET fr == Top(S)
      f == fr.f IN
  IF fr.j > Len(Incs(p, f)) THEN SetTop(S, [fr EXCEPT !.pc = "register"])
  ELSE LET g == Incs(p, f)[fr.j]
           S1 == SetTop(S, [fr EXCEPT !.j = @ + 1]) IN
       IF g \in S.mk THEN S1       \* Name2Category != nil: already resolved (or being resolved)
       ELSE [S1 EXCEPT !.mk = @ \cup {g}, !.stack = Append(@, Frame(g))]

\* ---- RegisterNames: typedefs, constants, enums, structs, unions, exceptions, services
RECURSIVE AddNames(_, _, _)
AddNames(m, ds, i) ==
  IF i > Len(ds) THEN [m |-> m, err |-> ""]
  ELSE IF ds[i].name \in DOMAIN m THEN [m |-> m, err |-> "multiple definition"]
  ELSE AddNames((ds[i].name :> KindCat[ds[i].k]) @@ m, ds, i + 1)
RegOrder(p, f) == OfKind(p, f, {"typedef"}) \o OfKind(p, f, {"const"}) \o OfKind(p, f, {"enum"}) \o OfKind(p, f, {"struct"})
                  \o OfKind(p, f, {"union"}) \o OfKind(p, f, {"exception"}) \o OfKind(p, f, {"service"})
StepRegister(p, S) ==
  LET fr == Top(S)
      r == AddNames(<<>>, RegOrder(p, fr.f), 1) IN
  [SetTop(S, [fr EXCEPT !.pc = "typedefs"]) EXCEPT !.n2c[fr.f] = r.m, !.err = r.err]

\* ---- ResolveType: result [err, ty, tds, used]
RT0 == [err |-> "", ty |-> <<>>, tds |-> <<>>, used |-> {}]
RECURSIVE RT(_, _, _, _, _)
RT(p, S, f, key, t) ==
  IF t.n \in DOMAIN BaseCat THEN [RT0 EXCEPT !.ty = key :> [cat |-> BaseCat[t.n], td |-> FALSE, ref |-> NoRef]]
  ELSE IF t.n \in {"list", "set"} THEN
    LET r == RT(p, S, f, key \o ".v", t.v) IN
    [r EXCEPT !.ty = (key :> [cat |-> ContCat[t.n], td |-> FALSE, ref |-> NoRef]) @@ @]
  ELSE IF t.n = "map" THEN
    LET me == key :> [cat |-> "Map", td |-> FALSE, ref |-> NoRef]
        rk == RT(p, S, f, key \o ".k", t.k) IN
    IF rk.err # "" THEN [rk EXCEPT !.ty = me @@ @]
    ELSE LET rv == RT(p, S, f, key \o ".v", t.v) IN
         [err |-> rv.err, ty |-> me @@ rk.ty @@ rv.ty, tds |-> rk.tds \o rv.tds, used |-> rk.used \cup rv.used]
  ELSE IF t.pre = "" THEN      \* case 1: typedef, enum, struct, union, exception of this file
    IF t.name \in DOMAIN S.n2c[f] THEN
      LET c == S.n2c[f][t.name] IN
      IF c \in TypeCats
      THEN [RT0 EXCEPT !.ty = key :> [cat |-> c, td |-> (c = "Typedef"), ref |-> NoRef],
                       !.tds = IF c = "Typedef" THEN <<[key |-> key, ast |-> f, name |-> t.name]>> ELSE <<>>]
      ELSE [RT0 EXCEPT !.err = "unexpected type category"]
    ELSE [RT0 EXCEPT !.err = "undefined type"]
  ELSE                         \* case 2: an external type -- first include with that prefix that has the name as a type
    LET J == {j \in DOMAIN Incs(p, f) : /\ Pre(p, Incs(p, f)[j]) = t.pre
                                        /\ t.name \in DOMAIN S.n2c[Incs(p, f)[j]]
                                        /\ S.n2c[Incs(p, f)[j]][t.name] \in TypeCats} IN
    IF J = {} THEN [RT0 EXCEPT !.err = "undefined type"]
    ELSE LET j == CHOOSE j \in J : \A k \in J : j <= k
             g == Incs(p, f)[j]
             c == S.n2c[g][t.name] IN
         [err |-> "", ty |-> key :> [cat |-> c, td |-> (c = "Typedef"), ref |-> [name |-> t.name, idx |-> j - 1]],
          tds |-> IF c = "Typedef" THEN <<[key |-> key, ast |-> g, name |-> t.name]>> ELSE <<>>,
          used |-> {<<f, j>>}]
ApplyRT(S, r) == LET fr == Top(S) IN
  [SetTop(S, [fr EXCEPT !.tds = @ \o r.tds]) EXCEPT !.ty = r.ty @@ @, !.used = @ \cup r.used, !.err = r.err]

\* ---- getEnum: [e (<<file, def index>> or <<>>), idx, crash]; unbounded recursion in the code = crash here
GE0 == [e |-> <<>>, idx |-> -1, crash |-> FALSE, sel |-> ""]
FirstIdx(p, f, name, K) == CHOOSE i \in DefIdx(p, f, name, K) : \A k \in DefIdx(p, f, name, K) : i <= k
RECURSIVE GetEnum(_, _, _, _, _)
GetEnum(p, S, f, name, fuel) ==
  IF fuel = 0 THEN [GE0 EXCEPT !.crash = TRUE]
  ELSE IF name \notin DOMAIN S.n2c[f] THEN GE0
  ELSE IF S.n2c[f][name] = "Enum" THEN [GE0 EXCEPT !.e = <<f, FirstIdx(p, f, name, {"enum"})>>, !.sel = name]
  ELSE IF S.n2c[f][name] = "Typedef" THEN
    LET td == Defs(p, f)[FirstIdx(p, f, name, {"typedef"})]
        k == TdKey(p, f, name)
        r == IF k \in DOMAIN S.ty THEN S.ty[k].ref ELSE NoRef
        local == GetEnum(p, S, f, TypeName(td.ty), fuel - 1)
        localSel == IF local.e # <<>> /\ local.idx = -1 THEN [local EXCEPT !.sel = name] ELSE local IN
    IF r # NoRef
    THEN LET sub == GetEnum(p, S, Incs(p, f)[r.idx + 1], r.name, fuel - 1) IN
         IF sub.crash THEN sub
         ELSE IF sub.e # <<>> THEN [e |-> sub.e, idx |-> r.idx, crash |-> FALSE, sel |-> r.name]
         ELSE localSel
    ELSE localSel
  ELSE GE0
EnumHas(p, e, v) == v \in Range(Defs(p, e[1])[e[2]].vals)

\* ---- ResolveConstValue: result [err, ex, used]
RV0 == [err |-> "", ex |-> <<>>, used |-> {}]
Extra(isEnum, idx, name, sel) == [isEnum |-> isEnum, idx |-> idx, name |-> name, sel |-> sel]
RId(p, S, f, key, segs) ==
  LET n == Len(segs)
      v == segs[n] IN
  IF n = 1 /\ v \in {"true", "false"} THEN RV0
  ELSE IF n = 1 THEN
    IF v \in DOMAIN S.n2c[f] /\ S.n2c[f][v] = "Constant" THEN [RV0 EXCEPT !.ex = key :> Extra(FALSE, -1, v, "")]
    ELSE [RV0 EXCEPT !.err = "undefined value"]
  ELSE
    LET s0 == Join(SubSeq(segs, 1, n - 1))           \* SplitValue: [s0, v] and, with two dots, [s1, e, v]
        ge == GetEnum(p, S, f, s0, Fuel)
        A == IF ge.e # <<>> /\ EnumHas(p, ge.e, v) THEN {Extra(TRUE, ge.idx, v, IF SelFixed THEN ge.sel ELSE s0)} ELSE {}
        JB == {j \in DOMAIN Incs(p, f) : /\ Pre(p, Incs(p, f)[j]) = s0
                                         /\ v \in DOMAIN S.n2c[Incs(p, f)[j]]
                                         /\ S.n2c[Incs(p, f)[j]][v] = "Constant"}
        B == {Extra(FALSE, j - 1, v, s0) : j \in JB}
        s1 == IF n >= 3 THEN Join(SubSeq(segs, 1, n - 2)) ELSE ""
        e == segs[n - 1]
        JC == IF n >= 3
              THEN {j \in DOMAIN Incs(p, f) :
                      /\ Pre(p, Incs(p, f)[j]) = s1
                      /\ LET g == GetEnum(p, S, Incs(p, f)[j], e, Fuel) IN g.e # <<>> /\ EnumHas(p, g.e, v)}
              ELSE {}
        C == {Extra(TRUE, j - 1, v, e) : j \in JC}
        crash == ge.crash \/ (n >= 3 /\ \E j \in DOMAIN Incs(p, f) :
                                 Pre(p, Incs(p, f)[j]) = s1 /\ GetEnum(p, S, Incs(p, f)[j], e, Fuel).crash)
        refs == A \cup B \cup C IN
    IF crash THEN [RV0 EXCEPT !.err = "crash: unbounded recursion in getEnum"]
    ELSE IF refs = {} THEN [RV0 EXCEPT !.err = "undefined value"]
    ELSE IF Cardinality(refs) > 1 THEN [RV0 EXCEPT !.err = "ambiguous const value"]
    ELSE [err |-> "", ex |-> key :> (CHOOSE x \in refs : TRUE), used |-> {<<f, j>> : j \in JB \cup JC}]
RECURSIVE RV(_, _, _, _, _), RVSeq(_, _, _, _, _)
RV(p, S, f, key, v) ==
  IF v.t = "id" THEN RId(p, S, f, key, v.segs)
  ELSE IF v.t = "list" THEN RVSeq(p, S, f, [i \in DOMAIN v.xs |-> [key |-> key \o ".l" \o ToString(i), v |-> v.xs[i]]], 1)
  ELSE IF v.t = "map" THEN
    RVSeq(p, S, f, [i \in 1 .. 2 * Len(v.kvs) |->
                      IF i % 2 = 1 THEN [key |-> key \o ".m" \o ToString((i + 1) \div 2) \o "k", v |-> v.kvs[(i + 1) \div 2][1]]
                      ELSE [key |-> key \o ".m" \o ToString(i \div 2) \o "v", v |-> v.kvs[i \div 2][2]]], 1)
  ELSE RV0
RVSeq(p, S, f, items, i) ==
  IF i > Len(items) THEN RV0
  ELSE LET r == RV(p, S, f, items[i].key, items[i].v) IN
       IF r.err # "" THEN r
       ELSE LET q == RVSeq(p, S, f, items, i + 1) IN [err |-> q.err, ex |-> r.ex @@ q.ex, used |-> r.used \cup q.used]
ApplyRV(S, r) == [S EXCEPT !.ex = r.ex @@ @, !.used = @ \cup r.used, !.err = r.err]

\* ---- the passes
RECURSIVE TypesOf(_, _, _, _, _)
TypesOf(p, S, f, slots, i) ==      \* ResolveType on slots[i..], stopping at the first error
  IF i > Len(slots) \/ S.err # "" THEN S
  ELSE TypesOf(p, ApplyRT(S, RT(p, S, f, slots[i].key, slots[i].t)), f, slots, i + 1)
RECURSIVE ValsOf(_, _, _, _, _)
ValsOf(p, S, f, slots, i) ==
  IF i > Len(slots) \/ S.err # "" THEN S
  ELSE ValsOf(p, ApplyRV(S, RV(p, S, f, slots[i].key, slots[i].v)), f, slots, i + 1)

RECURSIVE PassTypedefs(_, _, _, _, _)
PassTypedefs(p, S, f, ds, i) ==
  IF i > Len(ds) \/ S.err # "" THEN S
  ELSE PassTypedefs(p, TypesOf(p, S, f, DefTypeSlots(p, f, ds[i]), 1), f, ds, i + 1)
StepTypedefs(p, S) ==
  LET fr == Top(S)
      S1 == PassTypedefs(p, S, fr.f, OfKind(p, fr.f, {"typedef"}), 1) IN
  SetTop(S1, [Top(S1) EXCEPT !.pc = "constants"])

RECURSIVE PassConsts(_, _, _, _, _)
PassConsts(p, S, f, ds, i) ==      \* per constant: its type, then its value
  IF i > Len(ds) \/ S.err # "" THEN S
  ELSE LET S1 == TypesOf(p, S, f, DefTypeSlots(p, f, ds[i]), 1) IN
       PassConsts(p, ValsOf(p, S1, f, ValSlots(p, f, ds[i]), 1), f, ds, i + 1)
StepConstants(p, S) ==
  LET fr == Top(S)
      S1 == PassConsts(p, S, fr.f, OfKind(p, fr.f, {"const"}), 1) IN
  SetTop(S1, [Top(S1) EXCEPT !.pc = "structs"])

RECURSIVE PassFields(_, _, _, _, _, _)
PassFields(p, S, f, d, fs, i) ==   \* per field: its type, then its default value
  IF i > Len(fs) \/ S.err # "" THEN S
  ELSE LET pf == FPath(p, f) \o "|sl:" \o d.name \o "|f:" \o fs[i].name
           S1 == ApplyRT(S, RT(p, S, f, pf \o "|type", fs[i].ty))
           S2 == IF S1.err = "" /\ fs[i].dv # NoV THEN ApplyRV(S1, RV(p, S1, f, pf \o "|default", fs[i].dv)) ELSE S1 IN
       PassFields(p, S2, f, d, fs, i + 1)
RECURSIVE PassStructs(_, _, _, _, _)
PassStructs(p, S, f, ds, i) ==
  IF i > Len(ds) \/ S.err # "" THEN S
  ELSE PassStructs(p, PassFields(p, S, f, ds[i], ds[i].fields, 1), f, ds, i + 1)
StructLikes(p, f) == OfKind(p, f, {"struct"}) \o OfKind(p, f, {"union"}) \o OfKind(p, f, {"exception"})
StepStructs(p, S) ==
  LET fr == Top(S)
      S1 == PassStructs(p, S, fr.f, StructLikes(p, fr.f), 1) IN
  SetTop(S1, [Top(S1) EXCEPT !.pc = "services"])

\* ResolveBaseService
RBase(p, S, f, d) ==
  IF d.ext = NoT THEN S
  ELSE IF d.ext.pre = "" THEN
    IF d.ext.name \in DOMAIN S.n2c[f] /\ S.n2c[f][d.ext.name] = "Service" THEN S
    ELSE [S EXCEPT !.err = "base service not found"]
  ELSE LET J == {j \in DOMAIN Incs(p, f) : /\ Pre(p, Incs(p, f)[j]) = d.ext.pre
                                           /\ d.ext.name \in DOMAIN S.n2c[Incs(p, f)[j]]
                                           /\ S.n2c[Incs(p, f)[j]][d.ext.name] = "Service"} IN
       IF J = {} THEN [S EXCEPT !.err = "base service not found"]
       ELSE LET j == CHOOSE j \in J : \A k \in J : j <= k IN
            [S EXCEPT !.sref = (ExtKey(p, f, d) :> [name |-> d.ext.name, idx |-> j - 1]) @@ @, !.used = @ \cup {<<f, j>>}]
RECURSIVE PassFns(_, _, _, _, _, _)
PassFns(p, S, f, d, fns, i) ==
  IF i > Len(fns) \/ S.err # "" THEN S
  ELSE PassFns(p, TypesOf(p, S, f, FnTypeSlots(p, f, d, fns[i]), 1), f, d, fns, i + 1)
RECURSIVE PassServices(_, _, _, _, _)
PassServices(p, S, f, ds, i) ==    \* per service: its functions, then its base service
  IF i > Len(ds) \/ S.err # "" THEN S
  ELSE LET S1 == PassFns(p, S, f, ds[i], ds[i].fns, 1) IN
       PassServices(p, IF S1.err = "" THEN RBase(p, S1, f, ds[i]) ELSE S1, f, ds, i + 1)
StepServices(p, S) ==
  LET fr == Top(S)
      S1 == PassServices(p, S, fr.f, OfKind(p, fr.f, {"service"}), 1)
      fr1 == Top(S1) IN
  SetTop(S1, [fr1 EXCEPT !.pc = "round", !.cnt = Len(fr1.tds)])

\* ---- ResolveTypedefs: one iteration of the retry loop per step; entries are processed in order and see the
\*      categories already updated in the same round
RECURSIVE Round(_, _, _, _)
Round(p, ty, tds, i) ==
  IF i > Len(tds) THEN [ty |-> ty, rest |-> <<>>]
  ELSE LET t == tds[i]
           tc == ty[TdKey(p, t.ast, t.name)].cat
           ty2 == IF tc # "Typedef" THEN [ty EXCEPT ![t.key].cat = tc] ELSE ty
           r == Round(p, ty2, tds, i + 1) IN
       [ty |-> r.ty, rest |-> (IF ty2[t.key].cat = "Typedef" THEN <<t>> ELSE <<>>) \o r.rest]
StepRound(p, S) ==
  LET fr == Top(S) IN
  IF Len(fr.tds) = 0 THEN SetTop(S, [fr EXCEPT !.pc = "return"])
  ELSE LET r == Round(p, S.ty, fr.tds, 1) IN
       IF Len(r.rest) = fr.cnt THEN [S EXCEPT !.ty = r.ty, !.err = "typedefs can not be resolved"]
       ELSE [SetTop(S, [fr EXCEPT !.tds = r.rest, !.cnt = Len(r.rest)]) EXCEPT !.ty = r.ty]
StepReturn(p, S) == [S EXCEPT !.stack = SubSeq(@, 1, Len(@) - 1)]

Step(p, S) ==
  LET S1 == CASE PC(S) = "includes" -> StepIncludes(p, S)
              [] PC(S) = "register" -> StepRegister(p, S)
              [] PC(S) = "typedefs" -> StepTypedefs(p, S)
              [] PC(S) = "constants" -> StepConstants(p, S)
              [] PC(S) = "structs" -> StepStructs(p, S)
              [] PC(S) = "services" -> StepServices(p, S)
              [] PC(S) = "round" -> StepRound(p, S)
              [] PC(S) = "return" -> StepReturn(p, S) IN
  [S1 EXCEPT !.n = @ + 1]
RECURSIVE RunToEnd(_, _)
RunToEnd(p, S) == IF Done(S) THEN S ELSE RunToEnd(p, Step(p, S))
\* the observable outcome: the error, or the resolution state of a successful run
\* (which of several errors is reported first may depend on the order; that the program is rejected may not)
BRes(S) == IF S.err # "" THEN [err |-> "rejected", ty |-> <<>>, ex |-> <<>>, sref |-> <<>>, used |-> {}]
           ELSE [err |-> S.err, ty |-> S.ty, ex |-> S.ex, sref |-> S.sref, used |-> S.used]

-----------------------------------------------------------------------------
(***************************************************************************)
(* B => A: the keys at which the final state of B is not allowed by A.     *)
(***************************************************************************)
BadKeys(p, S) ==
  UNION {
    {n.key : n \in {n \in FileTypeNodes(p, f) : ~(n.key \in DOMAIN S.ty /\ S.ty[n.key] \in AllowedType(p, f, n.t))}}
    \cup {n.key : n \in {n \in FileIdNodes(p, f) : ~(n.key \in DOMAIN S.ex /\ ExtraOK(p, f, n.segs, S.ex[n.key]))}}
    \cup {n.key : n \in {n \in FileExtNodes(p, f) :
                           ~((IF n.key \in DOMAIN S.sref THEN S.sref[n.key] ELSE NoRef) \in AllowedExt(p, f, n.t))}}
    \cup {FPath(p, f) \o "|inc:" \o ToString(j - 1) :
            j \in {j \in DOMAIN Incs(p, f) : (j \in UsedMust(p, f) /\ <<f, j>> \notin S.used)
                                             \/ (j \notin UsedMay(p, f) /\ <<f, j>> \in S.used)}}
    : f \in 1 .. NFiles(p)}
\* the hypothesis of DESIGN 6/C05 about the code: enum.value through a local typedef of an included enum
EnumSelCandidate(p, S, key) ==
  key \in DOMAIN S.ex /\ S.ex[key].isEnum /\ S.ex[key].idx >= 0
=============================================================================
