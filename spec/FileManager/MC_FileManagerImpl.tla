------------------------ MODULE MC_FileManagerImpl ------------------------
EXTENDS FileManagerImpl
\* contents: plain text, text with one marker, adjacent / repeated markers of two points
cContents == { <<[t |-> "x"]>>, <<[t |-> "y"]>>,
               <<[t |-> "x"], [m |-> "p"], [t |-> "y"]>>,
               <<[m |-> "p"], [m |-> "q"], [m |-> "p"]>> }
cContentsSmall == { <<[t |-> "x"]>>, <<[t |-> "x"], [m |-> "p"], [t |-> "y"]>>, <<[m |-> "p"], [m |-> "q"], [m |-> "p"]>> }
=============================================================================
