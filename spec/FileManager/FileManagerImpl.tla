-------------------------- MODULE FileManagerImpl --------------------------
(***************************************************************************)
(* Implementation-shaped model (layer B) of generator/file_manager.go:     *)
(* the fields files / patch / index / count and the body of Feed's loop,   *)
(* including the rename probe loop `name_<cnt>`, transcribed action for    *)
(* action.  TLC checks that every step of this model is a step of the      *)
(* abstract FileManager specification (refinement), and uses it to         *)
(* enumerate the histories that are replayed into the real code.           *)
(***************************************************************************)
EXTENDS Naturals, Sequences, FiniteSets, TLC, Json

CONSTANTS Names, Contents, Points, Texts, MaxItems, MaxFeeds

VARIABLES files,     \* fm.files: sequence of [name, orig, content]
          patch,     \* fm.patch: name -> sequence of [pt, text]
          index,     \* fm.index: name -> position in files
          count,     \* fm.count: name -> highest rename counter used for that name
          renames,   \* fm.renames: name -> positions of the files renamed from that name
          last, err, dropping, open,
          h,         \* history: the Feed calls made so far (sequence of sequences of items)
          nfeeds

vars == <<files, patch, index, count, renames, last, err, dropping, open, h, nfeeds>>

Get(f, k, d) == IF k \in DOMAIN f THEN f[k] ELSE d
Renamed(n, cnt) == n \o "_" \o ToString(cnt)

\* Feed, for a name that is already in index: compare the content with the file that owns
\* the name and with every file renamed from it (fm.renames[name]); if none is equal, probe
\* name_<cnt> from count[name]+1 upward until index has no such entry.
SameContent(n, c) == \E k \in {index[n]} \cup Get(renames, n, {}) : files[k].content = c
RECURSIVE ProbeFree(_, _)
ProbeFree(n, cnt) == IF Renamed(n, cnt) \notin DOMAIN index THEN cnt ELSE ProbeFree(n, cnt + 1)

NItems == LET RECURSIVE S(_) S(s) == IF s = <<>> THEN 0 ELSE Len(Head(s)) + S(Tail(s)) IN S(h)
Log(item) == h' = [h EXCEPT ![Len(h)] = Append(@, item)]

Init == /\ files = <<>> /\ patch = <<>> /\ index = <<>> /\ count = <<>> /\ renames = <<>>
        /\ last = "" /\ err = FALSE /\ dropping = FALSE /\ open = FALSE
        /\ h = <<>> /\ nfeeds = 0

BeginFeed == /\ ~open /\ ~err /\ nfeeds < MaxFeeds /\ NItems < MaxItems
             /\ open' = TRUE /\ last' = "" /\ dropping' = FALSE
             /\ h' = Append(h, <<>>) /\ nfeeds' = nfeeds + 1
             /\ UNCHANGED <<files, patch, index, count, renames, err>>

EndFeed == /\ open /\ open' = FALSE /\ Len(h[Len(h)]) > 0
           /\ UNCHANGED <<files, patch, index, count, renames, last, err, dropping, h, nfeeds>>

SubmitFile(n, c) ==
  /\ open /\ NItems < MaxItems /\ Log([k |-> "File", name |-> n, content |-> c])
  /\ UNCHANGED <<err, open, nfeeds, patch>>
  /\ IF err THEN UNCHANGED <<files, index, count, renames, last, dropping>>
     ELSE IF n \notin DOMAIN index
          THEN /\ index' = (n :> Len(files) + 1) @@ index
               /\ files' = Append(files, [name |-> n, orig |-> n, content |-> c])
               /\ last' = n /\ dropping' = FALSE /\ UNCHANGED <<count, renames>>
          ELSE IF SameContent(n, c)
               THEN dropping' = TRUE /\ UNCHANGED <<files, index, count, renames, last>>
               ELSE LET cnt == ProbeFree(n, Get(count, n, 0) + 1)
                        rn  == Renamed(n, cnt) IN
                    /\ index' = (rn :> Len(files) + 1) @@ index
                    /\ files' = Append(files, [name |-> rn, orig |-> n, content |-> c])
                    /\ count' = (n :> cnt) @@ count
                    /\ renames' = (n :> (Get(renames, n, {}) \cup {Len(files) + 1})) @@ renames
                    /\ last' = rn /\ dropping' = FALSE

SubmitUnnamedPatch(pt, txt) ==
  /\ open /\ NItems < MaxItems /\ Log([k |-> "UPatch", pt |-> pt, text |-> txt])
  /\ UNCHANGED <<open, nfeeds, files, index, count, renames, last, dropping>>
  /\ IF err \/ dropping THEN UNCHANGED <<patch, err>>
     ELSE IF last = "" THEN err' = TRUE /\ UNCHANGED patch
     ELSE /\ patch' = (last :> Append(Get(patch, last, <<>>), [pt |-> pt, text |-> txt])) @@ patch
          /\ UNCHANGED err

SubmitNamedPatch(n, pt, txt) ==
  /\ open /\ NItems < MaxItems /\ n \in DOMAIN index
  /\ Log([k |-> "NPatch", name |-> n, pt |-> pt, text |-> txt])
  /\ UNCHANGED <<open, nfeeds, files, index, count, renames, err>>
  /\ IF err THEN UNCHANGED <<patch, last, dropping>>
     ELSE /\ patch' = (n :> Append(Get(patch, n, <<>>), [pt |-> pt, text |-> txt])) @@ patch
          /\ last' = n /\ dropping' = FALSE

Next == \/ BeginFeed \/ EndFeed
        \/ \E n \in Names, c \in Contents : SubmitFile(n, c)
        \/ \E pt \in Points, t \in Texts : SubmitUnnamedPatch(pt, t)
        \/ \E n \in Names, pt \in Points, t \in Texts : SubmitNamedPatch(n, pt, t)

Spec == Init /\ [][Next]_vars

-----------------------------------------------------------------------------
(* Refinement: the abstract state is a function of the implementation state. *)
AOut == [i \in 1..Len(files) |->
           [name |-> files[i].name, orig |-> files[i].orig, content |-> files[i].content,
            patches |-> Get(patch, files[i].name, <<>>)]]

FreshPool == {Renamed(n, k) : n \in Names \cup {Renamed(m, j) : m \in Names, j \in 1..MaxItems},
                              k \in 1..MaxItems}

A == INSTANCE FileManager WITH out <- AOut

Refines == A!Spec
AAppendOnly == A!AppendOnly
AInvariants == A!UniqueNames /\ A!NoDuplicateSubmission /\ A!LastIsAFile

\* index is exactly the name -> position map of files (what the defect at the pinned commit broke)
IndexConsistent == /\ DOMAIN index = {files[i].name : i \in 1..Len(files)}
                   /\ \A i \in 1..Len(files) : index[files[i].name] = i

-----------------------------------------------------------------------------
(* Case generation: every reachable state of the model with no call in      *)
(* progress yields one history; the predicted response is exported only as  *)
(* a class label for reporting, never as the oracle.                        *)
\* NItems is part of the view: a submission that must change nothing (a patch after a dropped duplicate, anything after
\* an error) leaves every implementation variable as it was, and without the item count the histories that contain one,
\* two, three such submissions would collapse into the first one found -- exactly the histories in which a wrong
\* "skip" loop shows.
\* ... and the kinds of the items of the current call, so that "duplicate, duplicate, patch" and "duplicate, patch,
\* patch" (same variables, same count) are both explored.
LastKinds == IF h = <<>> THEN <<>> ELSE [i \in 1..Len(h[Len(h)]) |-> h[Len(h)][i].k]
View == <<files, patch, index, count, renames, last, err, dropping, open, nfeeds, NItems, LastKinds>>
Emit == (~open /\ h # <<>>) =>
          PrintT("CASE " \o ToJson([h |-> h, nfiles |-> Len(files), err |-> err,
                                    renames |-> Cardinality({i \in 1..Len(files) : files[i].name # files[i].orig})]))
=============================================================================
