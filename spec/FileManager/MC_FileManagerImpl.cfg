SPECIFICATION Spec
CONSTANTS
  Names = {"a", "b", "a_1"}
  Contents <- cContents
  Points = {"p", "q", "zz"}
  Texts = {"P", "Q"}
  MaxItems = 4
  MaxFeeds = 2
VIEW View
INVARIANTS AInvariants IndexConsistent Emit
PROPERTIES Refines AAppendOnly
CHECK_DEADLOCK FALSE
