------------------------- MODULE Trace_FileManager -------------------------
(***************************************************************************)
(* Trace validation for C12: every line of traces.ndjson is the event log   *)
(* of one history replayed into the real generator.FileManager (items      *)
(* handed to Feed, and after each Feed call its error flag and the result  *)
(* of BuildResponse).  A trace is accepted iff it is a behaviour of the    *)
(* abstract FileManager specification.  The fresh name of a renamed file   *)
(* is not logged; TLC infers it from the names in the next response.       *)
(* Each trace is an independent behaviour (its number is part of the       *)
(* initial state), so one TLC run validates all of them.                   *)
(***************************************************************************)
EXTENDS FileManager, Json

Traces == ndJsonDeserialize("traces.ndjson")

VARIABLES tr, l
tvars == <<out, last, err, dropping, open, tr, l>>

T == Traces[tr]
Ev == T[l]

TInit == Init /\ tr \in 1..Len(Traces) /\ l = 1

IsEvent(e) == l <= Len(T) /\ Ev.ev = e /\ l' = l + 1 /\ tr' = tr

NextEnd == CHOOSE j \in l..Len(T) : T[j].ev = "End" /\ \A k \in l..(j-1) : T[k].ev # "End"
RespNames(j) == {T[j].resp[i].name : i \in 1..Len(T[j].resp)}

TBegin == IsEvent("Begin") /\ BeginFeed
TFile  == IsEvent("File") /\ \E fresh \in RespNames(NextEnd) \cup {"?"} :
                                SubmitFileAs(Ev.name, Ev.content, fresh)
TUPatch == IsEvent("UPatch") /\ SubmitUnnamedPatch(Ev.pt, Ev.text)
TNPatch == IsEvent("NPatch") /\ SubmitNamedPatch(Ev.name, Ev.pt, Ev.text)
TEnd == /\ IsEvent("End") /\ EndFeed
        /\ ~Ev.panic
        /\ Ev.err = err
        /\ Len(Ev.resp) = Len(out)
        /\ {Ev.resp[i] : i \in 1..Len(Ev.resp)} = Response

TNext == TBegin \/ TFile \/ TUPatch \/ TNPatch \/ TEnd
TSpec == TInit /\ [][TNext]_tvars

Accepted == (l = Len(T) + 1) => PrintT("ACC " \o ToString(tr))
Progress == PrintT("AT " \o ToString(tr) \o " " \o ToString(l))
TInvariants == UniqueNames /\ NoDuplicateSubmission /\ LastIsAFile
=============================================================================
