---------------------------- MODULE FileManager ----------------------------
(***************************************************************************)
(* Abstract specification (layer A) of thriftgo's output assembly          *)
(* (generator.FileManager: Feed* ; BuildResponse), property C12.           *)
(*                                                                         *)
(* The behaviours of this module are exactly the behaviours the property   *)
(* allows.  It is deliberately silent on: the fresh name given to a        *)
(* conflicting file (any name not in use), the order of files in the       *)
(* response, and whether a later file equal in OUTPUT name and content to  *)
(* a renamed earlier one is dropped or kept (the statement can be read     *)
(* both ways).                                                             *)
(*                                                                         *)
(* Grain: one action per submitted item (the body of Feed's loop), plus    *)
(* BeginFeed / EndFeed for the call boundaries.  BuildResponse is the      *)
(* observation function Response (it does not change the state).          *)
(***************************************************************************)
EXTENDS Naturals, Sequences, FiniteSets, TLC

CONSTANTS Names,      \* file names a generator may submit (strings, extension implied)
          Contents,   \* file contents: sequences of segments [t |-> text] / [m |-> point]
          Points,     \* insertion point names patches may target
          Texts,      \* patch texts
          FreshPool   \* names a conflicting file may be renamed to

VARIABLES out,        \* sequence of kept files [name, orig, content, patches]
          last,       \* output name of the file unnamed patches attach to ("" = none)
          err,        \* the current Feed call has failed
          dropping,   \* the current run of unnamed patches belongs to a dropped file
          open        \* a Feed call is in progress

avars == <<out, last, err, dropping, open>>

IsMarker(seg) == "m" \in DOMAIN seg

OutNames == {out[i].name : i \in 1..Len(out)}
IdxOf(n) == CHOOSE i \in 1..Len(out) : out[i].name = n

RECURSIVE PatchText(_, _)
PatchText(ps, pt) ==          \* concatenation, in submission order, of the patches for point pt
  IF ps = <<>> THEN ""
  ELSE (IF Head(ps).pt = pt THEN Head(ps).text ELSE "") \o PatchText(Tail(ps), pt)

RECURSIVE RenderSegs(_, _)
RenderSegs(segs, ps) ==
  IF segs = <<>> THEN ""
  ELSE (IF IsMarker(Head(segs)) THEN PatchText(ps, Head(segs).m) ELSE Head(segs).t)
       \o RenderSegs(Tail(segs), ps)

Render(f) == RenderSegs(f.content, f.patches)

\* The observable result of BuildResponse, as a set of [name, content] (order is free).
Response == {[name |-> out[i].name, content |-> Render(out[i])] : i \in 1..Len(out)}

-----------------------------------------------------------------------------
Init == /\ out = <<>> /\ last = "" /\ err = FALSE /\ dropping = FALSE /\ open = FALSE

BeginFeed == /\ ~open /\ ~err
             /\ open' = TRUE /\ last' = "" /\ dropping' = FALSE
             /\ UNCHANGED <<out, err>>

EndFeed == /\ open /\ open' = FALSE
           /\ UNCHANGED <<out, last, err, dropping>>

\* A named file (no insertion point).
MustDrop(n, c) == \E i \in 1..Len(out) : out[i].orig = n /\ out[i].content = c
MayDrop(n, c)  == \E i \in 1..Len(out) : out[i].name = n /\ out[i].content = c

Keep(n, orig, c) == /\ out' = Append(out, [name |-> n, orig |-> orig, content |-> c, patches |-> <<>>])
                    /\ last' = n /\ dropping' = FALSE
Drop == /\ dropping' = TRUE /\ UNCHANGED <<out, last>>

\* fresh: the name used if (and only if) the file has to be renamed.
SubmitFileAs(n, c, fresh) ==
  /\ open /\ UNCHANGED <<err, open>>
  /\ IF err THEN UNCHANGED <<out, last, dropping>>
     ELSE IF n \notin OutNames THEN Keep(n, n, c)
     ELSE \/ /\ (MustDrop(n, c) \/ MayDrop(n, c)) /\ Drop
          \/ /\ ~MustDrop(n, c) /\ fresh \notin OutNames /\ Keep(fresh, n, c)

SubmitFile(n, c) == \E fresh \in FreshPool : SubmitFileAs(n, c, fresh)

\* A patch without a name: belongs to the preceding named item of this Feed call.
SubmitUnnamedPatch(pt, txt) ==
  /\ open /\ UNCHANGED <<open, last, dropping>>
  /\ IF err \/ dropping THEN UNCHANGED <<out, err>>
     ELSE IF last = "" THEN err' = TRUE /\ UNCHANGED out
     ELSE /\ out' = [out EXCEPT ![IdxOf(last)].patches = Append(@, [pt |-> pt, text |-> txt])]
          /\ UNCHANGED err

\* A patch that names its target file (name set, insertion point set, target exists).
SubmitNamedPatch(n, pt, txt) ==
  /\ open /\ n \in OutNames /\ UNCHANGED <<open, err>>
  /\ IF err THEN UNCHANGED <<out, last, dropping>>
     ELSE /\ out' = [out EXCEPT ![IdxOf(n)].patches = Append(@, [pt |-> pt, text |-> txt])]
          /\ last' = n /\ dropping' = FALSE

Next == \/ BeginFeed \/ EndFeed
        \/ \E n \in Names, c \in Contents : SubmitFile(n, c)
        \/ \E pt \in Points, t \in Texts : SubmitUnnamedPatch(pt, t)
        \/ \E n \in Names, pt \in Points, t \in Texts : SubmitNamedPatch(n, pt, t)

Spec == Init /\ [][Next]_avars

-----------------------------------------------------------------------------
(* Properties of the design (checked by TLC on this module and on every step *)
(* of every validated implementation trace).                                *)

UniqueNames == \A i, j \in 1..Len(out) : i # j => out[i].name # out[j].name

\* every distinct (submitted name, content) is kept exactly once
NoDuplicateSubmission ==
  \A i, j \in 1..Len(out) : i # j => ~(out[i].orig = out[j].orig /\ out[i].content = out[j].content)

LastIsAFile == last # "" => last \in OutNames

\* kept files are never changed afterwards except by appending patches
AppendOnly == [][ /\ Len(out') >= Len(out)
                  /\ \A i \in 1..Len(out) :
                        /\ out'[i].name = out[i].name /\ out'[i].content = out[i].content
                        /\ Len(out'[i].patches) >= Len(out[i].patches)
                        /\ SubSeq(out'[i].patches, 1, Len(out[i].patches)) = out[i].patches ]_avars
=============================================================================
