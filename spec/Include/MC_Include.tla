----------------------------- MODULE MC_Include -----------------------------
(* One TLC run per batch of cases (checks/c05.py, phase "include"):
     * design level: the transcribed parseFileRecursively / searchCircle (layer B) agrees with the declarative
       binding (layer A) on every case -- invariant Refines;
     * conformance: what the real parser.ParseFile / ParseBatchString / CircleDetect returned for the same
       case (obs.json, recorded by `inproc incl` on a materialized directory tree) is judged by layer A --
       one "CASE" line per case with the verdicts; nothing is decided outside the specification. *)
EXTENDS Include, TLC, Json

Cases == JsonDeserialize("cases.json")
Obs == JsonDeserialize("obs.json")

VARIABLES k, st
vars == <<k, st>>

Init == k \in 1..Len(Cases) /\ BInit(Cases[k], st)
Next == ~st.done /\ st' = BStep(Cases[k], st) /\ UNCHANGED k
Spec == Init /\ [][Next]_vars

Refines == BRefinesA(Cases[k], st)

Verdict(c, o) ==
  [id |-> c.id,
   file |-> ObsOK(c, o.file),
   batch |-> IF o.batch.skip THEN TRUE ELSE ObsOK(c, o.batch),
   err |-> Missing(c), cyc |-> (~Missing(c) /\ HasCycle(c)),
   dia |-> (~Missing(c) /\ Diamond(c)), sh |-> (~Missing(c) /\ Shadowed(c)),
   n |-> Cardinality(Reach(c)), steps |-> Len(st.refs)]

Emit == st.done => PrintT("CASE " \o ToJson(Verdict(Cases[k], Obs[k])))
=============================================================================
