------------------------------- MODULE Include -------------------------------
(* Include binding (upstream of C05 "binds every reference to the definition the IDL names", and the
   "missing or cyclic include" rules of C04): which FILE an `include "<text>"` written in a file denotes, for
   a given working directory, list of -i directories and file system; that a file reached twice is ONE tree;
   that a missing include fails the whole parse; and when the include graph has a circle.

   Layer A  = Bind / Reach / Targets / Missing / HasCycle   (declarative)
   Layer B  = the machine below: a transcription of parser.parseFileRecursively (depth-first, cache keyed by
              the normalized file name, abort at the first error) and of parser.searchCircle.

   Path algebra.  A directory is the sequence of its segments below the scratch root; OUT is "above the
   root" (holds no file).  An include text is [up, segs, n]: `up` leading "../", then the directories `segs`,
   then the base name n (".thrift" implied).  An -i directory is [up, segs] relative to the working directory. *)
EXTENDS Naturals, Sequences, FiniteSets

OUT == <<"^">>

Join(d, t) == IF d = OUT \/ t.up > Len(d) THEN OUT
              ELSE SubSeq(d, 1, Len(d) - t.up) \o t.segs

(* ---- a case c = [cwd, files : Seq([d, n, inc : Seq(text)]), incdirs : Seq([up, segs]), main : text] ---- *)
FileIds(c) == 1..Len(c.files)

Lookup(c, d, n) ==                      \* index of the file d/n, 0 if there is none
  IF \E i \in FileIds(c) : c.files[i].d = d /\ c.files[i].n = n
  THEN CHOOSE i \in FileIds(c) : c.files[i].d = d /\ c.files[i].n = n
  ELSE 0

(* parser.search: the text as written (relative to the working directory), then the includer's directory,
   then every -i directory in command-line order; the first that exists wins. *)
Candidates(c, fromDir, t) ==
  <<Join(c.cwd, t), Join(fromDir, t)>> \o
  [k \in 1..Len(c.incdirs) |-> Join(Join(c.cwd, c.incdirs[k]), t)]

Hits(c, cands, n) == {k \in 1..Len(cands) : Lookup(c, cands[k], n) # 0}

FirstHit(c, cands, n) ==
  LET h == Hits(c, cands, n)
  IN  IF h = {} THEN 0 ELSE Lookup(c, cands[CHOOSE k \in h : \A j \in h : k <= j], n)

NInc(c, f) == Len(c.files[f].inc)
Bind(c, f, i) == LET t == c.files[f].inc[i] IN FirstHit(c, Candidates(c, c.files[f].d, t), t.n)
NHits(c, f, i) == LET t == c.files[f].inc[i] IN
                  Cardinality({Lookup(c, Candidates(c, c.files[f].d, t)[k], t.n) :
                               k \in Hits(c, Candidates(c, c.files[f].d, t), t.n)})

MainDir(c) == Join(c.cwd, [up |-> c.main.up, segs |-> c.main.segs])
MainFile(c) == FirstHit(c, Candidates(c, MainDir(c), c.main), c.main.n)

(* ------------------------------- layer A ------------------------------- *)
Succ(c, f) == {Bind(c, f, i) : i \in 1..NInc(c, f)}

RECURSIVE ReachFrom(_, _, _)
ReachFrom(c, S, frontier) ==
  IF frontier = {} THEN S
  ELSE LET nxt == (UNION {Succ(c, f) : f \in frontier}) \ (S \cup {0})
       IN  ReachFrom(c, S \cup nxt, nxt)

Reach(c) == LET m == MainFile(c) IN IF m = 0 THEN {} ELSE ReachFrom(c, {m}, {m})

Missing(c) == MainFile(c) = 0 \/ \E f \in Reach(c) : 0 \in Succ(c, f)

Targets(c) == [f \in Reach(c) |-> [i \in 1..NInc(c, f) |-> Bind(c, f, i)]]

Below(c, f) == LET s == Succ(c, f) \ {0} IN ReachFrom(c, s, s)     \* files reachable by >= 1 include edge
HasCycle(c) == \E f \in Reach(c) : f \in Below(c, f)

Diamond(c) == \E f \in Reach(c) :
                Cardinality({q \in Reach(c) \X (1..4) : q[2] <= NInc(c, q[1]) /\ Bind(c, q[1], q[2]) = f}) >= 2
Shadowed(c) == \E f \in Reach(c) : \E i \in 1..NInc(c, f) : NHits(c, f, i) >= 2

(* ------------------------------- layer B ------------------------------- *)
(* parseFileRecursively as a machine over one case.  stack: frames [f, i] = file being linked and the next
   include of it; cache = thriftMap's keys; refs = Include.Reference of the includes linked so far. *)
BInit(c, st) ==
  LET m == MainFile(c) IN
  IF m = 0 THEN st = [stack |-> <<>>, cache |-> {}, refs |-> <<>>, err |-> TRUE, done |-> TRUE]
  ELSE st = [stack |-> <<[f |-> m, i |-> 1]>>, cache |-> {m}, refs |-> <<>>, err |-> FALSE, done |-> FALSE]

BStep(c, st) ==           \* the successor state record (the machine is deterministic)
  LET top == st.stack[Len(st.stack)]
      rest == SubSeq(st.stack, 1, Len(st.stack) - 1)
  IN
  IF top.i > NInc(c, top.f)
  THEN [st EXCEPT !.stack = rest, !.done = (rest = <<>>)]                               \* return t
  ELSE LET t == Bind(c, top.f, top.i)                                                   \* search(...)
           adv == Append(rest, [top EXCEPT !.i = top.i + 1])
       IN IF t = 0 THEN [st EXCEPT !.stack = <<>>, !.err = TRUE, !.done = TRUE]         \* error unwinds everything
          ELSE IF t \in st.cache
          THEN [st EXCEPT !.stack = adv, !.refs = Append(st.refs, <<top.f, top.i, t>>)] \* cached tree
          ELSE [st EXCEPT !.stack = Append(adv, [f |-> t, i |-> 1]),                    \* parse, register, descend
                          !.cache = st.cache \cup {t},
                          !.refs = Append(st.refs, <<top.f, top.i, t>>)]

BRefs(st) == {st.refs[k] : k \in 1..Len(st.refs)}
Edges(c) == {q \in Reach(c) \X (1..4) : q[2] <= NInc(c, q[1])}
ARefs(c) == {<<q[1], q[2], Bind(c, q[1], q[2])>> : q \in Edges(c)}

(* parser.searchCircle: depth-first over Include.Reference with the path so far, no memo *)
RECURSIVE SearchCircle(_, _, _)
SearchCircle(c, f, nodes) ==
  IF f \in nodes THEN TRUE
  ELSE \E i \in 1..NInc(c, f) : SearchCircle(c, Bind(c, f, i), nodes \cup {f})

BRefinesA(c, st) ==
  st.done => /\ st.err = Missing(c)
             /\ ~st.err => /\ st.cache = Reach(c)
                           /\ BRefs(st) = ARefs(c)
                           /\ SearchCircle(c, MainFile(c), {}) = HasCycle(c)

(* ------------------------- observations of the real parser ------------------------- *)
(* o = [err, cycle, dup, unknown, nodes : Seq([f, refs : Seq(file index)])]: the trees reachable from the
   returned AST, one entry per distinct *Thrift pointer, f = the file whose normalized name the tree carries
   (0 / unknown if it names no file of the case), dup = two distinct pointers carry the same file. *)
ObsOK(c, o) ==
  /\ o.err = Missing(c)
  /\ ~o.err =>
       /\ ~o.dup /\ ~o.unknown
       /\ {o.nodes[k].f : k \in 1..Len(o.nodes)} = Reach(c)
       /\ \A k \in 1..Len(o.nodes) : LET f == o.nodes[k].f IN
            /\ Len(o.nodes[k].refs) = NInc(c, f)
            /\ \A i \in 1..NInc(c, f) : o.nodes[k].refs[i] = Bind(c, f, i)
       /\ o.cycle = HasCycle(c)
=============================================================================
