INIT Init
NEXT Next
INVARIANTS Refines Emit
CHECK_DEADLOCK FALSE
