------------------------- MODULE FieldMaskRobust -------------------------
(***************************************************************************)
(* C14, last clause: "no input string or JSON document makes the library   *)
(* panic".  The abstract machine has one observable, "the call returns"    *)
(* (a mask or an error); this module enumerates the inputs:                *)
(*                                                                         *)
(* SpecP  path strings: the concrete syntax of a thrift path as a sequence *)
(*        of lexical pieces, and every single (MaxMut = 2: double)         *)
(*        mutation of a well-formed path: delete / duplicate a piece,      *)
(*        insert / substitute a hostile token at every position.           *)
(* SpecJ  JSON documents: every tree of the transfer schema                *)
(*        {path, type, is_black, children} to depth 2 whose fields range   *)
(*        over well-typed and ill-typed values, deep chains, and text      *)
(*        level damage (truncation, stray bytes) of well-formed documents. *)
(*                                                                         *)
(* Tokens and field values are symbolic names; checks/c14.py owns the      *)
(* table name -> bytes (NUL, non-UTF-8 and 20-digit numbers cannot be      *)
(* written as TLA+ strings).                                               *)
(***************************************************************************)
EXTENDS Integers, Sequences, FiniteSets, TLC, Json

CONSTANTS MaxMut,        \* number of mutations applied to a path
          Tokens,        \* hostile tokens for the first mutation
          Tokens2,       \* tokens for the second mutation
          DeepDepths     \* nesting depths of the chain documents

VARIABLES v,     \* SpecP: sequence of pieces [t |-> text or token name, c |-> lexical class]; SpecJ: a document
          mut,   \* sequence of mutation names applied (class of the case)
          n
vars == <<v, mut, n>>

P(t, c) == [t |-> t, c |-> c]
\* well-formed paths over the descriptor of MC_FieldMask (root R), piece by piece
Bases ==
  { <<P("$", "root"), P(".", "dot"), P("s", "name"), P(".", "dot"), P("a", "name")>>,
    <<P("$", "root"), P(".", "dot"), P("1", "id")>>,
    <<P("$", "root"), P(".", "dot"), P("l", "name"), P("[", "lbracket"), P("0", "int"), P(",", "comma"), P("1", "int"),
      P("]", "rbracket"), P(".", "dot"), P("a", "name")>>,
    <<P("$", "root"), P(".", "dot"), P("l", "name"), P("[", "lbracket"), P("*", "star"), P("]", "rbracket")>>,
    <<P("$", "root"), P(".", "dot"), P("im", "name"), P("{", "lbrace"), P("0", "int"), P(",", "comma"), P("1", "int"),
      P("}", "rbrace")>>,
    <<P("$", "root"), P(".", "dot"), P("sm", "name"), P("{", "lbrace"), P("Q", "quote"), P("a", "strbody"), P("Q", "quote"),
      P(",", "comma"), P("Q", "quote"), P("b", "strbody"), P("Q", "quote"), P("}", "rbrace"), P(".", "dot"), P("a", "name")>>,
    <<P("$", "root"), P(".", "dot"), P("ll", "name"), P("[", "lbracket"), P("0", "int"), P("]", "rbracket"),
      P("[", "lbracket"), P("1", "int"), P("]", "rbracket")>>,
    <<P("$", "root"), P(".", "dot"), P("w", "name"), P(".", "dot"), P("64", "id"), P("{", "lbrace"), P("1", "int"),
      P("}", "rbrace")>>,
    <<P("$", "root"), P(".", "dot"), P("bm", "name"), P("{", "lbrace"), P("*", "star"), P("}", "rbrace"), P(".", "dot"),
      P("a", "name")>>,
    <<P("$", "root")>> }

Remove(s, k) == SubSeq(s, 1, k - 1) \o SubSeq(s, k + 1, Len(s))
Insert(s, k, x) == SubSeq(s, 1, k - 1) \o <<x>> \o SubSeq(s, k, Len(s))
Replace(s, k, x) == [s EXCEPT ![k] = x]

InitP == v \in Bases /\ mut = <<>> /\ n = 0
Delete(k) == v' = Remove(v, k) /\ mut' = Append(mut, "delete-" \o v[k].c)
Duplicate(k) == v' = Insert(v, k, v[k]) /\ mut' = Append(mut, "duplicate-" \o v[k].c)
InsertTok(k, x) == v' = Insert(v, k, P(x, "tok")) /\ mut' = Append(mut, x)
ReplaceTok(k, x) == v' = Replace(v, k, P(x, "tok")) /\ mut' = Append(mut, x)
NextP == /\ n < MaxMut
         /\ n' = n + 1
         /\ LET T == IF n = 0 THEN Tokens ELSE Tokens2 IN
            \/ \E k \in 1..Len(v) : Delete(k) \/ Duplicate(k)
            \/ \E k \in 1..(Len(v) + 1), x \in T : InsertTok(k, x)
            \/ \E k \in 1..Len(v), x \in T : ReplaceTok(k, x)
SpecP == InitP /\ [][NextP]_vars
EmitP == PrintT("RCASE " \o ToJson([k |-> "path", ps |-> [i \in 1..Len(v) |-> v[i].t],
                                    tok |-> [i \in 1..Len(v) |-> v[i].c = "tok"], mut |-> mut]))

----------------------------------------------------------------------------
\* values a JSON field can take (symbolic)
PathVals == {"root", "star", "0", "1", "64", "neg1", "big32", "big64", "huge", "float", "exp", "str", "strnum", "empty",
             "null", "true", "array", "object", "missing"}
TypeVals == {"Struct", "List", "StrMap", "IntMap", "Scalar", "Invalid", "Bogus", "num", "null", "missing"}
GoodTypes == {"Struct", "List", "StrMap", "IntMap", "Scalar"}
Node(p, t, b, kids) == [p |-> p, t |-> t, b |-> b, kids |-> kids, kk |-> "array"]
Leaf(p, t) == Node(p, t, "false", <<>>)

\* grandchildren under a mutated child
GKids == {<<>>, <<Leaf("star", "Scalar")>>, <<Leaf("1", "Scalar")>>, <<Leaf("str", "Struct")>>}

DocsChild == {[mut |-> <<"child-path=" \o p \o ",child-type=" \o t \o ",under=" \o rt>>,
               d |-> Node("root", rt, "false", <<Node(p, t, "false", g)>>)] :
              rt \in GoodTypes, p \in PathVals, t \in TypeVals, g \in GKids}
\* two children: '*' mixed with keys, duplicate keys, keys of two kinds
Pairs == {<<"star", "1">>, <<"1", "star">>, <<"1", "1">>, <<"1", "str">>, <<"str", "str">>, <<"star", "star">>,
          <<"neg1", "1">>, <<"64", "1">>}
DocsPair == {[mut |-> <<"children=" \o pr[1] \o "+" \o pr[2] \o ",child-type=" \o t \o ",under=" \o rt>>,
              d |-> Node("root", rt, "false", <<Leaf(pr[1], t), Node(pr[2], t, "false", g)>>)] :
             rt \in GoodTypes, pr \in Pairs, t \in GoodTypes, g \in {<<>>, <<Leaf("star", "Scalar")>>}}
\* the root node itself
KidKinds == {"array", "missing", "null", "object", "string", "number"}
DocsRoot == {[mut |-> <<"root-path=" \o p \o ",root-type=" \o t \o ",children=" \o kk \o ",is_black=" \o b>>,
              d |-> [Node(p, t, b, <<>>) EXCEPT !.kk = kk]] :
             p \in PathVals, t \in TypeVals, kk \in KidKinds, b \in {"false", "true", "missing", "str", "null"}}
\* a child whose "children" is not an array
DocsKidKind == {[mut |-> <<"child-children=" \o kk \o ",child-type=" \o t \o ",under=" \o rt>>,
                 d |-> Node("root", rt, "false", <<[Leaf("1", t) EXCEPT !.kk = kk]>>)] :
                rt \in GoodTypes, t \in GoodTypes, kk \in KidKinds \ {"array"}}
\* deep chains: depth x type of every level x label of every level
DocsDeep == {[mut |-> <<"deep=" \o ToString(dd) \o ",type=" \o t \o ",label=" \o p>>,
              d |-> [p |-> p, t |-> t, b |-> "false", kids |-> <<>>, kk |-> "deep", depth |-> dd]] :
             dd \in DeepDepths, t \in GoodTypes, p \in {"star", "1", "str"}}
\* text level: a well-formed document cut at / damaged at a byte offset, and documents that are not objects
RawDocs == {"null", "true", "0", "-1", "1e999", "\"x\"", "[]", "{}", "[[]]", "[{}]", "", " ", "{", "}", "{\"path\"",
            "{\"path\":\"$\"}", "{\"type\":\"Struct\"}", "{\"path\":\"$\",\"type\":\"Struct\",\"children\":[null]}",
            "{\"path\":\"$\",\"type\":\"Struct\",\"children\":[[]]}", "{\"path\":\"$\",\"type\":\"Struct\",\"children\":[1]}",
            "{\"path\":\"$\",\"type\":\"Struct\",\"children\":[{}]}", "{\"PATH\":\"$\",\"TYPE\":\"Struct\"}",
            "{\"path\":\"$\",\"path\":1,\"type\":\"Struct\",\"type\":\"List\"}",
            "{\"path\":\"$\",\"type\":\"Struct\",\"children\":[{\"path\":1,\"type\":\"Scalar\"}]} trailing"}
DocsRaw == {[mut |-> <<"raw">>, d |-> [kk |-> "raw", raw |-> r]] : r \in RawDocs}
DocsCut == {[mut |-> <<"truncated">>, d |-> [kk |-> "cut", at |-> k]] : k \in 0..140}
DocsByte == {[mut |-> <<"stray-byte=" \o x>>, d |-> [kk |-> "byte", at |-> k, x |-> x]] :
             k \in {0, 1, 2, 8, 9, 10, 11, 12, 20, 21, 30, 31, 45, 60, 61, 62, 80, 100, 120, 139}, x \in {"NUL", "FF", "RC", "Q", "BS"}}

InitJ == /\ \/ \E c \in DocsChild : v = c.d /\ mut = c.mut
            \/ \E c \in DocsPair : v = c.d /\ mut = c.mut
            \/ \E c \in DocsRoot : v = c.d /\ mut = c.mut
            \/ \E c \in DocsKidKind : v = c.d /\ mut = c.mut
            \/ \E c \in DocsDeep : v = c.d /\ mut = c.mut
            \/ \E c \in DocsRaw : v = c.d /\ mut = c.mut
            \/ \E c \in DocsCut : v = c.d /\ mut = c.mut
            \/ \E c \in DocsByte : v = c.d /\ mut = c.mut
         /\ n = 0
SpecJ == InitJ /\ [][FALSE]_vars
EmitJ == PrintT("RCASE " \o ToJson([k |-> "json", d |-> v, mut |-> mut]))
=============================================================================
