----------------------------- MODULE FieldMask -----------------------------
(***************************************************************************)
(* C14 -- the field-mask library (fieldmask/mask.go, path.go, storage.go,  *)
(* serdes.go).                                                             *)
(*                                                                         *)
(* Layer A: what a LIST of thrift paths over a type descriptor MEANS, as a *)
(* SET of simple paths: which lists are errors, and for white-list and     *)
(* black-list mode the answer of every query (Field / Int / Str -> "in     *)
(* mask", All, PathInMask).  Verdicts about the real code are judged       *)
(* against this layer only.                                                *)
(*                                                                         *)
(* Layer B: the trie exactly as the code builds it (addPath token by       *)
(* token, reset / setAll on '*', SetIfNotExist, isAll, isBlack, the three  *)
(* child stores), its queries, and its JSON transfer image (marshalRec /   *)
(* TransferFrom).  The state machine adds one path per step, so TLC visits *)
(* every list of <= MaxLen alphabet paths in every order, in both modes,   *)
(* evaluates B => A on each, and prints the list as a case together with   *)
(* A's prescription and B's prediction.                                    *)
(***************************************************************************)
EXTENDS Integers, Sequences, FiniteSets, TLC, SequencesExt

CONSTANTS Structs,   \* struct name -> sequence of fields [id, name, t]
          Root,      \* name of the root struct
          Alphabet,  \* sequence of path expressions (sequences of segments)
          MaxLen,    \* length bound of the path lists
          Walks,     \* sequence of positions: sequences of query steps
          Pims,      \* sequence of path expressions asked through PathInMask
          StrOrder,  \* the string keys in use, in byte order (strings cannot be compared in TLC)
          Fixes      \* which revision of the code layer B transcribes (probed on the real code by the check):
                     \*   "negid"      fieldMap accepts negative field ids (before: index out of range)
                     \*   "prefixdrop" a complete path drops the children a longer path left at its node
                     \*   "getpathfix" GetPath of ".*" takes the first field (before: nil dereference)
                     \*   "existfix"   GetPath treats a mask without type like a nil mask

(***************************************************************************)
(* Data.                                                                   *)
(*  type     [k: scalar] | [k: struct, name] | [k: list|intmap|strmap|     *)
(*           othermap, e: type]   (set = list; othermap = key is neither   *)
(*           integer nor string: only '*' is allowed)                      *)
(*  segment  [k: fname|fid|fany|idx|key, name, id, es]; es = elements      *)
(*  element  [t: int|str|any|lit, n, s]   (lit = bare word, never valid)   *)
(*  step     [k: f|i|s|*, n, s]   f = field id, i = list index or integer  *)
(*           key, s = string key.  A simple path is a sequence of steps, a *)
(*           position (query) is a simple path without '*'.                *)
(***************************************************************************)
St(k, n, s) == [k |-> k, n |-> n, s |-> s]
Star == St("*", 0, "")
IsMap(ty) == ty.k \in {"intmap", "strmap", "othermap"}
Min2(a, b) == IF a < b THEN a ELSE b
RootTy == [k |-> "struct", name |-> Root]

RECURSIVE Cat(_)
Cat(ss) == IF ss = <<>> THEN "" ELSE Head(ss) \o Cat(Tail(ss))

\* index of the first field of struct sn selected by a fname / fid segment, 0 = none
FieldIx(sn, sg) ==
  LET fs == Structs[sn]
      c == {i \in 1..Len(fs) : IF sg.k = "fname" THEN fs[i].name = sg.name ELSE fs[i].id = sg.id}
  IN IF c = {} THEN 0 ELSE CHOOSE i \in c : \A j \in c : i <= j

----------------------------------------------------------------------------
(***************************************************************************)
(* Concrete syntax (the path string handed to the real library).           *)
(***************************************************************************)
(* Integers beyond TLC's 32 bits are symbolic: the codes below stand for    *)
(* the decimal numbers IntStr gives; to the spec they are just further      *)
(* distinct integer keys / indexes (their order is the numeric one).       *)
Big31m == 1000001    \* 2147483647  = 2^31 - 1
Big31 == 1000002     \* 2147483648  = 2^31
Big32p2 == 1000003   \* 4294967298  = 2^32 + 2 (its low 32 bits are 2)
BigNeg == -1000003   \* -4294967298 (queries only: a path cannot spell a negative number)
IntStr(n) == CASE n = Big31m -> "2147483647"
               [] n = Big31 -> "2147483648"
               [] n = Big32p2 -> "4294967298"
               [] n = BigNeg -> "-4294967298"
               [] OTHER -> ToString(n)
RenderElem(e) == CASE e.t = "int" -> IntStr(e.n)
                   [] e.t = "str" -> "\"" \o e.s \o "\""
                   [] e.t = "any" -> "*"
                   [] OTHER -> e.s
RECURSIVE RenderElems(_)
RenderElems(es) == IF es = <<>> THEN ""
                   ELSE RenderElem(Head(es)) \o (IF Len(es) > 1 THEN "," ELSE "") \o RenderElems(Tail(es))
RenderSeg(sg) == CASE sg.k = "fname" -> "." \o sg.name
                   [] sg.k = "fid" -> "." \o ToString(sg.id)
                   [] sg.k = "fany" -> ".*"
                   [] sg.k = "idx" -> "[" \o RenderElems(sg.es) \o "]"
                   [] OTHER -> "{" \o RenderElems(sg.es) \o "}"
RECURSIVE RenderSegs(_)
RenderSegs(segs) == IF segs = <<>> THEN "" ELSE RenderSeg(Head(segs)) \o RenderSegs(Tail(segs))
Render(expr) == "$" \o RenderSegs(expr)

----------------------------------------------------------------------------
(***************************************************************************)
(*                         LAYER A: path-set semantics                     *)
(***************************************************************************)
AOk(ps) == [e |-> "", ps |-> ps]
AErr(kind) == [e |-> kind, ps |-> {}]
ElemStep(e) == CASE e.t = "any" -> Star
                 [] e.t = "str" -> St("s", 0, e.s)
                 [] OTHER -> St("i", e.n, "")

(* Denotation of one path expression below a value of type ty: an error    *)
(* kind (malformed | unknown | kind | keykind), "?" where the statement is *)
(* silent ('*' on a struct followed by more segments), or the set of       *)
(* simple paths it names.  An index / key set names one path per element   *)
(* ("grouping").                                                           *)
RECURSIVE Denote(_, _)
Denote(segs, ty) ==
  IF segs = <<>> THEN AOk({<<>>})
  ELSE LET sg == Head(segs)
           rest == Tail(segs)
       IN
       IF sg.k \in {"fname", "fid", "fany"} THEN
          IF ty.k # "struct" THEN AErr("kind")
          ELSE IF sg.k = "fany" THEN (IF rest = <<>> THEN AOk({<<Star>>}) ELSE AErr("?"))
          ELSE LET i == FieldIx(ty.name, sg) IN
               IF i = 0 THEN AErr("unknown")
               ELSE LET f == Structs[ty.name][i]
                        r == Denote(rest, f.t)
                    IN IF r.e # "" THEN r ELSE AOk({<<St("f", f.id, "")>> \o p : p \in r.ps})
       ELSE IF sg.k = "idx" THEN
          IF ty.k # "list" THEN AErr("kind")
          ELSE IF sg.es = <<>> THEN AErr("malformed")
          ELSE IF \E i \in 1..Len(sg.es) : sg.es[i].t \notin {"int", "any"} THEN AErr("malformed")
          ELSE LET r == Denote(rest, ty.e) IN
               IF r.e # "" THEN r
               ELSE AOk({<<ElemStep(sg.es[i])>> \o p : i \in 1..Len(sg.es), p \in r.ps})
       ELSE \* key set
          IF ~IsMap(ty) THEN AErr("kind")
          ELSE IF sg.es = <<>> THEN AErr("malformed")
          ELSE IF \E i \in 1..Len(sg.es) : sg.es[i].t = "lit" THEN AErr("malformed")
          ELSE IF \E i \in 1..Len(sg.es) : sg.es[i].t = "int" /\ ty.k # "intmap" THEN AErr("keykind")
          ELSE IF \E i \in 1..Len(sg.es) : sg.es[i].t = "str" /\ ty.k # "strmap" THEN AErr("keykind")
          ELSE LET r == Denote(rest, ty.e) IN
               IF r.e # "" THEN r
               ELSE AOk({<<ElemStep(sg.es[i])>> \o p : i \in 1..Len(sg.es), p \in r.ps})

\* denotations of the alphabet and of the PathInMask queries (state independent, evaluated once)
AlphaDen == [i \in 1..Len(Alphabet) |-> Denote(Alphabet[i], RootTy)]
PimsDen == [i \in 1..Len(Pims) |-> Denote(Pims[i], RootTy)]
\* of a list given as indices into the alphabet
DenoteAll(h) == [i \in 1..Len(h) |-> AlphaDen[h[i]]]
PathSetD(d) == UNION {d[i].ps : i \in 1..Len(d)}
PathSet(h) == PathSetD(DenoteAll(h))

(* Two paths conflict when, below a common prefix, one has '*' where the   *)
(* other has an explicit field / index / key, or when one is a proper      *)
(* prefix of the other (a complete path already selects everything below   *)
(* it; the library treats that like '*').  For such lists the statement    *)
(* demands neither an error nor order independence.                        *)
SamePrefix(p, q, n) == \A i \in 1..n : p[i] = q[i]
Conflicting(p, q) ==
  \/ \E j \in 1..Min2(Len(p), Len(q)) : SamePrefix(p, q, j - 1) /\ ((p[j].k = "*") # (q[j].k = "*"))
  \/ Len(p) < Len(q) /\ SamePrefix(p, q, Len(p))
  \/ Len(q) < Len(p) /\ SamePrefix(p, q, Len(q))
ConflictIn(M) == \E p, q \in M : p # q /\ Conflicting(p, q)
StarConflict(p, q) == \E j \in 1..Min2(Len(p), Len(q)) : SamePrefix(p, q, j - 1) /\ ((p[j].k = "*") # (q[j].k = "*"))
PrefixConflict(p, q) == Len(p) < Len(q) /\ SamePrefix(p, q, Len(p))
ConflictKinds(M) == (IF \E p, q \in M : StarConflict(p, q) THEN {"star"} ELSE {})
                    \cup (IF \E p, q \in M : PrefixConflict(p, q) THEN {"prefix"} ELSE {})

(* Outcome class of a list: "E" = the library must return an error,        *)
(* "ok" = it must build a mask that answers as prescribed below, "?" =     *)
(* either (conflict with '*', or outside the statement).                   *)
OutcomeD(d) ==
  IF \E i \in 1..Len(d) : d[i].e \notin {"", "?"} THEN "E"
  ELSE IF \E i \in 1..Len(d) : d[i].e = "?" THEN "?"
  ELSE IF ConflictIn(PathSetD(d)) THEN "?"
  ELSE "ok"
OutcomeA(h) == OutcomeD(DenoteAll(h))
ErrKindsD(d) == {d[i].e : i \in 1..Len(d)} \ {""}

\* p agrees with position pos on its first n steps ('*' agrees with every sibling)
Matches(p, pos, n) == \A j \in 1..n : p[j].k = "*" \/ p[j] = pos[j]

(* "In mask" answer at a position.  black = TRUE is black-list mode.       *)
(*  white: some path passes through the position or is a complete prefix   *)
(*         of it (a complete path selects everything below); the empty     *)
(*         mask passes everything.                                         *)
(*  black: no complete path covers the position.                           *)
Sel(M, black, pos) ==
  IF black THEN ~\E p \in M : Len(p) <= Len(pos) /\ Matches(p, pos, Len(p))
  ELSE M = {} \/ \E p \in M : Matches(p, pos, Min2(Len(p), Len(pos)))

(* All() of the sub mask at a selected position: nothing is said below the *)
(* position (everything passes, or a complete path ended above), or the    *)
(* next step of a path through it is '*'.                                  *)
Through(M, pos) == {p \in M : Len(p) > Len(pos) /\ Matches(p, pos, Len(pos))}
AllAt(M, pos) == Through(M, pos) = {} \/ \E p \in Through(M, pos) : p[Len(pos) + 1].k = "*"

(* The answers along one walk, as a number in base 5 (strings are slow in  *)
(* TLC): digit j (least significant first) is the answer at step j:       *)
(* 1 = not in mask (the walk ends), 2 = in mask and All() of the sub mask  *)
(* is false, 3 = in mask and All() is true, 4 = (layer B only) the query   *)
(* panics, 0 = step not taken.                                             *)
Pow5(j) == CASE j = 1 -> 1 [] j = 2 -> 5 [] j = 3 -> 25 [] j = 4 -> 125 [] j = 5 -> 625 [] OTHER -> 3125
RECURSIVE WalkAFrom(_, _, _, _)
WalkAFrom(M, black, pos, j) ==
  IF j > Len(pos) THEN 0
  ELSE LET pre == SubSeq(pos, 1, j) IN
       IF ~Sel(M, black, pre) THEN Pow5(j)
       ELSE (IF AllAt(M, pre) THEN 3 ELSE 2) * Pow5(j) + WalkAFrom(M, black, pos, j + 1)
WalkA(M, black, pos) == WalkAFrom(M, black, pos, 1)

(* PathInMask(q), prescribed for white lists only (for a black list "is in *)
(* the mask" and "passes the mask" differ and the statement does not say   *)
(* which is meant; same for the empty mask).  A '*' in the query asks for  *)
(* all siblings, which only a '*' (or a complete prefix) in the mask gives.*)
InMaskW(M, sp) == \E p \in M : \A j \in 1..Min2(Len(p), Len(sp)) : p[j].k = "*" \/ p[j] = sp[j]
PimAD(M, d) == d.e = "" /\ \A sp \in d.ps : InMaskW(M, sp)
PimA(M, q) == PimAD(M, Denote(q, RootTy))

----------------------------------------------------------------------------
(***************************************************************************)
(*                 LAYER B: the trie as the code builds it                 *)
(***************************************************************************)
Nil == [typ |-> "nil"]
IsNil(n) == n.typ = "nil"
NewNode(ft, blk) == [typ |-> ft, isAll |-> FALSE, blk |-> blk, all |-> Nil,
                     fd |-> <<>>, fdNil |-> TRUE, im |-> <<>>, imNil |-> TRUE, sm |-> <<>>, smNil |-> TRUE]
Ext(f, k, v) == [x \in (DOMAIN f) \cup {k} |-> IF x = k THEN v ELSE f[x]]

SwitchFt(ty) == CASE ty.k = "scalar" -> "Scalar"
                  [] ty.k = "list" -> "List"
                  [] ty.k = "intmap" -> "IntMap"
                  [] ty.k = "strmap" -> "StrMap"
                  [] ty.k = "struct" -> "Struct"
                  [] OTHER -> "Scalar"          \* map with another key kind: "exists and is all"

\* FieldMask.All()
AllOf(n) == IF IsNil(n) THEN TRUE
            ELSE IF n.typ \in {"Struct", "List", "IntMap", "StrMap"} THEN n.isAll ELSE TRUE
ExistOf(n) == ~IsNil(n) /\ n.typ # "Invalid"
HasChild(n) == n.typ # "Invalid" /\ (~IsNil(n.all) \/ ~n.fdNil \/ ~n.imNil \/ ~n.smNil)

\* FieldMask.reset(): clears typ and isAll, recursively in the three stores -- not in `all`
RECURSIVE Reset(_)
Reset(n) == IF IsNil(n) THEN n
            ELSE [n EXCEPT !.isAll = FALSE, !.typ = "Invalid",
                           !.fd = [k \in DOMAIN n.fd |-> Reset(n.fd[k])],
                           !.im = [k \in DOMAIN n.im |-> Reset(n.im[k])],
                           !.sm = [k \in DOMAIN n.sm |-> Reset(n.sm[k])]]
ResetMap(f) == [k \in DOMAIN f |-> Reset(f[k])]

\* SetIfNotExist: a new child, or the old one (re-typed when it had been reset)
Slot(f, k, ft, blk) == IF k \notin DOMAIN f THEN NewNode(ft, blk)
                       ELSE IF f[k].typ = "Invalid" THEN [f[k] EXCEPT !.typ = ft, !.isAll = FALSE, !.blk = blk]
                       ELSE f[k]
\* setAll
AllSlot(n, ft) == IF IsNil(n.all) THEN NewNode(ft, n.blk)
                  ELSE IF n.all.typ = "Invalid" THEN [n.all EXCEPT !.typ = ft, !.isAll = FALSE, !.blk = n.blk]
                  ELSE n.all

BR(n, e) == [n |-> n, e |-> e]

(* The element loop of "[...]" and "{...}": state = (node, all, ids, strs). *)
RECURSIVE ElemLoop(_, _, _, _, _, _, _)
ElemLoop(n, all, ids, strs, es, i, isList) ==
  IF i > Len(es) THEN [n |-> n, all |-> all, ids |-> ids, strs |-> strs, e |-> ""]
  ELSE LET el == es[i] IN
       IF el.t = "any" THEN
            ElemLoop([n EXCEPT !.im = ResetMap(n.im), !.sm = ResetMap(n.sm), !.isAll = TRUE],
                     TRUE, ids, strs, es, i + 1, isList)
       ELSE IF all THEN [n |-> n, all |-> all, ids |-> ids, strs |-> strs, e |-> "conflict"]
       ELSE IF isList THEN
            (IF el.t # "int" THEN [n |-> n, all |-> all, ids |-> ids, strs |-> strs, e |-> "malformed"]
             ELSE ElemLoop(n, all, Append(ids, el.n), strs, es, i + 1, isList))
       ELSE IF el.t = "int" THEN
            (IF n.typ # "IntMap" THEN [n |-> n, all |-> all, ids |-> ids, strs |-> strs, e |-> "keykind"]
             ELSE ElemLoop(n, all, Append(ids, el.n), strs, es, i + 1, isList))
       ELSE IF el.t = "str" THEN
            (IF n.typ # "StrMap" THEN [n |-> n, all |-> all, ids |-> ids, strs |-> strs, e |-> "keykind"]
             ELSE ElemLoop(n, all, ids, Append(strs, el.s), es, i + 1, isList))
       ELSE [n |-> n, all |-> all, ids |-> ids, strs |-> strs, e |-> "malformed"]

(* addPath(rest of the path) on node n whose value has type ty.            *)
RECURSIVE Add(_, _, _)
RECURSIVE AddInts(_, _, _, _, _, _)
RECURSIVE AddStrs(_, _, _, _, _, _)

AddInts(n, ids, i, ft, rest, ety) ==
  IF i > Len(ids) THEN BR(n, "")
  ELSE LET r == Add(Slot(n.im, ids[i], ft, n.blk), rest, ety)
           n1 == [n EXCEPT !.im = Ext(n.im, ids[i], r.n), !.imNil = FALSE]
       IN IF r.e # "" THEN BR(n1, r.e) ELSE AddInts(n1, ids, i + 1, ft, rest, ety)

AddStrs(n, strs, i, ft, rest, ety) ==
  IF i > Len(strs) THEN BR(n, "")
  ELSE LET r == Add(Slot(n.sm, strs[i], ft, n.blk), rest, ety)
           n1 == [n EXCEPT !.sm = Ext(n.sm, strs[i], r.n), !.smNil = FALSE]
       IN IF r.e # "" THEN BR(n1, r.e) ELSE AddStrs(n1, strs, i + 1, ft, rest, ety)

Add(n, segs, ty) ==
  IF segs = <<>> THEN                                         \* "for scalar type, isAll is always true"
     (IF "prefixdrop" \in Fixes
      THEN BR([n EXCEPT !.isAll = TRUE, !.all = Nil, !.fd = <<>>, !.fdNil = TRUE, !.im = <<>>, !.imNil = TRUE,
                        !.sm = <<>>, !.smNil = TRUE], "")
      ELSE BR([n EXCEPT !.isAll = TRUE], ""))
  ELSE
  LET sg == Head(segs)
      rest == Tail(segs)
  IN
  IF sg.k \in {"fname", "fid", "fany"} THEN
     IF ty.k # "struct" \/ n.typ # "Struct" THEN BR(n, "kind")
     ELSE IF AllOf(n) THEN BR(n, "conflict")
     ELSE IF sg.k = "fany" THEN
        \* the first field's type stands for all; the descriptor does not move
        LET n1 == [n EXCEPT !.fd = ResetMap(n.fd), !.isAll = TRUE]
            r == Add(AllSlot(n1, SwitchFt(Structs[ty.name][1].t)), rest, ty)
        IN BR([n1 EXCEPT !.all = r.n], r.e)
     ELSE LET i == FieldIx(ty.name, sg) IN
        IF i = 0 THEN BR(n, "unknown")
        ELSE LET f == Structs[ty.name][i] IN
             IF f.id < 0 /\ "negid" \notin Fixes THEN BR(n, "PANIC")   \* fieldMap.head[f] with f < 0
             ELSE LET r == Add(Slot(n.fd, f.id, SwitchFt(f.t), n.blk), rest, f.t)
                  IN BR([n EXCEPT !.fd = Ext(n.fd, f.id, r.n), !.fdNil = FALSE], r.e)
  ELSE IF sg.k = "idx" THEN
     IF ty.k # "list" \/ n.typ # "List" THEN BR(n, "kind")
     ELSE IF sg.es = <<>> THEN BR(n, "malformed")
     ELSE LET lp == ElemLoop(n, AllOf(n), <<>>, <<>>, sg.es, 1, TRUE)
              ft == SwitchFt(ty.e)
          IN IF lp.e # "" THEN BR(lp.n, lp.e)
             ELSE IF lp.all THEN LET r == Add(AllSlot(lp.n, ft), rest, ty.e) IN BR([lp.n EXCEPT !.all = r.n], r.e)
             ELSE AddInts(lp.n, lp.ids, 1, ft, rest, ty.e)
  ELSE
     IF ~IsMap(ty) \/ n.typ \notin {"IntMap", "StrMap", "Scalar"} THEN BR(n, "kind")
     ELSE IF sg.es = <<>> THEN BR(n, "malformed")
     ELSE LET lp == ElemLoop(n, AllOf(n), <<>>, <<>>, sg.es, 1, FALSE)
              ft == SwitchFt(ty.e)
          IN IF lp.e # "" THEN BR(lp.n, lp.e)
             ELSE IF lp.all THEN LET r == Add(AllSlot(lp.n, ft), rest, ty.e) IN BR([lp.n EXCEPT !.all = r.n], r.e)
             ELSE IF lp.n.typ = "IntMap" THEN AddInts(lp.n, lp.ids, 1, ft, rest, ty.e)
             ELSE IF lp.n.typ = "StrMap" THEN AddStrs(lp.n, lp.strs, 1, ft, rest, ty.e)
             ELSE BR(lp.n, "malformed")

\* one path string: the root token '$' types the root, then the segments
AddPath(root, expr) == Add([root EXCEPT !.typ = "Struct"], expr, RootTy)

(* Queries.  Result [m |-> sub mask, ex |-> in mask, p |-> panics].        *)
QR(m, ex) == [m |-> m, ex |-> ex, p |-> FALSE]
Ret(n, fm) == IF n.blk THEN QR(fm, IsNil(fm) \/ HasChild(fm)) ELSE QR(fm, ~IsNil(fm))
Get(f, k) == IF k \in DOMAIN f /\ ExistOf(f[k]) THEN f[k] ELSE Nil
Query(n, st) ==
  IF IsNil(n) \/ n.typ = "Invalid" THEN QR(Nil, TRUE)
  ELSE IF n.isAll THEN QR(n.all, ~n.blk \/ HasChild(n))
  ELSE IF st.k = "f" THEN (IF (n.fdNil \/ st.n < 0) /\ "negid" \notin Fixes THEN [m |-> Nil, ex |-> FALSE, p |-> TRUE]
                           ELSE Ret(n, Get(n.fd, st.n)))
  ELSE IF st.k = "i" THEN Ret(n, Get(n.im, st.n))
  ELSE Ret(n, Get(n.sm, st.s))

RECURSIVE WalkBFrom(_, _, _)
WalkBFrom(n, pos, j) ==
  IF j > Len(pos) THEN 0
  ELSE LET q == Query(n, pos[j]) IN
       IF q.p THEN 4 * Pow5(j)
       ELSE IF ~q.ex THEN Pow5(j)
       ELSE (IF AllOf(q.m) THEN 3 ELSE 2) * Pow5(j) + WalkBFrom(q.m, pos, j + 1)
WalkB(n, pos) == WalkBFrom(n, pos, 1)


(* GetPath / PathInMask: walks the trie along a query path; TRUE = in mask, *)
(* "P" = the call panics.  Result is one of "1", "0", "P".                 *)
RECURSIVE GP(_, _, _)
RECURSIVE GPElems(_, _, _, _, _)
\* the element loop of a query's [...] / {...}: returns [r |-> "" (go on) | "0" | "P", next |-> sub mask]
GPElems(cur, es, i, next, isList) ==
  IF i > Len(es) THEN [r |-> "", next |-> next]
  ELSE LET el == es[i] IN
       IF AllOf(cur) THEN GPElems(cur, es, i + 1, next, isList)
       ELSE IF el.t = "any" THEN [r |-> "0", next |-> next]
       ELSE IF el.t = "int" THEN
            (IF ~isList /\ cur.typ # "IntMap" THEN [r |-> "0", next |-> next]
             ELSE LET q == Query(cur, St("i", el.n, "")) IN
                  IF ~q.ex THEN [r |-> "0", next |-> next] ELSE GPElems(cur, es, i + 1, q.m, isList))
       ELSE IF el.t = "str" /\ ~isList THEN
            (IF cur.typ # "StrMap" THEN [r |-> "0", next |-> next]
             ELSE LET q == Query(cur, St("s", 0, el.s)) IN
                  IF ~q.ex THEN [r |-> "0", next |-> next] ELSE GPElems(cur, es, i + 1, q.m, isList))
       ELSE [r |-> "0", next |-> next]
GP(cur, segs, ty) ==
  IF segs = <<>> THEN "1"
  ELSE IF IsNil(cur) \/ ("existfix" \in Fixes /\ ~ExistOf(cur)) THEN "1"     \* "empty fm for path means IN MASK"
  ELSE
  LET sg == Head(segs)
      rest == Tail(segs)
  IN
  IF sg.k \in {"fname", "fid", "fany"} THEN
     IF ty.k # "struct" \/ cur.typ # "Struct" THEN "0"
     ELSE IF sg.k = "fany" THEN
          (IF ~AllOf(cur) THEN "0"
           ELSE IF "getpathfix" \notin Fixes THEN "P"                        \* f == nil; f.GetID()
           ELSE LET f == Structs[ty.name][1]
                    q == Query(cur, St("f", f.id, ""))
                IN IF q.p THEN "P" ELSE IF ~q.ex THEN "0" ELSE GP(q.m, rest, f.t))
     ELSE LET i == FieldIx(ty.name, sg) IN
          IF i = 0 THEN "0"
          ELSE LET f == Structs[ty.name][i]
                   q == Query(cur, St("f", f.id, ""))
               IN IF q.p THEN "P" ELSE IF ~q.ex THEN "0" ELSE GP(q.m, rest, f.t)
  ELSE IF sg.k = "idx" THEN
     IF ty.k # "list" \/ cur.typ # "List" THEN "0"
     ELSE LET lp == GPElems(cur, sg.es, 1, cur.all, TRUE) IN
          IF lp.r # "" THEN lp.r ELSE GP(lp.next, rest, ty.e)
  ELSE
     IF ~IsMap(ty) \/ cur.typ \notin {"IntMap", "StrMap", "Scalar"} THEN "0"
     ELSE LET lp == GPElems(cur, sg.es, 1, cur.all, FALSE) IN
          IF lp.r # "" THEN lp.r ELSE GP(lp.next, rest, ty.e)
\* PathInMask(root, "$" ...): the root token is skipped (a nil / unset root answers "in mask" before that)
PimB(root, expr) == GP(root, expr, RootTy)
----------------------------------------------------------------------------
(***************************************************************************)
(* JSON transfer image (marshalRec / TransferFrom).  A document node is    *)
(* [ty, b, has, ch] with ch a sequence of [lk, ln, ls, d]: label kind      *)
(* (star, n or s), label value, sub document; children sorted by label.    *)
(***************************************************************************)
IntKeysSorted(f) == SetToSortSeq({k \in DOMAIN f : ExistOf(f[k])}, LAMBDA a, b : a < b)
StrKeysSorted(f) == SelectSeq(StrOrder, LAMBDA s : s \in DOMAIN f /\ ExistOf(f[s]))

RECURSIVE ToDoc(_)
ToDoc(n) ==
  IF AllOf(n) /\ IsNil(n.all) THEN [ty |-> n.typ, b |-> n.blk, has |-> FALSE, ch |-> <<>>]
  ELSE LET ch ==
         IF AllOf(n) THEN (IF ExistOf(n.all) THEN <<[lk |-> "*", ln |-> 0, ls |-> "", d |-> ToDoc(n.all)]>> ELSE <<>>)
         ELSE IF n.typ = "Struct" THEN
              LET ks == IntKeysSorted(n.fd) IN [i \in 1..Len(ks) |-> [lk |-> "n", ln |-> ks[i], ls |-> "", d |-> ToDoc(n.fd[ks[i]])]]
         ELSE IF n.typ \in {"List", "IntMap"} THEN
              LET ks == IntKeysSorted(n.im) IN [i \in 1..Len(ks) |-> [lk |-> "n", ln |-> ks[i], ls |-> "", d |-> ToDoc(n.im[ks[i]])]]
         ELSE LET ks == StrKeysSorted(n.sm) IN [i \in 1..Len(ks) |-> [lk |-> "s", ln |-> 0, ls |-> ks[i], d |-> ToDoc(n.sm[ks[i]])]]
       IN [ty |-> n.typ, b |-> n.blk, has |-> TRUE, ch |-> ch]

\* TransferFrom; [n, e]
RECURSIVE FromDoc(_, _)
RECURSIVE FromKids(_, _, _)
FromDoc(n0, d) ==
  IF d.ty = "Invalid" THEN BR(n0, "invalid type")
  ELSE LET n == [n0 EXCEPT !.typ = d.ty, !.blk = d.b] IN
       IF d.ch = <<>> THEN BR([n EXCEPT !.isAll = TRUE], "")
       ELSE IF d.ty = "Scalar" THEN
            (IF d.ch[1].lk = "*" THEN LET r == FromDoc(NewNode("Invalid", FALSE), d.ch[1].d)
                                      IN BR([n EXCEPT !.isAll = TRUE, !.all = r.n], r.e)
             ELSE BR(n, "expect *"))
       ELSE FromKids(n, d, 1)
FromKids(n, d, i) ==
  IF i > Len(d.ch) THEN BR(n, "")
  ELSE LET c == d.ch[i] IN
       IF c.lk = "*" THEN LET r == FromDoc(NewNode("Invalid", FALSE), c.d)
                          IN BR([n EXCEPT !.isAll = TRUE, !.all = r.n], r.e)     \* the remaining children are dropped
       ELSE IF d.ty = "Struct" THEN
            (IF c.lk # "n" THEN BR(n, "bad label")
             ELSE LET r == FromDoc(Slot(n.fd, c.ln, c.d.ty, n.blk), c.d)
                      n1 == [n EXCEPT !.fd = Ext(n.fd, c.ln, r.n), !.fdNil = FALSE]
                  IN IF r.e # "" THEN BR(n1, r.e) ELSE FromKids(n1, d, i + 1))
       ELSE IF d.ty \in {"List", "IntMap"} THEN
            (IF c.lk # "n" THEN BR(n, "bad label")
             ELSE LET r == FromDoc(Slot(n.im, c.ln, c.d.ty, n.blk), c.d)
                      n1 == [n EXCEPT !.im = Ext(n.im, c.ln, r.n), !.imNil = FALSE]
                  IN IF r.e # "" THEN BR(n1, r.e) ELSE FromKids(n1, d, i + 1))
       ELSE (IF c.lk # "s" THEN BR(n, "bad label")
             ELSE LET r == FromDoc(Slot(n.sm, c.ls, c.d.ty, n.blk), c.d)
                      n1 == [n EXCEPT !.sm = Ext(n.sm, c.ls, r.n), !.smNil = FALSE]
                  IN IF r.e # "" THEN BR(n1, r.e) ELSE FromKids(n1, d, i + 1))

FromJSON(d) == FromDoc(NewNode("Invalid", FALSE), d)

----------------------------------------------------------------------------
(***************************************************************************)
(* The machine: one NewFieldMask call fed path by path.                    *)
(***************************************************************************)
VARIABLES mode,   \* "W" | "B"
          hist,   \* indices into Alphabet of the paths added so far
          trie,   \* root node (layer B)
          berr    \* "" or the error that ended the call (layer B)
vars == <<mode, hist, trie, berr>>


Init == /\ mode \in {"W", "B"}
        /\ hist = <<>>
        /\ trie = NewNode("Invalid", mode = "B")
        /\ berr = ""

AddNext(i) == /\ Len(hist) < MaxLen
              /\ berr = ""
              /\ LET r == AddPath(trie, Alphabet[i]) IN trie' = r.n /\ berr' = r.e
              /\ hist' = Append(hist, i)
              /\ UNCHANGED mode
Next == \E i \in 1..Len(Alphabet) : AddNext(i)
Spec == Init /\ [][Next]_vars

\* all walks of one mask.  (The query sequences are bound by LET: TLC re-evaluates a constant that is substituted
\* by an operator at every reference.)
JoinWalksA(M, black) == LET W == Walks IN [i \in 1..Len(W) |-> WalkA(M, black, W[i])]
JoinWalksB(n) == LET W == Walks IN [i \in 1..Len(W) |-> WalkB(n, W[i])]
JoinPimsAD(M, D) == [i \in 1..Len(D) |-> IF PimAD(M, D[i]) THEN 1 ELSE 0]
JoinPimsA(M) == LET D == PimsDen IN JoinPimsAD(M, D)
JoinPimsB(n) == LET P == Pims IN [i \in 1..Len(P) |-> LET r == PimB(n, P[i]) IN IF r = "1" THEN 1 ELSE IF r = "0" THEN 0 ELSE 4]

AllCode(b) == IF b THEN 3 ELSE 2

(* B => A for one state, given A's outcome class oa and the answers of both *)
(* layers (computed once by the caller): where A prescribes the outcome, B *)
(* has it.                                                                 *)
RefinesWith(oa, aall, aw, ap, ball, bw, bp) ==
  CASE oa = "E" -> berr # ""
    [] oa = "ok" -> berr = "" /\ ball = aall /\ bw = aw /\ (ap # <<>> => bp = ap)
    [] OTHER -> TRUE
RefinesHere ==
  LET M == PathSet(hist)
  IN RefinesWith(OutcomeA(hist), AllCode(AllAt(M, <<>>)), JoinWalksA(M, mode = "B"),
                 IF mode = "W" /\ M # {} THEN JoinPimsA(M) ELSE <<>>,
                 AllCode(AllOf(trie)), JoinWalksB(trie), JoinPimsB(trie))

(* The JSON image read back answers every query like the trie.  (That the  *)
(* image is a function of the path SET is checked on the emitted cases:    *)
(* lists with equal path sets must give equal JSON text.)  The empty mask  *)
(* is excluded here: typ = Invalid is not readable; the check reports what *)
(* the real code does with it.                                             *)
RoundTripWith(bw) ==
  berr # "" \/ trie.typ = "Invalid" \/
  LET r == FromJSON(ToDoc(trie)) IN
  /\ r.e = ""
  /\ AllOf(r.n) = AllOf(trie)
  /\ ExistOf(r.n) = ExistOf(trie)
  /\ JoinWalksB(r.n) = bw
RoundTripHere == RoundTripWith(JoinWalksB(trie))

TypeOK == /\ mode \in {"W", "B"}
          /\ Len(hist) <= MaxLen
          /\ \A i \in 1..Len(hist) : hist[i] \in 1..Len(Alphabet)
          /\ trie.typ \in {"Invalid", "Struct"}
          /\ (berr = "" /\ hist # <<>>) => trie.typ = "Struct"
=============================================================================
