SPECIFICATION Spec
CONSTANTS
  Structs <- cStructs
  Root = "R"
  Alphabet <- aFull
  MaxLen = 1
  Walks <- cWalks
  Pims <- cPimsR
  StrOrder <- cStrOrder
INVARIANTS TypeOK Emit
CHECK_DEADLOCK FALSE
