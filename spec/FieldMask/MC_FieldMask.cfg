\* example configuration (checks/c14.py writes its own per universe)
SPECIFICATION Spec
CONSTANTS
  RootName = "R"
  AlphabetName = "aFull"
  PimsName = "cPimsR"
  MaxLen = 2
  Fixes = {}
INVARIANTS TypeOK Emit
CHECK_DEADLOCK FALSE
