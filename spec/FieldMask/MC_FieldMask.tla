--------------------------- MODULE MC_FieldMask ---------------------------
(***************************************************************************)
(* Constants of the bounded universes of C14 and the case emitter.         *)
(* The descriptor cStructs must equal the IDL in                           *)
(* harness/cmd/inproc/mask.go (checked at run time: `inproc maskdesc`).    *)
(***************************************************************************)
EXTENDS Integers, Sequences, FiniteSets, TLC, SequencesExt, Json

CONSTANTS RootName, AlphabetName, PimsName, MaxLen, Fixes
VARIABLES mode, hist, trie, berr

St(k, n, s) == [k |-> k, n |-> n, s |-> s]
RootTy0 == [k |-> "struct", name |-> RootName]

Scalar == [k |-> "scalar"]
StructT(n) == [k |-> "struct", name |-> n]
ListT(e) == [k |-> "list", e |-> e]
IntMapT(e) == [k |-> "intmap", e |-> e]
StrMapT(e) == [k |-> "strmap", e |-> e]
OtherMapT(e) == [k |-> "othermap", e |-> e]
\* containers whose keys / indexes are also asked beyond 32 bits (map<i64,..>; any list)
BigMapT(e) == [k |-> "intmap", e |-> e, big |-> TRUE]
BigListT(e) == [k |-> "list", e |-> e, big |-> TRUE]
Fd(id, name, t) == [id |-> id, name |-> name, t |-> t]

cStructs ==
  [V |-> <<Fd(1, "a", Scalar), Fd(2, "b", Scalar)>>,
   W |-> <<Fd(1, "v", StructT("V")), Fd(2, "li", ListT(Scalar)), Fd(64, "mii", IntMapT(Scalar))>>,
   R |-> <<Fd(1, "x", Scalar), Fd(2, "s", StructT("V")), Fd(3, "l", ListT(StructT("V"))),
           Fd(4, "ss", BigListT(Scalar)), Fd(5, "im", IntMapT(StructT("V"))), Fd(6, "sm", StrMapT(StructT("V"))),
           Fd(7, "em", IntMapT(Scalar)), Fd(8, "bm", OtherMapT(StructT("V"))), Fd(9, "bi", BigMapT(Scalar)),
           Fd(63, "w", StructT("W")),
           Fd(64, "y", Scalar), Fd(300, "ll", ListT(ListT(Scalar)))>>,
   N |-> <<Fd(1, "x", Scalar), Fd(-1, "neg", Scalar), Fd(2, "s", StructT("V")), Fd(-2, "ns", StructT("V"))>>]

cStrOrder == <<"a", "b", "z">>

\* ---- segments ------------------------------------------------------------
FN(name) == [k |-> "fname", name |-> name, id |-> 0, es |-> <<>>]
FI(id) == [k |-> "fid", name |-> "", id |-> id, es |-> <<>>]
FA == [k |-> "fany", name |-> "", id |-> 0, es |-> <<>>]
IX(es) == [k |-> "idx", name |-> "", id |-> 0, es |-> es]
KY(es) == [k |-> "key", name |-> "", id |-> 0, es |-> es]
EI(n) == [t |-> "int", n |-> n, s |-> ""]
ES(s) == [t |-> "str", n |-> 0, s |-> s]
EA == [t |-> "any", n |-> 0, s |-> ""]
EL(s) == [t |-> "lit", n |-> 0, s |-> s]

\* ---- path alphabets (root R) ---------------------------------------------
pX == <<FN("x")>>
pXid == <<FI(1)>>
pS == <<FN("s")>>
pSa == <<FN("s"), FN("a")>>
pSb == <<FN("s"), FI(2)>>
pL0 == <<FN("l"), IX(<<EI(0)>>)>>
pL1 == <<FN("l"), IX(<<EI(1)>>)>>
pL01 == <<FN("l"), IX(<<EI(0), EI(1)>>)>>
pLs == <<FN("l"), IX(<<EA>>)>>
pL0a == <<FN("l"), IX(<<EI(0)>>), FN("a")>>
pL1b == <<FN("l"), IX(<<EI(1)>>), FN("b")>>
pL1a == <<FN("l"), IX(<<EI(1)>>), FN("a")>>
pL01a == <<FN("l"), IX(<<EI(0), EI(1)>>), FN("a")>>
pLsa == <<FN("l"), IX(<<EA>>), FN("a")>>
pLsb == <<FN("l"), IX(<<EA>>), FN("b")>>
pSS1 == <<FN("ss"), IX(<<EI(1)>>)>>
pSSs == <<FN("ss"), IX(<<EA>>)>>
pIM0 == <<FN("im"), KY(<<EI(0)>>)>>
pIM1a == <<FN("im"), KY(<<EI(1)>>), FN("a")>>
pIM0a == <<FN("im"), KY(<<EI(0)>>), FN("a")>>
pIM01a == <<FN("im"), KY(<<EI(0), EI(1)>>), FN("a")>>
pIMs == <<FN("im"), KY(<<EA>>)>>
pIMsb == <<FN("im"), KY(<<EA>>), FN("b")>>
pSMa == <<FN("sm"), KY(<<ES("a")>>)>>
pSMaa == <<FN("sm"), KY(<<ES("a")>>), FN("a")>>
pSMb_a == <<FN("sm"), KY(<<ES("b")>>), FN("a")>>
pSMba == <<FN("sm"), KY(<<ES("b"), ES("a")>>), FN("a")>>
pSMsa == <<FN("sm"), KY(<<EA>>), FN("a")>>
pEM1 == <<FN("em"), KY(<<EI(1)>>)>>
pBMsa == <<FN("bm"), KY(<<EA>>), FN("a")>>
pBMs == <<FN("bm"), KY(<<EA>>)>>
pWva == <<FN("w"), FN("v"), FN("a")>>
pWli0 == <<FI(63), FN("li"), IX(<<EI(0)>>)>>
pWmii1 == <<FN("w"), FI(64), KY(<<EI(1)>>)>>
pY == <<FN("y")>>
pLL01 == <<FN("ll"), IX(<<EI(0)>>), IX(<<EI(1)>>)>>
pLLs0 == <<FI(300), IX(<<EA>>), IX(<<EI(0)>>)>>
pLL == <<FI(300)>>
pRoot == <<>>
pAny == <<FA>>
pSany == <<FN("s"), FA>>
\* error paths
eNope == <<FN("nope")>>
eId9 == <<FI(10)>>
eXa == <<FN("x"), FN("a")>>
eX0 == <<FN("x"), IX(<<EI(0)>>)>>
eS0 == <<FN("s"), IX(<<EI(0)>>)>>
eLk == <<FN("l"), KY(<<EI(0)>>)>>
eLa == <<FN("l"), FN("a")>>
eIMs == <<FN("im"), KY(<<ES("a")>>)>>
eSM1 == <<FN("sm"), KY(<<EI(1)>>)>>
eBM1 == <<FN("bm"), KY(<<EI(1)>>)>>
eLempty == <<FN("l"), IX(<<>>)>>
eIMempty == <<FN("im"), KY(<<>>)>>
eLstr == <<FN("l"), IX(<<ES("a")>>)>>
eIMidx == <<FN("im"), IX(<<EI(1)>>)>>
eIMlit == <<FN("im"), KY(<<EL("k")>>)>>
eL0nope == <<FN("l"), IX(<<EI(0)>>), FN("nope")>>

aValid == <<pX, pXid, pS, pSa, pSb, pL0, pL1, pL01, pLs, pL0a, pL1b, pL01a, pLsa, pLsb, pSS1, pSSs, pIM0, pIM1a,
            pIM01a, pIMs, pIMsb, pSMa, pSMba, pSMsa, pEM1, pBMsa, pBMs, pWva, pWli0, pWmii1, pY, pLL01, pLLs0,
            pLL, pRoot, pAny, pSany, pL1a, pIM0a, pSMaa, pSMb_a>>
aErr == <<eNope, eId9, eXa, eX0, eS0, eLk, eLa, eIMs, eSM1, eBM1, eLempty, eIMempty, eLstr, eIMidx, eIMlit, eL0nope>>
aFull == aValid \o aErr
\* a core for the longer lists: complete / longer / grouped / '*' paths at a struct, a list, both map kinds
aCore == <<pX, pS, pSa, pSb, pL0, pL01, pLs, pL0a, pL1b, pLsa, pIM0, pIM1a, pIMsb, pSMa, pSMba, pSMsa, pWva, pWli0,
           pLL01, pLLs0, eNope, eBM1>>
aSmall == <<pSa, pSb, pL0, pL01a, pLs, pLsa, pL1b, pIM1a, pIMs, pSMba, pWli0, pLL01>>
aTiny == <<pS, pSa, pL0, pL01a, pLs, pLsa, pIM1a, pIMs, pSMba>>

\* root N (negative field ids)
nX == <<FN("x")>>
nNeg == <<FN("neg")>>
nSa == <<FN("s"), FN("a")>>
nNSa == <<FN("ns"), FN("a")>>
nNS == <<FN("ns")>>
aNeg == <<nX, nNeg, nSa, nNSa, nNS>>

\* keys and indexes at and beyond the 32-bit boundary (symbolic, see IntStr in FieldMask.tla; the codes are repeated
\* here because the alphabets are needed before the INSTANCE statement; ASSUMEd equal below)
cBig31m == 1000001
cBig31 == 1000002
cBig32p2 == 1000003
cBigNeg == -1000003
pBI2 == <<FN("bi"), KY(<<EI(2)>>)>>
pBI31m == <<FN("bi"), KY(<<EI(cBig31m)>>)>>
pBI31 == <<FN("bi"), KY(<<EI(cBig31)>>)>>
pBI32 == <<FN("bi"), KY(<<EI(cBig32p2)>>)>>
pBIgrp == <<FI(9), KY(<<EI(cBig32p2), EI(cBig31)>>)>>
pSSbig == <<FN("ss"), IX(<<EI(cBig32p2)>>)>>
aBig == <<pBI2, pBI31m, pBI31, pBI32, pBIgrp, pSSbig, pSS1, pX>>

\* ---- queries ---------------------------------------------------------------
cIdx == {0, 1, 3}
cIntKeys == {-1, 0, 1}
cBigKeys == {2, cBig31m, cBig31, cBig32p2, cBigNeg}
IsBig(ty) == "big" \in DOMAIN ty
cStrKeys == {"a", "b", "z"}
ExtraIds(sn) == IF sn = "R" THEN {0, 10, 32767} ELSE IF sn = "N" THEN {} ELSE {9}

RECURSIVE Positions(_)
Positions(ty) ==
  CASE ty.k = "scalar" -> {<<>>}
    [] ty.k = "struct" ->
         UNION {{<<St("f", cStructs[ty.name][i].id, "")>> \o p : p \in Positions(cStructs[ty.name][i].t)} :
                i \in 1..Len(cStructs[ty.name])}
         \cup {<<St("f", u, "")>> : u \in ExtraIds(ty.name)}
    [] ty.k = "list" -> {<<St("i", i, "")>> \o p : i \in (IF IsBig(ty) THEN cIdx \cup {cBig32p2} ELSE cIdx), p \in Positions(ty.e)}
    [] ty.k = "intmap" -> {<<St("i", i, "")>> \o p : i \in (IF IsBig(ty) THEN cBigKeys ELSE cIntKeys), p \in Positions(ty.e)}
    [] ty.k = "strmap" -> {<<St("s", 0, s)>> \o p : s \in cStrKeys, p \in Positions(ty.e)}
    [] OTHER -> {<<St("i", 0, "")>> \o p : p \in Positions(ty.e)}
cWalks == SetToSeq(Positions(RootTy0))

\* PathInMask queries: the alphabet's own paths and single-step variations, and query paths with an unknown field of
\* the root.  (Other ill-formed / ill-typed query paths are left out: the statement says what NewFieldMask does with
\* them, not what a query does; the library answers "in mask" for anything below a complete path.)
qL3 == <<FN("l"), IX(<<EI(3)>>)>>
qL0b == <<FN("l"), IX(<<EI(0)>>), FN("b")>>
qIM1 == <<FN("im"), KY(<<EI(1)>>)>>
qIM1b == <<FN("im"), KY(<<EI(1)>>), FN("b")>>
qIMsa == <<FN("im"), KY(<<EA>>), FN("a")>>
qSMz == <<FN("sm"), KY(<<ES("z")>>)>>
qSMaa == <<FN("sm"), KY(<<ES("a")>>), FN("a")>>
qW == <<FN("w")>>
qWv == <<FN("w"), FN("v")>>
qWvb == <<FN("w"), FN("v"), FN("b")>>
qLL0 == <<FN("ll"), IX(<<EI(0)>>)>>
qLL00 == <<FN("ll"), IX(<<EI(0)>>), IX(<<EI(0)>>)>>
cPimsR == <<pX, pXid, pS, pSa, pSb, pL0, pL1, pLs, pL0a, pL1b, pLsa, pSS1, pSSs, pIM0, pIM1a, pIMs, pIMsb, pSMa, pSMsa,
            pEM1, pBMsa, pWva, pWli0, pWmii1, pY, pLL01, pLL, pRoot, pAny, pSany,
            qL3, qL0b, qIM1, qIM1b, qIMsa, qSMz, qSMaa, qW, qWv, qWvb, qLL0, qLL00,
            pBI2, pBI32, eNope, eId9>>
cPimsN == <<nX, nNeg, nSa, nNSa>>


\* ---- the instance ------------------------------------------------------------
\* (Plain definitions, not cfg overrides: TLC evaluates a constant definition once, but re-evaluates an operator that
\* overrides a CONSTANT in the cfg at every reference.)
cAlphabet == CASE AlphabetName = "aFull" -> aFull
               [] AlphabetName = "aValid" -> aValid
               [] AlphabetName = "aCore" -> aCore
               [] AlphabetName = "aSmall" -> aSmall
               [] AlphabetName = "aTiny" -> aTiny
               [] AlphabetName = "aNeg" -> aNeg
               [] AlphabetName = "aBig" -> aBig
cPims == IF PimsName = "cPimsN" THEN cPimsN ELSE cPimsR
INSTANCE FieldMask WITH Structs <- cStructs, Root <- RootName, Alphabet <- cAlphabet, Walks <- cWalks, Pims <- cPims,
                        StrOrder <- cStrOrder

\* the same denotations as AlphaDen / PimsDen of the instance, as definitions of this module (evaluated once)
cAlphaDen == [i \in 1..Len(cAlphabet) |-> Denote(cAlphabet[i], RootTy0)]
cPimsDen == [i \in 1..Len(cPims) |-> Denote(cPims[i], RootTy0)]

----------------------------------------------------------------------------
WalkStep(s) == IF s.k = "s" THEN <<"s", s.s>> ELSE <<s.k, IntStr(s.n)>>

\* printed once: the concrete strings and the query set the cases refer to
Meta == LET W == cWalks
           A == cAlphabet
           P == cPims
       IN [root |-> RootName,
           alphabet |-> [i \in 1..Len(A) |-> Render(A[i])],
           single |-> [i \in 1..Len(A) |-> cAlphaDen[i].e],
           walks |-> [i \in 1..Len(W) |-> [j \in 1..Len(W[i]) |-> WalkStep(W[i][j])]],
           pims |-> [i \in 1..Len(P) |-> Render(P[i])],
           bigints |-> [c \in {cBig31m, cBig31, cBig32p2, cBigNeg} |-> IntStr(c)],
           structs |-> cStructs]
ASSUME cBig31m = Big31m /\ cBig31 = Big31 /\ cBig32p2 = Big32p2 /\ cBigNeg = BigNeg
ASSUME PrintT("META " \o ToJson(Meta))

Emit ==
  LET d == [i \in 1..Len(hist) |-> cAlphaDen[hist[i]]]
      oa == OutcomeD(d)
      M == PathSetD(d)
      black == (mode = "B")
      built == (berr = "")
      aall == IF oa = "ok" THEN AllCode(AllAt(M, <<>>)) ELSE 0
      aw == IF oa = "ok" THEN JoinWalksA(M, black) ELSE <<>>
      ball == IF built THEN AllCode(AllOf(trie)) ELSE 0
      bw == IF built THEN JoinWalksB(trie) ELSE <<>>
      ap == IF oa = "ok" /\ ~black /\ M # {} THEN JoinPimsAD(M, cPimsDen) ELSE <<>>
      bp == IF built THEN JoinPimsB(trie) ELSE <<>>
  IN PrintT("CASE " \o ToJson(
       [m |-> mode, h |-> hist, oa |-> oa, ek |-> ErrKindsD(d),
        key |-> IF oa = "ok" THEN M ELSE {}, ck |-> IF oa = "?" THEN ConflictKinds(M) ELSE {},
        aall |-> aall, aw |-> aw, ap |-> ap,
        be |-> berr, ball |-> ball, bw |-> bw, bp |-> bp,
        ref |-> RefinesWith(oa, aall, aw, ap, ball, bw, bp),
        rt |-> RoundTripWith(bw)]))
=============================================================================
