---------------------------- MODULE C01Universe ----------------------------
(***************************************************************************)
(* C01: the program x configuration universe as feature vectors.           *)
(*                                                                         *)
(* A program vector fixes one value per dimension (lib/c01_programs.py     *)
(* turns it into IDL files); a configuration is a backend, the -r flag and *)
(* a list of option occurrences.  The option table is read at run time     *)
(* from `thriftgo -h` (options.json): per option its name, whether it is   *)
(* enabled by default and its legal spellings.  Valid transcribes          *)
(* CodeUtils.validateOptions: a configuration that violates it makes       *)
(* thriftgo exit non-zero, which is outside the property.                  *)
(*                                                                         *)
(* TLC enumerates (BFS: root -> group -> case)                             *)
(*   opt  : the rich program x every option alone (each legal spelling),   *)
(*          with -g go and -g fastgo, and -r off with no option            *)
(*   pair : the rich program x every valid pair of options (thorough)      *)
(*   vec  : every vector that differs from Base in one dimension (quick)   *)
(*          or in up to two dimensions (thorough) x {go, fastgo}           *)
(*   rand : NRand pseudo-random vectors x pseudo-random valid option       *)
(*          subsets (a multiplicative hash of Seed, no TLC randomness)     *)
(* and prints one CASE line per element.                                   *)
(***************************************************************************)
EXTENDS Integers, Sequences, FiniteSets, TLC, Json, SequencesExt

CONSTANTS Thorough, Seed, NRand, NBatches, FastEvery

Opts == JsonDeserialize("options.json")     \* sequence of [name, on, forms: Seq([s, v])]
NOpts == Len(Opts)

Dims == {"kinds", "shapes", "reqdef", "inc", "tdchain", "ids", "svc", "args", "throws", "ext", "names", "ann", "consts", "ns"}
Dom == [d \in Dims |->
  CASE d = "kinds"   -> {"all", "typedef", "const", "enum", "struct", "union", "exception", "service",
                         "svc-empty", "svc-derived-empty"}   \* a lone `service S {}` / `service D extends inc.Base {}`
    [] d = "shapes"  -> {ToString(i) : i \in 0..(NBatches - 1)}
    [] d = "reqdef"  -> {"mixed", "required", "optional", "default", "optional+value", "default+value"}
    [] d = "inc"     -> {"single", "chain3", "diamond", "samens", "samebase", "pkg-b", "pkg-p", "pkg-err", "pkg-thrift"}
    [] d = "tdchain" -> {"0", "1", "2", "3"}
    [] d = "ids"     -> {"pos", "neg", "implicit", "mixed"}
    [] d = "svc"     -> {"mixed", "void", "value", "oneway"}
    [] d = "args"    -> {"0", "1", "2", "3"}
    [] d = "throws"  -> {"0", "1", "2", "2same"}
    [] d = "ext"     -> {"none", "local", "include"}
    [] d = "names"   -> {"plain", "keywords", "cases", "stems"}
    [] d = "ann"     -> {"none", "gotag", "repeated"}
    [] d = "consts"  -> {"none", "scalars", "containers", "structs", "enums", "xinc"}
    [] d = "ns"      -> {"plain", "none", "other", "upper", "keyword"}]

Base == [d \in Dims |->
  CASE d = "kinds" -> "all" [] d = "shapes" -> "0" [] d = "reqdef" -> "mixed" [] d = "inc" -> "single"
    [] d = "tdchain" -> "0" [] d = "ids" -> "pos" [] d = "svc" -> "mixed" [] d = "args" -> "1" [] d = "throws" -> "1"
    [] d = "ext" -> "none" [] d = "names" -> "plain" [] d = "ann" -> "none" [] d = "consts" -> "scalars" [] d = "ns" -> "plain"]

Rich == [d \in Dims |->
  CASE d = "kinds" -> "all" [] d = "shapes" -> "0" [] d = "reqdef" -> "mixed" [] d = "inc" -> "diamond"
    [] d = "tdchain" -> "1" [] d = "ids" -> "mixed" [] d = "svc" -> "mixed" [] d = "args" -> "2" [] d = "throws" -> "2"
    [] d = "ext" -> "include" [] d = "names" -> "plain" [] d = "ann" -> "gotag" [] d = "consts" -> "scalars" [] d = "ns" -> "plain"]

\* a vector is meaningful when the dimensions that cannot matter sit at their Base value
SvcDims == {"svc", "args", "throws", "ext"}
ValidVec(v) ==
  /\ (v["ext"] = "include" => v["inc"] # "single")
  /\ (v["svc"] = "oneway" => v["throws"] = "0")
  /\ (v["kinds"] \notin {"all", "service"} => \A d \in SvcDims : v[d] = Base[d])
  /\ (v["kinds"] \notin {"all", "const"} => v["consts"] = Base["consts"])
  /\ (v["consts"] = "xinc" => v["inc"] # "single")
  /\ (v["kinds"] \in {"const", "enum"} => v["reqdef"] = Base["reqdef"] /\ v["ids"] = Base["ids"])
  \* two files called common.thrift without a go namespace would both claim the Go package `common`: not a well-formed set
  /\ (v["inc"] = "samebase" => v["ns"] \notin {"none", "other"})

\* the closest meaningful vector: dimensions that cannot matter are put back to Base
Norm(v) == [d \in Dims |->
  IF d \in SvcDims /\ v["kinds"] \notin {"all", "service"} THEN Base[d]
  ELSE IF d = "consts" /\ v["kinds"] \notin {"all", "const"} THEN Base[d]
  ELSE IF d \in {"reqdef", "ids"} /\ v["kinds"] \in {"const", "enum"} THEN Base[d]
  ELSE IF d = "ext" /\ v["ext"] = "include" /\ v["inc"] = "single" THEN "local"
  ELSE IF d = "throws" /\ v["svc"] = "oneway" THEN "0"
  ELSE IF d = "consts" /\ v["consts"] = "xinc" /\ v["inc"] = "single" THEN "scalars"
  ELSE IF d = "ns" /\ v["inc"] = "samebase" /\ v["ns"] \in {"none", "other"} THEN "plain"
  ELSE v[d]]

Off1(b) == UNION {{[b EXCEPT ![d] = x] : x \in Dom[d]} : d \in Dims}
OneOff == {v \in Off1(Base) : ValidVec(v)}
TwoOff == {v \in UNION {Off1(b) : b \in Off1(Base)} : ValidVec(v)}

-----------------------------------------------------------------------------
(* configurations *)

FormsOf(i) == {[o |-> i, k |-> k] : k \in 1..Len(Opts[i].forms)}
AllForms == UNION {FormsOf(i) : i \in 1..NOpts}
FormStr(f) == Opts[f.o].forms[f.k].s
FormVal(f) == Opts[f.o].forms[f.k].v
OptIdx(name) == CHOOSE i \in 1..NOpts : Opts[i].name = name
HasOpt(name) == \E i \in 1..NOpts : Opts[i].name = name

\* the feature value after HandleOptions (the last occurrence wins; a set of forms has at most one per option)
On(c, name) == IF ~HasOpt(name) THEN FALSE
               ELSE LET i == OptIdx(name) IN
                    IF \E f \in c : f.o = i THEN FormVal(CHOOSE f \in c : f.o = i) ELSE Opts[i].on

\* CodeUtils.validateOptions
ValidConf(c) ==
  /\ ~(On(c, "apache_warning") /\ On(c, "apache_adaptor"))
  /\ (On(c, "with_field_mask") => On(c, "with_reflection"))
  /\ ~(On(c, "snake_style_json_tag") /\ On(c, "lower_camel_style_json_tag"))
  /\ (On(c, "always_gen_json_tag") => On(c, "gen_json_tag"))
  /\ \A f, g \in c : f.o = g.o => f = g

\* an option whose own requirement is not met alone gets its companion
Companion(f) == IF Opts[f.o].name = "with_field_mask" /\ FormVal(f) /\ HasOpt("with_reflection")
                  THEN {f, [o |-> OptIdx("with_reflection"), k |-> 1]} ELSE {f}
Alone == {Companion(f) : f \in {g \in AllForms : Thorough \/ g.k = 1}}
Pairs == {c \in {Companion(f) \cup Companion(g) : f \in {h \in AllForms : h.k = 1}, g \in {h \in AllForms : h.k = 1}} :
            Cardinality(c) >= 2 /\ ValidConf(c)}

\* multiplicative hash into 0..46336 (46337 is prime; products stay below 2^31)
H(x) == LET y == x % 46337 IN (((y * y) % 46337) + ((y * 7919) % 46337) + 13) % 46337
H2(a, b) == H(H(H(a + Seed * 101) + b * 31) + a)
Pick(S, h) == SetToSeq(S)[(h % Cardinality(S)) + 1]      \* TLC enumerates a set in a fixed (normalized) order
DimSeq == SetToSeq(Dims)
RandVec(n) == [d \in Dims |-> Pick(Dom[d], H2(n, CHOOSE i \in 1..Len(DimSeq) : DimSeq[i] = d))]
RandConf(n) == {f \in {g \in AllForms : g.k = 1} : H2(n * 64 + 7, f.o) % 9 = 0}

ConfStrs(c) == SetToSeq({FormStr(f) : f \in c})

Case(kind, v, c, be, rec) == [kind |-> kind, vec |-> v, opts |-> ConfStrs(c), backend |-> be, recursive |-> rec]

VARIABLES pc, cs
vars == <<pc, cs>>
Init == pc = "root" /\ cs = [kind |-> "root"]

Groups == {"opt", "vec", "rand"} \cup (IF Thorough THEN {"pair"} ELSE {})
Fan == /\ pc = "root"
       /\ \E g \in Groups : pc' = g
       /\ UNCHANGED cs

FastSel(c) == Thorough \/ (\E f \in c : (H2(3, f.o) % FastEvery) = 0)

GenOpt == /\ pc = "opt"
          /\ \/ \E c \in Alone : \/ cs' = Case("opt", Rich, c, "go", TRUE)
                                 \/ FastSel(c) /\ cs' = Case("opt", Rich, c, "fastgo", TRUE)
             \/ \E be \in {"go", "fastgo"}, rec \in BOOLEAN : cs' = Case("opt", Rich, {}, be, rec)
          /\ pc' = "done"
GenPair == /\ pc = "pair"
           /\ \E c \in Pairs : cs' = Case("pair", Rich, c, "go", TRUE)
           /\ pc' = "done"
\* quick: fastgo only for the dimensions its struct codecs depend on
FastDims == {"kinds", "shapes", "reqdef", "inc", "tdchain", "ids", "names", "ns"}
FastVec(v) == Thorough \/ v = Base \/ \E d \in FastDims : v[d] # Base[d]
\* files that need few imports (only an enum / typedefs / constants / an empty service / an empty derived service of an
\* included base): import-usage regressions show only there; they are generated with and without -r
FewImports == {"enum", "typedef", "const", "svc-empty", "svc-derived-empty"}
GenVec == /\ pc = "vec"
          /\ \E v \in (IF Thorough THEN TwoOff ELSE OneOff), be \in {"go", "fastgo"}, rec \in BOOLEAN :
               /\ (be = "fastgo" => FastVec(v))
               /\ (~rec => v["kinds"] \in FewImports)
               /\ cs' = Case("vec", v, {}, be, rec)
          /\ pc' = "done"
GenRand == /\ pc = "rand"
           /\ \E n \in 1..NRand :
                LET v == Norm(RandVec(n))  c == RandConf(n) IN
                /\ ValidVec(v) /\ ValidConf(c)
                /\ cs' = Case("rand", v, c, IF H2(n, 77) % 3 = 0 THEN "fastgo" ELSE "go", H2(n, 78) % 4 # 0)
           /\ pc' = "done"
Next == Fan \/ GenOpt \/ GenPair \/ GenVec \/ GenRand
Spec == Init /\ [][Next]_vars

Emit == pc = "done" => PrintT("CASE " \o ToJson(cs))
=============================================================================
