------------------------------- MODULE Shapes -------------------------------
(***************************************************************************)
(* The universe of IDL type expressions ("type shapes") up to a nesting    *)
(* depth, over a set of base kinds (base types, an enum, a struct).        *)
(* TLC enumerates it; every shape becomes fields of generated structs.     *)
(***************************************************************************)
EXTENDS Naturals, Sequences, TLC, Json

CONSTANTS Base,       \* leaf type names, e.g. "i32", "string", "E" (an enum), "In" (a struct)
          KeyKinds,   \* leaf type names usable as map keys
          MaxDepth

RECURSIVE Shapes(_)
Shapes(d) ==
  IF d = 0 THEN {[n |-> b] : b \in Base}
  ELSE LET S == Shapes(d - 1) IN
       S \cup {[n |-> "list", v |-> s] : s \in S}
         \cup {[n |-> "set", v |-> s] : s \in S}
         \cup {[n |-> "map", k |-> [n |-> kk], v |-> s] : kk \in KeyKinds, s \in S}

RECURSIVE DepthOf(_)
DepthOf(t) == IF t.n \in {"list", "set"} THEN 1 + DepthOf(t.v)
              ELSE IF t.n = "map" THEN 1 + DepthOf(t.v) ELSE 0

VARIABLE x
Init == x \in Shapes(MaxDepth)
Next == UNCHANGED x
Emit == PrintT("CASE " \o ToJson([t |-> x, d |-> DepthOf(x)]))
=============================================================================
