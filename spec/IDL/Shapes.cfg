INIT Init
NEXT Next
CONSTANTS
  Base = {"bool", "i8", "i16", "i32", "i64", "double", "string", "binary", "E", "In"}
  KeyKinds = {"i8", "i32", "i64", "string", "bool", "E"}
  MaxDepth = 1
INVARIANT Emit
CHECK_DEADLOCK FALSE
