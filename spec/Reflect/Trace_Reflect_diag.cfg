SPECIFICATION TSpec
INVARIANTS Accepted Progress BadAnswers
CHECK_DEADLOCK FALSE
