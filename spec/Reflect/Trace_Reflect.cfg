SPECIFICATION TSpec
INVARIANT Accepted
CHECK_DEADLOCK FALSE
