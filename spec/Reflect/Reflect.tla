------------------------------- MODULE Reflect -------------------------------
(***************************************************************************)
(* C15 - reflection descriptors describe the IDL exactly.                  *)
(*                                                                         *)
(* Part 1 (declarative): Desc(P, f), the projection of file f of program P *)
(* onto the record a reflection file descriptor has to be: per definition  *)
(* names, field ids (implicit = previous + 1 from 1), requiredness, type   *)
(* expressions as written (typedef names and include prefixes kept) with   *)
(* key / value types, default values as const-value trees, enum numbers    *)
(* (implicit = previous + 1 from 0), annotations with ALL values of a      *)
(* repeated key in order, comments, base service, oneway, includes         *)
(* alias -> path, namespaces.  Unordered things (annotation keys, entries  *)
(* of a map constant, includes, namespaces) are sets.                      *)
(*                                                                         *)
(* Part 2: what names denote, and the answers the registry owes to every   *)
(* kind of lookup as functions of the set R of registered files.           *)
(*                                                                         *)
(* Part 3: Marshal / Unmarshal of descriptor.thrift's encoding (optional   *)
(* fields that are zero are not written, map entries travel in no order).  *)
(*                                                                         *)
(* Part 4: the registry machine.  Layer A is "the set of registered files  *)
(* grows, in any order".  Layer B transcribes registerGoTypes' index       *)
(* arithmetic over the generated go_types slice and the alias -> path map  *)
(* of a file descriptor; invariants tie B's tables to A's answers.         *)
(*                                                                         *)
(* A program P is a sequence of files (the JSON image produced by          *)
(* lib/c15_model.py: to_tla); file f:                                      *)
(*  [path, incs: Seq([alias, file]), nss: Seq([lang, name]),               *)
(*   structs/unions/exceptions: Seq([name, fields, ann, cmt, gty]),        *)
(*   enums: Seq([name, values: Seq([name, has, v, ann, cmt]), ann, cmt, gty]),*)
(*   typedefs: Seq([name, type, ann, cmt, gty]),                           *)
(*   consts: Seq([name, type, value, ann, cmt]),                           *)
(*   services: Seq([name, base: [w, pre, name], methods: Seq([name, oneway,*)
(*             ret, args, throws, ann, cmt]), ann, cmt])]                  *)
(*  field = [name, hasid, id, req, type, hasdef, def, ann, cmt]            *)
(*  type  = [w (as written), pre (include alias or ""), base, args]        *)
(*  value = [t: int|double|string|id, a] | [t: list, items] |              *)
(*          [t: map, ents: Seq(<<k, v>>)]                                  *)
(*  ann   = Seq(<<key, value>>) as written; cmt = [lead, trail] sequences  *)
(*          of [style, body]; gty = abstract Go type of the definition     *)
(***************************************************************************)
EXTENDS Integers, Sequences, FiniteSets, TLC, Json

None == [none |-> TRUE]
Nil  == [f |-> 0, i |-> 0]

Range(s) == {s[i] : i \in DOMAIN s}
Idx(s)   == [i \in DOMAIN s |-> i]
MinOf(S) == CHOOSE x \in S : \A y \in S : x <= y
MaxOf(S) == CHOOSE x \in S : \A y \in S : x >= y

StructKinds == {"struct", "union", "exception"}
TypeKinds   == StructKinds \cup {"enum", "typedef"}
Kinds       == TypeKinds \cup {"const", "service"}

Defs(F, kind) ==
  CASE kind = "struct"    -> F.structs
    [] kind = "union"     -> F.unions
    [] kind = "exception" -> F.exceptions
    [] kind = "enum"      -> F.enums
    [] kind = "typedef"   -> F.typedefs
    [] kind = "const"     -> F.consts
    [] kind = "service"   -> F.services

PosOf(s, name) == IF \E i \in DOMAIN s : s[i].name = name
                  THEN MinOf({i \in DOMAIN s : s[i].name = name}) ELSE 0

-----------------------------------------------------------------------------
(* Part 1: the projection                                                  *)

RECURSIVE TypeDesc(_, _)
TypeDesc(path, t) ==
  [fp    |-> path,
   name  |-> t.w,
   key   |-> IF t.w = "map" THEN TypeDesc(path, t.args[1]) ELSE None,
   value |-> IF t.w = "map" THEN TypeDesc(path, t.args[2])
             ELSE IF t.w \in {"list", "set"} THEN TypeDesc(path, t.args[1]) ELSE None]

RECURSIVE ValDesc(_)
ValDesc(v) ==
  CASE v.t = "list" -> [t |-> "list", items |-> [i \in DOMAIN v.items |-> ValDesc(v.items[i])]]
    [] v.t = "map"  -> [t |-> "map", ents |-> {<<ValDesc(v.ents[i][1]), ValDesc(v.ents[i][2])>> : i \in DOMAIN v.ents}]
    [] v.t = "id"   -> IF v.a \in {"true", "false"} THEN [t |-> "bool", a |-> v.a] ELSE [t |-> "id", a |-> v.a]
    [] OTHER        -> [t |-> v.t, a |-> v.a]          \* int, double, string: the atom

(* all values of a repeated key, in the order written *)
ValuesOf(ann, k) == LET ix == SelectSeq(Idx(ann), LAMBDA i : ann[i][1] = k)
                    IN  [n \in DOMAIN ix |-> ann[ix[n]][2]]
AnnDesc(ann) == {[k |-> key, vs |-> ValuesOf(ann, key)] : key \in {ann[i][1] : i \in DOMAIN ann}}

(* comments: the block in front of the node; for fields and enum values the end-of-line comment when there *)
(* is no block in front.  Where both are written the statement does not say which: both are handed out.    *)
CmtDesc(c, hasTrail) == [lead |-> c.lead, trail |-> IF hasTrail THEN c.trail ELSE <<>>]

RECURSIVE FieldId(_, _)
FieldId(fields, i) == IF fields[i].hasid THEN fields[i].id
                      ELSE IF i = 1 THEN 1 ELSE FieldId(fields, i - 1) + 1

RECURSIVE EnumNum(_, _)
EnumNum(values, i) == IF values[i].has THEN values[i].v
                      ELSE IF i = 1 THEN 0 ELSE EnumNum(values, i - 1) + 1

(* requiredness: what is written; a union member and a declared exception of a method are optional by the       *)
(* language whatever is written, and "optional" is ignored in an argument list - both readings are handed out    *)
Reqs(req, role) == {req} \cup (IF role \in {"member", "throw"} THEN {"optional"} ELSE {})
                         \cup (IF role = "arg" /\ req = "optional" THEN {"default"} ELSE {})
FieldDesc(path, fields, i, role) ==
  LET f == fields[i] IN
  [fp |-> path, name |-> f.name, id |-> FieldId(fields, i), reqs |-> Reqs(f.req, role),
   type |-> TypeDesc(path, f.type),
   default |-> IF f.hasdef THEN ValDesc(f.def) ELSE None,
   ann |-> AnnDesc(f.ann), comments |-> CmtDesc(f.cmt, TRUE)]
FieldsDesc(path, fields, role) == [i \in DOMAIN fields |-> FieldDesc(path, fields, i, role)]

StructDesc(path, s, cat) ==
  [fp |-> path, name |-> s.name, fields |-> FieldsDesc(path, s.fields, IF cat = "union" THEN "member" ELSE "field"),
   ann |-> AnnDesc(s.ann), comments |-> CmtDesc(s.cmt, FALSE)]

EnumDesc(path, e) ==
  [fp |-> path, name |-> e.name,
   values |-> [i \in DOMAIN e.values |->
                 [fp |-> path, name |-> e.values[i].name, value |-> EnumNum(e.values, i),
                  ann |-> AnnDesc(e.values[i].ann), comments |-> CmtDesc(e.values[i].cmt, TRUE)]],
   ann |-> AnnDesc(e.ann), comments |-> CmtDesc(e.cmt, FALSE)]

TypedefDesc(path, t) ==
  [fp |-> path, name |-> t.name, type |-> TypeDesc(path, t.type),
   ann |-> AnnDesc(t.ann), comments |-> CmtDesc(t.cmt, FALSE)]

ConstDesc(path, c) ==
  [fp |-> path, name |-> c.name, type |-> TypeDesc(path, c.type), value |-> ValDesc(c.value),
   ann |-> AnnDesc(c.ann), comments |-> CmtDesc(c.cmt, FALSE)]

MethodDesc(path, m) ==
  [fp |-> path, name |-> m.name, oneway |-> m.oneway, ret |-> TypeDesc(path, m.ret),
   args |-> FieldsDesc(path, m.args, "arg"), throws |-> FieldsDesc(path, m.throws, "throw"),
   ann |-> AnnDesc(m.ann), comments |-> CmtDesc(m.cmt, FALSE)]

ServiceDesc(path, s) ==
  [fp |-> path, name |-> s.name, base |-> s.base.w,
   methods |-> [i \in DOMAIN s.methods |-> MethodDesc(path, s.methods[i])],
   ann |-> AnnDesc(s.ann), comments |-> CmtDesc(s.cmt, FALSE)]

Desc(P, f) ==
  LET F == P[f]  p == F.path IN
  [path       |-> p,
   includes   |-> {[alias |-> F.incs[i].alias, path |-> P[F.incs[i].file].path] : i \in DOMAIN F.incs},
   namespaces |-> {[lang |-> F.nss[i].lang, name |-> F.nss[i].name] : i \in DOMAIN F.nss},
   structs    |-> [i \in DOMAIN F.structs |-> StructDesc(p, F.structs[i], "struct")],
   unions     |-> [i \in DOMAIN F.unions |-> StructDesc(p, F.unions[i], "union")],
   exceptions |-> [i \in DOMAIN F.exceptions |-> StructDesc(p, F.exceptions[i], "exception")],
   enums      |-> [i \in DOMAIN F.enums |-> EnumDesc(p, F.enums[i])],
   typedefs   |-> [i \in DOMAIN F.typedefs |-> TypedefDesc(p, F.typedefs[i])],
   consts     |-> [i \in DOMAIN F.consts |-> ConstDesc(p, F.consts[i])],
   services   |-> [i \in DOMAIN F.services |-> ServiceDesc(p, F.services[i])]]

-----------------------------------------------------------------------------
(* Part 2: what names denote; answers of the registry for a set R of registered files *)

Local(P, f, kind, name) == LET i == PosOf(Defs(P[f], kind), name)
                           IN  IF i = 0 THEN Nil ELSE [f |-> f, i |-> i]

(* the file an alias-qualified name of a kind denotes: the first include (in the order written) that has *)
(* the alias and defines the name - this is the compiler's own rule (semantic.ResolveType); 0 = none     *)
IncOf(P, f, kind, pre, name) ==
  LET c == {k \in DOMAIN P[f].incs : /\ P[f].incs[k].alias = pre
                                     /\ PosOf(Defs(P[P[f].incs[k].file], kind), name) # 0}
  IN  IF c = {} THEN 0 ELSE P[f].incs[MinOf(c)].file

IncsWith(P, f, pre) == {k \in DOMAIN P[f].incs : P[f].incs[k].alias = pre}
(* two includes of one file with the same alias: the alias alone does not determine a file *)
AliasClash(P, f, pre) == Cardinality(IncsWith(P, f, pre)) > 1
HasClash(P) == \E f \in DOMAIN P : \E k \in DOMAIN P[f].incs : AliasClash(P, f, P[f].incs[k].alias)

(* fd(f).Get<Kind>Descriptor("pre.name"), f registered *)
Get(P, R, f, kind, pre, name) ==
  IF pre = "" THEN Local(P, f, kind, name)
  ELSE LET g == IncOf(P, f, kind, pre, name)
       IN  IF g = 0 \/ g \notin R THEN Nil ELSE Local(P, g, kind, name)

(* fd(f).GetIncludeFD(alias): the allowed answers (file indexes, 0 = nil) *)
IncFDSet(P, R, f, pre) ==
  IF pre = "" THEN {f}
  ELSE LET T == {P[f].incs[k].file : k \in IncsWith(P, f, pre)}
       IN  IF T = {} THEN {0} ELSE (T \cap R) \cup (IF T \subseteq R THEN {} ELSE {0})

(* registry-wide lookup without a file: any registered file that defines the name; nil iff there is none *)
GlobSet(P, R, kind, name) ==
  LET S == {Local(P, g, kind, name) : g \in R} \ {Nil} IN IF S = {} THEN {Nil} ELSE S

(* methods: [f, i (service), j (method)] *)
NilM == [f |-> 0, i |-> 0, j |-> 0]
MethodIn(P, s, mname) == IF s = Nil THEN NilM
                         ELSE [f |-> s.f, i |-> s.i, j |-> PosOf(P[s.f].services[s.i].methods, mname)]
NormM(m) == IF m.j = 0 THEN NilM ELSE m
(* fd(f).GetMethodDescriptor(service, method); an empty service name means "any service of the file" *)
MethodSet(P, R, f, pre, sname, mname) ==
  IF pre = "" /\ sname = ""
  THEN LET S == {NormM(MethodIn(P, [f |-> f, i |-> i], mname)) : i \in DOMAIN P[f].services} \ {NilM}
       IN  IF S = {} THEN {NilM} ELSE S
  ELSE {NormM(MethodIn(P, Get(P, R, f, "service", pre, sname), mname))}

Parent(P, R, f, n) == LET b == P[f].services[n].base
                      IN  IF b.w = "" THEN Nil ELSE Get(P, R, f, "service", b.pre, b.name)

(* all methods of a service: its own and those of the chain of `extends`, every base resolved in the file that *)
(* declares the extends (the chain ends where a base's file is not registered)                                *)
RECURSIVE AllMethods(_, _, _, _)
AllMethods(P, R, s, fuel) ==
  IF s = Nil \/ fuel = 0 THEN {}
  ELSE {[f |-> s.f, i |-> s.i, j |-> j] : j \in DOMAIN P[s.f].services[s.i].methods}
       \cup AllMethods(P, R, Parent(P, R, s.f, s.i), fuel - 1)
MethodName(P, m) == P[m.f].services[m.i].methods[m.j].name

(* struct-likes a struct-like includes through its field types (also inside containers), transitively; each     *)
(* reference resolved in the file that writes it.  The statement does not say whether typedef'd names, unions   *)
(* and exceptions are followed: follow = FALSE is the least, follow = TRUE the most an answer may contain.       *)
RECURSIVE Leaves(_)
Leaves(t) == IF t.args = <<>> THEN {t} ELSE UNION {Leaves(t.args[i]) : i \in DOMAIN t.args}
RECURSIVE Tgt(_, _, _, _, _, _)
Tgt(P, R, f, t, follow, fuel) ==
  IF t.base = "" THEN {}
  ELSE LET hits == {x \in {<<Get(P, R, f, k, t.pre, t.base), k>> : k \in (IF follow THEN StructKinds ELSE {"struct"})}
                       : x[1] # Nil}
           td == Get(P, R, f, "typedef", t.pre, t.base)
       IN  {<<x[1].f, x[2], x[1].i>> : x \in hits}
           \cup (IF follow /\ fuel > 0 /\ td # Nil
                 THEN UNION {Tgt(P, R, td.f, lf, TRUE, fuel - 1) : lf \in Leaves(P[td.f].typedefs[td.i].type)} ELSE {})
Refs(P, R, d, follow) ==
  UNION {UNION {Tgt(P, R, d[1], lf, follow, 4) : lf \in Leaves(fl.type)} : fl \in Range(Defs(P[d[1]], d[2])[d[3]].fields)}
RECURSIVE Closure(_, _, _, _, _)
Closure(P, R, S, follow, fuel) ==
  CHOOSE r \in {IF N = S \/ fuel = 0 THEN S ELSE Closure(P, R, N, follow, fuel - 1)
                  : N \in {S \cup UNION {Refs(P, R, d, follow) : d \in S}}} : TRUE

FieldById(fields, id) == LET S == {i \in DOMAIN fields : FieldId(fields, i) = id}
                         IN  IF S = {} THEN 0 ELSE MinOf(S)
FieldByName(fields, name) == PosOf(fields, name)

(* the type expression at a place: the type of field m of struct-like (kind, n), the target of typedef n, *)
(* the type of const n; sel walks into key ("k") / value ("v") types                                      *)
RECURSIVE Walk(_, _)
Walk(t, sel) == IF sel = <<>> THEN t
                ELSE IF t.w = "map" THEN Walk(IF Head(sel) = "k" THEN t.args[1] ELSE t.args[2], Tail(sel))
                ELSE Walk(t.args[1], Tail(sel))
TypeAt(P, f, kind, n, m, sel) ==
  Walk(CASE kind \in StructKinds -> Defs(P[f], kind)[n].fields[m].type
         [] kind = "typedef" -> P[f].typedefs[n].type
         [] kind = "const"   -> P[f].consts[n].type, sel)
(* TypeDescriptor.Get<As>Descriptor() *)
TRef(P, R, f, t, as) == IF t.base = "" THEN Nil ELSE Get(P, R, f, as, t.pre, t.base)

(* Go types: GTy is injective on struct-likes and enums; typedefs may share a Go type (aliases) *)
Cls(kind) == IF kind \in StructKinds THEN "struct" ELSE kind
DefIds(P, f) == UNION {{<<f, kind, i>> : i \in DOMAIN Defs(P[f], kind)} : kind \in TypeKinds}
GTy(P, d) == Defs(P[d[1]], d[2])[d[3]].gty
(* registry: Go type -> descriptor, the allowed answers *)
ByGoSet(P, R, cls, ty) ==
  LET S == {d \in UNION {DefIds(P, f) : f \in R} : Cls(d[2]) = cls /\ GTy(P, d) = ty}
  IN  IF S = {} THEN {<<0, "", 0>>} ELSE S

-----------------------------------------------------------------------------
(* Part 3: Marshal / Unmarshal.  A wire struct is a function field id -> payload (only the ids written),  *)
(* a wire map a set of <<key, value>> pairs, a wire list a sequence, an atom a string / number / boolean.  *)
(* Field ids and optionality are those of descriptor.thrift.                                               *)

Opt(id, present, w) == IF present THEN {<<id, w>>} ELSE {}
St(pairs) == [id \in {x[1] : x \in pairs} |-> (CHOOSE x \in pairs : x[1] = id)[2]]
Has(w, id) == id \in DOMAIN w

EncAnn(a) == {<<x.k, x.vs>> : x \in a}
DecAnn(w) == {[k |-> x[1], vs |-> x[2]] : x \in w}

RECURSIVE EncType(_)
EncType(t) == St({<<1, t.fp>>, <<2, t.name>>}
                 \cup Opt(3, t.key # None, IF t.key # None THEN EncType(t.key) ELSE None)
                 \cup Opt(4, t.value # None, IF t.value # None THEN EncType(t.value) ELSE None))
RECURSIVE DecType(_)
DecType(w) == [fp |-> w[1], name |-> w[2],
               key |-> IF Has(w, 3) THEN DecType(w[3]) ELSE None,
               value |-> IF Has(w, 4) THEN DecType(w[4]) ELSE None]

(* ConstValueDescriptor: 1 type, 2 double, 3 int, 4 string, 5 bool (all required, zero when not selected), *)
(* 6 list (optional), 7 map (optional), 8 identifier (required)                                           *)
Sel(v, t, zero) == IF v.t = t THEN v.a ELSE zero
RECURSIVE EncVal(_)
EncVal(v) == St({<<1, v.t>>, <<2, Sel(v, "double", "0")>>, <<3, Sel(v, "int", "0")>>, <<4, Sel(v, "string", "")>>,
                 <<5, Sel(v, "bool", "false")>>, <<8, Sel(v, "id", "")>>}
                \cup Opt(6, v.t = "list", IF v.t = "list" THEN [i \in DOMAIN v.items |-> EncVal(v.items[i])] ELSE None)
                \cup Opt(7, v.t = "map", IF v.t = "map" THEN {<<EncVal(e[1]), EncVal(e[2])>> : e \in v.ents} ELSE None))
RECURSIVE DecVal(_)
DecVal(w) == CASE w[1] = "list"   -> [t |-> "list", items |-> IF Has(w, 6) THEN [i \in DOMAIN w[6] |-> DecVal(w[6][i])] ELSE <<>>]
               [] w[1] = "map"    -> [t |-> "map", ents |-> IF Has(w, 7) THEN {<<DecVal(e[1]), DecVal(e[2])>> : e \in w[7]} ELSE {}]
               [] w[1] = "double" -> [t |-> "double", a |-> w[2]]
               [] w[1] = "int"    -> [t |-> "int", a |-> w[3]]
               [] w[1] = "string" -> [t |-> "string", a |-> w[4]]
               [] w[1] = "bool"   -> [t |-> "bool", a |-> w[5]]
               [] w[1] = "id"     -> [t |-> "id", a |-> w[8]]

(* comments are one string in the descriptor; the model keeps the structured form, an atom for the wire *)
EncField(f) == St({<<1, f.fp>>, <<2, f.name>>, <<3, EncType(f.type)>>, <<4, f.reqs>>, <<5, f.id>>,
                   <<7, EncAnn(f.ann)>>, <<8, f.comments>>}
                  \cup Opt(6, f.default # None, IF f.default # None THEN EncVal(f.default) ELSE None))
DecField(w) == [fp |-> w[1], name |-> w[2], id |-> w[5], reqs |-> w[4], type |-> DecType(w[3]),
                default |-> IF Has(w, 6) THEN DecVal(w[6]) ELSE None, ann |-> DecAnn(w[7]), comments |-> w[8]]
EncFields(fs) == [i \in DOMAIN fs |-> EncField(fs[i])]
DecFields(ws) == [i \in DOMAIN ws |-> DecField(ws[i])]

EncStruct(s) == St({<<1, s.fp>>, <<2, s.name>>, <<3, EncFields(s.fields)>>, <<4, EncAnn(s.ann)>>, <<5, s.comments>>})
DecStruct(w) == [fp |-> w[1], name |-> w[2], fields |-> DecFields(w[3]), ann |-> DecAnn(w[4]), comments |-> w[5]]

EncEnumV(v) == St({<<1, v.fp>>, <<2, v.name>>, <<3, v.value>>, <<4, EncAnn(v.ann)>>, <<5, v.comments>>})
DecEnumV(w) == [fp |-> w[1], name |-> w[2], value |-> w[3], ann |-> DecAnn(w[4]), comments |-> w[5]]
EncEnum(e) == St({<<1, e.fp>>, <<2, e.name>>, <<3, [i \in DOMAIN e.values |-> EncEnumV(e.values[i])]>>,
                  <<4, EncAnn(e.ann)>>, <<5, e.comments>>})
DecEnum(w) == [fp |-> w[1], name |-> w[2], values |-> [i \in DOMAIN w[3] |-> DecEnumV(w[3][i])],
               ann |-> DecAnn(w[4]), comments |-> w[5]]

EncTypedef(t) == St({<<1, t.fp>>, <<2, EncType(t.type)>>, <<3, t.name>>, <<4, EncAnn(t.ann)>>, <<5, t.comments>>})
DecTypedef(w) == [fp |-> w[1], name |-> w[3], type |-> DecType(w[2]), ann |-> DecAnn(w[4]), comments |-> w[5]]

EncConst(c) == St({<<1, c.fp>>, <<2, c.name>>, <<3, EncType(c.type)>>, <<4, EncVal(c.value)>>, <<5, EncAnn(c.ann)>>,
                   <<6, c.comments>>})
DecConst(w) == [fp |-> w[1], name |-> w[2], type |-> DecType(w[3]), value |-> DecVal(w[4]), ann |-> DecAnn(w[5]),
                comments |-> w[6]]

EncMethod(m) == St({<<1, m.fp>>, <<2, m.name>>, <<3, EncType(m.ret)>>, <<4, EncFields(m.args)>>, <<5, EncAnn(m.ann)>>,
                    <<6, m.comments>>, <<7, EncFields(m.throws)>>, <<8, m.oneway>>})
DecMethod(w) == [fp |-> w[1], name |-> w[2], oneway |-> w[8], ret |-> DecType(w[3]), args |-> DecFields(w[4]),
                 throws |-> DecFields(w[7]), ann |-> DecAnn(w[5]), comments |-> w[6]]

(* base: optional string with default "" - an empty base is not written *)
EncService(s) == St({<<1, s.fp>>, <<2, s.name>>, <<3, [i \in DOMAIN s.methods |-> EncMethod(s.methods[i])]>>,
                     <<4, EncAnn(s.ann)>>, <<5, s.comments>>} \cup Opt(7, s.base # "", s.base))
DecService(w) == [fp |-> w[1], name |-> w[2], base |-> IF Has(w, 7) THEN w[7] ELSE "",
                  methods |-> [i \in DOMAIN w[3] |-> DecMethod(w[3][i])], ann |-> DecAnn(w[4]), comments |-> w[5]]

Marshal(d) ==
  St({<<1, d.path>>, <<2, {<<x.alias, x.path>> : x \in d.includes}>>, <<3, {<<x.lang, x.name>> : x \in d.namespaces}>>,
      <<4, [i \in DOMAIN d.services |-> EncService(d.services[i])]>>,
      <<5, [i \in DOMAIN d.structs |-> EncStruct(d.structs[i])]>>,
      <<6, [i \in DOMAIN d.exceptions |-> EncStruct(d.exceptions[i])]>>,
      <<7, [i \in DOMAIN d.enums |-> EncEnum(d.enums[i])]>>,
      <<8, [i \in DOMAIN d.typedefs |-> EncTypedef(d.typedefs[i])]>>,
      <<9, [i \in DOMAIN d.unions |-> EncStruct(d.unions[i])]>>,
      <<10, [i \in DOMAIN d.consts |-> EncConst(d.consts[i])]>>})
Unmarshal(w) ==
  [path |-> w[1],
   includes |-> {[alias |-> x[1], path |-> x[2]] : x \in w[2]},
   namespaces |-> {[lang |-> x[1], name |-> x[2]] : x \in w[3]},
   structs |-> [i \in DOMAIN w[5] |-> DecStruct(w[5][i])],
   unions |-> [i \in DOMAIN w[9] |-> DecStruct(w[9][i])],
   exceptions |-> [i \in DOMAIN w[6] |-> DecStruct(w[6][i])],
   enums |-> [i \in DOMAIN w[7] |-> DecEnum(w[7][i])],
   typedefs |-> [i \in DOMAIN w[8] |-> DecTypedef(w[8][i])],
   consts |-> [i \in DOMAIN w[10] |-> DecConst(w[10][i])],
   services |-> [i \in DOMAIN w[4] |-> DecService(w[4][i])]]

(* The wire maps of includes and namespaces are keyed by alias / language: as a thrift map<string,string>  *)
(* they hold one value per key.  A descriptor survives the trip only if its relation is a function.        *)
Functional(S, key(_)) == \A x, y \in S : key(x) = key(y) => x = y

-----------------------------------------------------------------------------
(* Part 4: the registry machine                                            *)

(* the program universe of this run (sequence of programs).  TLC note: a definition whose body is a Java-overridden *)
(* operator is evaluated again at every use (the file would be parsed each time); the value is therefore parked  *)
(* in a TLC register by an ASSUME (evaluated once, by the main thread, visible to all workers).                  *)
ASSUME TLCSet(1, JsonDeserialize("progs.json"))
Progs == TLCGet(1)

VARIABLES p,        \* the program the behaviour is about (0 = not chosen yet)
          order,    \* files registered so far, in registration order (layer A: only its range matters)
          b_inc,    \* layer B: Includes map of each registered descriptor: set of <<f, alias, file>>
          b_go2d,   \* layer B: Go type -> descriptor tables: set of <<class, ty, def id>>
          b_d2go    \* layer B: descriptor -> Go type tables: set of <<def id, ty>>
vars == <<p, order, b_inc, b_go2d, b_d2go>>

P      == Progs[p]
Reg    == Range(order)
NFiles == Len(P)

Init == p = 0 /\ order = <<>> /\ b_inc = {} /\ b_go2d = {} /\ b_d2go = {}

Pick(k) == /\ p = 0 /\ p' = k
           /\ UNCHANGED <<order, b_inc, b_go2d, b_d2go>>

(* Layer B, transcribed: the generated go_types slice lists structs, unions, exceptions, enums, typedefs; *)
(* registerGoTypes walks Structs ++ Unions ++ Exceptions, then Enums, then Typedefs with running offsets;  *)
(* a later entry with the same Go type replaces the go2d entry.  GetFileDescriptor fills Includes alias by *)
(* alias, a later include with the same alias replaces the earlier one.                                    *)
(* TLC note: LET definitions and operator arguments are re-evaluated at every use and [x \in S |-> e] is applied   *)
(* lazily, so intermediate results are bound with \E x \in {e} and sequences are materialised with Mat.          *)
Mat(s) == s \o <<>>
L(f, kind) == [i \in DOMAIN Defs(P[f], kind) |-> <<f, kind, i>>]
StructList(f) == L(f, "struct") \o L(f, "union") \o L(f, "exception")
RegList(f)    == StructList(f) \o L(f, "enum") \o L(f, "typedef")
TplList(f)    == L(f, "struct") \o L(f, "union") \o L(f, "exception") \o L(f, "enum") \o L(f, "typedef")
GoTypesOf(tl) == Mat([k \in DOMAIN tl |-> GTy(P, tl[k])])
KeysOf(rl, gt) == Mat([k \in DOMAIN rl |-> <<Cls(rl[k][2]), gt[k]>>])

Register(f) ==
  /\ p > 0 /\ f \in 1..NFiles /\ f \notin Reg
  /\ order' = Append(order, f)
  /\ \E rl \in {RegList(f)} : \E tl \in {TplList(f)} : \E gt \in {GoTypesOf(tl)} :   \* gt: the go_types slice
       \E key \in {KeysOf(rl, gt)} :              \* table and Go type the k-th descriptor is filed under
         /\ b_d2go' = b_d2go \cup {<<rl[k], gt[k]>> : k \in DOMAIN rl}
         /\ b_go2d' = {x \in b_go2d : \A k \in DOMAIN rl : key[k] # <<x[1], x[2]>>}
                         \cup {<<key[k][1], key[k][2], rl[k]>> :
                                 k \in {j \in DOMAIN rl : \A i \in (j + 1)..Len(rl) : key[i] # key[j]}}
  /\ \E inc \in {P[f].incs} :
       b_inc' = b_inc \cup {<<f, inc[k].alias, inc[k].file>> :
                               k \in {j \in DOMAIN inc : \A i \in (j + 1)..Len(inc) : inc[i].alias # inc[j].alias}}
  /\ UNCHANGED p

(* (growth beyond the listed property) the same IDL generated into two Go packages registers the same file twice: *)
(* registering an identical descriptor again changes nothing and is not an error                                  *)
ReRegister(f) == p > 0 /\ f \in Reg /\ UNCHANGED vars

Next == \/ p = 0 /\ \E k \in 1..Len(Progs) : Pick(k)
        \/ p > 0 /\ \E f \in 1..NFiles : Register(f) \/ ReRegister(f)
Spec == Init /\ [][Next]_vars

(* layer B's answer to fd(f).Get<Kind>Descriptor("pre.name") *)
BGet(f, kind, pre, name) ==
  IF pre = "" THEN Local(P, f, kind, name)
  ELSE LET T == {x \in b_inc : x[1] = f /\ x[2] = pre}
       IN  IF T = {} THEN Nil
           ELSE LET g == (CHOOSE x \in T : TRUE)[3] IN IF g \in Reg THEN Local(P, g, kind, name) ELSE Nil

----------------------------------------------------------------------------
(* Invariants (checked for every registration order of every program)      *)

TypeOK == /\ p \in 0..Len(Progs)
          /\ p > 0 => Reg \subseteq 1..NFiles /\ Len(order) = Cardinality(Reg)

(* The answers of layer A depend on the set of registered files only: one registration order per set suffices. *)
Canonical == \A i \in 1..(Len(order) - 1) : order[i] < order[i + 1]
RegDefs == UNION {DefIds(P, f) : f \in Reg}
TyTable(defs) == {<<d, Cls(d[2]), GTy(P, d)>> : d \in defs}

(* each Go type maps to the descriptor of its own definition and back *)
GoTypeOwn ==
  (p > 0 /\ Canonical) =>
     \A tt \in {TyTable(RegDefs)} : \A x \in tt :
        \E S \in {{y[1] : y \in {z \in tt : z[2] = x[2] /\ z[3] = x[3]}}} :
           /\ S = ByGoSet(P, Reg, x[2], x[3])               \* the allowed answers for this Go type
           /\ x[1] \in S                                    \* ... contain the definition itself
           /\ x[1][2] # "typedef" => S = {x[1]}             \* ... and nothing else unless it is an alias
BGoTypes ==
  p > 0 => \A tt \in {TyTable(RegDefs)} :
           /\ b_d2go = {<<x[1], x[3]>> : x \in tt}
           /\ \A x \in b_go2d : <<x[3], x[1], x[2]>> \in tt
           /\ {<<x[1], x[2]>> : x \in b_go2d} = {<<x[2], x[3]>> : x \in tt}

(* a lookup through an include alias reaches the included file's entry - as soon as that file is registered, *)
(* and not before; a local lookup reaches the file's own entry                                              *)
AliasReach ==
  (p > 0 /\ Canonical) => \A f \in Reg :
     /\ \A kind \in Kinds : \A i \in DOMAIN Defs(P[f], kind) :
           Get(P, Reg, f, kind, "", Defs(P[f], kind)[i].name).f = f
     /\ \A k \in DOMAIN P[f].incs :
         LET a == P[f].incs[k].alias  g == P[f].incs[k].file IN
         ~AliasClash(P, f, a) =>
           \A kind \in Kinds : \A i \in DOMAIN Defs(P[g], kind) :
              /\ Get(P, Reg, f, kind, a, Defs(P[g], kind)[i].name)
                    = IF g \in Reg THEN Local(P, g, kind, Defs(P[g], kind)[i].name) ELSE Nil
              /\ BGet(f, kind, a, Defs(P[g], kind)[i].name) = Get(P, Reg, f, kind, a, Defs(P[g], kind)[i].name)
(* encoding a file descriptor and decoding it again is the identity *)
RoundTrip ==
  (p > 0 /\ order = <<>>) =>
     \A f \in 1..NFiles :
        LET d == Desc(P, f) IN
        (Functional(d.includes, LAMBDA x : x.alias) /\ Functional(d.namespaces, LAMBDA x : x.lang))
           => Unmarshal(Marshal(d)) = d

(* the expectation handed to the conformance side, and every complete registration order *)
Emit ==
  /\ (p > 0 /\ order = <<>>) =>
        PrintT("CASE " \o ToJson([p |-> p, clash |-> HasClash(P), descs |-> [f \in 1..NFiles |-> Desc(P, f)]]))
  /\ (p > 0 /\ Len(order) = NFiles) => PrintT("ORDER " \o ToJson([p |-> p, order |-> order]))

=============================================================================
