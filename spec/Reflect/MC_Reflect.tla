----------------------------- MODULE MC_Reflect -----------------------------
(* model-checking / generation instance of Reflect: progs.json is placed next to the spec by checks/c15.py *)
EXTENDS Reflect
=============================================================================
