---------------------------- MODULE Trace_Reflect ----------------------------
(***************************************************************************)
(* Trace validation of the reflection registry (C15).                      *)
(*                                                                         *)
(* Each line of traces.ndjson is one behaviour of the real registry:       *)
(*   [p |-> program (index into progs.json), kind |-> "build" | "ast" |    *)
(*    "compiled", events |-> Seq(event)]                                   *)
(*   event = [op |-> "reg", f, err]  a file descriptor was registered      *)
(*         | [op |-> "rereg", f, err] the same descriptor registered again  *)
(*         | [op |-> "obs", qs]      a batch of lookups was answered        *)
(* "reg" is the Register action of Reflect.tla (any order, each file once, *)
(* no error); "obs" leaves the state alone and every answer has to be the  *)
(* one layer A prescribes for the current set of registered files:         *)
(*   fd        registry lookup by path                                     *)
(*   inc       fd.GetIncludeFD(alias)                                      *)
(*   get       fd.Get<Kind>Descriptor("pre.name")                          *)
(*   lookup    registry.Lookup<Kind>("pre.name", path)                     *)
(*   glob      registry.Lookup<Kind>(name, "")                             *)
(*   method / svcmethod / parent / fieldid / fieldname                     *)
(*   allmethods / methodfromall   ServiceDescriptor.GetAllMethods(),       *)
(*             GetMethodByNameFromAll(name): the whole chain of extends     *)
(*   closure   registry.LookupIncludedStructsFromStruct                     *)
(*   tref      TypeDescriptor.Get<Kind>Descriptor() of a written type      *)
(*   bygo      Go type -> descriptor; togo: descriptor -> Go type;         *)
(*   own       the generated GetDescriptor() / GetTypeDescriptor()         *)
(* An answer is (rf, ri, rj): file, position in the file's list of that    *)
(* kind, position inside (field / method); 0 = nil.  Go types are opaque   *)
(* identities (ty) chosen by the harness; the batch tells which definition *)
(* has which Go type.                                                      *)
(***************************************************************************)
EXTENDS Reflect

ASSUME TLCSet(2, ndJsonDeserialize("traces.ndjson"))      \* (see the note at Progs in Reflect.tla)
Traces == TLCGet(2)

VARIABLES tr, i
tvars == <<tr, i, p, order, b_inc, b_go2d, b_d2go>>
T == Traces[tr]

TInit == tr = 0 /\ i = 0 /\ Init

Start == /\ tr = 0
         /\ \E t \in 1..Len(Traces) : tr' = t /\ Pick(Traces[t].p)
         /\ i' = 1

Ans(q) == [f |-> q.rf, i |-> q.ri]
NoFd(q) == q.f \notin Reg

(* the Go types of this batch: <<def id, class, ty>> for every type-bearing definition that was asked about *)
BatchTypes(qs) == {<<<<qs[k].f, qs[k].kind, qs[k].m>>, Cls(qs[k].kind), qs[k].ty>> :
                     k \in {j \in DOMAIN qs : qs[j].q = "bygo"}}

KindOf(c) == CASE c = 1 -> "struct" [] c = 2 -> "union" [] c = 3 -> "exception" [] OTHER -> "?"

OKq(q, bt) ==
  CASE q.q = "fd"     -> q.err = "" /\ q.rf = (IF q.f \in Reg THEN q.f ELSE 0)
    [] q.q = "inc"    -> IF NoFd(q) THEN q.err = "nofd" ELSE q.err = "" /\ q.rf \in IncFDSet(P, Reg, q.f, q.pre)
    [] q.q = "get"    -> IF NoFd(q) THEN q.err = "nofd"
                         ELSE q.err = "" /\ Ans(q) = Get(P, Reg, q.f, q.kind, q.pre, q.name)
    [] q.q = "lookup" -> q.err = "" /\ Ans(q) = (IF NoFd(q) THEN Nil ELSE Get(P, Reg, q.f, q.kind, q.pre, q.name))
    [] q.q = "glob"   -> q.err = "" /\ Ans(q) \in GlobSet(P, Reg, q.kind, q.name)
    [] q.q = "method" -> IF NoFd(q) THEN q.err = "nofd"
                         ELSE q.err = "" /\ [f |-> q.rf, i |-> q.ri, j |-> q.rj] \in MethodSet(P, Reg, q.f, q.pre, q.name, q.s)
    [] q.q = "svcmethod" -> IF NoFd(q) THEN q.err = "nofd"
                         ELSE q.err = "" /\ [f |-> q.rf, i |-> q.ri, j |-> q.rj]
                                              = NormM(MethodIn(P, [f |-> q.f, i |-> q.n], q.s))
    [] q.q = "allmethods" -> IF NoFd(q) THEN q.err = "nofd"
                         ELSE q.err = "" /\ \E A \in {AllMethods(P, Reg, [f |-> q.f, i |-> q.n], 6)} :
                                /\ {[f |-> x[1], i |-> x[2], j |-> x[3]] : x \in Range(q.l)} = A
                                /\ Len(q.l) = Cardinality(A)
    [] q.q = "methodfromall" -> IF NoFd(q) THEN q.err = "nofd"
                         ELSE q.err = "" /\ \E A \in {{m \in AllMethods(P, Reg, [f |-> q.f, i |-> q.n], 6) : MethodName(P, m) = q.s}} :
                                IF A = {} THEN q.rf = 0 ELSE [f |-> q.rf, i |-> q.ri, j |-> q.rj] \in A
    [] q.q = "closure" -> IF NoFd(q) THEN q.err = "nofd"
                         ELSE q.err = "" /\ \E S \in {{<<x[1], KindOf(x[2]), x[3]>> : x \in Range(q.l)}} :
                                /\ Closure(P, Reg, {<<q.f, "struct", q.n>>}, FALSE, 8) \subseteq S
                                /\ S \subseteq Closure(P, Reg, {<<q.f, "struct", q.n>>}, TRUE, 8)
    [] q.q = "parent" -> IF NoFd(q) THEN q.err = "nofd" ELSE q.err = "" /\ Ans(q) = Parent(P, Reg, q.f, q.n)
    [] q.q = "fieldid" -> IF NoFd(q) THEN q.err = "nofd"
                          ELSE q.err = "" /\ q.rj = FieldById(Defs(P[q.f], q.kind)[q.n].fields, q.m)
    [] q.q = "fieldname" -> IF NoFd(q) THEN q.err = "nofd"
                            ELSE q.err = "" /\ q.rj = FieldByName(Defs(P[q.f], q.kind)[q.n].fields, q.name)
    [] q.q = "tref"   -> IF NoFd(q) THEN q.err = "nofd"
                         ELSE q.err = "" /\ Ans(q) = TRef(P, Reg, q.f, TypeAt(P, q.f, q.kind, q.n, q.m, q.sel), q.name)
    [] q.q = "own"    -> /\ q.err = "" /\ Defs(P[q.f], q.kind)[q.m].name = q.name
                         /\ Ans(q) = (IF NoFd(q) THEN Nil ELSE [f |-> q.f, i |-> q.m])
                         /\ q.s = q.name /\ q.rj = q.f             \* GetTypeDescriptor(): name and file of the type
    [] q.q = "togo"   -> IF NoFd(q) THEN q.err = "nofd" ELSE q.err = "" /\ q.ri = q.ty
    [] q.q = "bygo"   -> /\ q.err = "" /\ Defs(P[q.f], q.kind)[q.m].name = q.name
                         /\ \/ q.kind = "typedef" /\ q.rf = -2   \* a typedef of another program linked into the same
                                                                 \* process that has this very Go type (harness-checked)
                            \/ \E S \in {{x[1] : x \in {y \in bt : y[1][1] \in Reg /\ y[2] = Cls(q.kind) /\ y[3] = q.ty}}} :
                              /\ IF S = {} THEN q.rf = 0 ELSE <<q.rf, q.s, q.ri>> \in S
                              /\ (~NoFd(q) /\ q.kind # "typedef") => <<q.rf, q.s, q.ri>> = <<q.f, q.kind, q.m>>
    [] OTHER -> FALSE

Ev == /\ tr > 0 /\ i <= Len(T.events)
      /\ \E e \in {T.events[i]} :
           \/ e.op = "reg" /\ e.err = "" /\ Register(e.f)
           \/ e.op = "rereg" /\ e.err = "" /\ ReRegister(e.f)
           \/ /\ e.op = "obs"
              /\ \E bt \in {BatchTypes(e.qs)} : \A k \in DOMAIN e.qs : OKq(e.qs[k], bt)
              /\ UNCHANGED vars
      /\ i' = i + 1 /\ UNCHANGED tr

TNext == Start \/ Ev
TSpec == TInit /\ [][TNext]_tvars

Accepted == (tr > 0 /\ i = Len(T.events) + 1) => PrintT("ACC " \o ToString(tr))
(* diagnostics: how far a trace got, and in a batch the first answer layer A does not allow *)
Progress == tr > 0 => PrintT("AT " \o ToString(tr) \o " " \o ToString(i))
BadAnswers ==
  (tr > 0 /\ i <= Len(T.events) /\ T.events[i].op = "obs") =>
     \E e \in {T.events[i]} : \E bt \in {BatchTypes(e.qs)} :
        \A k \in DOMAIN e.qs : OKq(e.qs[k], bt) \/ PrintT("BAD " \o ToString(tr) \o " " \o ToString(i) \o " " \o ToString(k))
=============================================================================
