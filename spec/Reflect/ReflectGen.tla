----------------------------- MODULE ReflectGen -----------------------------
(***************************************************************************)
(* C15 - the feature universe of the reflection check.                     *)
(*                                                                         *)
(* A case is a feature vector                                              *)
(*   [topo, rot, ann: node kind -> annotation pattern,                     *)
(*    cmt: node kind -> comment pattern, ids: field holder -> id pattern,  *)
(*    enums: <<pattern of the first enum, pattern of the second>>, dexp]   *)
(* from which lib/c15_model.py builds a multi-file program that has every  *)
(* definition kind and constants of every shape (the k-th node of a kind   *)
(* gets the k-th successor of the kind's pattern, so one program carries   *)
(* several patterns per node kind).                                        *)
(*                                                                         *)
(* Mode "systematic": Latin-square rotations - with Rots = 8 every         *)
(* (node kind, annotation pattern), (node kind, comment pattern),          *)
(* (holder, id pattern) pair and every enum pattern occurs as a BASE       *)
(* pattern (checked by the ASSUMEs below); Full = TRUE crosses every       *)
(* rotation with every topology, otherwise two topologies per rotation.    *)
(* Mode "random": one dimension is chosen per step; used with -simulate.   *)
(***************************************************************************)
EXTENDS Integers, Sequences, FiniteSets, TLC, Json

CONSTANTS Mode, Rots, Full, DExp

AnnPats   == <<"none", "empty", "one", "rep2", "rep_inter", "rep_same", "multi">>
CmtPats   == <<"none", "line", "block", "unix", "two", "trail", "both", "blockml">>
IdPats    == <<"explicit", "implicit", "mixed", "gap", "neg", "desc">>
EnumPats  == <<"implicit", "explicit", "mixed", "neg", "hex">>
NodeKinds == <<"struct", "union", "exception", "field", "enum", "enumvalue", "typedef", "const", "service",
               "method", "arg", "throw">>
Holders   == <<"struct", "union", "exception", "args", "throws">>
Topos     == <<"single", "chain2", "chain3", "diamond", "samebase_indirect", "samebase_direct", "updir", "dotted">>

Range(s) == {s[i] : i \in DOMAIN s}
At(s, k) == s[(k % Len(s)) + 1]
PosIn(s, x) == CHOOSE i \in DOMAIN s : s[i] = x

Vector(topo, r) ==
  [topo  |-> topo, rot |-> r, dexp |-> DExp,
   ann   |-> [nk \in Range(NodeKinds) |-> At(AnnPats, r + PosIn(NodeKinds, nk))],
   cmt   |-> [nk \in Range(NodeKinds) |-> At(CmtPats, 3 * r + PosIn(NodeKinds, nk))],
   ids   |-> [h \in Range(Holders) |-> At(IdPats, r + 2 * PosIn(Holders, h))],
   enums |-> <<At(EnumPats, r), At(EnumPats, 2 * r + 1)>>]

SysCases == IF Full THEN {<<t, r>> : t \in Range(Topos), r \in 0..(Rots - 1)}
            ELSE {<<At(Topos, r), r>> : r \in 0..(Rots - 1)} \cup {<<At(Topos, r + 3), r>> : r \in 0..(Rots - 1)}

SysVectors == {Vector(c[1], c[2]) : c \in SysCases}

(* coverage of the systematic universe: nothing the property quantifies over is missing *)
ASSUME Mode = "systematic" /\ Rots >= 8 =>
  /\ \A nk \in Range(NodeKinds) : \A a \in Range(AnnPats) : \E x \in SysVectors : x.ann[nk] = a
  /\ \A nk \in Range(NodeKinds) : \A a \in Range(CmtPats) : \E x \in SysVectors : x.cmt[nk] = a
  /\ \A h \in Range(Holders) : \A a \in Range(IdPats) : \E x \in SysVectors : x.ids[h] = a
  /\ \A a \in Range(EnumPats) : \E x \in SysVectors : a \in Range(x.enums)
ASSUME Mode = "systematic" => \A t \in Range(Topos) : \E x \in SysVectors : x.topo = t

VARIABLES st, v
vars == <<st, v>>

Dims == Len(NodeKinds) + Len(NodeKinds) + Len(Holders) + 2 + 2
Blank == [topo |-> "", rot |-> 0, dexp |-> DExp, ann |-> <<>>, cmt |-> <<>>, ids |-> <<>>, enums |-> <<>>]

Init == IF Mode = "systematic" THEN st = "root" /\ v = Blank
        ELSE st = "pick" /\ v = Blank

SysNext == st = "root" /\ \E x \in SysVectors : v' = x /\ st' = "done"

(* random: fill the next open dimension *)
RndNext ==
  /\ st = "pick"
  /\ \/ Len(v.ann) < Len(NodeKinds) /\ \E a \in Range(AnnPats) : v' = [v EXCEPT !.ann = Append(@, a)] /\ st' = st
     \/ Len(v.ann) = Len(NodeKinds) /\ Len(v.cmt) < Len(NodeKinds)
          /\ \E a \in Range(CmtPats) : v' = [v EXCEPT !.cmt = Append(@, a)] /\ st' = st
     \/ Len(v.cmt) = Len(NodeKinds) /\ Len(v.ids) < Len(Holders)
          /\ \E a \in Range(IdPats) : v' = [v EXCEPT !.ids = Append(@, a)] /\ st' = st
     \/ Len(v.ids) = Len(Holders) /\ Len(v.enums) < 2
          /\ \E a \in Range(EnumPats) : v' = [v EXCEPT !.enums = Append(@, a)] /\ st' = st
     \/ Len(v.enums) = 2 /\ v.rot = 0 /\ \E r \in 1..10 : v' = [v EXCEPT !.rot = r] /\ st' = st
     \/ v.rot # 0 /\ v.topo = "" /\ \E t \in Range(Topos) : v' = [v EXCEPT !.topo = t] /\ st' = st
     \/ v.topo # "" /\ v' = [v EXCEPT !.ann = [nk \in Range(NodeKinds) |-> v.ann[PosIn(NodeKinds, nk)]],
                                        !.cmt = [nk \in Range(NodeKinds) |-> v.cmt[PosIn(NodeKinds, nk)]],
                                        !.ids = [h \in Range(Holders) |-> v.ids[PosIn(Holders, h)]]]
                    /\ st' = "done"

Next == SysNext \/ RndNext
Spec == Init /\ [][Next]_vars

Emit == st = "done" => PrintT("CASE " \o ToJson(v))
=============================================================================
