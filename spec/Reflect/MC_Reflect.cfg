SPECIFICATION Spec
INVARIANTS TypeOK GoTypeOwn BGoTypes AliasReach RoundTrip Emit
CHECK_DEADLOCK FALSE
