------------------------------ MODULE MC_Params ------------------------------
(***************************************************************************)
(* Enumerates option lists (plugin side: arbitrary keys and values incl.   *)
(* empty values, "=" and ":" inside values, repeated keys; generator side: *)
(* real options of the go backend) and emits command-line text + layer A.  *)
(***************************************************************************)
EXTENDS PluginParams, Json

CONSTANTS MaxP, MaxG

PKeys == {"k1", "k2"}
PVals == {NoValue, "", "v", "a=b", "x:y"}
POpts == {[k |-> k, v |-> v] : k \in PKeys, v \in PVals}

\* options of the go backend that do not change what the plugin sees
GOpts == { [k |-> "no_fmt", v |-> NoValue], [k |-> "gen_setter", v |-> NoValue],
           [k |-> "gen_setter", v |-> "false"], [k |-> "package_prefix", v |-> "p/q"],
           [k |-> "naming_style", v |-> "golint"], [k |-> "gen_deep_equal", v |-> ""] }

VARIABLES side, os
Init == side = "root" /\ os = <<>>
Next == /\ side = "root"
        /\ \/ side' = "p" /\ os' \in SeqsUpTo(POpts, MaxP)
           \/ side' = "g" /\ os' \in SeqsUpTo(GOpts, MaxG)
Spec == Init /\ [][Next]_<<side, os>>

\* consistency of the definitions: the canonical spelling is an allowed one
Canonical == side # "root" => ParamsOK(CanonParams(os), os)

Emit == side # "root" =>
  PrintT("CASE " \o ToJson([side |-> side, n |-> Len(os), text |-> JoinOpts(os),
                            canon |-> CanonParams(os), allowed |-> AllowedParams(os),
                            bare |-> Cardinality({i \in 1..Len(os) : os[i].v = NoValue}),
                            repeated |-> \E i, j \in 1..Len(os) : i # j /\ os[i].k = os[j].k]))
=============================================================================
