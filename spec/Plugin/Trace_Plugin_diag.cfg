SPECIFICATION TSpec
CONSTANTS
  Names = {}
  Contents = {}
  Points = {}
  Texts = {}
  FreshPool = {}
INVARIANTS Accepted Progress
CHECK_DEADLOCK FALSE
