---------------------------- MODULE Trace_Plugin ----------------------------
(***************************************************************************)
(* Trace validation for C11 (b): every line of traces.ndjson is the event  *)
(* log of one run of the thriftgo binary with the scriptable recording     *)
(* plugin.  A trace is accepted iff it is a behaviour of Plugin.tla        *)
(* (composed with FileManager.tla).  Events:                               *)
(*   Case  {cs}                 the case (what the plugin was scripted to  *)
(*                              do, the time limit)                        *)
(*   Spawn {dumped, same}       thriftgo started the plugin; dumped: the   *)
(*                              plugin recorded the request it decoded;    *)
(*                              same: that request equals the compiler's   *)
(*   Gone  {alive}              observed after thriftgo exited: is the     *)
(*                              plugin process still alive                 *)
(*   Begin, File, UPatch, NPatch, End {err, resp}                          *)
(*                              only when the plugin gave a proper answer: *)
(*                              its items, then what thriftgo made of them *)
(*                              (err: thriftgo failed; resp: the plugin's  *)
(*                              files found on disk)                       *)
(*   Exit  {rc, intime, warned} thriftgo's exit status, whether it came    *)
(*                              back within limit + slack, whether all the *)
(*                              plugin's warnings were on stderr           *)
(* Steps of the specification that leave no event (Build, PluginFinish,    *)
(* TimerFire, Kill, CollectBad) are taken silently.                        *)
(***************************************************************************)
EXTENDS Plugin, Json

Traces == ndJsonDeserialize("traces.ndjson")

VARIABLES tr, l
tvars == <<vars, tr, l>>

T == Traces[tr]
Ev == T[l]

TInit == /\ tr \in 1..Len(Traces) /\ l = 2
         /\ PInit(Traces[tr][1].cs)

IsEvent(e) == l <= Len(T) /\ Ev.ev = e /\ l' = l + 1 /\ tr' = tr
Silent == l' = l /\ tr' = tr

NextEnd == CHOOSE j \in l..Len(T) : T[j].ev = "End" /\ \A k \in l..(j-1) : T[k].ev # "End"
RespNames(j) == {T[j].resp[i].name : i \in 1..Len(T[j].resp)}

TSilent == Silent /\ (Build \/ PluginFinish \/ TimerFire \/ Kill \/ CollectBad)

\* a plugin that was killed for exceeding the limit may not have got as far as recording the request
TSpawn == /\ IsEvent("Spawn") /\ Spawn
          /\ Ev.dumped => Ev.same
          /\ ~Ev.dumped => Beyond(cs)

TGone == /\ IsEvent("Gone") /\ ~Ev.alive
         /\ pl \in {"exited", "killed"}
         /\ UNCHANGED vars

TBegin == IsEvent("Begin") /\ CollectGood

ItemOf(e) == IF e.ev = "File" THEN [k |-> "File", name |-> e.name, content |-> e.content]
             ELSE IF e.ev = "UPatch" THEN [k |-> "UPatch", pt |-> e.pt, text |-> e.text]
             ELSE [k |-> "NPatch", name |-> e.name, pt |-> e.pt, text |-> e.text]

TItem == /\ l <= Len(T) /\ Ev.ev \in {"File", "UPatch", "NPatch"} /\ l' = l + 1 /\ tr' = tr
         /\ \E fresh \in RespNames(NextEnd) \cup {"?"} : FeedItemAs(ItemOf(Ev), fresh)

TEnd == /\ IsEvent("End") /\ Finish
        /\ Ev.err = err
        /\ ~err => /\ Len(Ev.resp) = Len(out)
                   /\ {Ev.resp[i] : i \in 1..Len(Ev.resp)} = Response

TExit == /\ IsEvent("Exit") /\ tg = "done"
         /\ Ev.rc = rc
         /\ Beyond(cs) => Ev.intime
         /\ rc = "zero" => Ev.warned
         /\ UNCHANGED vars

TNext == TSilent \/ TSpawn \/ TGone \/ TBegin \/ TItem \/ TEnd \/ TExit
TSpec == TInit /\ [][TNext]_tvars

Accepted == (l = Len(T) + 1) => PrintT("ACC " \o ToString(tr))
Progress == PrintT("AT " \o ToString(tr) \o " " \o ToString(l))
TInvariants == TypeOK /\ Honoured /\ NoOrphan /\ UniqueNames /\ NoDuplicateSubmission /\ LastIsAFile
=============================================================================
