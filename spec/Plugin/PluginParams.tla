---------------------------- MODULE PluginParams ----------------------------
(***************************************************************************)
(* C11 (c): how the command line becomes the scalar part of the request.   *)
(*                                                                         *)
(*   thriftgo [-r] [-o DIR] [--plugin-time-limit D]                        *)
(*            -g LANG[:opt,opt...]  -p NAME[=PATH][:opt,opt...]  file      *)
(*                                                                         *)
(* An option is key or key=value.  Layer A: the plugin gets the generator  *)
(* options of the target being generated and its own options, each list in *)
(* command-line order, one string per option, "key=value".  For an option  *)
(* written without "=" the statement does not fix the spelling: "key" and  *)
(* "key=" are both allowed (protocol.thrift: "in the form of 'key=val' or  *)
(* 'val'"; the implementation sends "key=").                               *)
(* The option text itself is not split by TLC (no string indexing): an     *)
(* option is a record [k, v] with v = NoValue for the bare form, and TLC   *)
(* builds both the command-line text and the expected parameter.           *)
(***************************************************************************)
EXTENDS Integers, Sequences, FiniteSets, TLC

NoValue == "<none>"

OptText(o) == IF o.v = NoValue THEN o.k ELSE o.k \o "=" \o o.v

RECURSIVE JoinOpts(_)
JoinOpts(os) == IF os = <<>> THEN ""
                ELSE IF Len(os) = 1 THEN OptText(os[1])
                ELSE OptText(os[1]) \o "," \o JoinOpts(Tail(os))

\* text after -g / -p
ArgText(name, os) == IF os = <<>> THEN name ELSE name \o ":" \o JoinOpts(os)

\* allowed spellings of one parameter
AllowedParam(o) == IF o.v = NoValue THEN {o.k, o.k \o "="} ELSE {o.k \o "=" \o o.v}
\* the spelling the in-process reference request uses
CanonParam(o)   == IF o.v = NoValue THEN o.k \o "=" ELSE o.k \o "=" \o o.v

AllowedParams(os) == [i \in 1..Len(os) |-> AllowedParam(os[i])]
CanonParams(os)   == [i \in 1..Len(os) |-> CanonParam(os[i])]

\* does an observed parameter list satisfy layer A?
ParamsOK(obs, os) == /\ Len(obs) = Len(os)
                     /\ \A i \in 1..Len(os) : obs[i] \in AllowedParam(os[i])

\* a command line: [lang, gopts, popts, out (NoValue = not given), rec]
OutputPath(cl) == IF cl.out = NoValue THEN "./gen-" \o cl.lang ELSE cl.out

\* the scalar part of the request the plugin must decode (Version and AST are bound outside:
\* the version is what `thriftgo --version` prints, the AST is the compiler's own)
ReqHead(cl) == [Language            |-> cl.lang,
             OutputPath          |-> OutputPath(cl),
             Recursive           |-> cl.rec,
             GeneratorParameters |-> CanonParams(cl.gopts),
             PluginParameters    |-> CanonParams(cl.popts)]

\* all sequences of length <= k over S
RECURSIVE SeqsUpTo(_, _)
SeqsUpTo(S, k) == IF k = 0 THEN {<<>>}
                  ELSE LET R == SeqsUpTo(S, k - 1) IN
                       R \cup {Append(s, x) : s \in {r \in R : Len(r) = k - 1}, x \in S}
=============================================================================
