SPECIFICATION Spec
CONSTANTS
  MaxP = 2
  MaxG = 2
INVARIANTS Canonical Emit
CHECK_DEADLOCK FALSE
