SPECIFICATION TSpec
CONSTANTS
  Names = {}
  Contents = {}
  Points = {}
  Texts = {}
  FreshPool = {}
INVARIANTS Accepted TInvariants
CHECK_DEADLOCK FALSE
