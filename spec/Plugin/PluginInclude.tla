---------------------------- MODULE PluginInclude ----------------------------
(***************************************************************************)
(* C11 (a): include compression of the request a plugin receives.          *)
(*                                                                         *)
(* The AST handed to a plugin is a DAG of file nodes (a file included by   *)
(* two files is one shared node), but the wire format is a tree: without   *)
(* compression a shared file is serialised once per path.  With            *)
(* compression (plugin.compressThriftInclude) every occurrence after the   *)
(* first one, in depth-first order, is replaced by a stub that only        *)
(* carries the file name; the plugin side                                  *)
(* (decompressThriftInclude, run by UnmarshalRequest when the data trailer *)
(* announces the feature) puts the full file back.                         *)
(*                                                                         *)
(* Layer A (the property): what the plugin ends up with is the tree        *)
(* unfolding of the compiler's DAG -- the identity -- with or without      *)
(* compression, and the compiler's own DAG is unchanged afterwards.        *)
(* Layer B: transcription of compress / decompress / collect of            *)
(* plugin/plugin.go.  TLC checks B => A for every DAG with <= MaxN files.  *)
(*                                                                         *)
(* Graph: files are 1..n, file 1 is the main file, inc[f] is the sequence  *)
(* of files f includes, in source order.  Acyclic by construction          *)
(* (an include always has a larger number; cycles are rejected by the      *)
(* compiler before a plugin runs).                                         *)
(***************************************************************************)
EXTENDS Integers, Sequences, FiniteSets, TLC

Range(s) == {s[i] : i \in 1..Len(s)}

\* all sequences without repetition over subsets of S
Arrangements(S) ==
  UNION { {s \in [1..Cardinality(T) -> T] : Range(s) = T} : T \in SUBSET S }

RECURSIVE ReachFrom(_, _)
ReachFrom(inc, f) == {f} \cup UNION {ReachFrom(inc, inc[f][i]) : i \in 1..Len(inc[f])}
Reach(inc) == ReachFrom(inc, 1)

-----------------------------------------------------------------------------
(* Trees: what is on the wire and what a decoder builds.  A node is        *)
(* [f |-> file, kids |-> sequence of nodes]; a stub is a node with a       *)
(* negative file number and no kids (the real stub is an otherwise empty   *)
(* parser.Thrift whose Filename is "THRIFGO_REF:" + name).                 *)

RECURSIVE Unfold(_, _)
Unfold(inc, f) == [f |-> f, kids |-> [i \in 1..Len(inc[f]) |-> Unfold(inc, inc[f][i])]]

Stub(f) == [f |-> -f, kids |-> <<>>]
IsStub(t) == t.f < 0

\* depth-first (pre-order) list of the file numbers of a tree
RECURSIVE Pre(_)
RECURSIVE PreKids(_, _)
PreKids(t, i) == IF i > Len(t.kids) THEN <<>> ELSE Pre(t.kids[i]) \o PreKids(t, i + 1)
Pre(t) == <<t.f>> \o PreKids(t, 1)

FullNodes(t) == Len(SelectSeq(Pre(t), LAMBDA x : x > 0))

-----------------------------------------------------------------------------
(* Layer A.                                                                *)
ASeen(inc) == Unfold(inc, 1)          \* what the plugin must see
AAfter(inc) == inc                    \* the compiler's own graph afterwards

-----------------------------------------------------------------------------
(* Layer B, compiler side: a heap.  slot[f][i] is the i-th Include.Reference *)
(* of file f: c > 0 points at the shared node of file c, c < 0 is a fresh  *)
(* stub for file -c.  `vis` is the map m (keyed by file name).             *)

\* compressThriftInclude(p, m): for each include: visited -> stub, else mark and recurse
RECURSIVE CompFrom(_, _, _)
CompFrom(st, p, i) ==
  IF i > Len(st.slot[p]) THEN st
  ELSE LET c == st.slot[p][i] IN
       IF c \in st.vis
       THEN CompFrom([st EXCEPT !.slot[p][i] = -c], p, i + 1)
       ELSE CompFrom(CompFrom([st EXCEPT !.vis = @ \cup {c}], c, 1), p, i + 1)

Compress(inc) == CompFrom([slot |-> inc, vis |-> {}], 1, 1)

\* the tree MarshalRequest writes for a heap
RECURSIVE Wire(_, _)
Wire(slot, f) == [f |-> f, kids |-> [i \in 1..Len(slot[f]) |->
                    IF slot[f][i] < 0 THEN Stub(-slot[f][i]) ELSE Wire(slot, slot[f][i])]]

\* decompressThriftInclude(p, m) with the map of compress (the deferred revert in Execute):
\* a stub is replaced by m[name]; every include is then visited recursively
RECURSIVE RevFrom(_, _, _)
RevFrom(slot, p, i) ==
  IF i > Len(slot[p]) THEN slot
  ELSE LET c  == slot[p][i]
           s1 == IF c < 0 THEN [slot EXCEPT ![p][i] = -c] ELSE slot
       IN RevFrom(RevFrom(s1, s1[p][i], 1), p, i + 1)

Revert(slot) == RevFrom(slot, 1, 1)

-----------------------------------------------------------------------------
(* Layer B, plugin side: UnmarshalRequest decodes a tree (no sharing);     *)
(* decompressThriftInclude(p, nil) first collects name -> node over the    *)
(* non-stub includes (collectThriftInclude), then replaces stubs.          *)
NoTree == [f |-> 0, kids |-> <<>>]
Panic  == [f |-> 0, kids |-> <<>>]          \* panic("not found ref: ...")

RECURSIVE Collect(_, _)
RECURSIVE CollectKids(_, _, _)
CollectKids(t, i, m) ==
  IF i > Len(t.kids) THEN m
  ELSE LET k == t.kids[i] IN
       IF IsStub(k) THEN CollectKids(t, i + 1, m)
       ELSE CollectKids(t, i + 1, Collect(k, [m EXCEPT ![k.f] = k]))
Collect(t, m) == CollectKids(t, 1, m)

\* the mutation in place, read as a function on the unfolding (the replaced node is itself
\* decompressed by the recursive call)
RECURSIVE Decomp(_, _)
Decomp(t, m) ==
  [f |-> t.f,
   kids |-> [i \in 1..Len(t.kids) |->
               LET k == t.kids[i] IN
               IF IsStub(k) THEN (IF m[-k.f] = NoTree THEN Panic ELSE Decomp(m[-k.f], m))
               ELSE Decomp(k, m)]]

Decompress(t, n) == Decomp(t, Collect(t, [f \in 1..n |-> NoTree]))

\* the whole path with compression, and without
SeenCompressed(inc, n) == Decompress(Wire(Compress(inc).slot, 1), n)
SeenPlain(inc)         == Wire(inc, 1)
\* a plugin that finds the trailer although nothing was compressed
SeenTrailerOnly(inc, n) == Decompress(Wire(inc, 1), n)
\* a plugin that does not find the trailer although includes were compressed
SeenNoTrailer(inc)     == Wire(Compress(inc).slot, 1)

-----------------------------------------------------------------------------
(* B => A, per graph.                                                      *)
RoundTrip(inc, n)    == SeenCompressed(inc, n) = ASeen(inc)
PlainIsTree(inc)     == SeenPlain(inc) = ASeen(inc)
Idempotent(inc, n)   == /\ SeenTrailerOnly(inc, n) = ASeen(inc)
                        /\ Decompress(SeenCompressed(inc, n), n) = ASeen(inc)
Reverted(inc)        == Revert(Compress(inc).slot) = AAfter(inc)
\* the purpose of the feature: every reachable file is on the wire in full exactly once
Linear(inc)          == LET w == Pre(Wire(Compress(inc).slot, 1)) IN
                        /\ \A f \in Reach(inc) : Len(SelectSeq(w, LAMBDA x : x = f)) = 1
                        /\ Compress(inc).vis = Reach(inc) \ {1}
HasSharing(inc)      == Len(Pre(Unfold(inc, 1))) > Cardinality(Reach(inc))
\* sanity of the model: the trailer is what makes compression safe
TrailerNeeded(inc)   == HasSharing(inc) <=> SeenNoTrailer(inc) # ASeen(inc)

GraphOK(inc, n) == /\ RoundTrip(inc, n) /\ PlainIsTree(inc) /\ Idempotent(inc, n)
                   /\ Reverted(inc) /\ Linear(inc) /\ TrailerNeeded(inc)
=============================================================================
