----------------------------- MODULE MC_Compress -----------------------------
(***************************************************************************)
(* Enumerates every include DAG with <= MaxN files (file 1 = main, all     *)
(* files reachable, includes ordered), checks layer B => layer A of        *)
(* PluginInclude on each and emits each as a case for the real code.       *)
(* The graph is built one file at a time so that TLC's workers share the   *)
(* enumeration (root -> size -> includes of file 1 -> file 2 ...).         *)
(***************************************************************************)
EXTENDS PluginInclude, Json

CONSTANT MaxN

VARIABLES n,    \* number of files (0 = not chosen yet)
          g     \* includes of files 1..Len(g)

Init == n = 0 /\ g = <<>>

Choose == /\ n = 0 /\ n' \in 1..MaxN /\ g' = <<>>
Grow   == /\ n > 0 /\ Len(g) < n
          /\ \E s \in Arrangements((Len(g) + 2)..n) : g' = Append(g, s)
          /\ UNCHANGED n
Next == Choose \/ Grow

Spec == Init /\ [][Next]_<<n, g>>

Complete == n > 0 /\ Len(g) = n /\ Reach(g) = 1..n

Correct == Complete => GraphOK(g, n)

Emit == Complete =>
  PrintT("CASE " \o ToJson([n |-> n, inc |-> g,
                            unfold |-> Pre(Unfold(g, 1)),
                            wire |-> Pre(Wire(Compress(g).slot, 1)),
                            shared |-> HasSharing(g)]))
=============================================================================
