------------------------------ MODULE MC_Proto ------------------------------
(***************************************************************************)
(* Explores the process protocol of Plugin.tla over the behaviour x        *)
(* response x time-limit matrix, checks its invariants and emits every     *)
(* completed case (with what layer A predicts) for replay on the binary.   *)
(***************************************************************************)
EXTENDS Plugin, Json

CONSTANT MaxItems      \* length bound of the response contents of Ok cases

cContents == { <<[t |-> "x"]>>, <<[t |-> "x"], [m |-> "p"], [t |-> "y"]>> }

Items == {[k |-> "File", name |-> n, content |-> c] : n \in Names, c \in Contents}
    \cup {[k |-> "UPatch", pt |-> p, text |-> t] : p \in Points, t \in Texts}
    \cup {[k |-> "NPatch", name |-> n, pt |-> p, text |-> t] : n \in Names, p \in Points, t \in Texts}

Timing == { [dur |-> "fast", limit |-> 20000], [dur |-> "fast", limit |-> 0],
            [dur |-> "slow", limit |-> 0],     [dur |-> "slow", limit |-> 300],
            [dur |-> "slow", limit |-> 20000] }
Warns == { <<>>, <<"w1">>, <<"w1", "w2">> }
Rerrs == { "", "boom" }

Mk(b, tm, its, w, e, code, wrote) ==
  [beh |-> b, dur |-> tm.dur, limit |-> tm.limit, items |-> its, warns |-> w, rerr |-> e,
   code |-> code, wrote |-> wrote]

CasesOf(b) ==
  IF b = "Ok" THEN
    {Mk(b, tm, its, w, e, 0, TRUE) : tm \in Timing, its \in SeqsUpTo(Items, MaxItems), w \in Warns, e \in Rerrs}
  ELSE IF b = "ExitN" THEN
    {Mk(b, tm, its, w, e, code, wr) : tm \in Timing, its \in SeqsUpTo(Items, 1), w \in {<<>>, <<"w1">>},
                                      e \in Rerrs, code \in {1, 3}, wr \in BOOLEAN}
  ELSE IF b = "Hang" THEN
    {Mk(b, tm, its, <<>>, "", 0, FALSE) : tm \in {[dur |-> "fast", limit |-> 300]},
                                          its \in SeqsUpTo(Items, 1)}
  ELSE
    {Mk(b, tm, its, w, e, 0, b = "Partial") : tm \in Timing, its \in SeqsUpTo(Items, 1),
                                              w \in {<<>>, <<"w1">>}, e \in Rerrs}

VARIABLE phase     \* "root" | "group" | "run"
mvars == <<vars, phase>>

Root == [beh |-> "root"]

MInit == /\ phase = "root" /\ PInit(Root)
MNext == \/ /\ phase = "root" /\ phase' = "group"
            /\ \E b \in Behaviours : cs' = [beh |-> b]
            /\ UNCHANGED <<avars, tg, pl, timer, seen, sout, pexit, fed, shown, rc>>
         \/ /\ phase = "group" /\ phase' = "run"
            /\ cs' \in CasesOf(cs.beh)
            /\ UNCHANGED <<avars, tg, pl, timer, seen, sout, pexit, fed, shown, rc>>
         \/ /\ phase = "run" /\ PNext /\ UNCHANGED phase
MSpec == MInit /\ [][MNext]_mvars

Running == phase = "run"

MTypeOK   == Running => TypeOK /\ Terminating(cs) /\ WellTimed(cs)
MHonoured == Running => Honoured
MNoOrphan == Running => NoOrphan
MFileManager == Running => UniqueNames /\ NoDuplicateSubmission /\ LastIsAFile

\* every case runs to completion (no case gets stuck half way except by an item the file
\* manager specification does not cover: a named patch for a file that does not exist)
Stuck == Running /\ tg # "done" /\ ~ENABLED PNext
NamedPatchWithoutFile ==
  /\ tg = "feeding" /\ fed < Len(cs.items)
  /\ cs.items[fed + 1].k = "NPatch" /\ cs.items[fed + 1].name \notin OutNames
MNoStuck == Stuck => NamedPatchWithoutFile

RespSeq == LET S == Response IN
           IF S = {} THEN <<>> ELSE
           CHOOSE q \in [1..Cardinality(S) -> S] : \A i, j \in 1..Cardinality(S) : i # j => q[i] # q[j]

Emit == (Running /\ tg = "done") =>
  PrintT("CASE " \o ToJson([cs |-> cs, rc |-> rc, good |-> Good, ferr |-> err, beyond |-> Beyond(cs),
                            killed |-> (pl = "killed"), nfiles |-> Len(out),
                            renamed |-> Cardinality({i \in 1..Len(out) : out[i].name # out[i].orig}),
                            patched |-> Cardinality({i \in 1..Len(out) : out[i].patches # <<>>}),
                            files |-> RespSeq]))
=============================================================================
