------------------------------- MODULE Plugin -------------------------------
(***************************************************************************)
(* C11 -- plugins see the compiler's AST and options, and their answers    *)
(* are honoured.  Abstract specification (layer A).                        *)
(*                                                                         *)
(*  (a) include compression: module PluginInclude (layer A = identity,     *)
(*      layer B = transcription of plugin/plugin.go, B => A by TLC).       *)
(*  (c) command line -> request parameters: module PluginParams.           *)
(*  (b) this module: the process protocol between thriftgo and one         *)
(*      external plugin, composed with the output assembly specification   *)
(*      FileManager (C12): an honoured response is one Feed call.          *)
(*                                                                         *)
(* A case `cs` fixes what the plugin process does:                         *)
(*   beh    "Ok"       valid response on stdout, exit 0                     *)
(*          "ExitN"    exit status cs.code # 0 (cs.wrote: a valid response  *)
(*                     was on stdout nevertheless)                         *)
(*          "Garbage"  bytes that are not a response, exit 0               *)
(*          "Partial"  a proper prefix of a valid response, exit 0         *)
(*          "Empty"    nothing on stdout, exit 0                           *)
(*          "Hang"     never finishes                                      *)
(*   dur    "fast" | "slow": a slow plugin needs SlowMs before it does the *)
(*          above; a fast one needs (much) less than any limit >= SlowMs   *)
(*   limit  --plugin-time-limit in ms, 0 = no limit                        *)
(*   items  the contents of the response (File / UPatch / NPatch records   *)
(*          as in FileManager), warns its warnings, rerr its error string  *)
(*          ("" = none).                                                   *)
(*                                                                         *)
(* Time is abstract: the plugin exceeds the limit iff limit > 0 and it     *)
(* hangs or is slow with limit < SlowMs; then the timer fires before the   *)
(* plugin finishes, otherwise the plugin finishes before the timer could   *)
(* fire.  A fast plugin under a limit < SlowMs could go either way in real *)
(* time; such cases are not part of the universe (WellTimed).              *)
(*                                                                         *)
(* What the property allows:                                               *)
(*   - the plugin decodes exactly the request the compiler built (Spawn);  *)
(*   - Ok with rerr = "" : the items are fed to the file manager in order  *)
(*     (its specification says what the output is and when Feed fails),    *)
(*     the warnings are shown, exit status 0 unless Feed failed;           *)
(*   - every other behaviour, or rerr # "": exit status # 0;               *)
(*   - a plugin that exceeds the limit is killed, exit status # 0, and     *)
(*     thriftgo does not wait longer than the limit (plus slack).          *)
(* It is silent on what is written or shown when thriftgo fails.           *)
(***************************************************************************)
EXTENDS FileManager, PluginInclude, PluginParams

VARIABLES cs,      \* the case (constant during a behaviour)
          tg,      \* thriftgo: "init" | "built" | "waiting" | "feeding" | "done"
          pl,      \* plugin process: "none" | "running" | "exited" | "killed"
          timer,   \* "off" | "armed" | "fired"
          seen,    \* TRUE once the plugin has decoded the request -- equal to the compiler's
          sout,    \* plugin's stdout: "none" | "valid" | "garbage" | "partial" | "empty"
          pexit,   \* plugin's exit status (-1: none)
          fed,     \* number of response items handed to the file manager
          shown,   \* the plugin's warnings thriftgo has shown
          rc       \* thriftgo's exit status: "none" | "zero" | "nonzero"

pvars == <<cs, tg, pl, timer, seen, sout, pexit, fed, shown, rc>>
vars  == <<avars, pvars>>

Behaviours == {"Ok", "ExitN", "Garbage", "Partial", "Empty", "Hang"}

SlowMs == 2500
Beyond(c) == c.limit > 0 /\ (c.beh = "Hang" \/ (c.dur = "slow" /\ c.limit < SlowMs))
WellTimed(c) == (c.limit > 0 /\ c.limit < SlowMs) => (c.beh = "Hang" \/ c.dur = "slow")
\* a case in which thriftgo would wait for ever is outside the property
Terminating(c) == c.beh = "Hang" => c.limit > 0

PInit(c) == /\ Init
            /\ cs = c /\ tg = "init" /\ pl = "none" /\ timer = "off" /\ seen = FALSE
            /\ sout = "none" /\ pexit = -1 /\ fed = 0 /\ shown = <<>> /\ rc = "none"

\* thriftgo has parsed, checked and resolved the IDL and built the request
Build == /\ tg = "init" /\ tg' = "built"
         /\ UNCHANGED <<avars, cs, pl, timer, seen, sout, pexit, fed, shown, rc>>

\* the plugin is started with the request on stdin and decodes it
Spawn == /\ tg = "built" /\ tg' = "waiting" /\ pl' = "running" /\ seen' = TRUE
         /\ timer' = IF cs.limit > 0 THEN "armed" ELSE "off"
         /\ UNCHANGED <<avars, cs, sout, pexit, fed, shown, rc>>

Stdout(c) == CASE c.beh = "Ok" -> "valid"
               [] c.beh = "ExitN" -> IF c.wrote THEN "valid" ELSE "empty"
               [] c.beh = "Garbage" -> "garbage"
               [] c.beh = "Partial" -> "partial"
               [] OTHER -> "empty"

PluginFinish == /\ pl = "running" /\ cs.beh # "Hang" /\ ~Beyond(cs) /\ timer # "fired"
                /\ pl' = "exited" /\ sout' = Stdout(cs)
                /\ pexit' = IF cs.beh = "ExitN" THEN cs.code ELSE 0
                /\ UNCHANGED <<avars, cs, tg, timer, seen, fed, shown, rc>>

TimerFire == /\ timer = "armed" /\ pl = "running" /\ Beyond(cs)
             /\ timer' = "fired"
             /\ UNCHANGED <<avars, cs, tg, pl, seen, sout, pexit, fed, shown, rc>>

Kill == /\ timer = "fired" /\ pl = "running" /\ pl' = "killed"
        /\ UNCHANGED <<avars, cs, tg, timer, seen, sout, pexit, fed, shown, rc>>

Good == pl = "exited" /\ pexit = 0 /\ sout = "valid" /\ cs.rerr = ""

\* thriftgo has the plugin's result
CollectGood == /\ tg = "waiting" /\ Good
               /\ tg' = "feeding" /\ shown' = cs.warns
               /\ BeginFeed
               /\ UNCHANGED <<cs, pl, timer, seen, sout, pexit, fed, rc>>

CollectBad == /\ tg = "waiting" /\ pl \in {"exited", "killed"} /\ ~Good
              /\ tg' = "done" /\ rc' = "nonzero"
              /\ shown' \in {<<>>, cs.warns}
              /\ UNCHANGED <<avars, cs, pl, timer, seen, sout, pexit, fed>>

\* one response item goes through Feed (FileManager's actions; `fresh` is the name a
\* conflicting file gets -- the specification leaves it open)
FeedItemAs(it, fresh) ==
  /\ tg = "feeding" /\ fed < Len(cs.items) /\ it = cs.items[fed + 1]
  /\ fed' = fed + 1
  /\ \/ it.k = "File"   /\ SubmitFileAs(it.name, it.content, fresh)
     \/ it.k = "UPatch" /\ SubmitUnnamedPatch(it.pt, it.text)
     \/ it.k = "NPatch" /\ SubmitNamedPatch(it.name, it.pt, it.text)
  /\ UNCHANGED <<cs, tg, pl, timer, seen, sout, pexit, shown, rc>>

FeedItem == \E fresh \in FreshPool : FeedItemAs(cs.items[fed + 1], fresh)

Finish == /\ tg = "feeding" /\ fed = Len(cs.items)
          /\ EndFeed
          /\ tg' = "done" /\ rc' = IF err THEN "nonzero" ELSE "zero"
          /\ UNCHANGED <<cs, pl, timer, seen, sout, pexit, fed, shown>>

PNext == \/ Build \/ Spawn \/ PluginFinish \/ TimerFire \/ Kill
         \/ CollectGood \/ CollectBad
         \/ (tg = "feeding" /\ fed < Len(cs.items) /\ FeedItem)
         \/ Finish

-----------------------------------------------------------------------------
(* What must hold of every behaviour (checked by TLC on the model; on the   *)
(* real code the recorded traces must be behaviours of PNext).              *)

TypeOK == /\ tg \in {"init", "built", "waiting", "feeding", "done"}
          /\ pl \in {"none", "running", "exited", "killed"}
          /\ timer \in {"off", "armed", "fired"}
          /\ rc \in {"none", "zero", "nonzero"}

\* success iff the plugin answered properly, reported no error and the output could be assembled
Honoured == tg = "done" =>
              /\ rc = "zero" <=> (Good /\ ~err)
              /\ rc = "zero" => shown = cs.warns /\ fed = Len(cs.items) /\ seen

\* no plugin process outlives thriftgo; one that exceeds the limit has been killed
NoOrphan == tg = "done" => /\ pl \in {"exited", "killed"}
                           /\ Beyond(cs) => pl = "killed" /\ rc = "nonzero"
                           /\ ~Beyond(cs) => pl = "exited"

\* thriftgo never waits for the plugin once the timer has fired and the plugin is gone
Done == tg = "done"
=============================================================================
