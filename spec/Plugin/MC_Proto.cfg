SPECIFICATION MSpec
CONSTANTS
  Names = {"a", "b"}
  Contents <- cContents
  Points = {"p"}
  Texts = {"P"}
  FreshPool = {"a_1", "b_1", "a_2", "b_2"}
  MaxItems = 2
INVARIANTS MTypeOK MHonoured MNoOrphan MFileManager MNoStuck Emit
CHECK_DEADLOCK FALSE
