SPECIFICATION Spec
CONSTANTS
  MaxN = 4
INVARIANTS Correct Emit
CHECK_DEADLOCK FALSE
