------------------------------- MODULE Naming -------------------------------
(***************************************************************************)
(* C01, the collision machinery of thriftgo's Go backend.                  *)
(*                                                                         *)
(* Layer B (transcription of the code):                                    *)
(*   pkg/namespace/namespace.go      Add / Reserve / MustReserve           *)
(*   generator/golang/scope_internal.go                                    *)
(*       installNames   services -> struct-likes -> enums -> typedefs ->   *)
(*                      constants, each in source order                    *)
(*       identify       styles.Identify + the compatible_names suffix      *)
(*       buildService / buildFunction / buildStructLike / buildEnum /      *)
(*       buildTypedef / buildConstant                                      *)
(* The case conversion itself (package styles, common.LowerFirstRune) is   *)
(* NOT modelled: Ident/Lower/... are constant tables filled by calling the *)
(* real code for the alphabet (harness `inproc naming`).                   *)
(*                                                                         *)
(* Layer A (the property): the Go program that the templates print from    *)
(* these names declares no identifier twice in one Go scope.  `decl` is    *)
(* the set of declarations [sc, id, org] the templates make (package       *)
(* block, field+method set of a struct type, method set of an interface,   *)
(* parameter/result/local block of a generated method, plus the universe   *)
(* identifiers the generated bodies use and a parameter must not shadow).  *)
(* NoClash says that (sc, id) determines org.  It is evaluated on every    *)
(* completed behaviour and the result is EXPORTED with the case: a clash   *)
(* is a candidate that becomes an IDL program for the lab; the verdict is  *)
(* the Go type checker's.  Invariants that must hold of the transcription  *)
(* itself (NSConsistent, RefIntegrity, ProbeBounded) are checked by TLC.   *)
(***************************************************************************)
EXTENDS Integers, Sequences, FiniteSets, TLC, Json

\* Tables written by lib/c01_naming.py from the real code (harness `inproc naming`).
\*   T.raw            the shape alphabet (raw IDL identifiers), shared by all plan entries
\*   T.styles[s]      per naming profile (option list given to the real HandleOptions): ident, lower, pfxNew, sfxArgs,
\*                    sfxResult, argsAn, argsId, resAn, resId, compat
\*   T.plan[e]        one model run: [style, feat, family, k, pkgNames, fieldNames, paramNames, fnNames]
\* One TLC run explores every plan entry (variable ent, fixed in Init).
T == JsonDeserialize("naming_tables.json")
Raw      == T.raw
Plan     == T.plan
Keywords == {T.keywords[i] : i \in 1..Len(T.keywords)}    \* generator/golang/types.go isKeywords
IdlName  == T.idlName    \* base name of the IDL file and ToCamel of it (reflection file-level names)
IdlCamel == T.idlCamel
Helper   == T.helper     \* raw name of the neutral helper definition
\* which names of generated methods buildStructLike/buildService/buildFunction reserve, observed from the real code on a
\* probe program (lib/c01_naming.py probe_reserved): [initDefault, countT, reflection, fieldMask, clientMethod, nilParam]
Rsv      == T.reserved
IdxSet(s) == {s[i] : i \in 1..Len(s)}

CONSTANTS
  MaxProbe    \* bound on the rename loop of Add (ProbeBounded says it is never reached)

VARIABLES ent, pc, draft, defs, at, globals, res, decl, panic, ren

vars == <<ent, pc, draft, defs, at, globals, res, decl, panic, ren>>

P         == Plan[ent]
S         == T.styles[P.style]
Ident     == S.ident      \* Ident[i] = CodeUtils.Identify(Raw[i])                       (real code)
Lower     == S.lower      \* Lower[i] = common.LowerFirstRune(Ident[i])                  (real code)
PfxNew    == S.pfxNew     \* strings.HasPrefix(Ident[i], "New")
SfxArgs   == S.sfxArgs    \* strings.HasSuffix(Ident[i], "Args")
SfxResult == S.sfxResult  \* strings.HasSuffix(Ident[i], "Result")
ArgsAn    == S.argsAn     \* [i][j]: an = Raw[i] \o Identify("$" \o Raw[j] \o "_args")   (real code)
ArgsId    == S.argsId     \* [i][j]: Identify("$" \o an)
ResAn     == S.resAn      \* the same for "_result"
ResId     == S.resId
Compat    == S.compat     \* feature compatible_names (as the real HandleOptions sets it)
Feat      == P.feat       \* [setter, deepEqual, unknown, reflection, fieldMask, halfway, noProcessor, enumAnno, fastgo : BOOLEAN]
Family    == P.family     \* "package" | "struct" | "function" | "service"
K         == P.k          \* max number of names drawn per scope
PkgNames   == IdxSet(P.pkgNames)      \* index sets into Raw: the alphabets
FieldNames0 == IdxSet(P.fieldNames)
ParamNames == IdxSet(P.paramNames)
FnNames    == IdxSet(P.fnNames)

Kinds == {"service", "struct", "union", "exception", "enum", "tdstruct", "tdbase", "const"}
\* installNames order: group rank, then source order
Rank(k) == CASE k = "service" -> 1 [] k = "struct" -> 2 [] k = "union" -> 3 [] k = "exception" -> 4
             [] k = "enum" -> 5 [] k \in {"tdstruct", "tdbase"} -> 6 [] k = "const" -> 7

-----------------------------------------------------------------------------
(* pkg/namespace/namespace.go *)

EmptyMap == [x \in {} |-> ""]
NS0 == [n2i |-> EmptyMap, i2n |-> EmptyMap]

RECURSIVE Us(_)
Us(c) == IF c = 0 THEN "" ELSE "_" \o Us(c - 1)          \* namespace.UnderscoreSuffix

Has(ns, name) == name \in DOMAIN ns.n2i

\* the loop of Add: cnt renames until the name is free or already belongs to id
RECURSIVE ProbeCnt(_, _, _, _)
ProbeCnt(ns, name, id, cnt) ==
  LET r == name \o Us(cnt) IN
  IF Has(ns, r) /\ ns.n2i[r] # id /\ cnt < MaxProbe THEN ProbeCnt(ns, name, id, cnt + 1) ELSE cnt

AddName(ns, name, id) == name \o Us(ProbeCnt(ns, name, id, 0))
Bind(ns, name, id) == [n2i |-> (name :> id) @@ ns.n2i, i2n |-> (id :> name) @@ ns.i2n]
Add(ns, name, id) == Bind(ns, AddName(ns, name, id), id)
CanReserve(ns, name) == ~Has(ns, name)
Reserve(ns, name, id) == IF CanReserve(ns, name) THEN Bind(ns, name, id) ELSE ns
Get(ns, id) == IF id \in DOMAIN ns.i2n THEN ns.i2n[id] ELSE ""

\* a sequence of namespace operations [op, name, id]; MustReserve on a taken name panics
RECURSIVE Apply(_, _, _)
Apply(st, ops, k) ==      \* st = [ns, ok]
  IF k > Len(ops) \/ ~st.ok THEN st
  ELSE LET o == ops[k] IN
       IF o.op = "add" THEN Apply([ns |-> Add(st.ns, o.name, o.id), ok |-> TRUE], ops, k + 1)
       ELSE IF CanReserve(st.ns, o.name)
            THEN Apply([ns |-> Bind(st.ns, o.name, o.id), ok |-> TRUE], ops, k + 1)
            ELSE [ns |-> st.ns, ok |-> FALSE]
OpAdd(n, i) == [op |-> "add", name |-> n, id |-> i]
OpMust(n, i) == [op |-> "must", name |-> n, id |-> i]

NSConsistent(ns) == \A id \in DOMAIN ns.i2n : Has(ns, ns.i2n[id]) /\ ns.n2i[ns.i2n[id]] = id

-----------------------------------------------------------------------------
(* Scope.identify *)

CompatHit(i) == Compat /\ (PfxNew[i] \/ SfxArgs[i] \/ SfxResult[i])
Identify(i) == IF CompatHit(i) THEN Ident[i] \o "_" ELSE Ident[i]
LowerIdentify(i) == IF CompatHit(i) THEN Lower[i] \o "_" ELSE Lower[i]

Id2Str(n) == IF n < 0 THEN "_" \o ToString(-n) ELSE ToString(n)

D(sc, id, org) == [sc |-> sc, id |-> id, org |-> org]

SeqToSet(s) == {s[i] : i \in 1..Len(s)}
RECURSIVE Flatten(_, _)
Flatten(ss, k) == IF k > Len(ss) THEN <<>> ELSE ss[k] \o Flatten(ss, k + 1)

-----------------------------------------------------------------------------
(* buildStructLike.  v = [raw (v.Name), nn (the name ids are made of), sn0 (identify(nn)),
   cat, synth, fields: Seq([n (Raw index), id (field id), isset (SupportIsSet)])] *)

BuiltinFuncs(v, sn) ==
  <<"Read", "Write", "String">> \o
  (IF Rsv.initDefault THEN <<"InitDefault">> ELSE <<>>) \o
  (IF v.synth THEN <<>> ELSE
     (IF v.cat = "union" THEN <<"CountSetFields">> \o (IF Rsv.countT THEN <<"CountSetFields" \o sn>> ELSE <<>>) ELSE <<>>) \o
     (IF Rsv.reflection /\ Feat.reflection THEN <<"GetDescriptor", "GetTypeDescriptor">> ELSE <<>>) \o
     (IF Rsv.fieldMask /\ Feat.fieldMask THEN <<"Get_FieldMask", "Set_FieldMask", "Pass_FieldMask">> ELSE <<>>) \o
     (IF v.cat = "exception" THEN <<"Error">> ELSE <<>>) \o
     (IF Feat.unknown THEN <<"CarryingUnknownFields">> ELSE <<>>) \o
     (IF Feat.deepEqual THEN <<"DeepEqual">> ELSE <<>>))

MethodOps(f) ==
  LET fn == Identify(f.n)  id == Id2Str(f.id)  r == Raw[f.n] IN
  <<OpAdd("Get" \o fn, "$get:" \o r)>> \o
  (IF Feat.setter THEN <<OpAdd("Set" \o fn, "$set:" \o r)>> ELSE <<>>) \o
  (IF f.isset THEN <<OpAdd("IsSet" \o fn, "$isset:" \o r)>> ELSE <<>>) \o
  <<OpAdd("ReadField" \o id, "$read:" \o id), OpAdd("writeField" \o id, "$write:" \o id)>> \o
  (IF Feat.deepEqual THEN <<OpAdd("Field" \o id \o "DeepEqual", "$deepequal:" \o id)>> ELSE <<>>)

\* field names, one Add each; the accessor names are read back with Get at that moment
RECURSIVE FieldNames(_, _, _, _)
FieldNames(ns, fields, k, acc) ==
  IF k > Len(fields) THEN [ns |-> ns, fs |-> acc]
  ELSE LET f == fields[k]  r == Raw[f.n]  id == Id2Str(f.id)
           ns2 == Add(ns, Identify(f.n), r)
           fr == [raw |-> r, name |-> Get(ns2, r), getter |-> Get(ns2, "$get:" \o r),
                  setter |-> Get(ns2, "$set:" \o r), isset |-> Get(ns2, "$isset:" \o r),
                  reader |-> Get(ns2, "$read:" \o id), writer |-> Get(ns2, "$write:" \o id),
                  deq |-> Get(ns2, "$deepequal:" \o id), hasIsset |-> f.isset, fid |-> f.id]
       IN FieldNames(ns2, fields, k + 1, Append(acc, fr))

\* what the StructLike template (+ reflection template, fastgo backend) declares for one struct-like
StructDecls(v, sn, fs) ==
  LET sc == "T:" \o sn
      o(x) == x \o "@" \o v.raw IN
  {D("pkg", sn, o("type")), D("pkg", "New" \o sn, o("ctor")), D("pkg", "fieldIDToName_" \o sn, o("idmap"))}
  \cup {D("pkg", sn \o "_" \o fs[i].name \o "_DEFAULT", o("default:" \o ToString(i))) : i \in {j \in 1..Len(fs) : fs[j].hasIsset}}
  \cup {D(sc, fs[i].name, o("field:" \o ToString(i))) : i \in 1..Len(fs)}
  \cup {D(sc, fs[i].getter, o("getter:" \o ToString(i))) : i \in 1..Len(fs)}
  \cup (IF Feat.setter THEN {D(sc, fs[i].setter, o("setter:" \o ToString(i))) : i \in 1..Len(fs)} ELSE {})
  \cup {D(sc, fs[i].isset, o("isset:" \o ToString(i))) : i \in {j \in 1..Len(fs) : fs[j].hasIsset}}
  \cup {D(sc, fs[i].reader, o("reader:" \o ToString(i))) : i \in 1..Len(fs)}
  \cup {D(sc, fs[i].writer, o("writer:" \o ToString(i))) : i \in 1..Len(fs)}
  \cup (IF Feat.deepEqual /\ ~v.synth THEN {D(sc, fs[i].deq, o("deq:" \o ToString(i))) : i \in 1..Len(fs)}
                                           \cup {D(sc, "DeepEqual", o("m:DeepEqual"))} ELSE {})
  \cup {D(sc, m, o("m:" \o m)) : m \in {"Read", "Write", "String", "InitDefault"}}
  \cup (IF v.cat = "union" THEN {D(sc, "CountSetFields" \o sn, o("m:CountSetFields"))} ELSE {})
  \cup (IF v.cat = "exception" THEN {D(sc, "Error", o("m:Error"))} ELSE {})
  \cup (IF Feat.unknown THEN {D(sc, "CarryingUnknownFields", o("m:CarryingUnknownFields")),
                              D(sc, "_unknownFields", o("f:_unknownFields"))} ELSE {})
  \cup (IF Feat.fieldMask /\ ~v.synth
          THEN {D(sc, "Get_FieldMask", o("m:Get_FieldMask")), D(sc, "Set_FieldMask", o("m:Set_FieldMask")),
                D(sc, "_fieldmask", o("f:_fieldmask"))}
               \cup (IF Feat.halfway THEN {D(sc, "Pass_FieldMask", o("m:Pass_FieldMask"))} ELSE {})
          ELSE {})
  \cup (IF Feat.reflection /\ ~v.synth
          THEN {D(sc, "GetDescriptor", o("m:GetDescriptor")), D(sc, "GetTypeDescriptor", o("m:GetTypeDescriptor"))}
          ELSE {})
  \cup (IF Feat.fastgo
          THEN {D(sc, m, o("m:" \o m)) : m \in {"BLength", "FastRead", "FastWrite", "FastWriteNocopy", "FastAppend"}}
          ELSE {})

BuildStructLike(g, v) ==
  LET cnt == ProbeCnt(g, v.sn0, v.raw, 0)
      sn  == v.sn0 \o Us(cnt)
      st  == Apply([ns |-> Bind(g, sn, v.raw), ok |-> TRUE],
                   <<OpMust("New" \o sn, "$new:" \o v.nn), OpMust("fieldIDToName_" \o sn, "$ids:" \o v.nn)>>, 1)
      bf  == BuiltinFuncs(v, sn)
      s0  == Apply([ns |-> NS0, ok |-> TRUE], [i \in 1..Len(bf) |-> OpMust(bf[i], "$" \o bf[i])], 1)
      s1  == Apply(s0, Flatten([i \in 1..Len(v.fields) |-> MethodOps(v.fields[i])], 1), 1)
      fr  == FieldNames(s1.ns, v.fields, 1, <<>>)
  IN [g |-> st.ns, ok |-> st.ok /\ s0.ok, probe |-> cnt,
      out |-> [kind |-> v.cat, raw |-> v.raw, name |-> sn, synth |-> v.synth, fields |-> fr.fs],
      scope |-> fr.ns,
      decl |-> StructDecls(v, sn, fr.fs)]

UserStruct(d) == [raw |-> Raw[d.n], nn |-> Raw[d.n], sn0 |-> Identify(d.n), cat |-> d.k, synth |-> FALSE, fields |-> d.fs]

-----------------------------------------------------------------------------
(* buildFunction: the parameter namespace of one method *)

ParamName(a) == LET n == LowerIdentify(a.n) IN IF n \in Keywords \/ (Rsv.nilParam /\ n = "nil") THEN "_" \o n ELSE n

BuildFunction(fn) ==
  LET s0 == Apply([ns |-> NS0, ok |-> TRUE],
                  <<OpMust("p", "$p"), OpMust("err", "$err"), OpMust("ctx", "$ctx")>> \o
                  (IF fn.void THEN <<>> ELSE <<OpMust("r", "$r"), OpMust("_result", "$_result")>>), 1)
      ops == [i \in 1..Len(fn.args) |-> OpAdd(ParamName(fn.args[i]), Raw[fn.args[i].n])] \o
             [i \in 1..Len(fn.throws) |-> OpAdd(ParamName(fn.throws[i]), Raw[fn.throws[i].n])]
  IN Apply(s0, ops, 1)

\* the block of the generated client method (signature + body) and of the interface method
FuncDecls(sc, fn, ns) ==
  LET o(x) == x \o "@" \o sc IN
  {D(sc, "p", o("recv")), D(sc, "ctx", o("ctx")), D(sc, "err", o("err")), D(sc, "_args", o("local:_args")),
   D(sc, "nil", o("uses:nil"))}
  \cup (IF fn.void THEN {} ELSE {D(sc, "r", o("r"))})
  \cup (IF fn.oneway THEN {} ELSE {D(sc, "_result", o("local:_result"))})
  \cup {D(sc, Get(ns, Raw[fn.args[i].n]), o("arg:" \o ToString(i))) : i \in 1..Len(fn.args)}

-----------------------------------------------------------------------------
(* buildService *)

\* svc = [n (Raw index), fns: Seq([n, void, oneway, args, throws])]
RECURSIVE SvcFuncNames(_, _, _, _)
SvcFuncNames(ns, fns, k, acc) ==
  IF k > Len(fns) THEN [ns |-> ns, names |-> acc]
  ELSE LET ns2 == Add(ns, Identify(fns[k].n), Raw[fns[k].n])
       IN SvcFuncNames(ns2, fns, k + 1, Append(acc, Get(ns2, Raw[fns[k].n])))

SuccessField == [n |-> CHOOSE i \in 1..Len(Raw) : Raw[i] = "success", id |-> 0, isset |-> TRUE]

ArgStruct(s, f) == [raw |-> Raw[f.n] \o "_args", nn |-> "$" \o ArgsAn[s.n][f.n], sn0 |-> ArgsId[s.n][f.n],
                    cat |-> "struct", synth |-> TRUE, fields |-> f.args]
ResStruct(s, f) == [raw |-> Raw[f.n] \o "_result", nn |-> "$" \o ResAn[s.n][f.n], sn0 |-> ResId[s.n][f.n],
                    cat |-> "struct", synth |-> TRUE,
                    fields |-> (IF f.void THEN <<>> ELSE <<SuccessField>>) \o
                               [i \in 1..Len(f.throws) |-> [f.throws[i] EXCEPT !.isset = TRUE]]]

\* the per-function part of buildService, in function order: args struct, result struct, parameter scope
RECURSIVE SvcFunctions(_, _, _, _, _)
SvcFunctions(st, s, sn, fnames, k) ==     \* st = [g, ok, decl, outs, probe]
  IF k > Len(s.fns) \/ ~st.ok THEN st
  ELSE LET f == s.fns[k]
           a == BuildStructLike(st.g, ArgStruct(s, f))
           r == IF f.oneway \/ ~a.ok THEN [g |-> a.g, ok |-> a.ok, decl |-> {}, out |-> [name |-> ""], probe |-> 0]
                ELSE BuildStructLike(a.g, ResStruct(s, f))
           p == BuildFunction(f)
           sc == "F:" \o sn \o "." \o fnames[k]
       IN SvcFunctions([g |-> r.g, ok |-> a.ok /\ r.ok /\ p.ok,
                        decl |-> st.decl \cup a.decl \cup r.decl \cup FuncDecls(sc, f, p.ns),
                        outs |-> Append(st.outs, [raw |-> Raw[f.n], name |-> fnames[k], args |-> a.out, res |-> r.out,
                                                  params |-> [i \in 1..Len(f.args) |-> Get(p.ns, Raw[f.args[i].n])]]),
                        probe |-> IF a.probe > st.probe THEN a.probe ELSE IF r.probe > st.probe THEN r.probe ELSE st.probe],
                       s, sn, fnames, k + 1)

BuildService(g, s) ==
  LET raw == Raw[s.n]
      cnt == ProbeCnt(g, Identify(s.n), raw, 0)
      sn  == Identify(s.n) \o Us(cnt)
      lsn == LowerIdentify(s.n) \o Us(cnt)                \* Unexport(sn)
      g1  == Bind(g, sn, raw)
      fnn == SvcFuncNames(IF Rsv.clientMethod /\ ~Feat.noProcessor THEN Bind(NS0, "Client_", "$Client_") ELSE NS0, s.fns, 1, <<>>)
      st  == SvcFunctions([g |-> g1, ok |-> TRUE, decl |-> {}, outs |-> <<>>, probe |-> cnt], s, sn, fnn.names, 1)
      fin == IF st.ok THEN Apply([ns |-> st.g, ok |-> TRUE],
                                 <<OpMust(sn \o "Client", "$client:" \o raw), OpMust(sn \o "Processor", "$processor:" \o raw)>>, 1)
             ELSE [ns |-> st.g, ok |-> FALSE]
      o(x) == x \o "@" \o raw
      proc == IF Feat.noProcessor THEN {} ELSE
                {D("pkg", sn \o "Client", o("client")), D("pkg", "New" \o sn \o "ClientFactory", o("clientFactory")),
                 D("pkg", "New" \o sn \o "ClientProtocol", o("clientProtocol")), D("pkg", "New" \o sn \o "Client", o("newClient")),
                 D("pkg", sn \o "Processor", o("processor")), D("pkg", "New" \o sn \o "Processor", o("newProcessor")),
                 D("C:" \o sn, "c", o("f:c")), D("C:" \o sn, "Client_", o("m:Client_"))}
                \cup {D("pkg", lsn \o "Processor" \o fnn.names[i], o("procFunc:" \o ToString(i))) : i \in 1..Len(s.fns)}
                \cup {D("C:" \o sn, fnn.names[i], o("call:" \o ToString(i))) : i \in 1..Len(s.fns)}
  IN [g |-> fin.ns, ok |-> fin.ok, probe |-> st.probe,
      out |-> [kind |-> "service", raw |-> raw, name |-> sn, fns |-> st.outs],
      decl |-> st.decl \cup proc \cup {D("pkg", sn, o("iface"))}
               \cup {D("I:" \o sn, fnn.names[i], o("sig:" \o ToString(i))) : i \in 1..Len(s.fns)}]

-----------------------------------------------------------------------------
(* buildEnum / buildTypedef / buildConstant *)

RECURSIVE EnumValues(_, _, _, _, _)
EnumValues(ns, en, vals, k, acc) ==
  IF k > Len(vals) THEN acc
  ELSE LET ns2 == Add(ns, en \o "_" \o Raw[vals[k]], Raw[vals[k]])
       IN EnumValues(ns2, en, vals, k + 1, Append(acc, Get(ns2, Raw[vals[k]])))

BuildEnum(g, d) ==
  LET raw == Raw[d.n]
      cnt == ProbeCnt(g, Identify(d.n), raw, 0)
      en  == Identify(d.n) \o Us(cnt)
      vs  == EnumValues(NS0, en, d.vals, 1, <<>>)
      o(x) == x \o "@" \o raw
  IN [g |-> Bind(g, en, raw), ok |-> TRUE, probe |-> cnt,
      out |-> [kind |-> "enum", raw |-> raw, name |-> en, values |-> vs],
      decl |-> {D("pkg", en, o("type")), D("pkg", en \o "FromString", o("fromString")), D("pkg", en \o "Ptr", o("ptr"))}
               \cup {D("pkg", vs[i], o("value:" \o ToString(i))) : i \in 1..Len(vs)}
               \cup (IF Feat.enumAnno THEN {D("pkg", "annotations_" \o en, o("annotations"))} ELSE {})]

BuildTypedef(g, d) ==
  LET raw == Raw[d.n]
      cnt == ProbeCnt(g, Identify(d.n), raw, 0)
      tn  == Identify(d.n) \o Us(cnt)
      g1  == Bind(g, tn, raw)
      st  == IF d.k = "tdstruct" THEN Apply([ns |-> g1, ok |-> TRUE], <<OpMust("New" \o tn, "$new:" \o raw)>>, 1)
             ELSE [ns |-> g1, ok |-> TRUE]
      o(x) == x \o "@" \o raw
  IN [g |-> st.ns, ok |-> st.ok, probe |-> cnt,
      out |-> [kind |-> d.k, raw |-> raw, name |-> tn],
      decl |-> {D("pkg", tn, o("type"))} \cup (IF d.k = "tdstruct" THEN {D("pkg", "New" \o tn, o("ctor"))} ELSE {})]

BuildConstant(g, d) ==
  LET raw == Raw[d.n]
      cnt == ProbeCnt(g, Identify(d.n), raw, 0)
      cn  == Identify(d.n) \o Us(cnt)
  IN [g |-> Bind(g, cn, raw), ok |-> TRUE, probe |-> cnt,
      out |-> [kind |-> "const", raw |-> raw, name |-> cn],
      decl |-> {D("pkg", cn, "const@" \o raw)}]

\* file-level names that do not come from a definition
FileDecls ==
  (IF Feat.reflection
     THEN {D("pkg", "file_" \o IdlName \o "_thrift_go_types", "file:goTypes"), D("pkg", "file_" \o IdlName \o "_thrift", "file:desc"),
           D("pkg", "file_idl_" \o IdlName \o "_rawDesc", "file:rawDesc"),
           D("pkg", "GetFileDescriptorFor" \o IdlCamel, "file:getDescriptor")}
     ELSE {})
  \cup (IF Feat.fastgo THEN {D("pkg", "ThriftGoUnusedProtection", "file:unusedProtection")} ELSE {})

-----------------------------------------------------------------------------
(* The universe: programs (one Go package scope) as sequences of definitions in installNames order *)

XIdx == CHOOSE i \in 1..Len(Raw) : Raw[i] = "x"
HelperIdx == CHOOSE i \in 1..Len(Raw) : Raw[i] = Helper
FieldX == [n |-> XIdx, id |-> 1, isset |-> TRUE]               \* `1: optional i32 x`
Fn0(j) == [n |-> j, void |-> TRUE, oneway |-> FALSE, args |-> <<>>, throws |-> <<>>]
AIdx == CHOOSE i \in 1..Len(Raw) : Raw[i] = "A"
BarIdx == CHOOSE j \in 1..Len(Raw) : Raw[j] = "bar"

Def(k, n) == [k |-> k, n |-> n,
              fs |-> IF k \in {"struct", "union", "exception"} THEN <<FieldX>> ELSE <<>>,
              fns |-> IF k = "service" THEN <<Fn0(BarIdx)>> ELSE <<>>,
              vals |-> IF k = "enum" THEN <<AIdx>> ELSE <<>>]

\* struct family: one struct-like with the drafted fields (second field has a negative id; odd fields are optional)
StructDef(cat, fsq) == [k |-> cat, n |-> HelperIdx,
                        fs |-> [i \in 1..Len(fsq) |-> [n |-> fsq[i], id |-> IF i = 2 THEN -2 ELSE i, isset |-> (cat = "union" \/ i % 2 = 1)]],
                        fns |-> <<>>, vals |-> <<>>]
\* function family: service Helper with one function `bar`; the first na drafted names are arguments, the rest throws
FuncDef(psq, na, void) ==
  LET mk(i) == [n |-> psq[i], id |-> i, isset |-> FALSE]
      fn == [n |-> BarIdx, void |-> void, oneway |-> FALSE,
             args |-> [i \in 1..na |-> mk(i)], throws |-> [i \in 1..(Len(psq) - na) |-> mk(na + i)]]
  IN [k |-> "service", n |-> HelperIdx, fs |-> <<>>, fns |-> <<fn>>, vals |-> <<>>]
\* service family: service Helper with the drafted function names (odd ones void)
SvcDef(fsq) == [k |-> "service", n |-> HelperIdx, fs |-> <<>>,
                fns |-> [i \in 1..Len(fsq) |-> [Fn0(fsq[i]) EXCEPT !.void = (i % 2 = 1)]], vals |-> <<>>]

Init == /\ ent \in 1..Len(Plan)
        /\ pc = "pick" /\ draft = <<>> /\ defs = <<>> /\ at = 1 /\ globals = NS0 /\ res = <<>> /\ decl = {} /\ panic = FALSE /\ ren = 0

\* the drafted names: (kind, name) pairs in installNames order for the package family, names otherwise; all distinct
Items == IF Family = "package" THEN {[k |-> k, n |-> n] : k \in Kinds, n \in PkgNames}
         ELSE {[k |-> "", n |-> n] : n \in (CASE Family = "struct" -> FieldNames0 [] Family = "function" -> ParamNames
                                                [] OTHER -> FnNames)}
PickName == /\ pc = "pick" /\ Len(draft) < K
            /\ \E it \in Items :
                 /\ \A i \in 1..Len(draft) : draft[i].n # it.n
                 /\ (Family = "package" /\ Len(draft) > 0) => Rank(draft[Len(draft)].k) <= Rank(it.k)
                 /\ draft' = Append(draft, it)
            /\ UNCHANGED <<ent, pc, defs, at, globals, res, decl, panic, ren>>

Names(d) == [i \in 1..Len(d) |-> d[i].n]
Programs(d) ==
  CASE Family = "package"  -> {[i \in 1..Len(d) |-> Def(d[i].k, d[i].n)]}
    [] Family = "struct"   -> {<<StructDef(cat, Names(d))>> : cat \in {"struct", "union", "exception"}}
    [] Family = "function" -> {<<FuncDef(Names(d), na, void)>> : na \in {x \in 0..Len(d) : Len(d) - x <= 2}, void \in BOOLEAN}
    [] OTHER               -> {<<SvcDef(Names(d))>>}

Start == /\ pc = "pick" /\ Len(draft) > 0
         /\ \E prog \in Programs(draft) : defs' = prog
         /\ pc' = "build"
         /\ decl' = FileDecls
         /\ draft' = <<>>
         /\ UNCHANGED <<ent, at, globals, res, panic, ren>>

Step(b) == /\ globals' = b.g
           /\ panic' = ~b.ok
           /\ res' = Append(res, b.out)
           /\ decl' = decl \cup b.decl
           /\ at' = at + 1
           /\ ren' = ren + b.probe          \* b.probe: the largest number of renames one Add needed in this step
           /\ Assert(b.probe < MaxProbe, "ProbeBounded")
           /\ UNCHANGED <<ent, pc, draft, defs>>

Building == pc = "build" /\ ~panic /\ at <= Len(defs)
\* (\E b \in {e} makes TLC evaluate the builder once per step)
DoService    == Building /\ defs[at].k = "service" /\ \E b \in {BuildService(globals, defs[at])} : Step(b)
DoStructLike == Building /\ defs[at].k \in {"struct", "union", "exception"}
                         /\ \E b \in {BuildStructLike(globals, UserStruct(defs[at]))} : Step(b)
DoEnum       == Building /\ defs[at].k = "enum" /\ \E b \in {BuildEnum(globals, defs[at])} : Step(b)
DoTypedef    == Building /\ defs[at].k \in {"tdstruct", "tdbase"} /\ \E b \in {BuildTypedef(globals, defs[at])} : Step(b)
DoConstant   == Building /\ defs[at].k = "const" /\ \E b \in {BuildConstant(globals, defs[at])} : Step(b)

Finish == /\ pc = "build" /\ (panic \/ at > Len(defs))
          /\ pc' = "done"
          /\ UNCHANGED <<ent, draft, defs, at, globals, res, decl, panic, ren>>

Next == PickName \/ Start
        \/ DoService \/ DoStructLike \/ DoEnum \/ DoTypedef \/ DoConstant \/ Finish

Spec == Init /\ [][Next]_vars

-----------------------------------------------------------------------------
(* Layer A and the checked invariants *)

Keys == {<<d.sc, d.id>> : d \in decl}
NoClash == Cardinality(Keys) = Cardinality(decl)
Clashes == {[sc |-> k[1], id |-> k[2], orgs |-> {d.org : d \in {e \in decl : e.sc = k[1] /\ e.id = k[2]}}] :
              k \in {kk \in Keys : Cardinality({e \in decl : e.sc = kk[1] /\ e.id = kk[2]}) > 1}}

\* design-level invariants of the transcription (checked, must hold)
GlobalsConsistent == NSConsistent(globals)
\* a reference to a user type resolves (Scope.globals.Get(raw name)) to the Go name given to that type
RefIntegrity == (pc = "done" /\ ~panic) =>
                  \A i \in 1..Len(defs) : defs[i].k \in {"struct", "union", "exception", "enum", "tdstruct", "tdbase"}
                                            => Get(globals, Raw[defs[i].n]) = res[i].name
\* names given by one namespace to the definitions themselves never coincide (what Add guarantees)
DirectNamesDistinct == \A i, j \in 1..Len(res) : i # j => res[i].name # res[j].name

\* Export: every completed behaviour with a clash or a panic, and a 1-in-P.sample selection of the others
\* (a fixed arithmetic selection over the drafted names); the rest is only counted ("N <entry>").
FnIdxs(f) == <<f.n>> \o [j \in 1..Len(f.args) |-> f.args[j].n] \o [j \in 1..Len(f.throws) |-> f.throws[j].n + 1]
DefIdxs(d) == <<d.n + Rank(d.k)>> \o [j \in 1..Len(d.fs) |-> d.fs[j].n] \o Flatten([j \in 1..Len(d.fns) |-> FnIdxs(d.fns[j])], 1)
RECURSIVE Mix(_, _)
Mix(sq, k) == IF k > Len(sq) THEN 0 ELSE (sq[k] * (31 + 6 * k) + Mix(sq, k + 1)) % 9973
Selected == P.sample = 1 \/ Mix(Flatten([i \in 1..Len(defs) |-> DefIdxs(defs[i])], 1), 1) % P.sample = 0
Emit == pc = "done" =>
          IF panic \/ ~NoClash \/ (ren > 0 /\ P.sample = 1) \/ Selected
          THEN PrintT("CASE " \o ToJson([e |-> ent, defs |-> defs, res |-> res, panic |-> panic, clash |-> ~NoClash /\ ~panic,
                                         ren |-> ren, clashes |-> IF NoClash \/ panic THEN {} ELSE Clashes]))
          ELSE PrintT("N " \o ToString(ent))
=============================================================================
