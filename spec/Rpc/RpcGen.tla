------------------------------- MODULE RpcGen -------------------------------
(***************************************************************************)
(* Exhaustive exploration of the Rpc machine over a bounded universe and   *)
(* case generation.  A plan fixes the service on the connection, the       *)
(* methods the client may call, the number of requests and how many        *)
(* argument / result values are tried; TLC enumerates plans x call         *)
(* sequences x argument values x handler outcomes x server lag, checks the *)
(* invariants of Rpc.tla in every state and emits every quiescent history  *)
(* (the case replayed into the generated code) with the caller-visible     *)
(* results and the handler-visible arguments the specification predicts.   *)
(***************************************************************************)
EXTENDS Rpc

Plans == JsonDeserialize("plans.json")
\* << [svc, methods |-> << <<service, method>> >>, max, vals |-> 0 (all) | n, raw |-> BOOLEAN (unknown method injected),
\*     rawknown |-> BOOLEAN (known methods injected with perturbed argument encodings)] >>

RECURSIVE Take(_, _)
Take(S, n) == IF n = 0 \/ S = {} THEN {} ELSE LET x == CHOOSE x \in S : TRUE IN {x} \cup Take(S \ {x}, n - 1)

Atoms(t) == CASE t.n = "bool" -> {"b:0", "b:1"}
              [] t.n \in {"byte", "i8"} -> {"i8:0", "i8:-128", "i8:127"}
              [] t.n = "i16" -> {"i16:0", "i16:-32768", "i16:258"}
              [] t.n = "i32" -> {"i32:0", "i32:7", "i32:-2147483648"}
              [] t.n = "i64" -> {"i64:0", "i64:9223372036854775807", "i64:-9223372036854775808"}
              [] t.n = "double" -> {"dbl:0", "dbl:1.5", "dbl:nan", "dbl:-inf"}
              [] t.n = "string" -> {"str:", "str:a", "str:h\\u00e9 \\\"q\\\""}
              [] t.n = "binary" -> {"bin:", "bin:00ff80"}
              [] t.n = "enum" -> {"i32:" \o ToString(Schema.enums[t.e][i]) : i \in 1..Len(Schema.enums[t.e])} \cup {"i32:77"}

KeyOK(v) == ~(IsAtom(v) /\ v.a = "dbl:nan")

RECURSIVE Vals(_, _), Prod(_, _, _, _)
FieldVals(f, d, n) ==
  (IF n = 0 THEN Vals(f.type, d) ELSE Take(Vals(f.type, d), n))
  \cup (IF ~IsScalar(f.type) \/ (f.req = "optional" /\ NoDef(f)) THEN {NIL} ELSE {})
Prod(s, i, d, n) ==
  IF i > Len(Fields(s)) THEN {<<>>}
  ELSE {(Fields(s)[i].name :> x) @@ r : x \in FieldVals(Fields(s)[i], d, n), r \in Prod(s, i + 1, d, n)}
Vals(t, d) ==
  CASE IsScalar(t) -> {[a |-> x] : x \in Atoms(t)}
    [] t.n = "list" -> LET E == Take(Vals(t.v, d), 2) IN
         {[l |-> <<>>]} \cup {[l |-> <<e>>] : e \in E} \cup {[l |-> <<e1, e2>>] : e1 \in E, e2 \in E}
    [] t.n = "set" -> LET E == Take({e \in Vals(t.v, d) : KeyOK(e)}, 2) IN
         {[l |-> <<>>]} \cup {[l |-> <<e>>] : e \in E} \cup {[l |-> <<q[1], q[2]>>] : q \in {p \in E \X E : p[1] # p[2]}}
    [] t.n = "map" -> LET K == Take({e \in Vals(t.k, d) : KeyOK(e)}, 2)
                          V == Take(Vals(t.v, d), 2) IN
         {[m |-> <<>>]} \cup {[m |-> <<<<k, v>>>>] : k \in K, v \in V}
           \cup {[m |-> <<<<q[1], v1>>, <<q[2], v2>>>>] : q \in {p \in K \X K : p[1] # p[2]}, v1 \in V, v2 \in Take(V, 1)}
    [] t.n = "struct" -> IF d = 0 THEN {} ELSE Take({[s |-> g] : g \in Prod(t.s, 1, d - 1, 2)}, 3)

VARIABLE plan
P == Plans[plan]

Cap(S, n) == IF n = 0 THEN S ELSE Take(S, n)
ArgVals(r) == Cap({[s |-> g] : g \in Prod(Meth(r).args, 1, 2, IF P.vals = 0 THEN 3 ELSE 2)}, IF P.vals = 0 THEN 12 ELSE P.vals)
RetVals(m) == Cap(Vals(m.ret, 2) \cup (IF IsScalar(m.ret) THEN {} ELSE {NIL}), IF P.vals = 0 THEN 4 ELSE P.vals)
ExcVals(s) == Cap({[s |-> g] : g \in Prod(s, 1, 2, 2)}, IF P.vals = 0 THEN 2 ELSE 1)
Exceptions == {s \in 1..Len(Schema.structs) : Schema.structs[s].kind = "exception"}
Undeclared(m) == Exceptions \ {m.throws[i].s : i \in 1..Len(m.throws)}

Outcomes(m) ==
  (IF m.void THEN {[k |-> "void"]} ELSE {[k |-> "val", v |-> v] : v \in RetVals(m)})
  \cup UNION {{[k |-> "exc", i |-> i, v |-> v] : v \in ExcVals(m.throws[i].s)} : i \in 1..Len(m.throws)}
  \cup (IF m.void \/ P.vals # 0 THEN {}
        ELSE {[k |-> "exc", i |-> i, v |-> CHOOSE v \in ExcVals(m.throws[i].s) : TRUE, also |-> CHOOSE v \in RetVals(m) : TRUE] :
                i \in 1..Len(m.throws)})
  \cup {[k |-> "other", var |-> "plain"]}
  \cup (IF P.vals # 0 THEN {}
        ELSE {[k |-> "other", var |-> "appexc"]}
             \cup {[k |-> "other", var |-> "undeclared", key |-> Schema.structs[s].name, v |-> CHOOSE v \in ExcVals(s) : TRUE] :
                     s \in Take(Undeclared(m), 1)})

RawBody == <<[t |-> "SB"], [t |-> "FB", ty |-> 8, id |-> 1], [t |-> "V", ty |-> 8, a |-> "i32:5"], [t |-> "FE"],
             [t |-> "FB", ty |-> 15, id |-> 2], [t |-> "LB", e |-> 11, n |-> 1], [t |-> "V", ty |-> 11, a |-> "str:zz"], [t |-> "LE"],
             [t |-> "FE"], [t |-> "STOP"], [t |-> "SE"]>>
RawName == "no_such_method"
RawSeq == 77

\* perturbed encodings of a known method's arguments: the server must find arguments by id whatever their order,
\* pass over what it does not know, and refuse a request that lacks a required argument
RECURSIVE ChunksOf(_, _, _), FlatC(_, _)
ChunksOf(s, v, i) == IF i > Len(Fields(s)) THEN <<>>
                     ELSE <<FieldChunk(Fields(s)[i], v.s[Fields(s)[i].name])>> \o ChunksOf(s, v, i + 1)
FlatC(cs, i) == IF i > Len(cs) THEN <<>> ELSE cs[i] \o FlatC(cs, i + 1)
WrapC(cs) == <<[t |-> "SB"]>> \o FlatC(cs, 1) \o <<[t |-> "STOP"], [t |-> "SE"]>>
Rev(cs) == [i \in 1..Len(cs) |-> cs[Len(cs) + 1 - i]]
Without(cs, j) == SubSeq(cs, 1, j - 1) \o SubSeq(cs, j + 1, Len(cs))
UnkChunk == <<[t |-> "FB", ty |-> 12, id |-> 99], [t |-> "SB"], [t |-> "FB", ty |-> 8, id |-> 1],
              [t |-> "V", ty |-> 8, a |-> "i32:5"], [t |-> "FE"], [t |-> "STOP"], [t |-> "SE"], [t |-> "FE"]>>
RawKnown(r) ==
  LET m == Meth(r)
      a == CHOOSE a \in ArgVals(r) : TRUE
      cs == ChunksOf(m.args, a, 1) IN
  {WrapC(Rev(cs)), WrapC(<<UnkChunk>> \o cs)}
  \cup {WrapC(Without(cs, i)) : i \in {j \in 1..Len(cs) : Fields(m.args)[j].req = "required"}}

GInit == plan = 0 /\ Init

On == plan # 0 /\ UNCHANGED plan

PickPlan == plan = 0 /\ \E p \in 1..Len(Plans) : plan' = p /\ Pick(Plans[p].svc)
GSendCall ==
  /\ On /\ Len(reqs) < P.max /\ cli = Idle
  /\ \E j \in 1..Len(P.methods) :
       LET r == <<P.methods[j][1], P.methods[j][2]>> IN
       \E a \in ArgVals(r) : SendCall(r, a, CALL, EncStruct(Meth(r).args, a))
GInjectRaw ==
  /\ On /\ Len(reqs) < P.max /\ cli = Idle /\ P.raw
  /\ \/ InjectRaw(RawName, RawSeq, RawBody)
     \/ /\ P.rawknown
        /\ \E j \in 1..Len(P.methods) :
             LET r == <<P.methods[j][1], P.methods[j][2]>> IN
             \E toks \in RawKnown(r) : InjectRaw(Meth(r).name, RawSeq + j, toks)
GSrvReadHeader == On /\ SrvReadHeader
GSrvSkipUnknown == On /\ SrvSkipUnknown
GSrvUnknownMethod == On /\ SrvUnknownMethod(AppExcToks(UNKNOWN_METHOD))
GSrvReadArgs == On /\ SrvReadArgs
\* raw requests: one outcome of each kind is enough
FewOutcomes(m) ==
  LET O == Outcomes(m) IN
  UNION {Take({o \in O : o.k = kk /\ "also" \notin DOMAIN o /\ ("var" \in DOMAIN o => o.var = "plain")}, 1) :
           kk \in {"val", "void", "exc", "other"}}
GSrvArgsError == On /\ SrvArgsError
GSrvProtocolError == On /\ SrvProtocolError(AppExcToks(PROTOCOL_ERROR))
GSrvArgsErrorSilent == On /\ SrvArgsErrorSilent
GSrvInvoke == /\ On /\ srv.st = "args"
              /\ \E o \in (IF reqs[srv.k].kind = "raw" THEN FewOutcomes(Meth(srv.r)) ELSE Outcomes(Meth(srv.r))) : SrvInvoke(o)
GSrvReply == /\ On /\ srv.st = "done" /\ srv.out.k # "other" /\ ~Meth(srv.r).oneway
             /\ SrvReply(EncStruct(Meth(srv.r).result, ResultValue(Meth(srv.r), srv.out)))
GSrvAppException == On /\ SrvAppException(AppExcToks(INTERNAL_ERROR))
GSrvOnewayDone == On /\ SrvOnewayDone
GCliRecv == On /\ CliRecv

GNext == \/ PickPlan \/ GSendCall \/ GInjectRaw \/ GSrvReadHeader \/ GSrvSkipUnknown \/ GSrvUnknownMethod \/ GSrvReadArgs
         \/ GSrvArgsError \/ GSrvProtocolError \/ GSrvArgsErrorSilent \/ GSrvInvoke \/ GSrvReply \/ GSrvAppException \/ GSrvOnewayDone \/ GCliRecv

gvars == <<plan, vars>>

\* ---- case export
ArgList(c) == LET s == Meth(c.r).args IN [i \in FieldIdx(s) |-> c.a.s[Fields(s)[i].name]]
CaseCall(c) ==
  IF c.kind = "raw"
  THEN [raw |-> c.name, seq |-> c.seq, mt |-> CALL, body |-> c.body, out |-> c.out, exp |-> c.res, seen |-> c.seen,
        known |-> c.r # <<0, 0>>, ds |-> IF c.r # <<0, 0>> THEN Services[c.r[1]].name ELSE ""]
  ELSE [m |-> c.name, ds |-> Services[c.r[1]].name, args |-> ArgList(c), out |-> c.out, lag |-> c.lag,
        exp |-> c.res, seen |-> IF IsNone(c.seen) THEN c.seen ELSE Norm(ArgType(c.r), c.a, FALSE)]

Emit ==
  (plan # 0 /\ Quiescent /\ Len(reqs) >= 1) =>
     PrintT("CASE " \o ToJson([plan |-> plan, svc |-> Services[svc].name, calls |-> [k \in 1..Len(reqs) |-> CaseCall(reqs[k])]]))

\* every request of a quiescent connection has been handled and answered (nothing is lost, nothing is left over)
Complete ==
  Quiescent => \A k \in 1..Len(reqs) : Handled(k) /\ Answered(k)
=============================================================================
