------------------------------ MODULE RpcShapes ------------------------------
(***************************************************************************)
(* The universe of service-method shapes: kind of result x number of       *)
(* arguments x number of declared exceptions.  TLC enumerates it; every    *)
(* shape becomes one method of the program universe (lib/c08_model.py      *)
(* assigns concrete types and names by rotation through its pools).        *)
(***************************************************************************)
EXTENDS Naturals, Sequences, TLC, Json

CONSTANTS MaxArgs, MaxThrows

RetKinds == {"void", "oneway", "scalar", "struct", "container"}
Shapes == {[ret |-> r, na |-> a, nt |-> t] : r \in RetKinds, a \in 0..MaxArgs, t \in 0..MaxThrows}

VARIABLE x
Init == x \in {s \in Shapes : s.ret = "oneway" => s.nt = 0}
Next == UNCHANGED x
Emit == PrintT("CASE " \o ToJson(x))
=============================================================================
