--------------------------------- MODULE Rpc ---------------------------------
(***************************************************************************)
(* C08 -- a call made through the generated client against the generated   *)
(* processor, as an abstract machine (layer A).                            *)
(*                                                                         *)
(* Two processes, Client and Server, joined by two FIFO channels of        *)
(* messages; a message is a header <name, type, seq> followed by the       *)
(* tokens of one struct (spec/Wire/Wire.tla: the synthesised m_args and    *)
(* m_result are ordinary struct-likes of the schema).  The client is       *)
(* synchronous: it waits for the reply of a call before the next call,     *)
(* except that a oneway call returns at once -- the server may lag behind  *)
(* by any number of oneway requests.                                       *)
(*                                                                         *)
(* Data (plain definitions, read once):                                    *)
(*   Schema   (Wire.tla)  struct-likes incl. "<Svc>.<m>_args/_result"      *)
(*   Services == << [name, base |-> index | 0,                             *)
(*                   methods |-> << [name, oneway, void, args |-> struct,  *)
(*                      result |-> struct | 0, ret |-> TYPE | [none],      *)
(*                      throws |-> << [id, name, s |-> exception struct] >>*)
(*                   ] >> ] >>                                             *)
(* A method reference is <<service index, method index>> (the service that *)
(* defines it).  The dispatch table of a service is its own methods and    *)
(* those of every service it extends, transitively, in whatever file.      *)
(***************************************************************************)
EXTENDS Wire

Services == JsonDeserialize("services.json")

CALL == 1   REPLY == 2   EXCEPTION == 3   ONEWAY == 4
UNKNOWN_METHOD == 1   WRONG_METHOD_NAME == 3   BAD_SEQUENCE_ID == 4   INVALID_MESSAGE_TYPE == 2
INTERNAL_ERROR == 6   PROTOCOL_ERROR == 7

RECURSIVE Chain(_)
Chain(s) == IF s = 0 THEN <<>> ELSE <<s>> \o Chain(Services[s].base)
Table(s) == UNION {{<<Chain(s)[j], i>> : i \in 1..Len(Services[Chain(s)[j]].methods)} : j \in 1..Len(Chain(s))}
Meth(r) == Services[r[1]].methods[r[2]]
Lookup(s, name) == {r \in Table(s) : Meth(r).name = name}
STy(s) == [n |-> "struct", s |-> s]

(***************************************************************************)
(* Value normal forms.  CAbs: order-free image in which a nil container or *)
(* binary is the empty one (Go cannot tell them apart on the wire); used   *)
(* for every equality between a value on one side of the connection and    *)
(* what arrives on the other.                                              *)
(***************************************************************************)
RECURSIVE CAbs(_, _)
CAbs(t, v) ==
  CASE t.n = "list" -> IF IsNil(v) THEN [l |-> <<>>] ELSE [l |-> [i \in 1..Len(v.l) |-> CAbs(t.v, v.l[i])]]
    [] t.n = "set" -> IF IsNil(v) THEN [x |-> {}, n |-> 0] ELSE [x |-> {CAbs(t.v, v.l[i]) : i \in 1..Len(v.l)}, n |-> Len(v.l)]
    [] t.n = "map" -> IF IsNil(v) THEN [m |-> {}, n |-> 0]
                      ELSE [m |-> {<<CAbs(t.k, v.m[i][1]), CAbs(t.v, v.m[i][2])>> : i \in 1..Len(v.m)}, n |-> Len(v.m)]
    [] t.n = "struct" -> IF IsNil(v) THEN v
                         ELSE [s |-> [i \in FieldIdx(t.s) |-> CAbs(Fields(t.s)[i].type, v.s[Fields(t.s)[i].name])]]
    [] t.n = "binary" -> IF IsNil(v) THEN [a |-> "bin:"] ELSE v
    [] OTHER -> v

\* what a reader reconstructs from the encoding of v written under a field of the given optionality
Arrives(t, v, opt) == CAbs(t, Norm(t, v, opt))

TreeOf(toks) == LET st == ParseTokens(toks) IN IF IsDone(st) THEN st[1].tree ELSE [bad |-> TRUE]

(***************************************************************************)
(* Handler outcomes and caller-visible results.                            *)
(*   outcome  [k |-> "val", v]  [k |-> "void"]                             *)
(*            [k |-> "exc", i |-> index into throws, v |-> exception]      *)
(*              (optionally also |-> a result returned with it: ignored)   *)
(*            [k |-> "other"]  any error that is not a declared exception  *)
(*            [k |-> "unknown"] no handler ran: the method name is unknown *)
(*   result   [k |-> "val", v] [k |-> "void"] [k |-> "exc", i, v]          *)
(*            [k |-> "app", ty] [k |-> "none"] (oneway: nothing to see)    *)
(***************************************************************************)
OutcomeOK(m, o) ==
  CASE o.k = "val" -> ~m.void
    [] o.k = "void" -> m.void
    [] o.k = "exc" -> o.i \in 1..Len(m.throws)
    [] o.k = "other" -> TRUE
    [] OTHER -> FALSE

\* the m_result value the server has to send for an outcome
ResultValue(m, o) ==
  [s |-> [nm \in {Fields(m.result)[i].name : i \in FieldIdx(m.result)} |->
            IF o.k = "val" /\ nm = "success" /\ ~m.void THEN o.v
            ELSE IF o.k = "exc" /\ nm = m.throws[o.i].name THEN o.v
            ELSE NIL]]

AppExcTree(tr) ==   \* the encoding of an application exception: message (1, string, optional) and type (2, i32)
  /\ "s" \in DOMAIN tr
  /\ \E f \in tr.s : f.id = 2 /\ f.ty = 8
  /\ \A f \in tr.s : (f.id = 1 /\ f.ty = 11) \/ (f.id = 2 /\ f.ty = 8)
AppExcType(tr) == LET f == CHOOSE f \in tr.s : f.id = 2 IN f.val.a

AppExcToks(ty) == <<[t |-> "SB"], [t |-> "FB", ty |-> 11, id |-> 1], [t |-> "V", ty |-> 11, a |-> "str:?"], [t |-> "FE"],
                    [t |-> "FB", ty |-> 8, id |-> 2], [t |-> "V", ty |-> 8, a |-> "i32:" \o ToString(ty)], [t |-> "FE"],
                    [t |-> "STOP"], [t |-> "SE"]>>

\* what the caller of request c sees when message msg is the next one on the reply channel
ResultOf(c, msg) ==
  IF msg.name # c.name THEN [k |-> "app", ty |-> "i32:3"]
  ELSE IF msg.seq # c.seq THEN [k |-> "app", ty |-> "i32:4"]
  ELSE IF msg.mt = EXCEPTION THEN
       (IF AppExcTree(TreeOf(msg.toks)) THEN [k |-> "app", ty |-> AppExcType(TreeOf(msg.toks))] ELSE [k |-> "garbled"])
  ELSE IF msg.mt # REPLY THEN [k |-> "app", ty |-> "i32:2"]
  ELSE IF c.kind = "raw" THEN [k |-> "rawreply"]
  ELSE LET m == Meth(c.r)
           d == DecStruct(m.result, msg.toks)
           set == {i \in 1..Len(m.throws) : ~IsNil(d.v.s[m.throws[i].name])} IN
       IF d.err THEN [k |-> "garbled"]
       ELSE IF set # {} THEN LET i == CHOOSE i \in set : \A j \in set : i <= j IN
                             [k |-> "exc", i |-> i, v |-> d.v.s[m.throws[i].name]]
       ELSE IF m.void THEN [k |-> "void"]
       ELSE [k |-> "val", v |-> d.v.s["success"]]

-----------------------------------------------------------------------------
VARIABLES
  svc,      \* the service whose generated Client / Processor sit on the connection (0: not chosen yet)
  seq,      \* the client's sequence counter
  c2s, s2c, \* FIFO channels: sequences of [name, mt, seq, toks]
  cli,      \* [st |-> "idle"] | [st |-> "wait", k |-> request index]
  srv,      \* [st |-> "idle"] | [st |-> "hdr"|"unk"|"args"|"argerr"|"done", k, msg, ...]
  reqs,     \* history: one record per request put on the connection
  nread,    \* history: number of requests the server has taken off the connection
  replies   \* history: <<seq>> of every message ever written to the reply channel, in order

vars == <<svc, seq, c2s, s2c, cli, srv, reqs, nread, replies>>

Idle == [st |-> "idle"]

Init == /\ svc = 0 /\ seq = 0 /\ c2s = <<>> /\ s2c = <<>> /\ cli = Idle /\ srv = Idle
        /\ reqs = <<>> /\ nread = 0 /\ replies = <<>>

Pick(s) == /\ svc = 0 /\ svc' = s
           /\ UNCHANGED <<seq, c2s, s2c, cli, srv, reqs, nread, replies>>

\* requests sent before the server has looked at an earlier one make that earlier one "lagging"
MarkLag(rs) == [j \in 1..Len(rs) |-> IF j > nread THEN [rs[j] EXCEPT !.lag = TRUE] ELSE rs[j]]

(* The client calls method r with argument values a; toks is the encoding it writes. *)
SendCall(r, a, mt, toks) ==
  /\ svc # 0 /\ cli = Idle
  /\ r \in Table(svc)
  /\ mt \in (IF Meth(r).oneway THEN {CALL, ONEWAY} ELSE {CALL})
  /\ Writable(STy(Meth(r).args), a) = TRUE   \* (= TRUE: evaluate as an expression, not as an action-level disjunction)
  /\ TreeOf(toks) = StructTree(Meth(r).args, a)
  /\ seq' = seq + 1
  /\ c2s' = Append(c2s, [name |-> Meth(r).name, mt |-> mt, seq |-> seq + 1, toks |-> toks])
  /\ reqs' = Append(MarkLag(reqs), [kind |-> "call", r |-> r, name |-> Meth(r).name, seq |-> seq + 1, a |-> a,
                                    oneway |-> Meth(r).oneway, lag |-> FALSE,
                                    seen |-> NONE, out |-> NONE, res |-> IF Meth(r).oneway THEN [k |-> "none"] ELSE NONE])
  /\ cli' = IF Meth(r).oneway THEN Idle ELSE [st |-> "wait", k |-> Len(reqs) + 1]
  /\ UNCHANGED <<svc, s2c, srv, nread, replies>>

(* A request is put on the connection as raw bytes, not by the generated client: an unknown method name, or a   *)
(* known one with the argument struct encoded in another way than the generated client does.                  *)
InjectRaw(name, s, toks) ==
  /\ svc # 0 /\ cli = Idle
  /\ IsDone(ParseTokens(toks)) = TRUE
  /\ LET known == Lookup(svc, name) # {}
         r == IF known THEN CHOOSE r \in Lookup(svc, name) : TRUE ELSE <<0, 0>>
         ow == IF known THEN Meth(r).oneway ELSE FALSE IN
     /\ c2s' = Append(c2s, [name |-> name, mt |-> CALL, seq |-> s, toks |-> toks])
     /\ reqs' = Append(MarkLag(reqs), [kind |-> "raw", r |-> r, name |-> name, seq |-> s, a |-> NONE, oneway |-> ow,
                                       lag |-> FALSE, seen |-> NONE, out |-> NONE,
                                       res |-> IF ow THEN [k |-> "none"] ELSE NONE, body |-> toks])
     /\ cli' = IF ow THEN Idle ELSE [st |-> "wait", k |-> Len(reqs) + 1]
  /\ UNCHANGED <<svc, seq, s2c, srv, nread, replies>>

SrvReadHeader ==
  /\ srv = Idle /\ c2s # <<>>
  /\ srv' = [st |-> "hdr", k |-> nread + 1, msg |-> Head(c2s)]
  /\ c2s' = Tail(c2s)
  /\ nread' = nread + 1
  /\ UNCHANGED <<svc, seq, s2c, cli, reqs, replies>>

(* unknown name: the struct is skipped ... *)
SrvSkipUnknown ==
  /\ srv.st = "hdr" /\ Lookup(svc, srv.msg.name) = {}
  /\ srv' = [srv EXCEPT !.st = "unk"]
  /\ reqs' = [reqs EXCEPT ![srv.k].out = [k |-> "unknown"]]
  /\ UNCHANGED <<svc, seq, c2s, s2c, cli, nread, replies>>

(* ... and an application exception goes back under the same name and sequence id *)
SrvUnknownMethod(toks) ==
  /\ srv.st = "unk"
  /\ AppExcTree(TreeOf(toks)) = TRUE
  /\ s2c' = Append(s2c, [name |-> srv.msg.name, mt |-> EXCEPTION, seq |-> srv.msg.seq, toks |-> toks])
  /\ replies' = Append(replies, srv.msg.seq)
  /\ srv' = Idle
  /\ UNCHANGED <<svc, seq, c2s, cli, reqs, nread>>

(* known name, own or inherited: the args struct is read *)
SrvReadArgs ==
  /\ srv.st = "hdr" /\ Lookup(svc, srv.msg.name) # {}
  /\ LET r == CHOOSE r \in Lookup(svc, srv.msg.name) : TRUE
         d == DecStruct(Meth(r).args, srv.msg.toks) IN
     /\ ~d.err
     /\ srv' = [st |-> "args", k |-> srv.k, msg |-> srv.msg, r |-> r, args |-> d.v]
  /\ UNCHANGED <<svc, seq, c2s, s2c, cli, reqs, nread, replies>>

(* ... or cannot be read (a required argument is missing): the handler does not run *)
SrvArgsError ==
  /\ srv.st = "hdr" /\ Lookup(svc, srv.msg.name) # {}
  /\ LET r == CHOOSE r \in Lookup(svc, srv.msg.name) : TRUE IN
     /\ DecStruct(Meth(r).args, srv.msg.toks).err
     /\ srv' = [st |-> "argerr", k |-> srv.k, msg |-> srv.msg, r |-> r]
  /\ reqs' = [reqs EXCEPT ![srv.k].out = [k |-> "argerr"]]
  /\ UNCHANGED <<svc, seq, c2s, s2c, cli, nread, replies>>

(* and the caller is told so with an application exception -- unless the method is oneway *)
SrvProtocolError(toks) ==
  /\ srv.st = "argerr" /\ ~Meth(srv.r).oneway
  /\ AppExcTree(TreeOf(toks)) = TRUE
  /\ s2c' = Append(s2c, [name |-> srv.msg.name, mt |-> EXCEPTION, seq |-> srv.msg.seq, toks |-> toks])
  /\ replies' = Append(replies, srv.msg.seq)
  /\ srv' = Idle
  /\ UNCHANGED <<svc, seq, c2s, cli, reqs, nread>>

SrvArgsErrorSilent ==
  /\ srv.st = "argerr" /\ Meth(srv.r).oneway
  /\ srv' = Idle
  /\ UNCHANGED <<svc, seq, c2s, s2c, cli, reqs, nread, replies>>

(* the handler runs: it sees the arguments and answers with outcome o *)
SrvInvoke(o) ==
  /\ srv.st = "args"
  /\ OutcomeOK(Meth(srv.r), o) = TRUE
  /\ srv' = [st |-> "done", k |-> srv.k, msg |-> srv.msg, r |-> srv.r, out |-> o]
  /\ reqs' = [reqs EXCEPT ![srv.k].seen = srv.args, ![srv.k].out = o]
  /\ UNCHANGED <<svc, seq, c2s, s2c, cli, nread, replies>>

(* normal return or declared exception: REPLY with m_result *)
SrvReply(toks) ==
  /\ srv.st = "done" /\ ~Meth(srv.r).oneway /\ srv.out.k \in {"val", "void", "exc"}
  /\ TreeOf(toks) = StructTree(Meth(srv.r).result, ResultValue(Meth(srv.r), srv.out))
  /\ s2c' = Append(s2c, [name |-> srv.msg.name, mt |-> REPLY, seq |-> srv.msg.seq, toks |-> toks])
  /\ replies' = Append(replies, srv.msg.seq)
  /\ srv' = Idle
  /\ UNCHANGED <<svc, seq, c2s, cli, reqs, nread>>

(* any other handler error: EXCEPTION with an application exception *)
SrvAppException(toks) ==
  /\ srv.st = "done" /\ ~Meth(srv.r).oneway /\ srv.out.k = "other"
  /\ AppExcTree(TreeOf(toks)) = TRUE
  /\ s2c' = Append(s2c, [name |-> srv.msg.name, mt |-> EXCEPTION, seq |-> srv.msg.seq, toks |-> toks])
  /\ replies' = Append(replies, srv.msg.seq)
  /\ srv' = Idle
  /\ UNCHANGED <<svc, seq, c2s, cli, reqs, nread>>

(* oneway: whatever the handler did, NOTHING is written *)
SrvOnewayDone ==
  /\ srv.st = "done" /\ Meth(srv.r).oneway
  /\ srv' = Idle
  /\ UNCHANGED <<svc, seq, c2s, s2c, cli, reqs, nread, replies>>

CliRecv ==
  /\ cli.st = "wait" /\ s2c # <<>>
  /\ reqs' = [reqs EXCEPT ![cli.k].res = ResultOf(reqs[cli.k], Head(s2c))]
  /\ s2c' = Tail(s2c)
  /\ cli' = Idle
  /\ UNCHANGED <<svc, seq, c2s, srv, nread, replies>>

Quiescent == svc # 0 /\ cli = Idle /\ srv = Idle /\ c2s = <<>> /\ s2c = <<>>

-----------------------------------------------------------------------------
(* The property, as invariants over the history. *)
Handled(k) == ~IsNone(reqs[k].out)
Answered(k) == ~IsNone(reqs[k].res)
ArgType(r) == STy(Meth(r).args)

\* the handler sees argument values equal to those passed
ArgsDelivered ==
  \A k \in 1..Len(reqs) : (reqs[k].kind = "call" /\ Handled(k)) =>
     CAbs(ArgType(reqs[k].r), reqs[k].seen) = Arrives(ArgType(reqs[k].r), reqs[k].a, FALSE)

\* the caller sees the handler's result / the same exception with equal fields / an application exception
ResultDelivered ==
  \A k \in 1..Len(reqs) : (Answered(k) /\ ~reqs[k].oneway) =>
     LET c == reqs[k]  o == c.out  res == c.res IN
     /\ Handled(k)
     /\ IF c.kind = "raw"
        THEN CASE o.k \in {"unknown", "argerr", "other"} -> res.k = "app"
               [] o.k \in {"val", "void", "exc"} -> res.k = "rawreply"
               [] OTHER -> FALSE
        ELSE LET m == Meth(c.r) IN
          CASE o.k = "val" -> res.k = "val" /\ CAbs(m.ret, res.v) = Arrives(m.ret, o.v, TRUE)
            [] o.k = "void" -> res.k = "void"
            [] o.k = "exc" -> /\ res.k = "exc" /\ res.i = o.i
                              /\ CAbs(STy(m.throws[o.i].s), res.v) = Arrives(STy(m.throws[o.i].s), o.v, TRUE)
            [] o.k = "other" -> res.k = "app"
            [] OTHER -> FALSE

\* replies carry the sequence id of their call and arrive in call order; nothing is written for a oneway call
ExpectedReplies == SelectSeq([k \in 1..Len(reqs) |-> IF reqs[k].oneway THEN -1 ELSE reqs[k].seq], LAMBDA x : x # -1)
IsPrefix(a, b) == Len(a) <= Len(b) /\ a = SubSeq(b, 1, Len(a))
RepliesInOrder == IsPrefix(replies, ExpectedReplies)
OnewaySilent == Len(replies) <= Cardinality({k \in 1..nread : ~reqs[k].oneway})

\* a name in the dispatch table (own or inherited, from whatever file) reaches its handler; other names never do
Dispatch ==
  \A k \in 1..Len(reqs) : Handled(k) =>
     (reqs[k].out.k = "unknown") = (Lookup(svc, reqs[k].name) = {})

AllInv == ArgsDelivered /\ ResultDelivered /\ RepliesInOrder /\ OnewaySilent /\ Dispatch
=============================================================================
