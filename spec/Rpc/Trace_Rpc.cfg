SPECIFICATION TSpec
INVARIANTS Accepted ArgsDelivered ResultDelivered RepliesInOrder OnewaySilent Dispatch
CHECK_DEADLOCK FALSE
