------------------------------ MODULE Trace_Rpc ------------------------------
(***************************************************************************)
(* Trace validation of a recorded connection: generated Client <-> bytes   *)
(* in memory <-> generated Processor, recording protocols on all four      *)
(* protocol ends, a handler that logs what it sees and plays a scripted    *)
(* outcome.  Each line of traces.ndjson is one connection:                 *)
(*   [svc |-> service index, ev |-> << events >>]                          *)
(* and every event is one step of the Rpc machine:                         *)
(*   cw   the client wrote a message   [r, a, hdr, body, end]   SendCall   *)
(*   raw  raw bytes were injected      [hdr, body]              InjectRaw  *)
(*   srh  the server read a header     [hdr]                SrvReadHeader  *)
(*   sra  ... and the struct after it  [body, end]  SrvReadArgs/SkipUnknown*)
(*                                                         / SrvArgsError  *)
(*   h    the handler was entered      [r, seen, out]           SrvInvoke  *)
(*   sw   the server wrote a message   [hdr, body, end]  SrvReply /        *)
(*                     SrvAppException / UnknownMethod / SrvProtocolError  *)
(*   pe   Process returned              []   SrvOnewayDone (or already idle) *)
(*   ret  the client call returned     [k, none, hdr, body, end, res]      *)
(*                                                    CliRecv (or oneway)  *)
(*   end  the connection is at rest    [c2s, s2c: unread bytes]            *)
(* Written tokens are judged by their order-free tree (field order and map *)
(* order are the unlogged non-determinism), read tokens by the reference   *)
(* reader of Wire.tla.  A oneway call has no `sw` step to take: any token  *)
(* written for it leaves the trace without a matching action.              *)
(***************************************************************************)
EXTENDS Rpc

Traces == ndJsonDeserialize("traces.ndjson")

VARIABLES tr, l
tvars == <<tr, l, vars>>
T == Traces[tr]
Ev == T.ev[l]

TInit == /\ tr \in 1..Len(Traces) /\ l = 1
         /\ svc = Traces[tr].svc /\ seq = 0 /\ c2s = <<>> /\ s2c = <<>> /\ cli = Idle /\ srv = Idle
         /\ reqs = <<>> /\ nread = 0 /\ replies = <<>>

Is(kind) == l <= Len(T.ev) /\ Ev.e = kind
Adv == l' = l + 1 /\ tr' = tr
HdrOf(msg) == [t |-> "MSG", name |-> msg.name, mt |-> msg.mt, seq |-> msg.seq]
SameHdr(h, msg) == h.t = "MSG" /\ h.name = msg.name /\ h.mt = msg.mt /\ h.seq = msg.seq

ECw == /\ Is("cw") /\ Adv
       /\ Ev.hdr.t = "MSG" /\ Ev.end
       /\ LET r == <<Ev.r[1], Ev.r[2]>> IN
          /\ r \in Table(svc)
          /\ Ev.hdr.name = Meth(r).name          \* the method name as written in the IDL
          /\ Ev.hdr.seq = seq + 1
          /\ SendCall(r, Ev.a, Ev.hdr.mt, Ev.body)

ERaw == /\ Is("raw") /\ Adv
        /\ Ev.hdr.t = "MSG" /\ Ev.hdr.mt = CALL
        /\ InjectRaw(Ev.hdr.name, Ev.hdr.seq, Ev.body)

ESrh == /\ Is("srh") /\ Adv
        /\ c2s # <<>> /\ SameHdr(Ev.hdr, Head(c2s))
        /\ SrvReadHeader

ESra == /\ Is("sra") /\ Adv
        /\ Ev.end
        /\ \/ /\ SrvSkipUnknown
              /\ Ev.body = <<[t |-> "SKIP", ty |-> 12]>>
           \/ /\ SrvReadArgs
              \* known fields are read, anything else is passed over by one Skip -- or read through token by token
              /\ \/ Ev.body = DecStruct(Meth(srv'.r).args, srv.msg.toks).c
                 \/ Ev.body = srv.msg.toks
           \/ /\ SrvArgsError
              /\ \/ Ev.body = DecStruct(Meth(srv'.r).args, srv.msg.toks).c
                 \/ Ev.body = srv.msg.toks

EH == /\ Is("h") /\ Adv
      /\ srv.st = "args"
      /\ <<Ev.r[1], Ev.r[2]>> = srv.r             \* the handler method of exactly the named method ran
      /\ CAbs(ArgType(srv.r), Ev.seen) = CAbs(ArgType(srv.r), srv.args)
      /\ SrvInvoke(Ev.out)

ESw == /\ Is("sw") /\ Adv
       /\ Ev.hdr.t = "MSG" /\ Ev.end
       /\ srv.st \in {"unk", "done", "argerr"}
       /\ Ev.hdr.name = srv.msg.name /\ Ev.hdr.seq = srv.msg.seq
       /\ \/ Ev.hdr.mt = REPLY /\ SrvReply(Ev.body)
          \/ Ev.hdr.mt = EXCEPTION /\ (SrvAppException(Ev.body) \/ SrvUnknownMethod(Ev.body) \/ SrvProtocolError(Ev.body))

EPe == /\ Is("pe") /\ Adv
       /\ IF srv.st = "done" /\ Meth(srv.r).oneway THEN SrvOnewayDone
          ELSE IF srv.st = "argerr" /\ Meth(srv.r).oneway THEN SrvArgsErrorSilent
          ELSE srv = Idle /\ UNCHANGED vars

ResMatches(c, obs, exp) ==
  CASE exp.k = "val" -> obs.k = "val" /\ CAbs(Meth(c.r).ret, obs.v) = CAbs(Meth(c.r).ret, exp.v)
    [] exp.k = "void" -> obs.k = "void"
    [] exp.k = "exc" -> /\ obs.k = "exc" /\ obs.i = exp.i
                        /\ LET t == STy(Meth(c.r).throws[exp.i].s) IN CAbs(t, obs.v) = CAbs(t, exp.v)
    [] exp.k = "app" -> obs.k = "app" /\ "i32:" \o ToString(obs.ty) = exp.ty
    [] exp.k = "rawreply" -> obs.k = "rawreply"
    [] OTHER -> FALSE

ERet == /\ Is("ret") /\ Adv
        /\ Ev.k \in 1..Len(reqs)
        /\ IF reqs[Ev.k].oneway
           THEN /\ Ev.none /\ Ev.res.k = "none"
                /\ UNCHANGED vars
           ELSE /\ cli = [st |-> "wait", k |-> Ev.k]
                /\ ~Ev.none /\ Ev.end
                /\ s2c # <<>> /\ SameHdr(Ev.hdr, Head(s2c))
                /\ CliRecv
                /\ LET c == reqs[Ev.k]  msg == Head(s2c) IN
                   /\ (c.kind = "call" /\ msg.mt = REPLY) => Ev.body = DecStruct(Meth(c.r).result, msg.toks).c
                   /\ ResMatches(c, Ev.res, reqs'[Ev.k].res)

EEnd == /\ Is("end") /\ Adv
        /\ Quiescent /\ Ev.c2s = 0 /\ Ev.s2c = 0
        /\ \A k \in 1..Len(reqs) : Handled(k) /\ Answered(k)
        /\ UNCHANGED vars

TNext == ECw \/ ERaw \/ ESrh \/ ESra \/ EH \/ ESw \/ EPe \/ ERet \/ EEnd
TSpec == TInit /\ [][TNext]_tvars

AtEnd == l = Len(T.ev) + 1
Accepted == (AtEnd /\ Len(T.ev) > 0 /\ T.ev[Len(T.ev)].e = "end") => PrintT("ACC " \o ToString(tr))
Progress == PrintT("AT " \o ToString(tr) \o " " \o ToString(l))
=============================================================================
