SPECIFICATION TSpec
INVARIANTS Accepted Progress
CHECK_DEADLOCK FALSE
