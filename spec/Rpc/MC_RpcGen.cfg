INIT GInit
NEXT GNext
INVARIANTS ArgsDelivered ResultDelivered RepliesInOrder OnewaySilent Dispatch Complete Emit
CHECK_DEADLOCK FALSE
