INIT Init
NEXT Next
CONSTANTS
  MaxArgs = 3
  MaxThrows = 2
INVARIANT Emit
CHECK_DEADLOCK FALSE
